package main

// Process and network plumbing of the lag orchestrator (C17, lag stage): real robustirc
// binaries (built with -tags verif from the tree under test) on loopback, three nodes,
// restartable, each with its own gate directory (VERIF_GATE_DIR of /repo/verif_trace.go)
// and one hook trace file per incarnation. Adapted from harness/expiry and
// harness/cluster; this copy is independent of both.

import (
	"bufio"
	"context"
	"crypto/rand"
	"crypto/rsa"
	"crypto/tls"
	"crypto/x509"
	"crypto/x509/pkix"
	"encoding/json"
	"encoding/pem"
	"fmt"
	"html"
	"io"
	"math/big"
	"net"
	"net/http"
	"os"
	"os/exec"
	"path/filepath"
	"regexp"
	"runtime"
	"strconv"
	"strings"
	"sync"
	"syscall"
	"time"
)

const networkPassword = "verif-c17-lag-secret"

// Inconclusive is the error class for every machinery problem: never a violation.
type Inconclusive struct{ why string }

func (e *Inconclusive) Error() string { return e.why }

func inconclusive(format string, a ...interface{}) error {
	return &Inconclusive{fmt.Sprintf(format, a...)}
}

type Node struct {
	id      int
	port    int
	addr    string
	dir     string
	gateDir string

	mu      sync.Mutex
	cmd     *exec.Cmd
	up      bool
	paused  bool
	started bool
	inc     int
	exited  chan struct{}
}

func (n *Node) live() bool {
	n.mu.Lock()
	defer n.mu.Unlock()
	return n.up && !n.paused
}

func (n *Node) isUp() bool {
	n.mu.Lock()
	defer n.mu.Unlock()
	return n.up
}

func (n *Node) incarnation() int {
	n.mu.Lock()
	defer n.mu.Unlock()
	return n.inc
}

type Net struct {
	bin      string
	work     string
	out      string
	rec      *Rec
	nodes    []*Node
	certPath string
	keyPath  string
	client   *http.Client
	spawn    chan func()

	unexpectedMu    sync.Mutex
	unexpectedExits []string
}

func freePorts(n int) ([]int, error) {
	var ports []int
	var ls []net.Listener
	defer func() {
		for _, l := range ls {
			l.Close()
		}
	}()
	for i := 0; i < n; i++ {
		l, err := net.Listen("tcp", "127.0.0.1:0")
		if err != nil {
			return nil, err
		}
		ls = append(ls, l)
		ports = append(ports, l.Addr().(*net.TCPAddr).Port)
	}
	return ports, nil
}

// generateCert writes a self-signed certificate for "localhost".
func generateCert(dir string) (certPath, keyPath string, err error) {
	priv, err := rsa.GenerateKey(rand.Reader, 2048)
	if err != nil {
		return "", "", err
	}
	serial, err := rand.Int(rand.Reader, new(big.Int).Lsh(big.NewInt(1), 128))
	if err != nil {
		return "", "", err
	}
	template := x509.Certificate{
		SerialNumber:          serial,
		Subject:               pkix.Name{Organization: []string{"verif C17 lag"}},
		DNSNames:              []string{"localhost"},
		IPAddresses:           []net.IP{net.ParseIP("127.0.0.1")},
		NotBefore:             time.Now().Add(-time.Hour),
		NotAfter:              time.Now().Add(365 * 24 * time.Hour),
		KeyUsage:              x509.KeyUsageKeyEncipherment | x509.KeyUsageDigitalSignature | x509.KeyUsageCertSign,
		IsCA:                  true,
		BasicConstraintsValid: true,
	}
	der, err := x509.CreateCertificate(rand.Reader, &template, &template, &priv.PublicKey, priv)
	if err != nil {
		return "", "", err
	}
	certPath = filepath.Join(dir, "cert.pem")
	keyPath = filepath.Join(dir, "key.pem")
	cf, err := os.Create(certPath)
	if err != nil {
		return "", "", err
	}
	pem.Encode(cf, &pem.Block{Type: "CERTIFICATE", Bytes: der})
	cf.Close()
	kf, err := os.OpenFile(keyPath, os.O_WRONLY|os.O_CREATE|os.O_TRUNC, 0600)
	if err != nil {
		return "", "", err
	}
	pem.Encode(kf, &pem.Block{Type: "RSA PRIVATE KEY", Bytes: x509.MarshalPKCS1PrivateKey(priv)})
	kf.Close()
	return certPath, keyPath, nil
}

func NewNet(bin, work, out string, rec *Rec, nnodes int, portBase int) (*Net, error) {
	c := &Net{bin: bin, work: work, out: out, rec: rec, spawn: make(chan func())}
	var err error
	c.certPath, c.keyPath, err = generateCert(work)
	if err != nil {
		return nil, err
	}
	pemBytes, err := os.ReadFile(c.certPath)
	if err != nil {
		return nil, err
	}
	pool := x509.NewCertPool()
	pool.AppendCertsFromPEM(pemBytes)
	c.client = &http.Client{Transport: &http.Transport{
		TLSClientConfig:     &tls.Config{RootCAs: pool},
		MaxIdleConnsPerHost: 8,
		IdleConnTimeout:     20 * time.Second,
		DialContext:         (&net.Dialer{Timeout: 3 * time.Second}).DialContext,
		TLSHandshakeTimeout: 8 * time.Second,
	}}
	var ports []int
	if portBase > 0 {
		for i := 0; i < nnodes; i++ {
			ports = append(ports, portBase+i)
		}
	} else {
		ports, err = freePorts(nnodes)
		if err != nil {
			return nil, err
		}
	}
	for i := 0; i < nnodes; i++ {
		n := &Node{id: i + 1, port: ports[i]}
		n.addr = fmt.Sprintf("localhost:%d", n.port)
		n.dir = filepath.Join(work, fmt.Sprintf("raftdir%d", n.id))
		n.gateDir = filepath.Join(work, fmt.Sprintf("gate%d", n.id))
		if err := os.MkdirAll(n.gateDir, 0755); err != nil {
			return nil, err
		}
		c.nodes = append(c.nodes, n)
	}
	// children are started from one goroutine that owns its OS thread for ever, so that
	// Pdeathsig (tied to the creating thread) only fires when the orchestrator dies
	go func() {
		runtime.LockOSThread()
		for f := range c.spawn {
			f()
		}
	}()
	return c, nil
}

func (c *Net) node(id int) *Node { return c.nodes[id-1] }

func (c *Net) stderrPath(id int) string {
	return filepath.Join(c.out, fmt.Sprintf("node%d.stderr", id))
}

func (c *Net) tracePath(id, inc int) string {
	return filepath.Join(c.out, fmt.Sprintf("node%d.inc%d.hooks.ndjson", id, inc))
}

// Start starts (or restarts) node id. On its first start node 1 gets -singlenode and the
// others -join; a restart finds the peers in the raft directory.
func (c *Net) Start(id int) error {
	n := c.node(id)
	n.mu.Lock()
	if n.up {
		n.mu.Unlock()
		return nil
	}
	n.inc++
	inc := n.inc
	first := !n.started
	n.started = true
	n.mu.Unlock()
	args := []string{
		"-network_name=verif.localhost",
		"-listen=" + n.addr,
		"-peer_addr=" + n.addr,
		"-raftdir=" + n.dir,
		"-tls_cert_path=" + c.certPath,
		"-tls_key_path=" + c.keyPath,
		"-tls_ca_file=" + c.certPath,
		"-disable_timesafeguard",
		"-logtostderr",
	}
	if first {
		if id == 1 {
			args = append(args, "-singlenode")
		} else {
			args = append(args, "-join="+c.node(1).addr)
		}
	}
	env := append(os.Environ(),
		"ROBUSTIRC_NETWORK_PASSWORD="+networkPassword,
		"VERIF_TRACE="+c.tracePath(id, inc),
		"VERIF_GATE_DIR="+n.gateDir,
		"GOMAXPROCS=4")
	if err := os.MkdirAll(n.dir, 0700); err != nil {
		return err
	}
	logf, err := os.OpenFile(c.stderrPath(id), os.O_CREATE|os.O_WRONLY|os.O_APPEND, 0644)
	if err != nil {
		return err
	}
	fmt.Fprintf(logf, "\n===== incarnation %d: %s\n", inc, strings.Join(args, " "))
	cmd := exec.Command(c.bin, args...)
	cmd.Env = env
	cmd.Stdout = logf
	cmd.Stderr = logf
	cmd.SysProcAttr = &syscall.SysProcAttr{Setpgid: true, Pdeathsig: syscall.SIGKILL}
	errc := make(chan error, 1)
	c.spawn <- func() { errc <- cmd.Start() }
	if err := <-errc; err != nil {
		logf.Close()
		return inconclusive("cannot start node %d: %v", id, err)
	}
	c.rec.Raw("start", "n", id, "inc", inc, "pid", cmd.Process.Pid, "addr", n.addr)
	exited := make(chan struct{})
	n.mu.Lock()
	n.cmd = cmd
	n.up = true
	n.paused = false
	n.exited = exited
	n.mu.Unlock()
	go func() {
		err := cmd.Wait()
		logf.Close()
		n.mu.Lock()
		wasUp := n.up && n.inc == inc
		if wasUp {
			n.up = false
			n.paused = false
		}
		n.mu.Unlock()
		if wasUp {
			words := c.lastWords(id)
			c.rec.Raw("exited", "n", id, "inc", inc, "err", fmt.Sprint(err), "why", words)
			c.unexpectedMu.Lock()
			c.unexpectedExits = append(c.unexpectedExits, fmt.Sprintf("node %d incarnation %d: %v: %s", id, inc, err, words))
			c.unexpectedMu.Unlock()
		}
		close(exited)
	}()
	return nil
}

func (c *Net) lastWords(id int) string {
	b, err := os.ReadFile(c.stderrPath(id))
	if err != nil {
		return ""
	}
	if len(b) > 1<<16 {
		b = b[len(b)-(1<<16):]
	}
	text := string(b)
	for _, marker := range []string{"panic:", "fatal error:"} {
		if i := strings.LastIndex(text, marker); i >= 0 {
			lines := strings.Split(text[i:], "\n")
			if len(lines) > 12 {
				lines = lines[:12]
			}
			return strings.Join(lines, " | ")
		}
	}
	lines := strings.Split(strings.TrimSpace(text), "\n")
	if len(lines) > 4 {
		lines = lines[len(lines)-4:]
	}
	return strings.Join(lines, " | ")
}

// Kill sends SIGKILL (also to a stopped process) and waits until the process is gone.
func (c *Net) Kill(id int) {
	n := c.node(id)
	n.mu.Lock()
	if n.cmd == nil || !n.up {
		n.mu.Unlock()
		return
	}
	cmd, exited, inc := n.cmd, n.exited, n.inc
	n.up = false
	n.paused = false
	n.mu.Unlock()
	c.rec.Raw("kill", "n", id, "inc", inc)
	syscall.Kill(-cmd.Process.Pid, syscall.SIGKILL)
	cmd.Process.Kill()
	select {
	case <-exited:
	case <-time.After(20 * time.Second):
	}
}

func (c *Net) Pause(id int) {
	n := c.node(id)
	n.mu.Lock()
	defer n.mu.Unlock()
	if !n.up || n.paused {
		return
	}
	n.paused = true
	pid := n.cmd.Process.Pid
	syscall.Kill(pid, syscall.SIGSTOP)
	// the stop takes effect thread by thread: wait until every thread is stopped, so that
	// nothing the orchestrator does afterwards can still be applied by this node
	end := time.Now().Add(10 * time.Second)
	for !allThreadsStopped(pid) && time.Now().Before(end) {
		time.Sleep(2 * time.Millisecond)
	}
	c.rec.Raw("pause", "n", id, "stopped", allThreadsStopped(pid))
}

// allThreadsStopped reads the state of every task of the process from /proc.
func allThreadsStopped(pid int) bool {
	tasks, err := os.ReadDir(fmt.Sprintf("/proc/%d/task", pid))
	if err != nil || len(tasks) == 0 {
		return false
	}
	for _, t := range tasks {
		b, err := os.ReadFile(fmt.Sprintf("/proc/%d/task/%s/stat", pid, t.Name()))
		if err != nil {
			continue // the thread ended meanwhile
		}
		// pid (comm) S ...: the state follows the last ')'
		text := string(b)
		i := strings.LastIndex(text, ")")
		if i < 0 || i+2 >= len(text) {
			return false
		}
		if st := text[i+2]; st != 'T' && st != 't' {
			return false
		}
	}
	return true
}

func (c *Net) Resume(id int) {
	n := c.node(id)
	n.mu.Lock()
	defer n.mu.Unlock()
	if !n.up || !n.paused {
		return
	}
	n.paused = false
	syscall.Kill(n.cmd.Process.Pid, syscall.SIGCONT)
	c.rec.Raw("resume", "n", id)
}

func (c *Net) Shutdown() {
	for _, n := range c.nodes {
		c.Kill(n.id)
	}
}

// ---------------------------------------------------------------- gates

// Gate parks node id at the hook point the next time it gets there (and every time
// after, while the file exists).
func (c *Net) Gate(id int, point string) error {
	c.rec.Raw("gate", "n", id, "point", point)
	return os.WriteFile(filepath.Join(c.node(id).gateDir, point), nil, 0644)
}

func (c *Net) Ungate(id int, point string) {
	c.rec.Raw("ungate", "n", id, "point", point)
	os.Remove(filepath.Join(c.node(id).gateDir, point))
}

// WaitParked waits until node id is parked at the point and returns the parked event's index.
func (c *Net) WaitParked(id int, point string, deadline time.Duration) (uint64, error) {
	end := time.Now().Add(deadline)
	path := filepath.Join(c.node(id).gateDir, point+".reached")
	for time.Now().Before(end) {
		if b, err := os.ReadFile(path); err == nil {
			var rec struct {
				Index uint64 `json:"index"`
			}
			if json.Unmarshal(b, &rec) == nil {
				return rec.Index, nil
			}
		}
		time.Sleep(10 * time.Millisecond)
	}
	return 0, inconclusive("node %d did not park at %s within %v", id, point, deadline)
}

func (c *Net) Parked(id int, point string) bool {
	_, err := os.Stat(filepath.Join(c.node(id).gateDir, point+".reached"))
	return err == nil
}

// ---------------------------------------------------------------- hook traces

type HookRec struct {
	Point   string      `json:"point"`
	Seq     uint64      `json:"seq"`
	Index   uint64      `json:"index"`
	Type    int64       `json:"type"`
	Session json.Number `json:"session"`
	Cmid    json.Number `json:"cmid"`
	Last    uint64      `json:"last"`
}

func (h *HookRec) session() uint64 {
	v, _ := strconv.ParseUint(h.Session.String(), 10, 64)
	return v
}

func (h *HookRec) cmid() uint64 {
	v, _ := strconv.ParseUint(h.Cmid.String(), 10, 64)
	return v
}

func readHooks(path string) []HookRec {
	f, err := os.Open(path)
	if err != nil {
		return nil
	}
	defer f.Close()
	var res []HookRec
	sc := bufio.NewScanner(f)
	sc.Buffer(make([]byte, 1<<20), 1<<20)
	for sc.Scan() {
		var r HookRec
		dec := json.NewDecoder(strings.NewReader(sc.Text()))
		dec.UseNumber()
		if dec.Decode(&r) != nil {
			continue
		}
		res = append(res, r)
	}
	return res
}

// Applied returns the raft index of the last entry the FSM of node id's CURRENT incarnation
// has applied (hook fsm.apply fires when FSM.Apply returns; a restored snapshot counts with
// its last index), 0 when it has applied nothing.
func (c *Net) Applied(id int) int64 {
	var max uint64
	for _, r := range readHooks(c.tracePath(id, c.node(id).incarnation())) {
		switch r.Point {
		case "fsm.apply":
			if r.Index > max {
				max = r.Index
			}
		case "fsm.restored":
			if r.Last > max {
				max = r.Last
			}
		}
	}
	return int64(max)
}

// MaxApplied is the highest index any incarnation of any node has applied: everything the
// orchestrator got acknowledged is below or at it.
func (c *Net) MaxApplied() int64 {
	var max uint64
	for _, n := range c.nodes {
		for inc := 1; inc <= n.incarnation(); inc++ {
			for _, r := range readHooks(c.tracePath(n.id, inc)) {
				if r.Point == "fsm.apply" && r.Index > max {
					max = r.Index
				}
			}
		}
	}
	return int64(max)
}

// ---------------------------------------------------------------- HTTP helpers

func (c *Net) private(method string, id int, path string, body io.Reader, hdr map[string]string, timeout time.Duration) (int, string, http.Header, error) {
	ctx, cancel := context.WithTimeout(context.Background(), timeout)
	defer cancel()
	req, err := http.NewRequestWithContext(ctx, method, "https://"+c.node(id).addr+path, body)
	if err != nil {
		return 0, "", nil, err
	}
	req.SetBasicAuth("robustirc", networkPassword)
	for k, v := range hdr {
		req.Header.Set(k, v)
	}
	resp, err := c.client.Do(req)
	if err != nil {
		return 0, "", nil, err
	}
	defer resp.Body.Close()
	b, _ := io.ReadAll(io.LimitReader(resp.Body, 4<<20))
	return resp.StatusCode, string(b), resp.Header, nil
}

type NodeStatus struct {
	State        string
	Leader       string
	Peers        []string
	AppliedIndex uint64
	CommitIndex  uint64
}

// Status reads the machine-readable /status (raftNode.State(), raftNode.Leader(), ...).
func (c *Net) Status(id int, timeout time.Duration) (*NodeStatus, error) {
	code, body, _, err := c.private("GET", id, "/status", nil, map[string]string{"Accept": "application/json"}, timeout)
	if err != nil {
		return nil, err
	}
	if code != 200 {
		return nil, fmt.Errorf("HTTP %d: %s", code, strings.TrimSpace(body))
	}
	var st NodeStatus
	if err := json.Unmarshal([]byte(body), &st); err != nil {
		return nil, err
	}
	return &st, nil
}

func (c *Net) nodeByAddr(addr string) int {
	for _, n := range c.nodes {
		if n.addr == addr {
			return n.id
		}
	}
	return 0
}

// Leader returns a live node that says it is the leader (0: none).
func (c *Net) Leader() int {
	for _, n := range c.nodes {
		if !n.live() {
			continue
		}
		if st, err := c.Status(n.id, 2*time.Second); err == nil && st.State == "Leader" {
			return n.id
		}
	}
	return 0
}

func (c *Net) WaitLeader(deadline time.Duration) (int, error) {
	end := time.Now().Add(deadline)
	for time.Now().Before(end) {
		if l := c.Leader(); l != 0 {
			return l, nil
		}
		time.Sleep(100 * time.Millisecond)
	}
	return 0, inconclusive("no leader within %v", deadline)
}

func (c *Net) WaitServing(id int, deadline time.Duration) error {
	end := time.Now().Add(deadline)
	for time.Now().Before(end) {
		if !c.node(id).isUp() {
			return inconclusive("node %d exited while starting: %s", id, c.lastWords(id))
		}
		if _, err := c.Status(id, 2*time.Second); err == nil {
			return nil
		}
		time.Sleep(50 * time.Millisecond)
	}
	return inconclusive("node %d did not come up within %v", id, deadline)
}

// WaitState waits until node id reports one of the given raft states.
func (c *Net) WaitState(id int, deadline time.Duration, states ...string) (*NodeStatus, error) {
	end := time.Now().Add(deadline)
	last := "unreachable"
	for time.Now().Before(end) {
		if st, err := c.Status(id, 2*time.Second); err == nil {
			last = st.State
			for _, s := range states {
				if st.State == s {
					return st, nil
				}
			}
		}
		time.Sleep(50 * time.Millisecond)
	}
	return nil, inconclusive("node %d did not reach raft state %v within %v (last seen: %s)", id, states, deadline, last)
}

var (
	preRe = regexp.MustCompile(`(?s)<pre>(.*?)</pre>`)
	lpRe  = regexp.MustCompile(`(?s)last_processed:\s*<\s*(?:id:\s*(\d+))?`)
)

// LastProcessed reads IRCServer.lastProcessed of node id from /status/state (the text
// form of IRCServer.Marshal()) as a raft index; 0 when it is still the zero id.
func (c *Net) LastProcessed(id int) (int64, error) {
	code, body, _, err := c.private("GET", id, "/status/state", nil, nil, 8*time.Second)
	if err != nil {
		return 0, err
	}
	if code != 200 {
		return 0, fmt.Errorf("HTTP %d", code)
	}
	m := preRe.FindStringSubmatch(body)
	if m == nil {
		return 0, fmt.Errorf("no <pre> in /status/state")
	}
	text := html.UnescapeString(m[1])
	lm := lpRe.FindStringSubmatch(text)
	if lm == nil {
		if strings.Contains(text, "last_processed") {
			return 0, fmt.Errorf("last_processed not understood")
		}
		return 0, nil
	}
	if lm[1] == "" {
		return 0, nil
	}
	v, err := strconv.ParseUint(lm[1], 10, 64)
	if err != nil {
		return 0, err
	}
	if v < messageOffset {
		return int64(v), nil
	}
	return int64(v - messageOffset), nil
}
