// verif-lag runs one scenario of the lag stage of C17 against real robustirc binaries
// (three nodes on loopback): one node is held back deterministically - its FSM parked at the
// hook point fsm.apply (VERIF_GATE_DIR), or the whole process frozen with SIGSTOP - while a
// session is created and used on the leader; then the held-back node is asked about the
// session on the three routes (POST message, DELETE, GET messages) with the correct secret,
// as Follower with a live leader, as Candidate after the others were killed, as Follower
// without a leader after a restart, as newly elected Leader, and after catching up.
// It records what the node answered and what it said about itself (raft state, leader,
// applied index, lastProcessed) and judges nothing: /verif/checks/c17_lag.py validates the
// record against spec/LagTrace.tla.
//
// Built inside the tree under test as an overlay package (cmd/zz_verif_lag); standard
// library only.
package main

import (
	"encoding/json"
	"flag"
	"fmt"
	"math/rand"
	"os"
	"os/signal"
	"path/filepath"
	"syscall"
	"time"
)

type Result struct {
	Status          string                 `json:"status"` // ok | inconclusive
	Why             string                 `json:"why,omitempty"`
	Scenario        string                 `json:"scenario"`
	Leader          int                    `json:"leader"`
	Held            int                    `json:"held"`
	Other           int                    `json:"other"`
	Notes           []string               `json:"notes,omitempty"`
	UnexpectedExits []string               `json:"unexpected_exits,omitempty"`
	WallS           float64                `json:"wall_s"`
	Ports           []int                  `json:"ports"`
	Info            map[string]interface{} `json:"info,omitempty"`
	Sessions        map[string]int64       `json:"sessions,omitempty"`
}

func main() {
	bin := flag.String("bin", "", "robustirc binary built with -tags verif")
	work := flag.String("work", "", "scratch directory (raftdirs, certificates, gates)")
	out := flag.String("out", "", "directory for trace.ndjson, result.json, node logs, hook traces")
	scen := flag.String("scenario", "gate", "gate | stop | newleader")
	seed := flag.Int64("seed", 1, "seed")
	deadline := flag.Int("deadline", 400, "overall deadline in seconds")
	portBase := flag.Int("portbase", 0, "first TCP port (0: ports the kernel hands out)")
	flag.Parse()
	if *bin == "" || *work == "" || *out == "" {
		flag.Usage()
		os.Exit(2)
	}
	start := time.Now()
	res := Result{Status: "ok", Scenario: *scen}
	writeResult := func() {
		res.WallS = time.Since(start).Seconds()
		b, _ := json.MarshalIndent(res, "", " ")
		os.WriteFile(filepath.Join(*out, "result.json"), b, 0644)
	}
	fail := func(err error) {
		res.Status = "inconclusive"
		res.Why = err.Error()
	}
	switch *scen {
	case "gate", "stop", "newleader":
	default:
		fmt.Fprintln(os.Stderr, "unknown scenario", *scen)
		os.Exit(2)
	}
	os.MkdirAll(*work, 0755)
	os.MkdirAll(*out, 0755)
	rec, err := NewRec(filepath.Join(*out, "orch.ndjson"))
	if err != nil {
		fmt.Fprintln(os.Stderr, err)
		os.Exit(2)
	}
	c, err := NewNet(*bin, *work, *out, rec, 3, *portBase)
	if err != nil {
		fmt.Fprintln(os.Stderr, err)
		os.Exit(2)
	}
	for _, n := range c.nodes {
		res.Ports = append(res.Ports, n.port)
	}
	sc := &Scenario{c: c, name: *scen, rng: rand.New(rand.NewSource(*seed)), quits: map[[2]uint64]bool{}}

	finished := make(chan struct{})
	sig := make(chan os.Signal, 1)
	signal.Notify(sig, syscall.SIGINT, syscall.SIGTERM)
	go func() {
		select {
		case <-sig:
			fail(inconclusive("interrupted"))
		case <-time.After(time.Duration(*deadline) * time.Second):
			fail(inconclusive("orchestrator deadline of %ds exceeded", *deadline))
		case <-finished:
			return
		}
		c.Shutdown()
		writeResult()
		os.Exit(3)
	}()

	func() {
		defer func() {
			if p := recover(); p != nil {
				fail(inconclusive("orchestrator panic: %v", p))
			}
		}()
		var err error
		switch *scen {
		case "gate":
			err = sc.runGate()
		case "stop":
			err = sc.runStop()
		case "newleader":
			err = sc.runNewLeader()
		}
		if err != nil {
			fail(err)
		}
	}()
	res.Leader, res.Held, res.Other = sc.L, sc.H, sc.O
	c.unexpectedMu.Lock()
	res.UnexpectedExits = append(res.UnexpectedExits, c.unexpectedExits...)
	c.unexpectedMu.Unlock()
	c.Shutdown()
	close(finished)
	func() {
		defer func() {
			if p := recover(); p != nil {
				fail(inconclusive("assembling the trace: %v", p))
			}
		}()
		evs, info, err := sc.Assemble()
		res.Info = info
		if err != nil {
			if res.Status == "ok" {
				fail(err)
			}
			return
		}
		if err := writeEvs(filepath.Join(*out, "trace.ndjson"), evs); err != nil && res.Status == "ok" {
			fail(inconclusive("%v", err))
		}
	}()
	res.Sessions = map[string]int64{}
	for _, s := range sc.sess {
		res.Sessions[s.name] = s.idx
	}
	res.Notes = sc.notes
	if len(res.UnexpectedExits) > 0 && res.Status == "ok" {
		fail(inconclusive("a node exited on its own: %v", res.UnexpectedExits))
	}
	rec.Close()
	for _, n := range c.nodes {
		os.RemoveAll(n.dir)
	}
	writeResult()
	if res.Status != "ok" {
		fmt.Fprintln(os.Stderr, "INCONCLUSIVE:", res.Why)
		os.Exit(3)
	}
}
