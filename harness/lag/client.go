package main

import (
	"bytes"
	"context"
	"encoding/json"
	"fmt"
	"io"
	"net/http"
	"strconv"
	"strings"
	"time"
)

const messageOffset = 4648398125000000000 // default of -robustirc_message_offset

// Sess is one RobustIRC session driven through the real HTTP API like a bridge does.
type Sess struct {
	c    *Net
	name string
	nick string
	sidS string
	sid  uint64
	idx  int64 // raft index of the CreateSession entry (= sid - offset)
	auth string
	cmid uint64
}

func sidString(idx int64) string { return fmt.Sprintf("0x%x", uint64(messageOffset)+uint64(idx)) }

// Reply is what one request was answered with.
type Reply struct {
	Code int
	Text string
	Prox bool // Content-Location header present: maybeProxyToLeader handled the request
	Err  string
}

// do sends one request without the network password (public API).
func (c *Net) do(method string, node int, path string, auth string, body []byte, timeout time.Duration, headersOnly bool) Reply {
	ctx, cancel := context.WithTimeout(context.Background(), timeout)
	defer cancel()
	var rd io.Reader
	if body != nil {
		rd = bytes.NewReader(body)
	}
	req, err := http.NewRequestWithContext(ctx, method, "https://"+c.node(node).addr+path, rd)
	if err != nil {
		return Reply{Err: err.Error()}
	}
	if auth != "" {
		req.Header.Set("X-Session-Auth", auth)
	}
	if body != nil {
		req.Header.Set("Content-Type", "application/json")
	}
	resp, err := c.client.Do(req)
	if err != nil {
		return Reply{Err: err.Error()}
	}
	defer resp.Body.Close()
	r := Reply{Code: resp.StatusCode, Prox: resp.Header.Get("Content-Location") != ""}
	if headersOnly && resp.StatusCode == 200 {
		// a long poll: the 200 is the answer, the stream is not read
		return r
	}
	b, _ := io.ReadAll(io.LimitReader(resp.Body, 1<<16))
	r.Text = strings.TrimSpace(string(b))
	return r
}

// CreateSession: POST /session on node `at` (not idempotent; only called while the network is calm).
func (c *Net) CreateSession(name, nick string, at int) (*Sess, error) {
	var last Reply
	for try := 0; try < 80; try++ {
		last = c.do("POST", at, "/robustirc/v1/session", "", nil, 12*time.Second, false)
		if last.Code == 200 {
			var reply struct {
				Sessionid   string
				Sessionauth string
			}
			if json.Unmarshal([]byte(last.Text), &reply) == nil && reply.Sessionid != "" {
				num, perr := strconv.ParseUint(reply.Sessionid, 0, 64)
				if perr != nil || num <= messageOffset {
					return nil, inconclusive("unparsable session id %q", reply.Sessionid)
				}
				s := &Sess{c: c, name: name, nick: nick, sidS: reply.Sessionid, sid: num, idx: int64(num - messageOffset), auth: reply.Sessionauth}
				c.rec.Raw("session", "name", name, "nick", nick, "idx", s.idx, "n", at)
				return s, nil
			}
		}
		time.Sleep(250 * time.Millisecond)
	}
	return nil, inconclusive("cannot create session %s on node %d: HTTP %d %s %s", name, at, last.Code, last.Text, last.Err)
}

func postBody(data string, cmid uint64) []byte {
	b, _ := json.Marshal(struct {
		Data            string
		ClientMessageId uint64
	}{data, cmid})
	return b
}

// PostOK sends one line of the scenario's own traffic to node `at` with the next
// ClientMessageId and retries it (same id) until it is acknowledged.
func (s *Sess) PostOK(data string, at int) (uint64, error) {
	s.cmid++
	var last Reply
	for try := 0; try < 100; try++ {
		last = s.c.do("POST", at, "/robustirc/v1/"+s.sidS+"/message", s.auth, postBody(data, s.cmid), 15*time.Second, false)
		if last.Code == 200 {
			return s.cmid, nil
		}
		s.c.rec.Raw("postfail", "name", s.name, "n", at, "code", last.Code, "text", last.Text, "err", last.Err)
		time.Sleep(200 * time.Millisecond)
	}
	return s.cmid, inconclusive("session %s: %q not acknowledged by node %d: HTTP %d %s %s", s.name, data, at, last.Code, last.Text, last.Err)
}

func (s *Sess) Register(at int, channel string) error {
	lines := []string{"NICK " + s.nick, fmt.Sprintf("USER %s 0 * :%s", s.nick, s.name)}
	if channel != "" {
		lines = append(lines, "JOIN "+channel)
	}
	for _, l := range lines {
		if _, err := s.PostOK(l, at); err != nil {
			return err
		}
	}
	return nil
}

// DeleteOK: DELETE /robustirc/v1/<sid> on node `at`, acknowledged.
func (s *Sess) DeleteOK(at int, msg string) error {
	body, _ := json.Marshal(struct{ Quitmessage string }{msg})
	var last Reply
	for try := 0; try < 60; try++ {
		last = s.c.do("DELETE", at, "/robustirc/v1/"+s.sidS, s.auth, body, 15*time.Second, false)
		if last.Code == 200 {
			return nil
		}
		time.Sleep(200 * time.Millisecond)
	}
	return inconclusive("session %s: DELETE not acknowledged by node %d: HTTP %d %s %s", s.name, at, last.Code, last.Text, last.Err)
}

// bodyClass names the texts internal/api answers with (never interpreted beyond drift reports).
func bodyClass(r Reply) string {
	t := r.Text
	switch {
	case r.Err != "":
		return "error"
	case strings.Contains(t, "Session not yet seen"):
		return "notyet"
	case strings.Contains(t, "No such session"):
		return "nosuch"
	case strings.Contains(t, "No leader known"):
		return "noleader"
	case strings.Contains(t, "LastContact"):
		return "partitioned"
	case strings.Contains(t, "X-Session-Auth"):
		return "badauth"
	case strings.Contains(t, "Apply():"):
		return "applyfailed"
	case t == "":
		return "empty"
	}
	return "other"
}
