package main

import (
	"fmt"
	"math/rand"
	"sort"
	"time"
)

// Target is an id a probe asks for.
type Target struct {
	what string // live | deleted | never | future | known (a live session the held-back node HAS applied)
	idx  int64
	auth string
	sess *Sess
}

func (t Target) sidS() string {
	if t.sess != nil {
		return t.sess.sidS
	}
	return sidString(t.idx)
}

type Scenario struct {
	c     *Net
	name  string
	rng   *rand.Rand
	evs   []Ev
	q     int64
	quits map[[2]uint64]bool
	notes []string
	sess  []*Sess

	L, H, O  int
	D, X, Q  *Sess
	neverIdx int64
	trigCmid uint64 // ClientMessageId of X's line the held-back node applied last
}

func (sc *Scenario) note(format string, a ...interface{}) {
	s := fmt.Sprintf(format, a...)
	sc.notes = append(sc.notes, s)
	sc.c.rec.Raw("note", "text", s)
}

type sample struct {
	role string
	lead int64
	a    int64
}

func (sc *Scenario) sample(n int) sample {
	s := sample{role: "unreachable", a: sc.c.Applied(n)}
	if !sc.c.node(n).live() {
		return s
	}
	if st, err := sc.c.Status(n, 4*time.Second); err == nil {
		s.role = st.State
		s.lead = int64(sc.c.nodeByAddr(st.Leader))
	}
	return s
}

// probe sends ONE request for the target to node n and records the answer together with what
// the node said about itself before and after.
func (sc *Scenario) probe(ph string, n int, route string, t Target, dup bool) *Ev {
	sc.q++
	e := Ev{Ev: "probe", Q: sc.q, Ph: ph, N: int64(n), Route: route, What: t.what, I: t.idx, T: sc.c.rec.Now()}
	s0 := sc.sample(n)
	e.Clen = sc.c.MaxApplied()
	if s0.lead != 0 {
		e.Tn = s0.lead
		tn := int(s0.lead)
		if sc.c.node(tn).live() {
			e.Tup = 1
			ts := sc.sample(tn)
			e.Ta, e.Trole = ts.a, ts.role
		} else {
			e.Ta = sc.c.Applied(tn)
			e.Trole = "dead"
		}
	}
	var r Reply
	switch route {
	case "get":
		r = sc.c.do("GET", n, "/robustirc/v1/"+t.sidS()+"/messages?lastseen=0.0", t.auth, nil, 8*time.Second, true)
	case "post":
		var cmid uint64
		if t.sess != nil {
			if dup {
				cmid = sc.trigCmid
				e.Dup = 1
			} else {
				t.sess.cmid++
				cmid = t.sess.cmid
			}
			e.sid = t.sess.sid
		} else {
			cmid = uint64(sc.rng.Int63())
		}
		e.cmid = cmid
		r = sc.c.do("POST", n, "/robustirc/v1/"+t.sidS()+"/message", t.auth, postBody(fmt.Sprintf("PING :probe-%d", sc.q), cmid), 8*time.Second, false)
	case "delete":
		if t.sess != nil {
			e.sid = t.sess.sid
		}
		r = sc.c.do("DELETE", n, "/robustirc/v1/"+t.sidS(), t.auth, []byte(`{"Quitmessage":"lag probe"}`), 8*time.Second, false)
	}
	s1 := sc.sample(n)
	e.Code = int64(r.Code)
	e.Body = bodyClass(r)
	e.Text = r.Text
	if len(e.Text) > 160 {
		e.Text = e.Text[:160]
	}
	if r.Err != "" {
		e.Text = r.Err
	}
	if r.Prox {
		e.Prox = 1
	}
	e.Role0, e.Role1, e.Lead0, e.Lead1, e.A0, e.A1 = s0.role, s1.role, s0.lead, s1.lead, s0.a, s1.a
	sc.c.rec.Raw("probe", "q", e.Q, "ph", ph, "n", n, "route", route, "what", t.what, "idx", t.idx, "code", e.Code, "body", e.Body, "prox", e.Prox,
		"role", s0.role+">"+s1.role, "lead", fmt.Sprintf("%d>%d", s0.lead, s1.lead), "applied", fmt.Sprintf("%d>%d", s0.a, s1.a), "clen", e.Clen)
	sc.evs = append(sc.evs, e)
	return &sc.evs[len(sc.evs)-1]
}

// probes sends every route for every target (order drawn from the seed); `skipDelete` lists the
// targets for which DELETE is left out (it would end a session the scenario still needs, if it
// were served).
func (sc *Scenario) probes(ph string, n int, targets []Target, skipDelete map[string]bool) {
	type pr struct {
		route string
		t     Target
	}
	var ps []pr
	for _, t := range targets {
		for _, r := range []string{"get", "post", "delete"} {
			if r == "delete" && skipDelete[t.what] {
				continue
			}
			ps = append(ps, pr{r, t})
		}
	}
	sc.rng.Shuffle(len(ps), func(i, j int) { ps[i], ps[j] = ps[j], ps[i] })
	for _, p := range ps {
		sc.probe(ph, n, p.route, p.t, false)
	}
}

// lp records IRCServer.lastProcessed of node n, if the node's FSM did not move meanwhile.
func (sc *Scenario) lp(ph string, n int) {
	a0 := sc.c.Applied(n)
	v, err := sc.c.LastProcessed(n)
	a1 := sc.c.Applied(n)
	if err != nil {
		sc.note("lastProcessed of node %d not readable in phase %s: %v", n, ph, err)
		return
	}
	sc.q++
	sc.evs = append(sc.evs, Ev{Ev: "lp", Q: sc.q, Ph: ph, N: int64(n), A0: a0, A1: a1, Lp: v, T: sc.c.rec.Now()})
	sc.c.rec.Raw("lp", "ph", ph, "n", n, "applied", fmt.Sprintf("%d>%d", a0, a1), "lp", v)
}

func (sc *Scenario) target(what string, s *Sess) Target {
	return Target{what: what, idx: s.idx, auth: s.auth, sess: s}
}

func (sc *Scenario) fabricated() []Target {
	return []Target{
		{what: "never", idx: sc.neverIdx, auth: "bogus-secret"},
		{what: "future", idx: sc.c.MaxApplied() + 40 + int64(sc.rng.Intn(1000)), auth: "bogus-secret"},
	}
}

func (sc *Scenario) newSession(name string, at int, channel string) (*Sess, error) {
	nick := fmt.Sprintf("%s%d", name, sc.rng.Intn(9000)+1000)
	s, err := sc.c.CreateSession(name, nick, at)
	if err != nil {
		return nil, err
	}
	sc.sess = append(sc.sess, s)
	if err := s.Register(at, channel); err != nil {
		return nil, err
	}
	return s, nil
}

// quiescent waits until every live node has applied everything any node has applied.
func (sc *Scenario) quiescent(deadline time.Duration, nodes ...int) error {
	end := time.Now().Add(deadline)
	for {
		max := sc.c.MaxApplied()
		ok := true
		for _, n := range nodes {
			if sc.c.Applied(n) < max {
				ok = false
			}
		}
		if ok {
			return nil
		}
		if time.Now().After(end) {
			return inconclusive("the nodes %v did not all apply index %d within %v", nodes, max, deadline)
		}
		time.Sleep(30 * time.Millisecond)
	}
}

// setup: three nodes, D created, registered and deleted, X created and registered, all applied everywhere.
func (sc *Scenario) setup() error {
	c := sc.c
	for id := 1; id <= 3; id++ {
		if err := c.Start(id); err != nil {
			return err
		}
		if err := c.WaitServing(id, 90*time.Second); err != nil {
			return err
		}
		if id == 1 {
			if _, err := c.WaitLeader(60 * time.Second); err != nil {
				return err
			}
		}
	}
	end := time.Now().Add(60 * time.Second)
	for {
		l := c.Leader()
		if l != 0 {
			if st, err := c.Status(l, 2*time.Second); err == nil && len(st.Peers) == 3 {
				sc.L = l
				break
			}
		}
		if time.Now().After(end) {
			return inconclusive("the network did not reach 3 members")
		}
		time.Sleep(100 * time.Millisecond)
	}
	var fol []int
	for id := 1; id <= 3; id++ {
		if id != sc.L {
			fol = append(fol, id)
		}
	}
	k := sc.rng.Intn(2)
	sc.H, sc.O = fol[k], fol[1-k]
	c.rec.Raw("roles", "leader", sc.L, "held", sc.H, "other", sc.O)
	var err error
	if sc.D, err = sc.newSession("dee", sc.L, ""); err != nil {
		return err
	}
	sc.neverIdx = sc.D.idx + 1 // the index of D's NICK line: never a session, older than lastProcessed later on
	if err = sc.D.DeleteOK(sc.L, "deleted before the lag"); err != nil {
		return err
	}
	if sc.X, err = sc.newSession("eks", sc.L, "#lag"); err != nil {
		return err
	}
	for i := sc.rng.Intn(3); i > 0; i-- {
		if _, err = sc.X.PostOK(fmt.Sprintf("PRIVMSG #lag :warm-up %d", i), sc.L); err != nil {
			return err
		}
	}
	sc.trigCmid = sc.X.cmid
	if sc.Q, err = sc.newSession("que", sc.L, ""); err != nil {
		return err
	}
	if l := c.Leader(); l != sc.L {
		return inconclusive("the leader changed during the set-up (%d -> %d)", sc.L, l)
	}
	return sc.quiescent(60*time.Second, 1, 2, 3)
}

// quitQ: Q ends itself with a QUIT line (a client line that deletes the session and leaves
// lastProcessed at the session's own id).
func (sc *Scenario) quitQ() error {
	sc.quits[[2]uint64{sc.Q.sid, sc.Q.cmid + 1}] = true
	_, err := sc.Q.PostOK("QUIT :self", sc.L)
	return err
}

// hold parks the FSM of H behind Q's QUIT line (hook fsm.apply fires when FSM.Apply has
// returned: the trigger line IS applied on H, nothing after it).
func (sc *Scenario) hold() error {
	c := sc.c
	if err := c.Gate(sc.H, "fsm.apply"); err != nil {
		return inconclusive("gate: %v", err)
	}
	if err := sc.quitQ(); err != nil {
		return err
	}
	g, err := c.WaitParked(sc.H, "fsm.apply", 60*time.Second)
	if err != nil {
		return err
	}
	c.rec.Raw("parked", "n", sc.H, "index", g)
	return nil
}

func (sc *Scenario) release() error {
	c := sc.c
	c.Ungate(sc.H, "fsm.apply")
	// the backlog handed to the FSM goroutine is applied now; wait until it stands still
	end := time.Now().Add(60 * time.Second)
	last, since := c.Applied(sc.H), time.Now()
	for time.Now().Before(end) {
		time.Sleep(50 * time.Millisecond)
		a := c.Applied(sc.H)
		if a != last || c.Parked(sc.H, "fsm.apply") {
			last, since = a, time.Now()
			continue
		}
		if time.Since(since) > 800*time.Millisecond {
			return nil
		}
	}
	return inconclusive("the FSM of node %d did not come to rest after the gate was lifted", sc.H)
}

// aloneAfterRestart: H is killed and restarted while nobody else runs: Follower without a
// leader until the heartbeat timeout (2..4 s), then Candidate.
func (sc *Scenario) aloneAfterRestart(ph string, targets []Target) error {
	c := sc.c
	established := false
	for attempt := 1; attempt <= 3 && !established; attempt++ {
		c.Kill(sc.H)
		if err := c.Start(sc.H); err != nil {
			return err
		}
		if err := c.WaitServing(sc.H, 90*time.Second); err != nil {
			return err
		}
		for _, t := range targets {
			for _, r := range []string{"post", "get", "delete"} {
				e := sc.probe(ph+"f", sc.H, r, t, false)
				if e.Role0 == "Follower" && e.Role1 == "Follower" && e.Lead0 == 0 && e.Lead1 == 0 {
					established = true
				}
			}
			if s := sc.sample(sc.H); s.role != "Follower" {
				break
			}
		}
		if !established {
			sc.note("restart %d of node %d: it was no longer a Follower without a leader when the requests were answered", attempt, sc.H)
		}
	}
	if _, err := c.WaitState(sc.H, 90*time.Second, "Candidate"); err != nil {
		return err
	}
	sc.probes(ph+"c", sc.H, targets, nil)
	sc.lp(ph+"c", sc.H)
	return nil
}

// rejoin: the killed nodes come back, H catches up; then the same questions again.
func (sc *Scenario) rejoin(ph string, S, S2 *Sess) error {
	c := sc.c
	want := c.MaxApplied()
	for _, id := range []int{sc.L, sc.O} {
		if err := c.Start(id); err != nil {
			return err
		}
	}
	for _, id := range []int{sc.L, sc.O} {
		if err := c.WaitServing(id, 90*time.Second); err != nil {
			return err
		}
	}
	if _, err := c.WaitLeader(120 * time.Second); err != nil {
		return err
	}
	end := time.Now().Add(120 * time.Second)
	for c.Applied(sc.H) < want {
		if time.Now().After(end) {
			return inconclusive("node %d did not catch up to index %d within 120 s after the others came back (applied %d)", sc.H, want, c.Applied(sc.H))
		}
		time.Sleep(50 * time.Millisecond)
	}
	if err := sc.quiescent(60*time.Second, 1, 2, 3); err != nil {
		return err
	}
	// wait until H follows somebody (or leads): the answers depend on it
	if _, err := c.WaitState(sc.H, 60*time.Second, "Follower", "Leader"); err != nil {
		return err
	}
	targets := append([]Target{sc.target("live", S), sc.target("deleted", sc.D), sc.target("known", sc.X)}, sc.fabricated()...)
	if S2 != nil {
		targets = append(targets, sc.target("deleted", S2))
	}
	sc.probes(ph, sc.H, targets, map[string]bool{"live": true, "known": true})
	sc.lp(ph, sc.H)
	// last of all the session is really deleted through H: 200, and gone afterwards
	sc.probe(ph+"d", sc.H, "delete", sc.target("live", S), false)
	if err := sc.quiescent(60*time.Second, 1, 2, 3); err != nil {
		return err
	}
	sc.probe(ph+"e", sc.H, "get", sc.target("deleted", S), false)
	sc.probe(ph+"e", sc.H, "post", sc.target("deleted", S), false)
	sc.lp(ph+"e", sc.H)
	return nil
}

// runGate: H's FSM is parked at fsm.apply; raft on H is healthy.
func (sc *Scenario) runGate() error {
	c := sc.c
	if err := sc.setup(); err != nil {
		return err
	}
	if err := sc.hold(); err != nil {
		return err
	}
	S, err := sc.newSession("ess", sc.L, "#lag")
	if err != nil {
		return err
	}
	S2, err := sc.newSession("two", sc.L, "")
	if err != nil {
		return err
	}
	if _, err := S.PostOK("PRIVMSG #lag :used on the leader", sc.L); err != nil {
		return err
	}
	if err := sc.quiescent(30*time.Second, sc.L, sc.O); err != nil {
		return err
	}
	sc.lp("a", sc.H)
	sc.lp("a", sc.L)
	// (a) Follower with a live leader, FSM behind
	targets := append([]Target{sc.target("live", S), sc.target("deleted", sc.D), sc.target("known", sc.X), sc.target("selfquit", sc.Q)}, sc.fabricated()...)
	sc.probes("a", sc.H, targets, map[string]bool{"live": true, "known": true})
	sc.probe("a", sc.H, "post", sc.target("known", sc.X), true)
	sc.probe("a", sc.H, "delete", sc.target("live", S2), false) // proxied: S2 ends in the committed log
	if err := sc.quiescent(30*time.Second, sc.L, sc.O); err != nil {
		return err
	}
	// (b1) the others die; H, still held back, loses its leader and becomes a candidate
	c.Kill(sc.L)
	c.Kill(sc.O)
	if _, err := c.WaitState(sc.H, 90*time.Second, "Candidate"); err != nil {
		return err
	}
	targets = append([]Target{sc.target("live", S), sc.target("deleted", S2), sc.target("deleted", sc.D), sc.target("known", sc.X), sc.target("selfquit", sc.Q)}, sc.fabricated()...)
	sc.probes("b1", sc.H, targets, nil)
	sc.probe("b1", sc.H, "post", sc.target("known", sc.X), true)
	sc.lp("b1", sc.H)
	// (b2) the gate is lifted: the backlog H's raft had already handed over is applied
	if err := sc.release(); err != nil {
		return err
	}
	sc.probes("b2", sc.H, targets, nil)
	sc.lp("b2", sc.H)
	// (b3) restarted alone: nothing applied at all
	if err := sc.aloneAfterRestart("b3", []Target{sc.target("live", S), sc.target("deleted", sc.D), sc.target("known", sc.X)}); err != nil {
		return err
	}
	// (c)
	return sc.rejoin("c", S, S2)
}

// runStop: H is frozen (SIGSTOP) while the session is created and used; it does not even store the entries.
func (sc *Scenario) runStop() error {
	c := sc.c
	if err := sc.setup(); err != nil {
		return err
	}
	if err := sc.quitQ(); err != nil {
		return err
	}
	if err := sc.quiescent(60*time.Second, 1, 2, 3); err != nil {
		return err
	}
	c.Pause(sc.H)
	S, err := sc.newSession("ess", sc.L, "#lag")
	if err != nil {
		return err
	}
	S2, err := sc.newSession("two", sc.L, "")
	if err != nil {
		return err
	}
	if _, err := S.PostOK("PRIVMSG #lag :used on the leader", sc.L); err != nil {
		return err
	}
	if err := S2.DeleteOK(sc.L, "deleted while one node was frozen"); err != nil {
		return err
	}
	if err := sc.quiescent(30*time.Second, sc.L, sc.O); err != nil {
		return err
	}
	c.Kill(sc.L)
	c.Kill(sc.O)
	c.Resume(sc.H)
	targets := append([]Target{sc.target("live", S), sc.target("deleted", S2), sc.target("deleted", sc.D), sc.target("known", sc.X)}, sc.fabricated()...)
	// whatever H is right now (Follower that still names the dead leader, or already Candidate)
	for _, r := range []string{"post", "get", "delete"} {
		sc.probe("s1", sc.H, r, sc.target("live", S), false)
	}
	if _, err := c.WaitState(sc.H, 90*time.Second, "Candidate"); err != nil {
		return err
	}
	sc.probes("s2", sc.H, targets, nil)
	sc.lp("s2", sc.H)
	if err := sc.aloneAfterRestart("s3", []Target{sc.target("live", S), sc.target("deleted", sc.D)}); err != nil {
		return err
	}
	return sc.rejoin("c", S, S2)
}

// runNewLeader: H's FSM is parked, O is frozen while the session is created (so O's log is
// behind and only H can win), the leader dies: H is elected with its FSM behind.
func (sc *Scenario) runNewLeader() error {
	c := sc.c
	if err := sc.setup(); err != nil {
		return err
	}
	if err := sc.hold(); err != nil {
		return err
	}
	c.Pause(sc.O)
	S, err := sc.newSession("ess", sc.L, "#lag") // committed by L and H's raft
	if err != nil {
		return err
	}
	if _, err := S.PostOK("PRIVMSG #lag :used on the leader", sc.L); err != nil {
		return err
	}
	sc.lp("n0", sc.H)
	c.Kill(sc.L)
	c.Resume(sc.O)
	if _, err := c.WaitState(sc.H, 120*time.Second, "Leader"); err != nil {
		return err
	}
	targets := append([]Target{sc.target("live", S), sc.target("deleted", sc.D), sc.target("selfquit", sc.Q)}, sc.fabricated()...)
	sc.probes("n1", sc.H, targets, nil)
	sc.probe("n1", sc.H, "get", sc.target("known", sc.X), false)
	sc.probe("n1", sc.H, "post", sc.target("known", sc.X), true)
	sc.lp("n1", sc.H)
	if s := sc.sample(sc.H); s.role != "Leader" {
		sc.note("node %d was no longer the leader at the end of phase n1 (%s)", sc.H, s.role)
	}
	if err := sc.release(); err != nil {
		return err
	}
	want := c.MaxApplied()
	end := time.Now().Add(90 * time.Second)
	for c.Applied(sc.H) < want {
		if time.Now().After(end) {
			return inconclusive("node %d did not apply its backlog up to %d after the gate was lifted (applied %d)", sc.H, want, c.Applied(sc.H))
		}
		time.Sleep(50 * time.Millisecond)
	}
	if _, err := c.WaitLeader(90 * time.Second); err != nil {
		return err
	}
	sc.probes("n2", sc.H, append([]Target{sc.target("live", S), sc.target("deleted", sc.D), sc.target("known", sc.X)}, sc.fabricated()...),
		map[string]bool{"live": true, "known": true})
	sc.lp("n2", sc.H)
	sc.probe("n2d", sc.H, "delete", sc.target("live", S), false)
	return nil
}

// ---------------------------------------------------------------- assembling the trace

type logEntry struct {
	typ  int64
	sess uint64
	cmid uint64
}

// Assemble reads the hook traces of all incarnations of all nodes: the log as the FSMs
// applied it, and who proposed what.
func (sc *Scenario) Assemble() ([]Ev, map[string]interface{}, error) {
	c := sc.c
	log := map[uint64]logEntry{}
	type prop struct {
		node  int
		index uint64
		e     logEntry
	}
	var props []prop
	for _, n := range c.nodes {
		for inc := 1; inc <= n.incarnation(); inc++ {
			for _, r := range readHooks(c.tracePath(n.id, inc)) {
				e := logEntry{typ: r.Type, sess: r.session(), cmid: r.cmid()}
				switch r.Point {
				case "fsm.apply":
					if old, ok := log[r.Index]; ok && old != e {
						return nil, nil, inconclusive("the nodes applied different entries at index %d: %+v / %+v", r.Index, old, e)
					}
					log[r.Index] = e
				case "api.applied":
					props = append(props, prop{n.id, r.Index, e})
				case "fsm.restored":
					return nil, nil, inconclusive("node %d restored a snapshot: the recorded applied indexes are not prefixes any more", n.id)
				}
			}
		}
	}
	var idxs []uint64
	for i := range log {
		idxs = append(idxs, i)
	}
	sort.Slice(idxs, func(i, j int) bool { return idxs[i] < idxs[j] })
	var last uint64
	if len(idxs) > 0 {
		last = idxs[len(idxs)-1]
	}
	var out []Ev
	kinds := map[string]int{}
	for i := uint64(1); i <= last; i++ {
		e := Ev{Ev: "log", I: int64(i), K: "other"}
		if le, ok := log[i]; ok {
			s := int64(0)
			if le.sess > messageOffset {
				s = int64(le.sess - messageOffset)
			}
			switch le.typ {
			case 0:
				e.K, e.S = "create", int64(i)
			case 1:
				e.K, e.S = "delete", s
			case 2:
				e.K, e.S = "line", s
				if sc.quits[[2]uint64{le.sess, le.cmid}] {
					e.K = "quit"
				}
			}
		}
		kinds[e.K]++
		out = append(out, e)
	}
	for k := range sc.evs {
		e := &sc.evs[k]
		// only an acknowledged request is matched with the entry it became (a refused one
		// must not be credited with a later entry of the same session)
		if e.Ev != "probe" || e.sid == 0 || e.Code != 200 {
			continue
		}
		for _, p := range props {
			if int64(p.index) <= e.Clen || p.e.sess != e.sid {
				continue
			}
			if (e.Route == "post" && p.e.typ == 2 && p.e.cmid == e.cmid && e.Dup == 0) || (e.Route == "delete" && p.e.typ == 1 && e.Eff == 0 && !deleteClaimed(sc.evs[:k], p.index)) {
				e.By, e.Eff = int64(p.node), 1
				e.S = int64(p.index)
				break
			}
		}
	}
	out = append(out, sc.evs...)
	info := map[string]interface{}{"log_entries": last, "kinds": kinds, "probes": len(sc.evs)}
	return out, info, nil
}

// deleteClaimed: an earlier DELETE probe was already matched with the DeleteSession entry at index.
func deleteClaimed(earlier []Ev, index uint64) bool {
	for _, e := range earlier {
		if e.Ev == "probe" && e.Route == "delete" && e.Eff == 1 && e.S == int64(index) {
			return true
		}
	}
	return false
}
