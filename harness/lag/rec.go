package main

import (
	"encoding/json"
	"fmt"
	"os"
	"sync"
	"time"
)

// Ev is one record of the trace that LagTrace.tla validates. Every record has every field
// (TLC reads them as records); unused numbers are 0, unused strings "".
//
//	log    one entry of the replicated log as the nodes applied it (hook fsm.apply): I = raft
//	       index, K = create|line|quit|delete|other, S = raft index of the session's CreateSession
//	       entry (session id - message offset). Indexes no FSM ever saw (raft's own entries) are
//	       written as "other".
//	probe  one request for session id I sent to node N: Route post|delete|get, Code = HTTP status,
//	       Body = class of the answer's text, Prox = 1 when the answer carries the Content-Location
//	       header maybeProxyToLeader sets, By = node whose applyMessageWait proposed the entry the
//	       request became (0: none), Eff = 1 when such an entry exists;
//	       Role0/Role1, Lead0/Lead1 (node the answering node names as leader, 0 none) and A0/A1
//	       (index of the last entry its FSM has applied) sampled before and after the request;
//	       Clen = highest index committed before the request was sent;
//	       Tn/Ta/Trole/Tup = the node named as leader, what IT had applied, its raft state and whether
//	       its process was running; Dup = 1 when the POST repeats the session's last ClientMessageId.
//	lp     IRCServer.lastProcessed of node N (as an index) read from /status/state while its FSM had
//	       applied exactly A0 = A1.
type Ev struct {
	Ev    string `json:"ev"`
	Q     int64  `json:"q"`
	Ph    string `json:"ph"`
	I     int64  `json:"i"`
	K     string `json:"k"`
	S     int64  `json:"s"`
	N     int64  `json:"n"`
	Route string `json:"route"`
	What  string `json:"what"`
	Code  int64  `json:"code"`
	Body  string `json:"body"`
	Text  string `json:"text"`
	Prox  int64  `json:"prox"`
	By    int64  `json:"by"`
	Eff   int64  `json:"eff"`
	Dup   int64  `json:"dup"`
	Role0 string `json:"role0"`
	Role1 string `json:"role1"`
	Lead0 int64  `json:"lead0"`
	Lead1 int64  `json:"lead1"`
	A0    int64  `json:"a0"`
	A1    int64  `json:"a1"`
	Clen  int64  `json:"clen"`
	Tn    int64  `json:"tn"`
	Ta    int64  `json:"ta"`
	Trole string `json:"trole"`
	Tup   int64  `json:"tup"`
	Lp    int64  `json:"lp"`
	T     int64  `json:"t"`

	// not serialised: what the orchestrator needs to find the entry a probe became
	sid  uint64
	cmid uint64
}

// Rec is the orchestrator's clock and raw event log (orch.ndjson, for people).
type Rec struct {
	mu  sync.Mutex
	f   *os.File
	t0  time.Time
	seq int64
}

func NewRec(path string) (*Rec, error) {
	f, err := os.OpenFile(path, os.O_CREATE|os.O_WRONLY|os.O_TRUNC, 0644)
	if err != nil {
		return nil, err
	}
	return &Rec{f: f, t0: time.Now()}, nil
}

func (r *Rec) Now() int64 { return int64(time.Since(r.t0) / time.Millisecond) }

func (r *Rec) Raw(ev string, kv ...interface{}) {
	rec := map[string]interface{}{"ev": ev}
	for i := 0; i+1 < len(kv); i += 2 {
		rec[fmt.Sprint(kv[i])] = kv[i+1]
	}
	r.mu.Lock()
	defer r.mu.Unlock()
	r.seq++
	rec["seq"] = r.seq
	rec["t"] = r.Now()
	b, err := json.Marshal(rec)
	if err != nil {
		b = []byte(fmt.Sprintf(`{"ev":"error","error":%q}`, err.Error()))
	}
	r.f.Write(append(b, '\n'))
}

func (r *Rec) Close() {
	r.mu.Lock()
	defer r.mu.Unlock()
	r.f.Close()
}

func writeEvs(path string, evs []Ev) error {
	f, err := os.Create(path)
	if err != nil {
		return err
	}
	defer f.Close()
	for _, e := range evs {
		b, err := json.Marshal(e)
		if err != nil {
			return err
		}
		f.Write(append(b, '\n'))
	}
	return nil
}
