//go:build verif

// Harness for property C04 (exactly-once, in-order delivery on resume).
// Injected into package api of the repository with `go test -overlay`; nothing
// is written to the repository.
//
// It drives the REAL api.getMessages over REAL outputstream.OutputStream
// values.  The harness plays
//   - the two nodes: outputstream.Add of the next batch, in id order, at the
//     points the program / the random schedule says;
//   - the client: receives from the unbuffered msgschan, filters by
//     InterestingFor exactly as handleGetMessages does, consumes the lines of
//     a batch one at a time, disconnects (cancel + InterruptGetNext, as
//     handleGetMessages' cancelAll does) and reconnects with
//     lastseen = id of the last message it received ("0.0" -> session id, as
//     handleGetMessages does).
//
// Two modes:
//
//	replay  (TestVerifC04Replay): programs derived from TLC behaviours.  The
//	        verifhook gate parks the reader before every GetNext and on
//	        entering the back-off, so "node n applies batch k now" happens at
//	        exactly the model's point.
//	random  (TestVerifC04Random): free running goroutines (two adders with
//	        lag, one client with random disconnects), the hook only injects
//	        random delays.  Events are recorded for GetMessagesTrace.tla.
//
// "Reader is blocked inside GetNext" is OBSERVED, not guessed from timing.
// GetNext consults ctx.Done() under messagesMu immediately before
// newMessage.Wait().  The reader runs with a context whose Done() reports
// "called from GetNext, not cancelled" to the harness (waitCh); the harness
// then calls OutputStream.LastSeen(), which needs messagesMu and therefore
// returns only after Wait() has registered the reader with the condition
// variable and released the lock: from then on only an Add/Interrupt issued by
// the harness itself can move the reader.  Where the observation decides a
// verdict (completeness at the end of a program) it is CONFIRMED by the state
// of the reader goroutine in runtime.Stack(all): "sync.Cond.Wait" with a
// frame of (*OutputStream).GetNext.  If the signal never comes (GetNext was
// restructured) the harness falls back to polling the goroutine state; if
// nothing gives an answer within a generous bound the program is reported as
// inconclusive (never a verdict).
package api

import (
	"bufio"
	"context"
	"encoding/json"
	"flag"
	"fmt"
	"math/rand"
	"os"
	"path/filepath"
	"runtime"
	"strconv"
	"strings"
	"sync"
	"sync/atomic"
	"testing"
	"time"

	"github.com/robustirc/robustirc/internal/outputstream"
	"github.com/robustirc/robustirc/internal/robust"
	"github.com/robustirc/robustirc/internal/verifhook"
)

// ---------------------------------------------------------------- reader

type rkey struct{}

type parkEv struct {
	point   string
	ls      robust.Id
	got     robust.Id
	release chan struct{}
}

type reader struct {
	gid     int64
	node    int
	gate    bool
	ctx     context.Context
	cancel  context.CancelFunc
	ch      chan []*robust.Message
	done    chan struct{}
	parkCh  chan *parkEv
	waitCh  chan struct{} // token: GetNext is about to Wait (see rctx.Done)
	signal  bool          // send tokens on waitCh
	blocked bool          // observed in Cond.Wait; no Add/Interrupt on its node since
	parked  *parkEv
	arrived [][]*robust.Message
	sawGet  bool
	panicV  atomic.Value
	jit     *rand.Rand // used by the reader goroutine only (random mode)
}

func curGID() int64 {
	var b [64]byte
	n := runtime.Stack(b[:], false)
	f := strings.Fields(string(b[:n]))
	if len(f) < 2 {
		return -1
	}
	g, err := strconv.ParseInt(f[1], 10, 64)
	if err != nil {
		return -1
	}
	return g
}

// rctx is the reader's context: Done() tells the harness when it is consulted
// by GetNext right before Cond.Wait.
type rctx struct {
	context.Context
	r *reader
}

func calledFromGetNext() bool {
	var pcs [4]uintptr
	n := runtime.Callers(3, pcs[:])
	fr := runtime.CallersFrames(pcs[:n])
	for {
		f, more := fr.Next()
		if strings.HasSuffix(f.Function, "(*OutputStream).GetNext") {
			return true
		}
		if !more {
			return false
		}
	}
}

func (c *rctx) Done() <-chan struct{} {
	d := c.Context.Done()
	if c.r.signal {
		select {
		case <-d:
			return d
		default:
		}
		if calledFromGetNext() {
			select {
			case c.r.waitCh <- struct{}{}:
			default:
			}
		}
	}
	return d
}

func hookFn(point string, kv ...interface{}) {
	if !strings.HasPrefix(point, "getmessages.") {
		return
	}
	var ctx context.Context
	var ls, got robust.Id
	for i := 0; i+1 < len(kv); i += 2 {
		switch kv[i] {
		case "ctx":
			ctx, _ = kv[i+1].(context.Context)
		case "lastseen":
			ls, _ = kv[i+1].(robust.Id)
		case "got":
			got, _ = kv[i+1].(robust.Id)
		}
	}
	if ctx == nil {
		return
	}
	r, _ := ctx.Value(rkey{}).(*reader)
	if r == nil {
		return
	}
	if !r.gate {
		// random mode: widen the windows between Get / GetNext / back-off
		if r.jit != nil && r.jit.Intn(2) == 0 {
			time.Sleep(time.Duration(r.jit.Intn(400)) * time.Microsecond)
		}
		return
	}
	ev := &parkEv{point: point, ls: ls, got: got, release: make(chan struct{})}
	select {
	case r.parkCh <- ev:
	case <-ctx.Done():
		return
	}
	select {
	case <-ev.release:
	case <-ctx.Done():
	}
}

type vnode struct {
	os  *outputstream.OutputStream
	api *HTTP
}

func startReader(n int, nd *vnode, lastSeen robust.Id, gate, signal bool, jitSeed int64) *reader {
	r := &reader{
		node:   n,
		gate:   gate,
		signal: signal,
		ch:     make(chan []*robust.Message), // unbuffered, as in handleGetMessages
		done:   make(chan struct{}),
		parkCh: make(chan *parkEv),
		waitCh: make(chan struct{}, 1),
	}
	if !gate {
		r.jit = rand.New(rand.NewSource(jitSeed))
	}
	inner, cancel := context.WithCancel(context.WithValue(context.Background(), rkey{}, r))
	r.ctx, r.cancel = &rctx{Context: inner, r: r}, cancel
	go func() {
		defer close(r.done)
		defer func() {
			if p := recover(); p != nil {
				buf := make([]byte, 8192)
				buf = buf[:runtime.Stack(buf, false)]
				r.panicV.Store(fmt.Sprintf("%v\n%s", p, buf))
			}
		}()
		atomic.StoreInt64(&r.gid, curGID())
		nd.api.getMessages(r.ctx, lastSeen, r.ch)
	}()
	return r
}

// goroutine state of gid: ("sync.Cond.Wait", inGetNext, found)
func gstate(gid int64, buf *[]byte) (string, bool, bool) {
	if gid <= 0 {
		return "", false, false
	}
	for {
		n := runtime.Stack(*buf, true)
		if n < len(*buf) {
			s := string((*buf)[:n])
			needle := "goroutine " + strconv.FormatInt(gid, 10) + " ["
			idx := -1
			if strings.HasPrefix(s, needle) {
				idx = 0
			} else if j := strings.Index(s, "\n\n"+needle); j >= 0 {
				idx = j + 2
			}
			if idx < 0 {
				return "", false, false
			}
			rest := s[idx+len(needle):]
			end := strings.Index(rest, "]")
			if end < 0 {
				return "", false, false
			}
			st := rest[:end]
			if c := strings.Index(st, ","); c >= 0 {
				st = st[:c]
			}
			block := rest
			if e := strings.Index(rest, "\n\n"); e >= 0 {
				block = rest[:e]
			}
			return st, strings.Contains(block, "outputstream.(*OutputStream).GetNext"), true
		}
		*buf = make([]byte, 2*len(*buf))
	}
}

const settleBound = 8 * time.Second

// a cancelled reader exits at once, or after the 250 ms back-off sleep
const exitBound = 3 * time.Second

var confirmations int64

// settle waits until the reader is quiescent and says where:
// "getnext" / "backoff" (parked at the hook), "blocked" (inside GetNext, in
// Cond.Wait), "exited", "panic".  Batches the reader hands over meanwhile are
// taken from the channel (the rendezvous the handler would do) and kept in
// r.arrived until the program's "send" step.  confirm: cross-check "blocked"
// with the goroutine state.
func settle(r *reader, g *rig, confirm bool) (string, error) {
	if r == nil {
		return "none", nil
	}
	if r.parked != nil {
		return strings.TrimPrefix(r.parked.point, "getmessages."), nil
	}
	if r.blocked {
		return "blocked", nil
	}
	start := time.Now()
	wait := 2 * time.Millisecond
	for {
		tm := time.NewTimer(wait)
		select {
		case ev := <-r.parkCh:
			tm.Stop()
			r.purge()
			if ev.point == "getmessages.get" {
				// observation only: the code offers no point before the Get
				r.sawGet = true
				close(ev.release)
				continue
			}
			r.parked = ev
			return strings.TrimPrefix(ev.point, "getmessages."), nil
		case m := <-r.ch:
			tm.Stop()
			r.purge()
			r.arrived = append(r.arrived, m)
			continue
		case <-r.done:
			tm.Stop()
			if r.panicV.Load() != nil {
				return "panic", nil
			}
			return "exited", nil
		case <-r.waitCh:
			tm.Stop()
			// GetNext consulted ctx.Done() under messagesMu and goes on to
			// Wait(); LastSeen() gets the mutex only after Wait() released it.
			g.nodes[r.node].os.LastSeen()
			// cross-check with the goroutine state: the first observations of
			// every process and a sample afterwards (a dump of all goroutines
			// stops the world, ~1 ms)
			if c := atomic.AddInt64(&confirmations, 1); confirm && (c <= 64 || c%32 == 0) {
				t0 := time.Now()
				for {
					st, inGN, found := gstate(atomic.LoadInt64(&r.gid), &g.buf)
					if found && st == "sync.Cond.Wait" && inGN {
						break
					}
					if time.Since(t0) > 5*time.Second {
						return "", fmt.Errorf("wait signal not confirmed by goroutine state (%q, found=%v)", st, found)
					}
					time.Sleep(50 * time.Microsecond)
				}
			}
			// a token is older than any other event of the (sequential) reader:
			// if there is one, the reader has left that Wait long ago
			select {
			case ev := <-r.parkCh:
				if ev.point == "getmessages.get" {
					r.sawGet = true
					close(ev.release)
					continue
				}
				r.parked = ev
				return strings.TrimPrefix(ev.point, "getmessages."), nil
			case m := <-r.ch:
				r.arrived = append(r.arrived, m)
				continue
			default:
			}
			r.blocked = true
			return "blocked", nil
		case <-tm.C:
			// no signal: fall back to the goroutine state
			st, inGN, found := gstate(atomic.LoadInt64(&r.gid), &g.buf)
			if found && st == "sync.Cond.Wait" && inGN {
				select {
				case m := <-r.ch:
					r.arrived = append(r.arrived, m)
					continue
				default:
				}
				select {
				case <-r.waitCh: // the token of this very Wait
				default:
				}
				r.blocked = true
				return "blocked", nil
			}
			if time.Since(start) > settleBound {
				return "", fmt.Errorf("reader did not become quiescent within %v (goroutine state %q found=%v)", settleBound, st, found)
			}
			if wait < 50*time.Millisecond {
				wait *= 2
			}
		}
	}
}

// probeBlocked double-checks "blocked" where it decides a verdict: wake all
// readers of the node (InterruptGetNext, as any other session's disconnect
// does in production); a reader that really sits in GetNext's wait loop finds
// no successor, consults ctx.Done() again (fresh token) and waits again.
func probeBlocked(r *reader, g *rig) (bool, error) {
	select {
	case <-r.waitCh:
	default:
	}
	r.blocked = false
	g.nodes[r.node].os.InterruptGetNext()
	st, err := settle(r, g, true)
	if err != nil {
		return false, err
	}
	return st == "blocked" && len(r.arrived) == 0, nil
}

// purge drops a wait token that is older than the event just observed (the
// reader is sequential: it left that Wait before it produced the event).  In
// gated mode the reader cannot have entered GetNext again since (it has to
// pass the getnext hook first).
func (r *reader) purge() {
	if !r.gate {
		return
	}
	select {
	case <-r.waitCh:
	default:
	}
}

func stopReader(r *reader, nd *vnode) error {
	if r == nil {
		return nil
	}
	// handleGetMessages.cancelAll: cancel(), then InterruptGetNext()
	r.cancel()
	nd.os.InterruptGetNext()
	select {
	case <-r.done:
		return nil
	case <-time.After(exitBound):
		return fmt.Errorf("reader did not exit within %v after cancel+InterruptGetNext", exitBound)
	}
}

// ---------------------------------------------------------------- rig

type rig struct {
	nodes [2]*vnode
	next  uint64 // next free real id
	buf   []byte
}

func newRig(dir string) (*rig, error) {
	g := &rig{next: 1000, buf: make([]byte, 1<<20)}
	for i := range g.nodes {
		d := filepath.Join(dir, fmt.Sprintf("n%d", i+1))
		if err := os.MkdirAll(d, 0o755); err != nil {
			return nil, err
		}
		o, err := outputstream.NewOutputStream(d)
		if err != nil {
			return nil, err
		}
		// an HTTP value with only what getMessages needs
		g.nodes[i] = &vnode{os: o, api: &HTTP{outputUnlocked: o}}
	}
	return g, nil
}

func (g *rig) close() {
	for _, n := range g.nodes {
		if n != nil {
			n.os.Close()
		}
	}
}

// session: one client session on a rig; model id k <-> real id sid + stride*k.
type session struct {
	g       *rig
	sid     uint64
	other   uint64
	stride  uint64
	batches [][]int // by k-1; 1 = addressed to the session
	applied [2]int
	mu      sync.Mutex // events + applied (random mode)
	events  []map[string]interface{}

	clast     robust.Id // {0,0}: nothing received yet
	delivered [][2]int64
	wire      []*robust.Message
}

func (g *rig) newSession(stride uint64, maxK int) *session {
	if stride == 0 {
		stride = 1
	}
	s := &session{g: g, stride: stride}
	// a batch of another session just before the session id ("x-1 exists"
	// when stride is 1), same on both nodes
	pre := g.next + 1
	s.other = pre
	s.sid = pre + 1
	for _, n := range g.nodes {
		n.os.Add([]outputstream.Message{{Id: robust.Id{Id: pre, Reply: 1}, Data: "pre", InterestingFor: map[uint64]bool{s.other: true}}})
	}
	g.next = s.sid + stride*uint64(maxK+2) + 3
	return s
}

func (s *session) log(ev map[string]interface{}) {
	s.mu.Lock()
	s.events = append(s.events, ev)
	s.mu.Unlock()
}

func (s *session) realID(k int) uint64 { return s.sid + s.stride*uint64(k) }

// model id of a real message id: (k, r); k = -1 if it is none of ours
func (s *session) modelID(id robust.Id) (int64, int64) {
	if id.Id <= s.sid || (id.Id-s.sid)%s.stride != 0 {
		return -1, int64(id.Reply)
	}
	return int64((id.Id - s.sid) / s.stride), int64(id.Reply)
}

func (s *session) mkBatch(k int) []outputstream.Message {
	b := s.batches[k-1]
	msgs := make([]outputstream.Message, len(b))
	for i, a := range b {
		ifor := map[uint64]bool{}
		if a == 1 {
			ifor[s.sid] = true
			if (k+i)%2 == 0 {
				ifor[s.other] = true
			}
		} else if (k+i)%3 != 0 {
			ifor[s.other] = true
		}
		msgs[i] = outputstream.Message{
			Id:             robust.Id{Id: s.realID(k), Reply: uint64(i + 1)},
			Data:           fmt.Sprintf("m%d.%d", k, i+1),
			InterestingFor: ifor,
		}
	}
	return msgs
}

// add applies the next batch on node n (0-based).
func (s *session) add(n int) error {
	s.mu.Lock()
	k := s.applied[n] + 1
	s.mu.Unlock()
	if k > len(s.batches) {
		return fmt.Errorf("add: node %d has no batch %d to apply", n+1, k)
	}
	s.log(map[string]interface{}{"ev": "AddBegin", "n": n + 1, "k": k, "b": s.batches[k-1]})
	if err := s.g.nodes[n].os.Add(s.mkBatch(k)); err != nil {
		return err
	}
	s.mu.Lock()
	s.applied[n] = k
	s.mu.Unlock()
	s.log(map[string]interface{}{"ev": "AddEnd", "n": n + 1, "k": k})
	return nil
}

// lastSeen as handleGetMessages computes it from the lastseen form value
func (s *session) resumeID() robust.Id {
	lastSeen := robust.Id{Id: s.sid}
	ls := fmt.Sprintf("%d.%d", s.clast.Id, s.clast.Reply)
	if ls != "0.0" && ls != "" {
		first, last, err := parseLastSeen(ls)
		if err == nil {
			lastSeen = robust.Id{Id: first, Reply: last}
		}
	}
	return lastSeen
}

// consume one line of the current batch, filtering as handleGetMessages does
func (s *session) recvOne() {
	msg := s.wire[0]
	s.wire = s.wire[1:]
	if msg.Type != robust.Ping && !msg.InterestingFor[s.sid] {
		return
	}
	k, r := s.modelID(msg.Id)
	s.clast = msg.Id
	s.delivered = append(s.delivered, [2]int64{k, r})
	s.log(map[string]interface{}{"ev": "Recv", "id": k, "r": r})
}

// prefixOK: what the client received so far is a prefix of the session's
// messages in id order (used only to stop draining once the outcome is
// decided; the verdict is computed by the check from the raw data).
func (s *session) prefixOK() bool {
	i := 0
	for k, b := range s.batches {
		for r, a := range b {
			if a != 1 {
				continue
			}
			if i >= len(s.delivered) {
				return true
			}
			if s.delivered[i] != [2]int64{int64(k + 1), int64(r + 1)} {
				return false
			}
			i++
		}
	}
	return i >= len(s.delivered)
}

func (s *session) logReconnect(n int) {
	k, r := int64(0), int64(0)
	if s.clast.Id != 0 {
		k, r = s.modelID(s.clast)
	}
	s.log(map[string]interface{}{"ev": "Reconnect", "n": n + 1, "id": k, "r": r})
}

func idsOf(s *session, msgs []*robust.Message) [][2]int64 {
	res := make([][2]int64, 0, len(msgs))
	for _, m := range msgs {
		k, r := s.modelID(m.Id)
		res = append(res, [2]int64{k, r})
	}
	return res
}

// ---------------------------------------------------------------- replay

type program struct {
	ID      int             `json:"id"`
	Name    string          `json:"name"`
	Stride  uint64          `json:"stride"`
	Batches [][]int         `json:"batches"` // optional pre-declared contents by k
	Steps   [][]interface{} `json:"steps"`
	Drain   bool            `json:"drain"`
}

type obs struct {
	Cmd       string     `json:"cmd"`
	State     string     `json:"state"` // reader after the step
	LS        [2]int64   `json:"ls"`    // lastSeen reported by the hook the reader is parked at
	Arrived   [][2]int64 `json:"arrived,omitempty"`
	Wire      [][2]int64 `json:"wire,omitempty"`
	Delivered int        `json:"dl"`
	Note      string     `json:"note,omitempty"`
}

type result struct {
	ID           int                      `json:"id"`
	Name         string                   `json:"name,omitempty"`
	Obs          []obs                    `json:"obs,omitempty"`
	Delivered    [][2]int64               `json:"delivered"`
	Batches      [][]int                  `json:"batches"`
	Events       []map[string]interface{} `json:"events"`
	Complete     bool                     `json:"drained"` // drain reached quiescence on a node with everything
	SawGet       bool                     `json:"saw_get"` // the tree still has the initial Get
	Panic        string                   `json:"panic,omitempty"`
	Livelock     string                   `json:"livelock,omitempty"`
	Bad          bool                     `json:"bad,omitempty"`     // outcome already decided against the tree
	Skipped      bool                     `json:"skipped,omitempty"` // not run: VERIF_C04_MAXFAIL reached
	Inconclusive string                   `json:"inconclusive,omitempty"`
	Backoffs     int                      `json:"backoffs"`
	Reconnects   int                      `json:"reconnects"`
}

func toInt(v interface{}) int {
	switch x := v.(type) {
	case float64:
		return int(x)
	case int:
		return x
	}
	return 0
}

func toInts(v interface{}) []int {
	a, _ := v.([]interface{})
	res := make([]int, len(a))
	for i, x := range a {
		res[i] = toInt(x)
	}
	return res
}

func runProgram(g *rig, p *program) (res *result) {
	maxK := len(p.Batches)
	for _, st := range p.Steps {
		if len(st) >= 3 && st[0] == "add" {
			maxK++
		}
	}
	s := g.newSession(p.Stride, maxK+1)
	s.batches = append(s.batches, p.Batches...)
	res = &result{ID: p.ID, Name: p.Name}
	var r *reader
	fail := func(err error) *result {
		res.Inconclusive = err.Error()
		if r != nil {
			stopReader(r, g.nodes[r.node])
		}
		return res
	}
	defer func() {
		res.Delivered = s.delivered
		if res.Delivered == nil {
			res.Delivered = [][2]int64{}
		}
		res.Batches = s.batches
		res.Events = s.events
		res.Bad = !s.prefixOK() || res.Livelock != "" || res.Panic != ""
		// keep both streams prefixes of one log for the next session on this rig
		for n := range g.nodes {
			for s.applied[n] < len(s.batches) {
				g.nodes[n].os.Add(s.mkBatch(s.applied[n] + 1))
				s.applied[n]++
			}
		}
	}()
	observe := func(cmd, note string) error {
		st, err := settle(r, g, false)
		if err != nil {
			return err
		}
		o := obs{Cmd: cmd, State: st, Delivered: len(s.delivered), Note: note}
		if r != nil {
			if r.parked != nil {
				k, rr := int64(0), int64(r.parked.ls.Reply)
				if r.parked.ls.Id != s.sid {
					k, _ = s.modelID(r.parked.ls)
				}
				o.LS = [2]int64{k, rr}
			}
			if len(r.arrived) > 0 {
				o.Arrived = idsOf(s, r.arrived[0])
			}
			if r.sawGet {
				res.SawGet = true
			}
			if st == "panic" {
				res.Panic, _ = r.panicV.Load().(string)
			}
			if st == "backoff" && cmd != "end" {
				res.Backoffs++
			}
		}
		o.Wire = idsOf(s, s.wire)
		res.Obs = append(res.Obs, o)
		return nil
	}
	connect := func(n int) {
		s.logReconnect(n)
		r = startReader(n, g.nodes[n], s.resumeID(), true, true, 0)
		res.Reconnects++
	}
	disconnect := func() error {
		if r == nil {
			return nil
		}
		s.log(map[string]interface{}{"ev": "Disconnect"})
		err := stopReader(r, g.nodes[r.node])
		if r.sawGet {
			res.SawGet = true
		}
		r = nil
		s.wire = nil
		return err
	}
	for _, st := range p.Steps {
		cmd, _ := st[0].(string)
		note := ""
		switch cmd {
		case "add":
			n := toInt(st[1]) - 1
			k := s.applied[n] + 1
			if k > len(s.batches) {
				if len(st) < 3 {
					return fail(fmt.Errorf("program: add without content for new batch %d", k))
				}
				s.batches = append(s.batches, toInts(st[2]))
			}
			if r != nil && r.node == n {
				r.blocked = false
			}
			if err := s.add(n); err != nil {
				return fail(err)
			}
		case "conn":
			if r != nil {
				note = "already connected"
				break
			}
			connect(toInt(st[1]) - 1)
		case "g1", "g2", "step":
			// release the reader from the hook it is parked at
			if r == nil || r.parked == nil {
				note = "reader not parked"
				break
			}
			want := map[string]string{"g1": "getmessages.getnext", "g2": "getmessages.backoff"}[cmd]
			if want != "" && r.parked.point != want {
				note = "parked at " + r.parked.point
			}
			ev := r.parked
			r.parked = nil
			close(ev.release)
		case "wake":
			// the blocked GetNext returns by itself after Add; nothing to do
		case "send":
			if r == nil || len(r.arrived) == 0 {
				note = "nothing arrived"
				break
			}
			if len(s.wire) != 0 {
				note = "wire not empty"
			}
			s.wire = append(s.wire, r.arrived[0]...)
			r.arrived = r.arrived[1:]
		case "recv":
			if len(s.wire) == 0 {
				note = "wire empty"
				break
			}
			s.recvOne()
		case "disc":
			if err := disconnect(); err != nil {
				return fail(err)
			}
		default:
			return fail(fmt.Errorf("program: unknown command %q", cmd))
		}
		if err := observe(cmd, note); err != nil {
			return fail(err)
		}
		if res.Panic != "" {
			return res
		}
	}
	if p.Drain {
		// deterministic suffix: bring node 1 up to date, (re)connect to it if
		// necessary, run the reader until it blocks inside GetNext with
		// nothing in flight.  Then the client must have everything.
		if r == nil {
			connect(0)
		}
		n := r.node
		if _, err := settle(r, g, false); err != nil {
			return fail(err)
		}
		for s.applied[n] < len(s.batches) {
			r.blocked = false
			if err := s.add(n); err != nil {
				return fail(err)
			}
		}
		var lastBO *[2]robust.Id
		sameBO := 0
		handed := map[robust.Id]int{}
		for i := 0; ; i++ {
			if i > 200 {
				return fail(fmt.Errorf("drain did not reach quiescence in 200 rounds"))
			}
			st, err := settle(r, g, true)
			if err != nil {
				return fail(err)
			}
			if st == "panic" {
				res.Panic, _ = r.panicV.Load().(string)
				return res
			}
			if st == "exited" {
				return fail(fmt.Errorf("reader exited during drain"))
			}
			if len(r.arrived) > 0 || len(s.wire) > 0 {
				if len(s.wire) == 0 {
					s.wire = append(s.wire, r.arrived[0]...)
					r.arrived = r.arrived[1:]
					// the stream is static now: GetNext results must increase;
					// a reader handing over the same batch again and again
					// (lastSeen does not advance) never gets any further
					if len(s.wire) > 0 {
						handed[s.wire[0].Id]++
						if handed[s.wire[0].Id] >= 3 {
							res.Livelock = fmt.Sprintf("batch starting at %v handed over 3 times while node %d is static with all %d batches",
								s.wire[0].Id, n+1, len(s.batches))
							s.log(map[string]interface{}{"ev": "Livelock"})
							break
						}
					}
				}
				for len(s.wire) > 0 {
					s.recvOne()
				}
				if !s.prefixOK() {
					// outcome decided (duplicate / gap / foreign message)
					if err := disconnect(); err != nil {
						return fail(err)
					}
					return res
				}
				continue
			}
			if st == "blocked" {
				ok, err := probeBlocked(r, g)
				if err != nil {
					return fail(err)
				}
				if ok {
					break
				}
				continue
			}
			if st == "backoff" {
				res.Backoffs++
				// The node has applied everything and nothing changes any
				// more: a reader that enters the back-off again with the same
				// lastSeen for the same GetNext result is in a loop it cannot
				// leave (getMessages is deterministic in lastSeen + stream).
				if lastBO != nil && *lastBO == [2]robust.Id{r.parked.ls, r.parked.got} {
					sameBO++
				} else {
					sameBO = 0
				}
				lastBO = &[2]robust.Id{r.parked.ls, r.parked.got}
				if sameBO >= 2 {
					res.Livelock = fmt.Sprintf("lastSeen=%v GetNext result %v, 3 identical back-offs, node %d has applied all %d batches",
						r.parked.ls, r.parked.got, n+1, len(s.batches))
					s.log(map[string]interface{}{"ev": "Livelock"})
					break
				}
			}
			ev := r.parked
			r.parked = nil
			close(ev.release)
		}
		if res.Livelock != "" {
			if err := disconnect(); err != nil {
				return fail(err)
			}
			return res
		}
		s.log(map[string]interface{}{"ev": "Quiescent"})
		res.Complete = true
		if err := observe("end", "drained"); err != nil {
			return fail(err)
		}
	}
	if err := disconnect(); err != nil {
		return fail(err)
	}
	return res
}

// ---------------------------------------------------------------- random driver

type randParams struct {
	N      int   `json:"n"`
	Seed   int64 `json:"seed"`
	MaxK   int   `json:"maxk"`
	MaxRep int   `json:"maxrep"`
}

func runRandom(g *rig, id int, seed int64, maxK, maxRep int) (res *result) {
	rng := rand.New(rand.NewSource(seed))
	K := 2 + rng.Intn(maxK-1)
	stride := uint64(1)
	if rng.Intn(2) == 0 {
		stride = uint64(2 + rng.Intn(9))
	}
	s := g.newSession(stride, K+1)
	for k := 0; k < K; k++ {
		b := make([]int, 1+rng.Intn(maxRep))
		for i := range b {
			if rng.Intn(100) < 65 {
				b[i] = 1
			}
		}
		s.batches = append(s.batches, b)
	}
	res = &result{ID: id, Name: fmt.Sprintf("random-%d", seed)}
	var readers []*reader
	defer func() {
		res.Delivered = s.delivered
		if res.Delivered == nil {
			res.Delivered = [][2]int64{}
		}
		res.Batches = s.batches
		res.Events = s.events
		res.Bad = !s.prefixOK() || res.Livelock != "" || res.Panic != ""
	}()

	// adders: node a is "fast", node b lags (initial delay and/or a pause)
	var wg sync.WaitGroup
	lagNode := rng.Intn(2)
	for n := 0; n < 2; n++ {
		n := n
		ar := rand.New(rand.NewSource(seed*7 + int64(n)))
		wg.Add(1)
		go func() {
			defer wg.Done()
			if n == lagNode {
				time.Sleep(time.Duration(ar.Intn(6000)) * time.Microsecond)
			}
			pauseAt := -1
			if n == lagNode && ar.Intn(2) == 0 {
				pauseAt = 1 + ar.Intn(K)
			}
			for k := 1; k <= K; k++ {
				if k == pauseAt {
					time.Sleep(time.Duration(2000+ar.Intn(8000)) * time.Microsecond)
				}
				time.Sleep(time.Duration(ar.Intn(1500)) * time.Microsecond)
				if err := s.add(n); err != nil {
					return
				}
			}
		}()
	}

	expected := 0
	for _, b := range s.batches {
		for _, a := range b {
			expected += a
		}
	}
	deadline := time.Now().Add(2 * time.Second)
	pDisc := 0.10 + rng.Float64()*0.25
	conns := 0
	stop := func(r *reader) {
		s.log(map[string]interface{}{"ev": "Disconnect"})
		r.cancel()
		g.nodes[r.node].os.InterruptGetNext()
		s.wire = nil
	}
	for len(s.delivered) < expected && time.Now().Before(deadline) && conns < 12 {
		n := rng.Intn(2)
		if conns > 0 && rng.Intn(3) == 0 {
			n = lagNode
		}
		s.logReconnect(n)
		r := startReader(n, g.nodes[n], s.resumeID(), false, false, seed*31+int64(conns))
		readers = append(readers, r)
		conns++
	connLoop:
		for len(s.delivered) < expected {
			idle := time.Duration(300+rng.Intn(4000)) * time.Microsecond
			select {
			case msgs := <-r.ch:
				s.wire = append(s.wire[:0], msgs...)
				for len(s.wire) > 0 {
					s.recvOne()
					if rng.Float64() < pDisc && conns < 12 {
						break connLoop
					}
				}
			case <-time.After(idle):
				if rng.Intn(3) == 0 && conns < 12 {
					break connLoop
				}
				if time.Now().After(deadline) {
					break connLoop
				}
			case <-r.done:
				if v := r.panicV.Load(); v != nil {
					res.Panic, _ = v.(string)
					wg.Wait()
					return res
				}
				break connLoop
			}
		}
		stop(r)
		time.Sleep(time.Duration(rng.Intn(1500)) * time.Microsecond)
	}
	res.Reconnects = conns
	wg.Wait()
	// final connection: a node that has everything; read until the reader
	// blocks inside GetNext with nothing in flight
	for n := 0; n < 2; n++ {
		if s.applied[n] != K {
			res.Inconclusive = "adder failed"
			return res
		}
	}
	n := rng.Intn(2)
	s.logReconnect(n)
	r := startReader(n, g.nodes[n], s.resumeID(), false, true, seed*31+99)
	readers = append(readers, r)
	res.Reconnects++
	for {
		st, err := settle(r, g, true)
		if err != nil {
			res.Inconclusive = "final drain: " + err.Error()
			stop(r)
			return res
		}
		if st == "panic" {
			res.Panic, _ = r.panicV.Load().(string)
			return res
		}
		if st == "exited" {
			res.Inconclusive = "reader exited during final drain"
			return res
		}
		for _, msgs := range r.arrived {
			s.wire = append(s.wire[:0], msgs...)
			for len(s.wire) > 0 {
				s.recvOne()
			}
		}
		r.arrived = nil
		if !s.prefixOK() {
			stop(r)
			break
		}
		if st == "blocked" {
			// everything handed over before has been consumed; double-check
			ok, err := probeBlocked(r, g)
			if err != nil {
				res.Inconclusive = "final drain: " + err.Error()
				stop(r)
				return res
			}
			if ok {
				break
			}
		}
	}
	if s.prefixOK() {
		s.log(map[string]interface{}{"ev": "Quiescent"})
		res.Complete = true
		stop(r)
	}
	exitBy := time.After(exitBound)
	for _, rd := range readers {
		select {
		case <-rd.done:
		case <-exitBy:
			res.Inconclusive = "a cancelled reader did not exit"
			return res
		}
	}
	return res
}

// ---------------------------------------------------------------- entry points

func scratch(t *testing.T) string {
	d := os.Getenv("VERIF_SCRATCH")
	if d == "" {
		t.Fatal("VERIF_SCRATCH not set")
	}
	return d
}

func workers() int {
	w, _ := strconv.Atoi(os.Getenv("VERIF_WORKERS"))
	if w <= 0 {
		w = 8
	}
	return w
}

func TestMain(m *testing.M) {
	if d := os.Getenv("VERIF_SCRATCH"); d != "" {
		gd := filepath.Join(d, "glog")
		os.MkdirAll(gd, 0o755)
		flag.Set("log_dir", gd) // glog warnings of the back-off path: not into /tmp
	}
	verifhook.Fn = hookFn
	os.Exit(m.Run())
}

var failures int64

func runPool(t *testing.T, n int, job func(g *rig, i int) *result, outPath string) {
	dir := scratch(t)
	maxFail, _ := strconv.ParseInt(os.Getenv("VERIF_C04_MAXFAIL"), 10, 64)
	out, err := os.Create(outPath)
	if err != nil {
		t.Fatal(err)
	}
	defer out.Close()
	w := bufio.NewWriterSize(out, 1<<20)
	defer w.Flush()
	var mu sync.Mutex
	var wg sync.WaitGroup
	jobs := make(chan int)
	W := workers()
	for i := 0; i < W; i++ {
		g, err := newRig(filepath.Join(dir, fmt.Sprintf("rig-%d-%d", os.Getpid(), i)))
		if err != nil {
			t.Fatal(err)
		}
		wg.Add(1)
		go func() {
			defer wg.Done()
			defer g.close()
			for i := range jobs {
				var res *result
				if maxFail > 0 && atomic.LoadInt64(&failures) >= maxFail {
					// enough evidence against this tree; do not spend minutes
					// in back-off loops of a broken reader
					res = &result{ID: i, Skipped: true, Delivered: [][2]int64{}}
				} else {
					res = job(g, i)
					if res.Bad || res.Inconclusive != "" {
						atomic.AddInt64(&failures, 1)
					}
				}
				b, err := json.Marshal(res)
				if err != nil {
					b, _ = json.Marshal(&result{ID: res.ID, Inconclusive: "marshal: " + err.Error()})
				}
				mu.Lock()
				w.Write(b)
				w.WriteByte('\n')
				mu.Unlock()
			}
		}()
	}
	for i := 0; i < n; i++ {
		jobs <- i
	}
	close(jobs)
	wg.Wait()
}

// TestVerifC04Replay: VERIF_C04_PROGRAMS (nd-json of programs) -> VERIF_C04_OUT
func TestVerifC04Replay(t *testing.T) {
	in := os.Getenv("VERIF_C04_PROGRAMS")
	outp := os.Getenv("VERIF_C04_OUT")
	if in == "" || outp == "" {
		t.Skip("VERIF_C04_PROGRAMS / VERIF_C04_OUT not set")
	}
	f, err := os.Open(in)
	if err != nil {
		t.Fatal(err)
	}
	defer f.Close()
	var progs []*program
	sc := bufio.NewScanner(f)
	sc.Buffer(make([]byte, 1<<20), 1<<26)
	for sc.Scan() {
		if len(strings.TrimSpace(sc.Text())) == 0 {
			continue
		}
		p := &program{}
		if err := json.Unmarshal(sc.Bytes(), p); err != nil {
			t.Fatalf("bad program: %v", err)
		}
		progs = append(progs, p)
	}
	runPool(t, len(progs), func(g *rig, i int) *result { return runProgram(g, progs[i]) }, outp)
}

// TestVerifC04Random: VERIF_C04_RANDOM (json randParams) -> VERIF_C04_OUT
func TestVerifC04Random(t *testing.T) {
	ps := os.Getenv("VERIF_C04_RANDOM")
	outp := os.Getenv("VERIF_C04_OUT")
	if ps == "" || outp == "" {
		t.Skip("VERIF_C04_RANDOM / VERIF_C04_OUT not set")
	}
	var p randParams
	if err := json.Unmarshal([]byte(ps), &p); err != nil {
		t.Fatal(err)
	}
	if p.MaxK < 2 {
		p.MaxK = 6
	}
	if p.MaxRep < 1 {
		p.MaxRep = 3
	}
	runPool(t, p.N, func(g *rig, i int) *result {
		return runRandom(g, i, p.Seed*1000003+int64(i), p.MaxK, p.MaxRep)
	}, outp)
}

// ---------------------------------------------------------------- catch-up race (free running, real concurrency)

// TestVerifC04CatchUp: a client resumes with a lastseen this node does not have (compacted away here, or seen
// on another node) and that is newer than everything in the stream - GetNext takes the search path and finds
// nothing newer - while the node applies the next batch N; with true parallelism, tens of thousands of times,
// the delay between the two drawn at random.  Whatever the interleaving, the oldest batch newer than lastseen
// is N, and GetNext must hand out N (GetMessages.tla: the search and the choice of the batch to wait behind
// are one step); a reader that comes back with a later batch has skipped N.
// VERIF_C04_CATCHUP = {"rounds":..,"seed":..,"par":..} -> VERIF_C04_OUT (one record per worker)
func TestVerifC04CatchUp(t *testing.T) {
	ps := os.Getenv("VERIF_C04_CATCHUP")
	outp := os.Getenv("VERIF_C04_OUT")
	if ps == "" || outp == "" {
		t.Skip("VERIF_C04_CATCHUP / VERIF_C04_OUT not set")
	}
	var p struct {
		Rounds int   `json:"rounds"`
		Seed   int64 `json:"seed"`
		Par    int   `json:"par"`
	}
	if err := json.Unmarshal([]byte(ps), &p); err != nil {
		t.Fatal(err)
	}
	if p.Par < 1 {
		p.Par = 4
	}
	type rec struct {
		Name    string   `json:"name"`
		Rounds  int      `json:"rounds"`
		Waited  int      `json:"waited"` // rounds in which the reader was waiting when N arrived
		Skipped []string `json:"skipped"`
		Err     string   `json:"err,omitempty"`
	}
	recs := make([]rec, p.Par)
	var wg sync.WaitGroup
	for w := 0; w < p.Par; w++ {
		wg.Add(1)
		go func(w int) {
			defer wg.Done()
			rc := &recs[w]
			rc.Name = fmt.Sprintf("catchup-%d", w)
			dir, err := os.MkdirTemp(scratch(t), "catchup-")
			if err != nil {
				rc.Err = err.Error()
				return
			}
			defer os.RemoveAll(dir)
			o, err := outputstream.NewOutputStream(dir)
			if err != nil {
				rc.Err = err.Error()
				return
			}
			defer o.Close()
			batch := func(id uint64) []outputstream.Message {
				return []outputstream.Message{
					{Id: robust.Id{Id: id, Reply: 1}, Data: "PING :a", InterestingFor: map[uint64]bool{1: true}},
					{Id: robust.Id{Id: id, Reply: 2}, Data: "PING :b", InterestingFor: map[uint64]bool{1: true}},
				}
			}
			id := uint64(1000)
			if err := o.Add(batch(id)); err != nil {
				rc.Err = err.Error()
				return
			}
			r := rand.New(rand.NewSource(p.Seed*7919 + int64(w)))
			var sink uint64
			for round := 0; round < p.Rounds && len(rc.Skipped) < 5; round++ {
				n := id + 10
				ctx, cancel := context.WithCancel(context.Background())
				got := make(chan []outputstream.Message, 1)
				started := make(chan struct{})
				go func() {
					close(started)
					got <- o.GetNext(ctx, robust.Id{Id: n - 5, Reply: 1})
				}()
				<-started
				for s := r.Intn(4000); s > 0; s-- {
					atomic.AddUint64(&sink, 1)
				}
				if err := o.Add(batch(n)); err != nil {
					rc.Err = err.Error()
					cancel()
					return
				}
				id = n
				var msgs []outputstream.Message
				select {
				case msgs = <-got:
				case <-time.After(500 * time.Millisecond):
					// still waiting although N is there: what does it wait for?
					id = n + 10
					if err := o.Add(batch(id)); err != nil {
						rc.Err = err.Error()
						cancel()
						return
					}
					select {
					case msgs = <-got:
					case <-time.After(5 * time.Second):
						cancel()
						o.InterruptGetNext()
						msgs = <-got
						rc.Skipped = append(rc.Skipped, fmt.Sprintf("round %d: resumed with lastseen=%d.1 (not in the stream) while batch %d was being applied; batches %d and %d are applied and GetNext delivers neither", round, n-5, n, n, id))
						rc.Rounds++
						continue
					}
				}
				cancel()
				rc.Rounds++
				if len(msgs) == 0 {
					rc.Skipped = append(rc.Skipped, fmt.Sprintf("round %d: GetNext(lastseen=%d.1) returned nothing although it was not cancelled", round, n-5))
					continue
				}
				switch first := msgs[0].Id.Id; {
				case first == n:
					rc.Waited++
				case first > n:
					rc.Skipped = append(rc.Skipped, fmt.Sprintf("round %d: resumed with lastseen=%d.1 (not in the stream) while batch %d was being applied; the next batch delivered is %d: batch %d is lost", round, n-5, n, first, n))
				default:
					rc.Skipped = append(rc.Skipped, fmt.Sprintf("round %d: GetNext(lastseen=%d.1) went back to batch %d", round, n-5, first))
				}
			}
		}(w)
	}
	wg.Wait()
	f, err := os.Create(outp)
	if err != nil {
		t.Fatal(err)
	}
	defer f.Close()
	enc := json.NewEncoder(f)
	for _, rc := range recs {
		enc.Encode(rc)
	}
}
