// C19 harness (package timesafeguard, injected with -overlay by /verif/checks/c19.py).
//
// TestVerifC19Cases   explicit cases (TLC-generated grid behaviours, +-1 ns
//
//	threshold cases, lattice random cases) -> real
//	synchronizedWithNetwork / timeInSync; ND-JSON out.
//
// TestVerifC19Bulk    seeded random nanosecond-resolution cases (huge offsets,
//
//	negative, huge delays), judged in-process with exact
//	(math/big) arithmetic; first K cases and every anomaly
//	are written out for independent re-judging.
//
// TestVerifC19Net     the exported entry points that main() calls
//
//	(SynchronizedWithNetwork, SynchronizedWithMasterAndNetwork)
//	against in-process HTTPS status servers with shifted
//	clocks and dead peers.
//
// The harness only records; verdicts are drawn by the Python side (and TLC).
package timesafeguard

import (
	"bufio"
	"bytes"
	"encoding/json"
	"encoding/pem"
	"flag"
	"fmt"
	"io"
	"log"
	"math/big"
	"math/rand"
	"net"
	"net/http"
	"net/http/httptest"
	"os"
	"os/exec"
	"path/filepath"
	"sort"
	"strconv"
	"strings"
	"sync"
	"testing"
	"time"
)

// local clock at the start of a measurement with start = 0 (2026-01-01T00:00:00Z)
const c19BaseUnix = 1767225600

const c19Marker = "Conflicting remote times: "

type c19InPeer struct {
	Zero bool `json:"zero"`
	// NoResult (with Zero): the peer was reached but supplied no time, i.e.
	// Start and End are set and Result is the zero time; without it a zero
	// slot is the all-zero timeResult that collectTime leaves on an error.
	NoResult bool  `json:"noresult,omitempty"`
	Start    int64 `json:"start"`
	Delta    int64 `json:"delta"`
	D1       int64 `json:"d1"`
	D2       int64 `json:"d2"`
}

type c19InCase struct {
	ID     int         `json:"id"`
	Kind   string      `json:"kind"`
	Flag   bool        `json:"flag"`
	UnitNs int64       `json:"unit_ns"`
	Et     int64       `json:"et"`
	Meas   []c19InPeer `json:"meas"`
	// Raw, if present, replaces Meas: nanosecond-resolution inputs of any size
	// (replay of a bulk case).
	Raw []c19BulkPeer `json:"raw,omitempty"`
}

type c19OutPeer struct {
	Zero   bool     `json:"zero"`
	S      [2]int64 `json:"s"`          // Start  (unix sec, nsec)
	E      [2]int64 `json:"e"`          // End
	R      [2]int64 `json:"r"`          // Result
	DriftR string   `json:"drift_real"` // what the real worstCaseDrift() returned, ns
	Str    string   `json:"str,omitempty"`
}

type c19Call struct {
	Verdict string `json:"verdict"` // "join" | "refuse" | "panic"
	Named   []int  `json:"named"`   // 1-based slots named in the error, -1 = a line naming nobody we passed
	InSync  bool   `json:"in_sync"` // real timeInSync over the non-zero results
	Err     string `json:"err,omitempty"`
}

type c19OutCase struct {
	ID    int          `json:"id"`
	Kind  string       `json:"kind"`
	Flag  bool         `json:"flag"`
	Peers []c19OutPeer `json:"peers"`
	Full  c19Call      `json:"full"`     // call with every slot
	Ans   c19Call      `json:"answered"` // call with the non-answering slots removed (named mapped back to the original slots)
}

func c19Scratch(t *testing.T) string {
	d := os.Getenv("VERIF_SCRATCH")
	if d == "" {
		t.Skip("VERIF_SCRATCH not set: C19 harness is driven by /verif/check")
	}
	return d
}

func c19Seed() int64 {
	s, err := strconv.ParseInt(os.Getenv("VERIF_SEED"), 10, 64)
	if err != nil {
		return 1
	}
	return s
}

func c19SecNs(t time.Time) [2]int64 {
	return [2]int64{t.Unix(), int64(t.Nanosecond())}
}

// shift adds an arbitrary-size nanosecond offset to t without going through
// time.Duration.
func c19Shift(t time.Time, ns *big.Int) time.Time {
	q, r := new(big.Int).QuoRem(ns, big.NewInt(1000000000), new(big.Int))
	return time.Unix(t.Unix()+q.Int64(), int64(t.Nanosecond())+r.Int64()).UTC()
}

// c19Measure builds what getServerTime would have returned: the peer read its
// clock (true offset deltaNs) d1 after Start, the answer was decoded d2 later.
func c19Measure(start time.Time, deltaNs *big.Int, d1, d2 time.Duration) timeResult {
	atPeer := start.Add(d1)
	return timeResult{
		Start:  start,
		End:    atPeer.Add(d2),
		Result: c19Shift(atPeer, deltaNs),
	}
}

// c19Call calls the real decision function with the given flag setting.
func c19CallReal(results []timeResult, disabled bool) (call c19Call) {
	return c19CallRealLog(results, disabled, false)
}

// with captureLog, the offenders that a disabled safeguard only logs are
// parsed from the log output and reported in Named of a "join".
func c19CallRealLog(results []timeResult, disabled bool, captureLog bool) (call c19Call) {
	old := *DisableTimesafeguard
	*DisableTimesafeguard = disabled
	defer func() { *DisableTimesafeguard = old }()
	var logbuf bytes.Buffer
	if captureLog {
		log.SetOutput(&logbuf)
		defer log.SetOutput(io.Discard)
	}
	defer func() {
		if r := recover(); r != nil {
			call.Verdict = "panic"
			call.Err = fmt.Sprint(r)
		}
	}()
	var nonZero []timeResult
	for _, r := range results {
		if !r.Result.IsZero() {
			nonZero = append(nonZero, r)
		}
	}
	call.InSync = timeInSync(nonZero)
	call.Named = []int{}
	err := synchronizedWithNetwork(results)
	if err == nil {
		call.Verdict = "join"
		if captureLog {
			if txt := logbuf.String(); strings.Contains(txt, c19Marker) {
				call.Named = c19Named(strings.TrimRight(txt, "\n"), results)
			}
		}
		return call
	}
	call.Verdict = "refuse"
	call.Err = err.Error()
	call.Named = c19Named(call.Err, results)
	return call
}

// c19Named maps the lines after "Conflicting remote times: " back to slots.
func c19Named(text string, results []timeResult) []int {
	named := []int{}
	used := make([]bool, len(results))
	strs := make([]string, len(results))
	for i := range results {
		strs[i] = results[i].String()
	}
	idx := strings.Index(text, c19Marker)
	if idx < 0 {
		// unknown wording: fall back to substring search
		for i, s := range strs {
			if strings.Contains(text, s) {
				named = append(named, i+1)
			}
		}
		return named
	}
	rest := text[idx+len(c19Marker):]
	if rest == "" {
		return named
	}
	for _, line := range strings.Split(rest, "\n") {
		found := false
		for i, s := range strs {
			if !used[i] && s == line {
				used[i] = true
				named = append(named, i+1)
				found = true
				break
			}
		}
		if !found {
			named = append(named, -1)
		}
	}
	return named
}

// c19Both calls the real code on all slots and on the answering slots only.
func c19Both(results []timeResult, zero []bool, disabled bool, captureLog bool) (full, ans c19Call) {
	full = c19CallRealLog(results, disabled, captureLog)
	var only []timeResult
	var back []int
	for i, r := range results {
		if !zero[i] {
			only = append(only, r)
			back = append(back, i+1)
		}
	}
	ans = c19CallRealLog(only, disabled, captureLog)
	for k, v := range ans.Named {
		if v >= 1 && v <= len(back) {
			ans.Named[k] = back[v-1]
		}
	}
	return full, ans
}

func c19OutPeers(results []timeResult, zero []bool, withStr bool) []c19OutPeer {
	out := make([]c19OutPeer, len(results))
	for i, r := range results {
		out[i] = c19OutPeer{Zero: zero[i], S: c19SecNs(r.Start), E: c19SecNs(r.End), R: c19SecNs(r.Result),
			DriftR: strconv.FormatInt(int64(r.worstCaseDrift()), 10)}
		if zero[i] {
			out[i].S, out[i].E, out[i].R = [2]int64{}, [2]int64{}, [2]int64{}
		}
		if withStr {
			out[i].Str = r.String()
		}
	}
	return out
}

func TestVerifC19Cases(t *testing.T) {
	scratch := c19Scratch(t)
	in := os.Getenv("VERIF_C19_CASES")
	if in == "" {
		t.Skip("VERIF_C19_CASES not set")
	}
	log.SetOutput(io.Discard)
	if ElectionTimeout != 2*time.Second {
		// the scaling unit_ns * et = 2 s is chosen by the Python side from this value
		t.Logf("note: ElectionTimeout is %v", ElectionTimeout)
	}
	fin, err := os.Open(in)
	if err != nil {
		t.Fatal(err)
	}
	defer fin.Close()
	fout, err := os.Create(filepath.Join(scratch, "c19_cases_out.ndjson"))
	if err != nil {
		t.Fatal(err)
	}
	w := bufio.NewWriterSize(fout, 1<<20)
	enc := json.NewEncoder(w)
	sc := bufio.NewScanner(fin)
	sc.Buffer(make([]byte, 1<<20), 1<<24)
	n := 0
	base := time.Unix(c19BaseUnix, 0).UTC()
	for sc.Scan() {
		if len(sc.Bytes()) == 0 {
			continue
		}
		var c c19InCase
		if err := json.Unmarshal(sc.Bytes(), &c); err != nil {
			t.Fatalf("bad case line %q: %v", sc.Text(), err)
		}
		unit := big.NewInt(c.UnitNs)
		np := len(c.Meas)
		if c.Raw != nil {
			np = len(c.Raw)
		}
		results := make([]timeResult, np)
		zero := make([]bool, np)
		for i := 0; i < np; i++ {
			if c.Raw != nil {
				p := c.Raw[i]
				zero[i] = p.Zero
				if p.Zero {
					if p.NoResult {
						st := time.Unix(p.S[0], p.S[1]).UTC()
						results[i] = timeResult{Start: st, End: st.Add(time.Duration(p.D1)).Add(time.Duration(p.D2))}
					}
					continue
				}
				delta, ok := new(big.Int).SetString(p.DeltaNs, 10)
				if !ok {
					t.Fatalf("bad delta_ns %q", p.DeltaNs)
				}
				results[i] = c19Measure(time.Unix(p.S[0], p.S[1]).UTC(), delta, time.Duration(p.D1), time.Duration(p.D2))
				continue
			}
			p := c.Meas[i]
			zero[i] = p.Zero
			if p.Zero {
				if p.NoResult {
					st := c19Shift(base, new(big.Int).Mul(big.NewInt(p.Start), unit))
					results[i] = timeResult{Start: st, End: st.Add(time.Duration((p.D1 + p.D2) * c.UnitNs))}
				}
				continue // otherwise the zero timeResult, as collectTime leaves it
			}
			start := c19Shift(base, new(big.Int).Mul(big.NewInt(p.Start), unit))
			delta := new(big.Int).Mul(big.NewInt(p.Delta), unit)
			results[i] = c19Measure(start, delta, time.Duration(p.D1*c.UnitNs), time.Duration(p.D2*c.UnitNs))
		}
		full, ans := c19Both(results, zero, c.Flag, true)
		out := c19OutCase{ID: c.ID, Kind: c.Kind, Flag: c.Flag, Peers: c19OutPeers(results, zero, false), Full: full, Ans: ans}
		if err := enc.Encode(&out); err != nil {
			t.Fatal(err)
		}
		n++
	}
	if err := sc.Err(); err != nil {
		t.Fatal(err)
	}
	if err := w.Flush(); err != nil {
		t.Fatal(err)
	}
	if err := fout.Close(); err != nil {
		t.Fatal(err)
	}
	meta := map[string]interface{}{"cases": n, "election_timeout_ns": int64(ElectionTimeout)}
	b, _ := json.Marshal(meta)
	if err := os.WriteFile(filepath.Join(scratch, "c19_cases_meta.json"), b, 0644); err != nil {
		t.Fatal(err)
	}
}

// ---------------------------------------------------------------- bulk random

type c19BulkPeer struct {
	Zero     bool     `json:"zero"`
	NoResult bool     `json:"noresult,omitempty"`
	S        [2]int64 `json:"s"`
	DeltaNs  string   `json:"delta_ns"`
	D1       int64    `json:"d1_ns"`
	D2       int64    `json:"d2_ns"`
}

type c19BulkCase struct {
	ID    int           `json:"id"`
	Flag  bool          `json:"flag"`
	In    []c19BulkPeer `json:"in"`
	Peers []c19OutPeer  `json:"peers"`
	Full  c19Call       `json:"full"`
	Ans   c19Call       `json:"answered"`
	Why   []string      `json:"why,omitempty"` // the in-process judge's findings
}

var (
	c19Two63 = new(big.Int).Lsh(big.NewInt(1), 63)
	c19Year  = int64(365*24+6) * int64(time.Hour) // 365.25 days
)

func c19RandDelta(rng *rand.Rand, start time.Time, et int64) *big.Int {
	sign := int64(1)
	if rng.Intn(2) == 0 {
		sign = -1
	}
	var d *big.Int
	switch k := rng.Intn(100); {
	case k < 30: // within a few election timeouts
		d = big.NewInt(rng.Int63n(2*et + 1))
	case k < 45: // +-5 ns around the threshold
		d = big.NewInt(et - 5 + rng.Int63n(11))
	case k < 60: // up to two days
		d = big.NewInt(rng.Int63n(48 * int64(time.Hour)))
	case k < 70: // up to 250 years
		d = big.NewInt(rng.Int63n(250 * c19Year))
	case k < 80: // around the largest time.Duration (about 292.47 years)
		d = new(big.Int).Add(c19Two63, big.NewInt(rng.Int63n(2*int64(time.Hour))-int64(time.Hour)))
	default: // anything a peer can report in JSON (years 0001..9999)
		// Result = Start + d1 + delta must stay within years 0001..9999 (d1 <= 100 years)
		lo := time.Date(1, 1, 1, 0, 0, 1, 0, time.UTC).Unix() - start.Unix() + 400*24*3600
		hi := time.Date(9999, 1, 1, 0, 0, 0, 0, time.UTC).Unix() - start.Unix() - 101*366*24*3600
		var sec int64
		if sign < 0 {
			sec = -rng.Int63n(-lo)
		} else {
			sec = rng.Int63n(hi)
		}
		d = new(big.Int).Mul(big.NewInt(sec), big.NewInt(1000000000))
		d.Add(d, big.NewInt(rng.Int63n(1000000000)*sign))
		return d
	}
	if sign < 0 {
		d.Neg(d)
	}
	return d
}

func c19RandDelay(rng *rand.Rand, et int64) int64 {
	switch k := rng.Intn(100); {
	case k < 25:
		return 0
	case k < 55:
		return rng.Int63n(int64(time.Millisecond))
	case k < 80:
		return rng.Int63n(et + et/2)
	case k < 95:
		return rng.Int63n(int64(time.Hour))
	default:
		return rng.Int63n(100 * c19Year)
	}
}

func c19Sorted(x []int) string {
	y := append([]int{}, x...)
	sort.Ints(y)
	return fmt.Sprint(y)
}

func c19Abs(x *big.Int) *big.Int { return new(big.Int).Abs(x) }

func TestVerifC19Bulk(t *testing.T) {
	scratch := c19Scratch(t)
	n, _ := strconv.Atoi(os.Getenv("VERIF_C19_N"))
	if n <= 0 {
		t.Skip("VERIF_C19_N not set")
	}
	keep, _ := strconv.Atoi(os.Getenv("VERIF_C19_KEEP"))
	log.SetOutput(io.Discard)
	rng := rand.New(rand.NewSource(c19Seed()))
	et := int64(2 * time.Second) // the property's 2 s, NOT the package constant
	etB := big.NewInt(et)
	fout, err := os.Create(filepath.Join(scratch, "c19_bulk_out.ndjson"))
	if err != nil {
		t.Fatal(err)
	}
	w := bufio.NewWriterSize(fout, 1<<20)
	enc := json.NewEncoder(w)
	counts := map[string]int{}
	anomaliesKept := 0
	for id := 0; id < n; id++ {
		np := 1 + rng.Intn(3)
		disabled := rng.Intn(4) == 0
		results := make([]timeResult, np)
		zero := make([]bool, np)
		in := make([]c19BulkPeer, np)
		trueBad := make([]bool, np)                                                              // |delta| >= 2 s
		measBad := make([]bool, np)                                                              // exact |Result-Start| + (End-Start) >= 2 s
		start0 := time.Unix(946684800+rng.Int63n(100*365*24*3600), rng.Int63n(1000000000)).UTC() // 2000..2100
		for i := 0; i < np; i++ {
			if rng.Intn(100) < 15 {
				zero[i] = true
				in[i] = c19BulkPeer{Zero: true, DeltaNs: "0"}
				if rng.Intn(2) == 0 {
					// reached, but no time in the answer
					d1 := c19RandDelay(rng, et)
					results[i] = timeResult{Start: start0, End: start0.Add(time.Duration(d1))}
					in[i] = c19BulkPeer{Zero: true, NoResult: true, S: c19SecNs(start0), DeltaNs: "0", D1: d1}
				}
				continue
			}
			start := start0.Add(time.Duration(rng.Int63n(int64(time.Second))))
			var delta *big.Int
			d1 := c19RandDelay(rng, et)
			d2 := c19RandDelay(rng, et)
			if rng.Intn(100) < 25 {
				// aim at the decision boundary: |d1+delta| + d1 + d2 = 2 s + [-2, 2] ns
				d1 = rng.Int63n(et / 2)
				room := et - 2*d1
				a := rng.Int63n(room + 1) // |d1+delta|
				d2 = room - a + rng.Int63n(5) - 2
				if d2 < 0 {
					d2 = 0
				}
				if rng.Intn(2) == 0 {
					delta = big.NewInt(a - d1)
				} else {
					delta = big.NewInt(-a - d1)
				}
			} else {
				delta = c19RandDelta(rng, start, et)
			}
			results[i] = c19Measure(start, delta, time.Duration(d1), time.Duration(d2))
			in[i] = c19BulkPeer{S: c19SecNs(start), DeltaNs: delta.String(), D1: d1, D2: d2}
			trueBad[i] = c19Abs(delta).Cmp(etB) >= 0
			drift := c19Abs(new(big.Int).Add(delta, big.NewInt(d1)))
			drift.Add(drift, big.NewInt(d1)).Add(drift, big.NewInt(d2))
			measBad[i] = drift.Cmp(etB) >= 0
		}
		full := c19CallReal(results, disabled)
		ans := full
		hasZero := false
		for _, z := range zero {
			hasZero = hasZero || z
		}
		if hasZero {
			full, ans = c19Both(results, zero, disabled, false)
		}
		// in-process judge (the property predicates; the Python side re-judges
		// every record that is written out)
		var why []string
		anyTrueBad, anyMeasBad := false, false
		expNamed := []int{}
		for i := 0; i < np; i++ {
			if zero[i] {
				continue
			}
			anyTrueBad = anyTrueBad || trueBad[i]
			if measBad[i] {
				anyMeasBad = true
				expNamed = append(expNamed, i+1)
			}
		}
		switch full.Verdict {
		case "join":
			if !disabled && anyTrueBad {
				why = append(why, "sound")
			}
		case "refuse":
			if disabled {
				why = append(why, "disabled-refuses")
			}
			got := append([]int{}, full.Named...)
			sort.Ints(got)
			if fmt.Sprint(got) != fmt.Sprint(expNamed) || len(got) == 0 {
				why = append(why, "names")
			}
		default:
			why = append(why, "panic")
		}
		if full.Verdict != ans.Verdict || c19Sorted(full.Named) != c19Sorted(ans.Named) {
			why = append(why, "non-answering")
		}
		modelVerdict := "join"
		if anyMeasBad && !disabled {
			modelVerdict = "refuse"
		}
		if full.Verdict != modelVerdict {
			why = append(why, "model-mismatch")
		}
		counts["n"]++
		counts["verdict_"+full.Verdict]++
		if full.Verdict == "refuse" && !anyTrueBad {
			counts["conservative_refusals"]++
		}
		if hasZero {
			counts["with_non_answering"]++
		}
		if disabled {
			counts["disabled"]++
		}
		for _, y := range why {
			counts["why_"+y]++
		}
		write := id < keep
		if len(why) > 0 && anomaliesKept < 200 {
			anomaliesKept++
			write = true
		}
		if write {
			rec := c19BulkCase{ID: id, Flag: disabled, In: in, Peers: c19OutPeers(results, zero, len(why) > 0), Full: full, Ans: ans, Why: why}
			if err := enc.Encode(&rec); err != nil {
				t.Fatal(err)
			}
			counts["written"]++
		}
	}
	if err := w.Flush(); err != nil {
		t.Fatal(err)
	}
	if err := fout.Close(); err != nil {
		t.Fatal(err)
	}
	b, _ := json.Marshal(counts)
	if err := os.WriteFile(filepath.Join(scratch, "c19_bulk_summary.json"), b, 0644); err != nil {
		t.Fatal(err)
	}
}

// ---------------------------------------------------------------- network level

type c19Node struct {
	srv    *httptest.Server
	addr   string
	offset time.Duration
	noTime bool          // answers, but without CurrentTime
	delay  time.Duration // request/response delay of this peer
	peers  []string
	hits   int
	mu     sync.Mutex
}

func (nd *c19Node) ServeHTTP(w http.ResponseWriter, r *http.Request) {
	nd.mu.Lock()
	nd.hits++
	nd.mu.Unlock()
	if nd.delay > 0 {
		time.Sleep(nd.delay / 2)
	}
	now := time.Now().Add(nd.offset)
	if nd.delay > 0 {
		time.Sleep(nd.delay / 2)
	}
	w.Header().Set("Content-Type", "application/json")
	if nd.noTime {
		json.NewEncoder(w).Encode(map[string]interface{}{"State": "Follower", "Peers": nd.peers})
		return
	}
	json.NewEncoder(w).Encode(map[string]interface{}{
		"State":       "Follower",
		"Leader":      "",
		"Peers":       nd.peers,
		"CurrentTime": now,
	})
}

// marks a peer that answers without a time in the scenario table
const c19NoTime = time.Duration(-1 << 62)

type c19NetOut struct {
	Name    string   `json:"name"`
	Entry   string   `json:"entry"` // which exported function
	Flag    bool     `json:"flag"`
	Offsets []string `json:"offsets"` // per peer: true offset or "dead"
	OffNs   []int64  `json:"offsets_ns"`
	Dead    []bool   `json:"dead"`
	Verdict string   `json:"verdict"`
	Err     string   `json:"err,omitempty"`
	Hits    []int    `json:"hits"`
	WallMs  int64    `json:"wall_ms"`
}

func TestVerifC19Net(t *testing.T) {
	scratch := c19Scratch(t)
	if os.Getenv("VERIF_C19_NET") == "" {
		t.Skip("VERIF_C19_NET not set")
	}
	log.SetOutput(io.Discard)
	flag.Set("logtostderr", "true") // glog must not create files in the temp dir
	var enc *json.Encoder
	if os.Getenv("VERIF_C19_NET_ONE") == "" { // the children must not truncate the parent's output
		fout, err := os.Create(filepath.Join(scratch, "c19_net_out.ndjson"))
		if err != nil {
			t.Fatal(err)
		}
		defer fout.Close()
		enc = json.NewEncoder(fout)
	}

	const self = "127.0.0.1:1"
	const pw = "verif"
	slowPeers := map[string]map[int]time.Duration{} // scenario name -> per-peer delay (overrides delay)
	type scen struct {
		name    string
		flag    bool
		offsets []time.Duration // index 0 is the join target for the "master" entry point
		dead    []bool
		delay   time.Duration // answering peers take this long (the refused connections do not)
	}
	h := time.Hour
	s := time.Second
	scens := []scen{
		{"all-healthy", false, []time.Duration{0, 0, 0}, []bool{false, false, false}, 0},
		{"first-ahead-1h", false, []time.Duration{h, 0, 0}, []bool{false, false, false}, 0},
		{"last-ahead-1h", false, []time.Duration{0, 0, h}, []bool{false, false, false}, 0},
		{"first-behind-1h", false, []time.Duration{-h, 0, 0}, []bool{false, false, false}, 0},
		{"middle-behind-3s", false, []time.Duration{0, -3 * s, 0}, []bool{false, false, false}, 0},
		{"last-ahead-3s", false, []time.Duration{0, 0, 3 * s}, []bool{false, false, false}, 0},
		{"first-ahead-3s", false, []time.Duration{3 * s, 0, 0}, []bool{false, false, false}, 0},
		{"healthy-one-dead", false, []time.Duration{0, 0, 0}, []bool{false, false, true}, 0},
		{"healthy-two-dead", false, []time.Duration{0, 0, 0}, []bool{false, true, true}, 0},
		{"ahead-1h-one-dead", false, []time.Duration{0, h, 0}, []bool{false, false, true}, 0},
		{"behind-1h-other-dead", false, []time.Duration{-h, 0, 0}, []bool{false, true, false}, 0},
		{"healthy-one-without-time", false, []time.Duration{0, 0, c19NoTime}, []bool{false, false, false}, 0},
		{"ahead-3s-one-without-time", false, []time.Duration{0, 3 * s, c19NoTime}, []bool{false, false, false}, 0},
		{"disabled-ahead-1h", true, []time.Duration{h, 0, -h}, []bool{false, false, false}, 0},
		{"disabled-healthy", true, []time.Duration{0, 0, 0}, []bool{false, false, false}, 0},
	}
	// the same situations with slow answers: a peer that fails fast must not make the answers of the slow
	// ones disappear (all request/response delays are in the property's scope; delays stay far below the
	// election timeout so that the expected verdict is the same)
	for _, sc := range append([]scen{}, scens...) {
		slow := sc
		slow.name += "-slow"
		slow.delay = 160 * time.Millisecond
		scens = append(scens, slow)
	}
	// more peers than any plausible batch of parallel requests: the first, a middle and the last one are off
	many := func(name string, bad int, off time.Duration) scen {
		o := make([]time.Duration, 19)
		o[bad] = off
		return scen{name: name, offsets: o, dead: make([]bool, 19)}
	}
	scens = append(scens, many("19-peers-first-ahead-1h", 0, h), many("19-peers-second-ahead-1h", 1, h),
		many("19-peers-seventeenth-behind-1h", 17, -h), many("19-peers-last-ahead-3s", 18, 3*s), many("19-peers-healthy", 3, 0))
	// one peer answers, but takes longer than the election timeout to do so, and its clock is off: an answer
	// that arrives late is still an answer (the measurement only gets less precise)
	scens = append(scens,
		scen{name: "very-slow-peer-ahead-1h", offsets: []time.Duration{0, h, 0}, dead: []bool{false, false, false}},
		scen{name: "very-slow-peer-behind-1h", offsets: []time.Duration{0, 0, -h}, dead: []bool{false, false, false}})
	slowPeers["very-slow-peer-ahead-1h"] = map[int]time.Duration{1: 2300 * time.Millisecond}
	slowPeers["very-slow-peer-behind-1h"] = map[int]time.Duration{2: 2300 * time.Millisecond}
	// Every (scenario, entry point) runs in a child process of this test binary: the code under test ends the
	// process (log.Fatalf) when it cannot reach the join target, and a tree that leaves requests in flight must
	// not disturb the next scenario.  The child writes its record before the call (verdict "exit") and again
	// after it; the parent copies the last one.
	one := os.Getenv("VERIF_C19_NET_ONE")
	if one == "" {
		for si, sc := range scens {
			for _, entry := range []string{"SynchronizedWithNetwork", "SynchronizedWithMasterAndNetwork"} {
				tmp := filepath.Join(scratch, "c19_net_one.json")
				os.Remove(tmp)
				cmd := exec.Command(os.Args[0], "-test.run", "^TestVerifC19Net$")
				cmd.Env = append(os.Environ(), fmt.Sprintf("VERIF_C19_NET_ONE=%d:%s", si, entry), "VERIF_C19_NET_ONE_OUT="+tmp)
				cout, cerr := cmd.CombinedOutput()
				b, err := os.ReadFile(tmp)
				if err != nil {
					t.Fatalf("scenario %s/%s: child left no record (%v): %s", sc.name, entry, cerr, cout)
				}
				var out c19NetOut
				if err := json.Unmarshal(b, &out); err != nil {
					t.Fatalf("scenario %s/%s: bad record: %v", sc.name, entry, err)
				}
				if out.Verdict == "exit" {
					out.Err = fmt.Sprintf("the process ended inside the call (%v)", cerr)
				}
				if err := enc.Encode(&out); err != nil {
					t.Fatal(err)
				}
			}
		}
		return
	}
	writeOne := func(out *c19NetOut) {
		b, _ := json.Marshal(out)
		tmp := os.Getenv("VERIF_C19_NET_ONE_OUT")
		if err := os.WriteFile(tmp+".new", b, 0644); err != nil {
			t.Fatal(err)
		}
		if err := os.Rename(tmp+".new", tmp); err != nil {
			t.Fatal(err)
		}
	}
	for si, sc := range scens {
		for _, entry := range []string{"SynchronizedWithNetwork", "SynchronizedWithMasterAndNetwork"} {
			if one != fmt.Sprintf("%d:%s", si, entry) {
				continue
			}
			nodes := make([]*c19Node, len(sc.offsets))
			addrs := make([]string, len(sc.offsets))
			for i := range sc.offsets {
				nd := &c19Node{offset: sc.offsets[i], delay: sc.delay}
				if d, ok := slowPeers[sc.name][i]; ok {
					nd.delay = d
				}
				if sc.offsets[i] == c19NoTime {
					nd.offset, nd.noTime = 0, true
				}
				if sc.dead[i] && !(entry == "SynchronizedWithMasterAndNetwork" && i == 0) {
					// a port nobody listens on: connection refused
					l, err := net.Listen("tcp", "127.0.0.1:0")
					if err != nil {
						t.Fatal(err)
					}
					nd.addr = l.Addr().String()
					l.Close()
				} else {
					nd.srv = httptest.NewUnstartedServer(nd)
					nd.srv.Config.ErrorLog = log.New(io.Discard, "", 0)
					nd.srv.StartTLS()
					nd.addr = nd.srv.Listener.Addr().String()
					if i == 0 {
						ca := filepath.Join(scratch, "c19_ca.pem")
						b := pem.EncodeToMemory(&pem.Block{Type: "CERTIFICATE", Bytes: nd.srv.Certificate().Raw})
						if err := os.WriteFile(ca, b, 0644); err != nil {
							t.Fatal(err)
						}
						if err := flag.Set("tls_ca_file", ca); err != nil {
							t.Fatalf("flag tls_ca_file: %v", err)
						}
					}
				}
				nodes[i] = nd
				addrs[i] = nd.addr
			}
			all := append([]string{self}, addrs...)
			for _, nd := range nodes {
				nd.peers = all
			}
			out := c19NetOut{Name: sc.name, Entry: entry, Flag: sc.flag}
			for i := range sc.offsets {
				dead := (sc.dead[i] && nodes[i].srv == nil) || nodes[i].noTime
				out.Dead = append(out.Dead, dead)
				out.OffNs = append(out.OffNs, int64(nodes[i].offset))
				if nodes[i].noTime {
					out.Offsets = append(out.Offsets, "no-time")
				} else if dead {
					out.Offsets = append(out.Offsets, "dead")
				} else {
					out.Offsets = append(out.Offsets, sc.offsets[i].String())
				}
			}
			out.Verdict = "exit"
			writeOne(&out)
			func() {
				old := *DisableTimesafeguard
				*DisableTimesafeguard = sc.flag
				defer func() { *DisableTimesafeguard = old }()
				defer func() {
					if r := recover(); r != nil {
						out.Verdict = "panic"
						out.Err = fmt.Sprint(r)
					}
				}()
				t0 := time.Now()
				var err error
				if entry == "SynchronizedWithNetwork" {
					err = SynchronizedWithNetwork(self, all, pw)
				} else {
					err = SynchronizedWithMasterAndNetwork(self, addrs[0], pw)
				}
				out.WallMs = int64(time.Since(t0) / time.Millisecond)
				if err == nil {
					out.Verdict = "join"
				} else {
					out.Verdict = "refuse"
					out.Err = err.Error()
				}
			}()
			for _, nd := range nodes {
				nd.mu.Lock()
				out.Hits = append(out.Hits, nd.hits)
				nd.mu.Unlock()
				if nd.srv != nil {
					nd.srv.Close()
				}
			}
			writeOne(&out)
		}
	}
}
