// C19, call sites: runs the REAL robustirc binary (built from the current tree
// by /verif/checks/c19.py, path in VERIF_C19_BIN) against in-process HTTPS
// peers whose clocks are shifted, and observes what main() does at its two
// time-safeguard call sites:
//
//   restart  a raft directory that already knows the peers, no -join:
//            SynchronizedWithNetwork must stop the process before raft starts
//   join     -join=<master>: SynchronizedWithMasterAndNetwork must stop the
//            process before joinMaster POSTs /join
//
// Outcome per scenario: "refused" (process exited, "refusing to join network"
// in its output), "proceeded" (join: the master received POST /join; restart:
// the node opened its listener, which main() does after raft.NewRaft),
// "exited-other", "timeout".  Verdicts are drawn by the Python side.
package timesafeguard

import (
	"bytes"
	"crypto/ecdsa"
	"crypto/elliptic"
	"crypto/tls"
	crand "crypto/rand"
	"crypto/x509"
	"crypto/x509/pkix"
	"encoding/json"
	"encoding/pem"
	"fmt"
	"io"
	"log"
	"math/big"
	"net"
	"net/http"
	"net/http/httptest"
	"os"
	"os/exec"
	"path/filepath"
	"strings"
	"sync"
	"sync/atomic"
	"testing"
	"time"

	"github.com/hashicorp/raft"
	"github.com/robustirc/robustirc/internal/raftstore"
)

type c19MainPeer struct {
	srv    *httptest.Server
	addr   string
	offset time.Duration
	mu     sync.Mutex
	peers  []string
	joins  int
	status int
}

func (p *c19MainPeer) ServeHTTP(w http.ResponseWriter, r *http.Request) {
	p.mu.Lock()
	defer p.mu.Unlock()
	switch {
	case r.URL.Path == "/join":
		p.joins++
		io.Copy(io.Discard, r.Body)
		w.WriteHeader(http.StatusOK)
	case r.URL.Path == "/" && r.Method == "GET":
		p.status++
		w.Header().Set("Content-Type", "application/json")
		json.NewEncoder(w).Encode(map[string]interface{}{
			"State":       "Follower",
			"Peers":       p.peers,
			"CurrentTime": time.Now().Add(p.offset),
		})
	default:
		// raft RPCs of a node that was allowed to start
		http.Error(w, "not a real node", http.StatusNotFound)
	}
}

type c19MainOut struct {
	Name      string   `json:"name"`
	Mode      string   `json:"mode"`
	Flag      bool     `json:"flag"`
	Offsets   []string `json:"offsets"`
	OffNs     []int64  `json:"offsets_ns"`
	Outcome   string   `json:"outcome"`
	ExitCode  int      `json:"exit_code"`
	JoinPosts int      `json:"join_posts"`
	StatusGet []int    `json:"status_gets"`
	WallMs    int64    `json:"wall_ms"`
	Tail      string   `json:"output_tail"`
}

func c19FreeAddr(t *testing.T) string {
	// below the range the kernel hands out for ":0" listeners and outgoing connections, so that none of the
	// many peer servers of the other scenarios ends up on the port between this probe and the node's own bind
	for i := 0; i < 200; i++ {
		port := 20000 + int(c19PortCtr.Add(1)*7+int64(os.Getpid()*131))%12000
		l, err := net.Listen("tcp", fmt.Sprintf("127.0.0.1:%d", port))
		if err != nil {
			continue
		}
		l.Close()
		return l.Addr().String()
	}
	t.Fatal("no free port")
	return ""
}

var c19PortCtr atomic.Int64

// c19IsNode reports whether the listener at addr presents the node's own certificate.
func c19IsNode(addr, certPath string) bool {
	want, err := os.ReadFile(certPath)
	if err != nil {
		return false
	}
	blk, _ := pem.Decode(want)
	if blk == nil {
		return false
	}
	c, err := tls.DialWithDialer(&net.Dialer{Timeout: 500 * time.Millisecond}, "tcp", addr, &tls.Config{InsecureSkipVerify: true})
	if err != nil {
		return false
	}
	defer c.Close()
	cs := c.ConnectionState().PeerCertificates
	return len(cs) > 0 && bytes.Equal(cs[0].Raw, blk.Bytes)
}

// c19SelfSigned writes a key pair the node can serve its own listener with.
func c19SelfSigned(dir string) (certPath, keyPath string, err error) {
	key, err := ecdsa.GenerateKey(elliptic.P256(), crand.Reader)
	if err != nil {
		return "", "", err
	}
	tmpl := x509.Certificate{
		SerialNumber: big.NewInt(19),
		Subject:      pkix.Name{CommonName: "c19-node"},
		NotBefore:    time.Now().Add(-time.Hour),
		NotAfter:     time.Now().Add(24 * time.Hour),
		KeyUsage:     x509.KeyUsageDigitalSignature | x509.KeyUsageCertSign,
		ExtKeyUsage:  []x509.ExtKeyUsage{x509.ExtKeyUsageServerAuth},
		IPAddresses:  []net.IP{net.ParseIP("127.0.0.1")},
		IsCA:         true, BasicConstraintsValid: true,
	}
	der, err := x509.CreateCertificate(crand.Reader, &tmpl, &tmpl, &key.PublicKey, key)
	if err != nil {
		return "", "", err
	}
	kb, err := x509.MarshalECPrivateKey(key)
	if err != nil {
		return "", "", err
	}
	certPath = filepath.Join(dir, "node-cert.pem")
	keyPath = filepath.Join(dir, "node-key.pem")
	if err := os.WriteFile(certPath, pem.EncodeToMemory(&pem.Block{Type: "CERTIFICATE", Bytes: der}), 0600); err != nil {
		return "", "", err
	}
	if err := os.WriteFile(keyPath, pem.EncodeToMemory(&pem.Block{Type: "EC PRIVATE KEY", Bytes: kb}), 0600); err != nil {
		return "", "", err
	}
	return certPath, keyPath, nil
}

// c19SeedRaftDir leaves a raft log whose only entry is the cluster
// configuration {self, peers...}: what a node that was a member finds on disk
// when it is restarted.
func c19SeedRaftDir(dir, self string, peers []string) error {
	if err := os.MkdirAll(dir, 0700); err != nil {
		return err
	}
	store, err := raftstore.NewLevelDBStore(filepath.Join(dir, "raftlog"), false, true)
	if err != nil {
		return err
	}
	var cfg raft.Configuration
	for _, a := range append([]string{self}, peers...) {
		cfg.Servers = append(cfg.Servers, raft.Server{Suffrage: raft.Voter, ID: raft.ServerID(a), Address: raft.ServerAddress(a)})
	}
	if err := store.StoreLog(&raft.Log{Index: 1, Term: 1, Type: raft.LogConfiguration, Data: raft.EncodeConfiguration(cfg)}); err != nil {
		store.Close()
		return err
	}
	return store.Close()
}

func TestVerifC19Main(t *testing.T) {
	scratch := c19Scratch(t)
	bin := os.Getenv("VERIF_C19_BIN")
	if bin == "" {
		t.Skip("VERIF_C19_BIN not set")
	}
	log.SetOutput(io.Discard)
	root := filepath.Join(scratch, "c19main")
	os.RemoveAll(root) // a repeated run of the harness must not find the raft directories of the previous one
	if err := os.MkdirAll(root, 0700); err != nil {
		t.Fatal(err)
	}
	certPath, keyPath, err := c19SelfSigned(root)
	if err != nil {
		t.Fatal(err)
	}
	h, s := time.Hour, time.Second
	type scen struct {
		name, mode string
		flag       bool
		offsets    []time.Duration // join: index 0 is the master
	}
	scens := []scen{
		{"join-master-ahead-1h", "join", false, []time.Duration{h, 0}},
		{"join-other-behind-1h", "join", false, []time.Duration{0, -h}},
		{"join-master-behind-3s", "join", false, []time.Duration{-3 * s, 0}},
		{"join-healthy", "join", false, []time.Duration{0, 0}},
		{"join-disabled-ahead-1h", "join", true, []time.Duration{h, 0}},
		{"restart-peer-ahead-1h", "restart", false, []time.Duration{h, 0}},
		{"restart-peer-behind-3s", "restart", false, []time.Duration{0, -3 * s}},
		{"restart-healthy", "restart", false, []time.Duration{0, 0}},
		{"restart-disabled-ahead-1h", "restart", true, []time.Duration{h, 0}},
	}
	outs := make([]c19MainOut, len(scens))
	var wg sync.WaitGroup
	var caOnce sync.Once
	caPath := filepath.Join(root, "peers-ca.pem")
	for i := range scens {
		sc := scens[i]
		self := c19FreeAddr(t)
		peers := make([]*c19MainPeer, len(sc.offsets))
		var addrs []string
		for k := range sc.offsets {
			p := &c19MainPeer{offset: sc.offsets[k]}
			p.srv = httptest.NewUnstartedServer(p)
			p.srv.Config.ErrorLog = log.New(io.Discard, "", 0)
			p.srv.StartTLS()
			p.addr = p.srv.Listener.Addr().String()
			peers[k] = p
			addrs = append(addrs, p.addr)
			caOnce.Do(func() {
				b := pem.EncodeToMemory(&pem.Block{Type: "CERTIFICATE", Bytes: p.srv.Certificate().Raw})
				if err := os.WriteFile(caPath, b, 0600); err != nil {
					t.Fatal(err)
				}
			})
		}
		for _, p := range peers {
			p.peers = append([]string{self}, addrs...)
		}
		raftDir := filepath.Join(root, sc.name)
		args := []string{
			"-network_name=c19.verif", "-peer_addr=" + self, "-listen=" + self, "-raftdir=" + raftDir,
			"-tls_cert_path=" + certPath, "-tls_key_path=" + keyPath, "-tls_ca_file=" + caPath,
			"-logtostderr=true",
		}
		if sc.flag {
			args = append(args, "-disable_timesafeguard")
		}
		if sc.mode == "join" {
			args = append(args, "-join="+addrs[0])
		} else if err := c19SeedRaftDir(raftDir, self, addrs); err != nil {
			t.Fatalf("seeding %s: %v", raftDir, err)
		}
		wg.Add(1)
		go func(i int) {
			defer wg.Done()
			out := c19MainOut{Name: sc.name, Mode: sc.mode, Flag: sc.flag}
			for _, o := range sc.offsets {
				out.Offsets = append(out.Offsets, o.String())
				out.OffNs = append(out.OffNs, int64(o))
			}
			var buf bytes.Buffer
			cmd := exec.Command(bin, args...)
			cmd.Env = append(os.Environ(), "ROBUSTIRC_NETWORK_PASSWORD=verif", "TMPDIR="+root)
			cmd.Stdout = &buf
			cmd.Stderr = &buf
			cmd.Dir = root
			t0 := time.Now()
			if err := cmd.Start(); err != nil {
				out.Outcome = "exited-other"
				out.Tail = err.Error()
				outs[i] = out
				return
			}
			done := make(chan error, 1)
			go func() { done <- cmd.Wait() }()
			deadline := time.After(90 * time.Second)
			tick := time.NewTicker(50 * time.Millisecond)
			defer tick.Stop()
		loop:
			for {
				select {
				case err := <-done:
					out.ExitCode = cmd.ProcessState.ExitCode()
					_ = err
					if strings.Contains(buf.String(), "refusing to join network") {
						out.Outcome = "refused"
					} else {
						out.Outcome = "exited-other"
					}
					break loop
				case <-deadline:
					out.Outcome = "timeout"
					cmd.Process.Kill()
					<-done
					break loop
				case <-tick.C:
					proceeded := false
					if sc.mode == "join" {
						peers[0].mu.Lock()
						proceeded = peers[0].joins > 0
						peers[0].mu.Unlock()
					} else if c, err := net.DialTimeout("tcp", self, 200*time.Millisecond); err == nil {
						c.Close()
						proceeded = c19IsNode(self, certPath)
					}
					if proceeded {
						out.Outcome = "proceeded"
						cmd.Process.Kill()
						<-done
						break loop
					}
				}
			}
			out.WallMs = int64(time.Since(t0) / time.Millisecond)
			for _, p := range peers {
				p.mu.Lock()
				out.JoinPosts += p.joins
				out.StatusGet = append(out.StatusGet, p.status)
				p.mu.Unlock()
				p.srv.Close()
			}
			txt := buf.String()
			if len(txt) > 1500 {
				txt = txt[len(txt)-1500:]
			}
			out.Tail = txt
			outs[i] = out
		}(i)
	}
	wg.Wait()
	f, err := os.Create(filepath.Join(scratch, "c19_main_out.ndjson"))
	if err != nil {
		t.Fatal(err)
	}
	defer f.Close()
	enc := json.NewEncoder(f)
	for _, o := range outs {
		if err := enc.Encode(&o); err != nil {
			t.Fatal(err)
		}
	}
	_ = fmt.Sprint
}
