// Shared by the C08 harnesses (schedule harness under vsync, sequential driver
// on the unmodified package): event format, message construction, comparison.
package outputstream

import (
	"fmt"
	"strings"

	"github.com/robustirc/robustirc/internal/robust"
)

type vfRet struct {
	K     string `json:"k"` // none next empty got miss
	ID    int    `json:"id"`
	Exact bool   `json:"exact"`
}

type vfEvent struct {
	Ev       string   `json:"ev"`
	Prog     string   `json:"prog,omitempty"`
	Run      int      `json:"run"`
	T        int      `json:"t"`
	A        string   `json:"a"`
	Arg      int      `json:"arg"`
	Pos      string   `json:"pos"`
	Ret      vfRet    `json:"ret"`
	Panic    string   `json:"panic"`
	Keys     []int    `json:"keys"`
	Next     []int    `json:"next"`
	Bad      []int    `json:"bad"`
	Tail     int      `json:"tail"`
	TailNext int      `json:"tailnext"`
	CKeys    []int    `json:"ckeys"`
	CNext    []int    `json:"cnext"`
	Parked   []int    `json:"parked"`
	Runnable []int    `json:"runnable"`
	Inner    int      `json:"inner"`   // thread at an inner scheduling point of a critical section, 0 if none
	Holder   int      `json:"holder"`  // thread inside Cond.Wait before registering (holds messagesMu), 0 if none
	Locked   bool     `json:"locked"`  // no Broadcast/Signal of this step was issued without holding messagesMu
	IntLock  bool     `json:"intlock"` // Reset: InterruptGetNext of the code under test takes messagesMu (probed)
	Ids      []string `json:"ids,omitempty"`
	NThreads int      `json:"nthreads,omitempty"`
	Sched    []int    `json:"sched,omitempty"`
	Note     string   `json:"note,omitempty"`
}

func vfSentinel() []Message {
	return []Message{{Id: robust.Id{Id: 0}, InterestingFor: map[uint64]bool{}}}
}

func vfEqMsgs(a, b []Message) bool {
	if len(a) != len(b) {
		return false
	}
	for i := range a {
		if a[i].Id != b[i].Id || a[i].Data != b[i].Data {
			return false
		}
		na, nb := 0, 0
		for k, v := range a[i].InterestingFor {
			if v {
				na++
				if !b[i].InterestingFor[k] {
					return false
				}
			}
		}
		for _, v := range b[i].InterestingFor {
			if v {
				nb++
			}
		}
		if na != nb {
			return false
		}
	}
	return true
}

// vfMakeMsgs builds the deterministic content of batch id: n >= 1 messages,
// each with 0..4 recipients; data empty, short (with non-ASCII bytes) or long.
func vfMakeMsgs(id uint64, n int) []Message {
	if n < 1 {
		n = 1
	}
	msgs := make([]Message, n)
	for i := range msgs {
		h := id + uint64(i)*31
		rc := map[uint64]bool{}
		for j := 0; j < int(h%5); j++ {
			rc[id*7+uint64(j)*13+uint64(i)+(h<<33)] = true
		}
		data := fmt.Sprintf(":srv%d PRIVMSG #c\xc3\xbc :batch %d line %d\x00\xff", id%1000, id, i)
		switch {
		case h%7 == 0:
			data = ""
		case h%11 == 0:
			data = strings.Repeat(data, 60)
		}
		msgs[i] = Message{
			Id:             robust.Id{Id: id, Reply: uint64(i + 1)},
			Data:           data,
			InterestingFor: rc,
		}
	}
	return msgs
}
