//go:build vsync

// Schedule replay / schedule enumeration harness for C08.
//
// Compiled only together with the overlay that replaces outputstream.go by a
// copy whose import "sync" points at the scheduler-controlled vsync package
// (build tag vsync). It executes programs (per-thread operation lists) on the
// real OutputStream function bodies under schedules given by the caller
// (TLC) or enumerated by its own DFS / random walks, and logs after every
// step the projected state as ND-JSON (see OutStreamTrace.tla).
package outputstream

import (
	"bufio"
	"context"
	"encoding/binary"
	"encoding/json"
	"fmt"
	"math"
	"math/rand"
	"os"
	"regexp"
	"runtime/debug"
	"sort"
	"strings"
	"sync"
	"testing"
	"time"

	"github.com/robustirc/robustirc/internal/outputstream/vsync"
	"github.com/robustirc/robustirc/internal/robust"
)

type vfOp struct {
	Op string `json:"op"` // Add Delete Get GetNext Interrupt Cancel
	ID uint64 `json:"id"` // Add/Delete/Get: batch id; GetNext: position x
	N  int    `json:"n"`  // Add: number of messages (>= 1)
	T  int    `json:"t"`  // Cancel: target thread (1-based)
}

type vfProgram struct {
	Name    string   `json:"name"`
	Threads [][]vfOp `json:"threads"`
	Sched   []int    `json:"sched"` // replay: thread ids (1-based), one per step
	Mode    string   `json:"mode"`  // replay | dfs | random
	Limit   int      `json:"limit"` // dfs/random: max number of schedules
	Seed    int64    `json:"seed"`
	NoScope bool     `json:"noscope"`
	Inner   bool     `json:"inner"` // cacheMu acquisitions inside critical sections are scheduling points
}

type vfThread struct {
	id        int
	ops       []vfOp
	next      int // index of the next operation to start
	vt        *vsync.Thread
	ctx       context.Context
	cancel    context.CancelFunc
	inOp      bool
	opDone    bool
	ret       vfRet
	panicMsg  string
	curOp     vfOp
	stepsInOp int
	stepA     string // action name of the step in progress (kept across inner scheduling points)
	basePos   string // position at the last step boundary (used while at an inner point)
}

type vfRun struct {
	t       *testing.T
	prog    *vfProgram
	os      *OutputStream
	sched   *vsync.Sched
	threads []*vfThread
	added   map[uint64][]Message
	rank    map[uint64]int
	maxAdd  uint64
	out     *bufio.Writer
	run     int
	trace   []int
}

func (r *vfRun) rk(id uint64) int {
	if id == math.MaxUint64 {
		return -1
	}
	if v, ok := r.rank[id]; ok {
		return v
	}
	return -9
}

// project reads the real state: LevelDB keys + NextID links + content check,
// lastseen, messagesCache, and the threads' positions.
func (r *vfRun) project(ev *vfEvent) {
	defer func() {
		// the stored bytes may be undecodable if the code under test is broken
		if p := recover(); p != nil {
			ev.Bad = append(ev.Bad, -8)
			ev.Note = fmt.Sprintf("projection panicked: %v", p)
			for _, q := range []*[]int{&ev.Keys, &ev.Next, &ev.CKeys, &ev.CNext, &ev.Parked, &ev.Runnable} {
				if *q == nil {
					*q = []int{}
				}
			}
		}
	}()
	o := r.os
	ev.Keys, ev.Next, ev.Bad = []int{}, []int{}, []int{}
	it := o.db.NewIterator(nil, nil)
	for it.Next() {
		id := binary.BigEndian.Uint64(it.Key())
		mb := unmarshalMessageBatch(it.Value())
		ev.Keys = append(ev.Keys, r.rk(id))
		ev.Next = append(ev.Next, r.rk(mb.NextID))
		if want, ok := r.added[id]; !ok || !vfEqMsgs(mb.Messages, want) {
			ev.Bad = append(ev.Bad, r.rk(id))
		}
	}
	it.Release()
	if len(o.lastseen.Messages) > 0 {
		tid := uint64(o.lastseen.Messages[0].Id.Id)
		ev.Tail = r.rk(tid)
		if want, ok := r.added[tid]; !ok || !vfEqMsgs(o.lastseen.Messages, want) {
			ev.Bad = append(ev.Bad, r.rk(tid))
		}
	} else {
		ev.Tail = -9
	}
	ev.TailNext = r.rk(o.lastseen.NextID)
	type kv struct{ k, n int }
	var cs []kv
	for id, mb := range o.messagesCache {
		cs = append(cs, kv{r.rk(id), r.rk(mb.NextID)})
	}
	sort.Slice(cs, func(i, j int) bool { return cs[i].k < cs[j].k })
	ev.CKeys, ev.CNext = []int{}, []int{}
	for _, c := range cs {
		ev.CKeys = append(ev.CKeys, c.k)
		ev.CNext = append(ev.CNext, c.n)
	}
	ev.Parked, ev.Runnable = []int{}, []int{}
	for _, th := range r.threads {
		pos := th.vt.Pos()
		if pos == vsync.PosInner {
			ev.Inner = th.id
			// inside a critical section whose record is written when it ends:
			// project the thread to where it was when the section began
			pos = th.basePos
		}
		switch pos {
		case vsync.PosParked:
			ev.Parked = append(ev.Parked, th.id)
		case vsync.PosLock, vsync.PosRLock, vsync.PosWoken:
			ev.Runnable = append(ev.Runnable, th.id)
		case vsync.PosWaitEntry:
			ev.Runnable = append(ev.Runnable, th.id)
			ev.Holder = th.id
		}
	}
}

// midCS returns the thread that is parked inside a critical section (on entry
// to Cond.Wait or at an inner scheduling point), if any.
func (r *vfRun) midCS() *vfThread {
	for _, th := range r.threads {
		if p := th.vt.Pos(); p == vsync.PosWaitEntry || p == vsync.PosInner {
			return th
		}
	}
	return nil
}

func (r *vfRun) emit(ev *vfEvent) {
	ev.Run = r.run
	b, err := json.Marshal(ev)
	if err != nil {
		r.t.Fatal(err)
	}
	r.out.Write(b)
	r.out.WriteByte('\n')
}

var vfLineRe = regexp.MustCompile(`outputstream\.go:\d+`)

// exec runs one operation of th on the real OutputStream (inside th's goroutine).
func (r *vfRun) exec(th *vfThread, op vfOp) {
	defer func() {
		if p := recover(); p != nil {
			if p == vsync.Aborted {
				panic(p)
			}
			st := string(debug.Stack())
			loc := strings.Join(vfLineRe.FindAllString(st, 3), ",")
			th.panicMsg = fmt.Sprintf("%v [%s]", p, loc)
		}
		th.opDone = true
	}()
	o := r.os
	th.ret = vfRet{K: "none"}
	switch op.Op {
	case "Add":
		msgs := vfMakeMsgs(op.ID, op.N)
		r.added[op.ID] = msgs
		if op.ID > r.maxAdd {
			r.maxAdd = op.ID
		}
		if err := o.Add(msgs); err != nil {
			panic(fmt.Sprintf("Add: %v", err))
		}
	case "Delete":
		if err := o.Delete(robust.Id{Id: op.ID}); err != nil {
			panic(fmt.Sprintf("Delete: %v", err))
		}
	case "Get":
		msgs, ok := o.Get(robust.Id{Id: op.ID})
		if ok {
			th.ret = vfRet{K: "got", ID: r.rk(op.ID), Exact: vfEqMsgs(msgs, r.added[op.ID])}
		} else {
			th.ret = vfRet{K: "miss", ID: r.rk(op.ID)}
		}
	case "GetNext":
		msgs := o.GetNext(th.ctx, robust.Id{Id: op.ID})
		if len(msgs) == 0 {
			th.ret = vfRet{K: "empty"}
		} else {
			id := uint64(msgs[0].Id.Id)
			want, ok := r.added[id]
			th.ret = vfRet{K: "next", ID: r.rk(id), Exact: ok && vfEqMsgs(msgs, want)}
		}
		// the next call of this thread gets a fresh context
		th.ctx, th.cancel = context.WithCancel(context.Background())
	case "Interrupt":
		o.InterruptGetNext()
	case "Cancel":
		r.threads[op.T-1].cancel()
	default:
		panic("unknown op " + op.Op)
	}
}

func (r *vfRun) liveKeys() []uint64 {
	var ks []uint64
	it := r.os.db.NewIterator(nil, nil)
	for it.Next() {
		ks = append(ks, binary.BigEndian.Uint64(it.Key()))
	}
	it.Release()
	return ks
}

func (r *vfRun) anyInFlight() bool {
	for _, th := range r.threads {
		if th.inOp && th.curOp.Op == "GetNext" {
			return true
		}
	}
	return false
}

// eligible: the thread can be granted the processor and its next step is
// within the property's program scope.
func (r *vfRun) eligible(th *vfThread) bool {
	if !th.vt.Enabled() {
		return false
	}
	if m := r.midCS(); m != nil && m != th {
		// m holds messagesMu: only lock-free operations of other threads can
		// happen now: a context cancellation, and InterruptGetNext if the code
		// under test broadcasts without taking messagesMu (probed at start-up)
		if th.vt.Pos() != vsync.PosIdle || th.next >= len(th.ops) {
			return false
		}
		op := th.ops[th.next].Op
		return op == "Cancel" || (op == "Interrupt" && !vfIntLocked)
	}
	if th.vt.Pos() != vsync.PosIdle {
		return true
	}
	if th.next >= len(th.ops) {
		return false
	}
	if r.prog.NoScope {
		return true
	}
	op := th.ops[th.next]
	switch op.Op {
	case "Add":
		return op.ID > r.maxAdd
	case "GetNext":
		return op.ID <= r.maxAdd
	case "Delete":
		if op.ID == 0 {
			return false
		}
		if !r.anyInFlight() {
			return true
		}
		oldest, found, exists := uint64(0), false, false
		for _, k := range r.liveKeys() {
			if k == 0 {
				continue
			}
			if !found || k < oldest {
				oldest, found = k, true
			}
			if k == op.ID {
				exists = true
			}
		}
		return !exists || op.ID == oldest
	}
	return true
}

// step grants the processor to th for one step and logs the outcome. A step
// that ends at an inner scheduling point writes no record: the record of a
// critical section is written when it ends.
func (r *vfRun) step(th *vfThread) (crashed bool) {
	switch pos := th.vt.Pos(); pos {
	case vsync.PosIdle:
		op := th.ops[th.next]
		th.next++
		th.curOp, th.inOp, th.opDone, th.stepsInOp = op, true, false, 0
		th.stepA, th.basePos = op.Op, pos
	case vsync.PosWaitEntry:
		th.stepA, th.basePos = "Wreg", pos
	case vsync.PosInner:
	default:
		th.stepA, th.basePos = "W", pos
	}
	th.stepsInOp++
	r.trace = append(r.trace, th.id)
	ub := th.vt.UnlockedBroadcasts
	// inner scheduling points only inside the critical sections of GetNext (the
	// other operations' sections are not affected by lock-free events)
	r.sched.Inner = r.prog.Inner && th.curOp.Op == "GetNext"
	r.sched.Step(th.vt)
	if !th.opDone && th.vt.Pos() == vsync.PosInner {
		return false
	}
	ev := &vfEvent{Ev: "Step", T: th.id, A: th.stepA, Ret: vfRet{K: "none"}, Locked: th.vt.UnlockedBroadcasts == ub}
	if th.stepA != "W" && th.stepA != "Wreg" {
		switch th.curOp.Op {
		case "Cancel":
			ev.Arg = th.curOp.T
		case "Interrupt":
			ev.Arg = 0
		default:
			ev.Arg = r.rk(th.curOp.ID)
		}
	}
	if th.opDone {
		th.inOp = false
		ev.Ret = th.ret
		ev.Pos = "idle"
		if th.panicMsg != "" {
			ev.Panic = th.panicMsg
			ev.Pos = "crash"
			ev.Ret = vfRet{K: "none"}
			crashed = true
		}
	} else {
		switch th.vt.Pos() {
		case vsync.PosParked:
			ev.Pos = "parked"
		case vsync.PosLock, vsync.PosRLock:
			ev.Pos = "lock"
		default:
			ev.Pos = th.vt.Pos()
		}
	}
	// after a crash the write lock is still held by the dead call; the
	// projection reads the state directly, not through the API
	r.project(ev)
	r.emit(ev)
	return crashed
}

// choose is called with the eligible threads; it returns the index to run.
type vfChooser func(depth int, n int, ids []int) int

func (r *vfRun) body(th *vfThread) func(t *vsync.Thread) {
	return func(t *vsync.Thread) {
		for i := 0; i < len(th.ops); i++ {
			t.Idle()
			r.exec(th, th.curOp)
		}
	}
}

// execute runs the program once; choose picks among the eligible threads.
func (r *vfRun) execute(choose vfChooser) {
	dir, err := os.MkdirTemp(os.Getenv("VERIF_C08_TMP"), "os")
	if err != nil {
		r.t.Fatal(err)
	}
	defer os.RemoveAll(dir)
	ostr, err := NewOutputStream(dir)
	if err != nil {
		r.t.Fatal(err)
	}
	r.os = ostr
	ostr.cacheMu.NoYield = true
	r.added = map[uint64][]Message{0: vfSentinel()}
	r.maxAdd = 0
	r.trace = nil
	r.sched = vsync.New()
	r.threads = nil
	for i, ops := range r.prog.Threads {
		th := &vfThread{id: i + 1, ops: ops}
		th.ctx, th.cancel = vfNewCtx(th.id)
		r.threads = append(r.threads, th)
	}
	for _, th := range r.threads {
		th.vt = r.sched.Spawn(th.id, r.body(th))
	}
	ids := make([]string, len(r.rank))
	for id, k := range r.rank {
		ids[k] = fmt.Sprintf("%d", id)
	}
	r.emit(&vfEvent{Ev: "Reset", Prog: r.prog.Name, Ids: ids, NThreads: len(r.threads), Note: "sched", IntLock: vfIntLocked, Locked: true,
		Ret: vfRet{K: "none"}, Keys: []int{}, Next: []int{}, Bad: []int{}, CKeys: []int{}, CNext: []int{},
		Parked: []int{}, Runnable: []int{}})
	crashed, finish := false, false
	note := ""
	for depth := 0; !crashed; depth++ {
		var el []*vfThread
		var elIDs []int
		for _, th := range r.threads {
			if r.eligible(th) {
				el = append(el, th)
				elIDs = append(elIDs, th.id)
			}
		}
		if len(el) == 0 {
			break
		}
		k := -1
		if !finish {
			k = choose(depth, len(el), elIDs)
			if k >= len(el) {
				note = "schedule names a thread that is not eligible"
				k = -1
			}
			if k < 0 {
				finish = true
			}
		}
		if finish {
			// schedule exhausted (or abandoned): only finish the calls in flight
			var fl []*vfThread
			for _, th := range el {
				if th.vt.Pos() != vsync.PosIdle {
					fl = append(fl, th)
				}
			}
			if len(fl) == 0 {
				break
			}
			crashed = r.step(fl[0])
			continue
		}
		crashed = r.step(el[k])
	}
	if !crashed {
		for _, th := range r.threads {
			p := th.vt.Pos()
			if p == vsync.PosLock || p == vsync.PosRLock || p == vsync.PosWoken || p == vsync.PosWaitEntry || p == vsync.PosInner {
				if note == "" {
					note = "not quiescent"
				}
			}
		}
		ev := &vfEvent{Ev: "Quiescent", Ret: vfRet{K: "none"}, Sched: r.trace, Note: note, Locked: true}
		r.project(ev)
		r.emit(ev)
	} else {
		r.emit(&vfEvent{Ev: "Crashed", Ret: vfRet{K: "none"}, Sched: r.trace, Keys: []int{}, Next: []int{}, Bad: []int{},
			CKeys: []int{}, CNext: []int{}, Parked: []int{}, Runnable: []int{}})
	}
	r.sched.Abort()
	// the database may still be locked by a dead call: close it directly
	if r.os.db != nil {
		r.os.db.Close()
		r.os.db = nil
	}
	r.run++
}

func (r *vfRun) buildRank() {
	set := map[uint64]bool{0: true}
	for _, ops := range r.prog.Threads {
		for _, op := range ops {
			switch op.Op {
			case "Add", "Delete", "Get", "GetNext":
				set[op.ID] = true
			}
		}
	}
	var ids []uint64
	for id := range set {
		ids = append(ids, id)
	}
	sort.Slice(ids, func(i, j int) bool { return ids[i] < ids[j] })
	r.rank = map[uint64]int{}
	for i, id := range ids {
		r.rank[id] = i
	}
}

func (r *vfRun) replay() {
	pos := 0
	r.execute(func(depth, n int, ids []int) int {
		if pos >= len(r.prog.Sched) {
			return -1
		}
		want := r.prog.Sched[pos]
		pos++
		for i, id := range ids {
			if id == want {
				return i
			}
		}
		return n // not eligible
	})
}

// dfs enumerates schedules depth first by re-execution; returns whether the
// enumeration was exhaustive within the limit.
func (r *vfRun) dfs(limit int) (int, bool) {
	var prefix []int
	runs := 0
	for {
		var taken, width []int
		r.execute(func(depth, n int, ids []int) int {
			k := 0
			if depth < len(prefix) {
				k = prefix[depth]
			}
			taken = append(taken, k)
			width = append(width, n)
			return k
		})
		runs++
		i := len(taken) - 1
		for i >= 0 && taken[i]+1 >= width[i] {
			i--
		}
		if i < 0 {
			return runs, true
		}
		if runs >= limit {
			return runs, false
		}
		prefix = append(append([]int{}, taken[:i]...), taken[i]+1)
	}
}

func (r *vfRun) random(n int, seed int64) {
	rng := rand.New(rand.NewSource(seed))
	for i := 0; i < n; i++ {
		r.execute(func(depth, n int, ids []int) int { return rng.Intn(n) })
	}
}

// vfIntLocked: InterruptGetNext of the code under test holds messagesMu when it
// broadcasts. Not assumed: probed on the real function at start-up.
var vfIntLocked = true

func vfProbeInterrupt(t *testing.T) bool {
	dir, err := os.MkdirTemp(os.Getenv("VERIF_C08_TMP"), "probe")
	if err != nil {
		t.Fatal(err)
	}
	defer os.RemoveAll(dir)
	o, err := NewOutputStream(dir)
	if err != nil {
		t.Fatal(err)
	}
	o.cacheMu.NoYield = true
	s := vsync.New()
	th := s.Spawn(1, func(vt *vsync.Thread) {
		vt.Idle()
		o.InterruptGetNext()
	})
	for i := 0; i < 8 && th.Pos() != vsync.PosDone && th.Enabled(); i++ {
		s.Step(th)
	}
	locked := th.UnlockedBroadcasts == 0
	s.Abort()
	o.db.Close()
	o.db = nil
	return locked
}

// vfDeadlineCtx is a context that ends the way a deadline context does: Done() is closed and Err() is
// context.DeadlineExceeded (not context.Canceled). GetNext must react to Done(), whatever the reason.
type vfDeadlineCtx struct {
	context.Context
	done chan struct{}
}

func (c *vfDeadlineCtx) Done() <-chan struct{} { return c.done }
func (c *vfDeadlineCtx) Err() error {
	select {
	case <-c.done:
		return context.DeadlineExceeded
	default:
		return nil
	}
}
func (c *vfDeadlineCtx) Deadline() (time.Time, bool) { return time.Unix(1, 0), true }

// vfNewCtx: even thread numbers get a cancel context, odd ones one that ends like a deadline.
func vfNewCtx(k int) (context.Context, context.CancelFunc) {
	if k%2 == 0 {
		return context.WithCancel(context.Background())
	}
	c := &vfDeadlineCtx{Context: context.Background(), done: make(chan struct{})}
	var once sync.Once
	return c, func() { once.Do(func() { close(c.done) }) }
}

func TestVerifC08Sched(t *testing.T) {
	in, outp := os.Getenv("VERIF_C08_IN"), os.Getenv("VERIF_C08_OUT")
	if in == "" || outp == "" {
		t.Skip("VERIF_C08_IN / VERIF_C08_OUT not set")
	}
	fi, err := os.Open(in)
	if err != nil {
		t.Fatal(err)
	}
	defer fi.Close()
	fo, err := os.Create(outp)
	if err != nil {
		t.Fatal(err)
	}
	defer fo.Close()
	w := bufio.NewWriterSize(fo, 1<<20)
	defer w.Flush()
	vfIntLocked = vfProbeInterrupt(t)
	sc := bufio.NewScanner(fi)
	sc.Buffer(make([]byte, 1<<20), 1<<26)
	total := 0
	for sc.Scan() {
		line := strings.TrimSpace(sc.Text())
		if line == "" {
			continue
		}
		var p vfProgram
		if err := json.Unmarshal([]byte(line), &p); err != nil {
			t.Fatalf("bad program %q: %v", line, err)
		}
		r := &vfRun{t: t, prog: &p, out: w}
		r.buildRank()
		switch p.Mode {
		case "", "replay":
			r.replay()
		case "dfs":
			n, ex := r.dfs(p.Limit)
			if !ex {
				r.random(p.Limit/2, p.Seed)
			}
			fmt.Fprintf(w, "{\"ev\":\"Summary\",\"prog\":%q,\"dfs_runs\":%d,\"exhaustive\":%v,\"runs\":%d}\n", p.Name, n, ex, r.run)
		case "random":
			r.random(p.Limit, p.Seed)
		default:
			t.Fatalf("unknown mode %q", p.Mode)
		}
		total += r.run
	}
	if err := sc.Err(); err != nil {
		t.Fatal(err)
	}
	fmt.Fprintf(w, "{\"ev\":\"Done\",\"runs\":%d}\n", total)
}
