// Sequential random driver for C08 on the UNMODIFIED outputstream package
// (no vsync): long random single-goroutine programs -- ids up to 2^40 and
// beyond, gaps, batches of 1..5 messages with 0..4 recipients, Delete in any
// order (tail, middle, oldest, non-existing), Get / GetNext at existing,
// deleted and never existing positions -- every operation and its result is
// logged and validated by OutStreamTrace.tla against the sorted-map view of
// the property. GetNext is called with an already cancelled context, so it
// returns empty exactly when the code would block. Short chunks also log the
// projected state (LevelDB keys, links, lastseen, cache) for conformance with
// the design spec.
package outputstream

import (
	"bufio"
	"context"
	"encoding/binary"
	"encoding/json"
	"fmt"
	"math"
	"math/rand"
	"os"
	"sort"
	"strconv"
	"testing"

	"github.com/robustirc/robustirc/internal/robust"
)

type vfSeqOp struct {
	op string
	id uint64
	n  int
}

// vfSeqProgram generates nops operations using at most maxIDs distinct non-zero ids.
func vfSeqProgram(rng *rand.Rand, nops, maxIDs int) []vfSeqOp {
	var prog []vfSeqOp
	var live, dead []uint64
	used := map[uint64]bool{0: true}
	last := uint64(0)
	if rng.Intn(2) == 0 {
		last = uint64(rng.Int63n(1 << 40))
	}
	use := func(id uint64) bool {
		if used[id] {
			return true
		}
		if len(used) > maxIDs {
			return false
		}
		used[id] = true
		return true
	}
	pick := func() uint64 { // a position: live, deleted, neighbour (gap) or 0
		switch k := rng.Intn(10); {
		case k < 5 && len(live) > 0:
			return live[rng.Intn(len(live))]
		case k < 7 && len(dead) > 0:
			return dead[rng.Intn(len(dead))]
		case k < 9 && len(live) > 0:
			id := live[rng.Intn(len(live))]
			if rng.Intn(2) == 0 && id > 1 {
				id--
			} else if id < last {
				id++
			}
			if use(id) {
				return id
			}
			return 0
		}
		return 0
	}
	for len(prog) < nops {
		switch k := rng.Intn(100); {
		case k < 40:
			gap := uint64(1 + rng.Intn(3))
			switch rng.Intn(20) {
			case 0:
				gap = uint64(1) << uint(20+rng.Intn(21))
			case 1:
				gap = uint64(rng.Int63n(1<<32)) + 1
			}
			id := last + gap
			if id >= math.MaxUint64/4 || !use(id) {
				// id budget exhausted: keep deleting / reading
				prog = append(prog, vfSeqOp{op: "Get", id: pick()})
				continue
			}
			last = id
			live = append(live, id)
			prog = append(prog, vfSeqOp{op: "Add", id: id, n: 1 + rng.Intn(5)})
		case k < 60:
			var id uint64
			switch j := rng.Intn(10); {
			case j < 3 && len(live) > 0: // oldest
				id = live[0]
			case j < 5 && len(live) > 0: // tail
				id = live[len(live)-1]
			default:
				id = pick()
			}
			if id == 0 {
				continue
			}
			for i, v := range live {
				if v == id {
					live = append(live[:i], live[i+1:]...)
					dead = append(dead, id)
					break
				}
			}
			prog = append(prog, vfSeqOp{op: "Delete", id: id})
		case k < 75:
			prog = append(prog, vfSeqOp{op: "Get", id: pick()})
		case k < 97:
			prog = append(prog, vfSeqOp{op: "GetNext", id: pick()})
		default:
			prog = append(prog, vfSeqOp{op: "Interrupt"})
		}
	}
	return prog
}

// vfSeqCacheProgram: more batches than the read cache holds (it starts evicting above 1000 entries), every
// one looked up and followed twice, then oldest-first deletion with re-reads: a lookup must return what was
// added under that id no matter what the cache evicted or kept.
func vfSeqCacheProgram(rng *rand.Rand, nbatches int) []vfSeqOp {
	var prog []vfSeqOp
	id := uint64(0)
	var ids []uint64
	for i := 0; i < nbatches; i++ {
		id += uint64(1 + rng.Intn(3))
		ids = append(ids, id)
		prog = append(prog, vfSeqOp{op: "Add", id: id, n: 1 + rng.Intn(2)})
	}
	for pass := 0; pass < 2; pass++ {
		for _, x := range ids {
			prog = append(prog, vfSeqOp{op: "Get", id: x})
			if rng.Intn(2) == 0 {
				prog = append(prog, vfSeqOp{op: "GetNext", id: x})
			}
		}
	}
	for i := 0; i < nbatches/4; i++ {
		prog = append(prog, vfSeqOp{op: "Delete", id: ids[i]})
		prog = append(prog, vfSeqOp{op: "Get", id: ids[i+1+rng.Intn(nbatches/2)]})
		prog = append(prog, vfSeqOp{op: "GetNext", id: ids[i+rng.Intn(nbatches/2)]})
	}
	return prog
}

func vfSeqChunk(t *testing.T, w *bufio.Writer, rng *rand.Rand, name string, nops, maxIDs int, full bool) {
	prog := vfSeqProgram(rng, nops, maxIDs)
	if maxIDs < 0 {
		prog = vfSeqCacheProgram(rng, nops)
	}
	set := map[uint64]bool{0: true}
	for _, op := range prog {
		if op.op != "Interrupt" {
			set[op.id] = true
		}
	}
	var ids []uint64
	for id := range set {
		ids = append(ids, id)
	}
	sort.Slice(ids, func(i, j int) bool { return ids[i] < ids[j] })
	rank := map[uint64]int{}
	idstr := make([]string, len(ids))
	for i, id := range ids {
		rank[id] = i
		idstr[i] = strconv.FormatUint(id, 10)
	}
	rk := func(id uint64) int {
		if id == math.MaxUint64 {
			return -1
		}
		if v, ok := rank[id]; ok {
			return v
		}
		return -9
	}
	dir, err := os.MkdirTemp(os.Getenv("VERIF_C08_TMP"), "seq")
	if err != nil {
		t.Fatal(err)
	}
	defer os.RemoveAll(dir)
	o, err := NewOutputStream(dir)
	if err != nil {
		t.Fatal(err)
	}
	defer o.Close()
	added := map[uint64][]Message{0: vfSentinel()}
	emit := func(ev *vfEvent) {
		for _, p := range []*[]int{&ev.Keys, &ev.Next, &ev.Bad, &ev.CKeys, &ev.CNext, &ev.Parked, &ev.Runnable} {
			if *p == nil {
				*p = []int{}
			}
		}
		if ev.Ret.K == "" {
			ev.Ret.K = "none"
		}
		ev.Locked, ev.IntLock = true, true // not observable on the unmodified package
		b, err := json.Marshal(ev)
		if err != nil {
			t.Fatal(err)
		}
		w.Write(b)
		w.WriteByte('\n')
	}
	project := func(ev *vfEvent) {
		defer func() {
			// the stored bytes may be undecodable if the code under test is broken
			if p := recover(); p != nil {
				ev.Bad = append(ev.Bad, -8)
				ev.Note = fmt.Sprintf("projection panicked: %v", p)
			}
		}()
		it := o.db.NewIterator(nil, nil)
		for it.Next() {
			id := binary.BigEndian.Uint64(it.Key())
			mb := unmarshalMessageBatch(it.Value())
			ev.Keys = append(ev.Keys, rk(id))
			ev.Next = append(ev.Next, rk(mb.NextID))
			if want, ok := added[id]; !ok || !vfEqMsgs(mb.Messages, want) {
				ev.Bad = append(ev.Bad, rk(id))
			}
		}
		it.Release()
		tid := uint64(o.lastseen.Messages[0].Id.Id)
		ev.Tail, ev.TailNext = rk(tid), rk(o.lastseen.NextID)
		if want, ok := added[tid]; !ok || !vfEqMsgs(o.lastseen.Messages, want) {
			ev.Bad = append(ev.Bad, rk(tid))
		}
		type kv struct{ k, n int }
		var cs []kv
		for id, mb := range o.messagesCache {
			cs = append(cs, kv{rk(id), rk(mb.NextID)})
		}
		sort.Slice(cs, func(i, j int) bool { return cs[i].k < cs[j].k })
		for _, c := range cs {
			ev.CKeys = append(ev.CKeys, c.k)
			ev.CNext = append(ev.CNext, c.n)
		}
	}
	note := "seq"
	if full {
		note = "seq-full"
	}
	emit(&vfEvent{Ev: "Reset", Prog: name, Ids: idstr, NThreads: 1, Note: note})
	cctx, cancel := context.WithCancel(context.Background())
	cancel()
	for _, op := range prog {
		ev := &vfEvent{Ev: "Step", T: 1, A: op.op, Arg: rk(op.id), Pos: "idle"}
		func() {
			defer func() {
				if p := recover(); p != nil {
					ev.Panic = fmt.Sprintf("%v", p)
					ev.Pos = "crash"
					ev.Ret = vfRet{K: "none"}
				}
			}()
			switch op.op {
			case "Add":
				msgs := vfMakeMsgs(op.id, op.n)
				added[op.id] = msgs
				if err := o.Add(msgs); err != nil {
					panic(err)
				}
			case "Delete":
				if err := o.Delete(robust.Id{Id: op.id}); err != nil {
					panic(err)
				}
			case "Get":
				msgs, ok := o.Get(robust.Id{Id: op.id, Reply: uint64(rng.Intn(3))})
				if ok {
					ev.Ret = vfRet{K: "got", ID: rk(op.id), Exact: vfEqMsgs(msgs, added[op.id])}
				} else {
					ev.Ret = vfRet{K: "miss", ID: rk(op.id)}
				}
			case "GetNext":
				c := &vfEvent{Ev: "Step", T: 1, A: "Cancel", Arg: 1, Pos: "idle"}
				if full {
					project(c)
				}
				emit(c)
				msgs := o.GetNext(cctx, robust.Id{Id: op.id, Reply: uint64(rng.Intn(3))})
				if len(msgs) == 0 {
					ev.Ret = vfRet{K: "empty"}
				} else {
					id := uint64(msgs[0].Id.Id)
					want, ok := added[id]
					ev.Ret = vfRet{K: "next", ID: rk(id), Exact: ok && vfEqMsgs(msgs, want)}
				}
			case "Interrupt":
				ev.Arg = 0
				o.InterruptGetNext()
			}
		}()
		if full && ev.Panic == "" {
			project(ev)
		}
		emit(ev)
		if ev.Panic != "" {
			emit(&vfEvent{Ev: "Crashed"})
			return
		}
	}
	q := &vfEvent{Ev: "Quiescent"}
	if full {
		project(q)
	}
	emit(q)
}

func TestVerifC08Seq(t *testing.T) {
	outp := os.Getenv("VERIF_C08_SEQ_OUT")
	if outp == "" {
		t.Skip("VERIF_C08_SEQ_OUT not set")
	}
	seed, _ := strconv.ParseInt(os.Getenv("VERIF_SEED"), 10, 64)
	atoi := func(k string, d int) int {
		if v, err := strconv.Atoi(os.Getenv(k)); err == nil {
			return v
		}
		return d
	}
	nLong, longOps := atoi("VERIF_C08_SEQ_LONG", 2), atoi("VERIF_C08_SEQ_LONGOPS", 4000)
	nShort, shortOps := atoi("VERIF_C08_SEQ_SHORT", 40), atoi("VERIF_C08_SEQ_SHORTOPS", 40)
	fo, err := os.Create(outp)
	if err != nil {
		t.Fatal(err)
	}
	defer fo.Close()
	w := bufio.NewWriterSize(fo, 1<<20)
	defer w.Flush()
	rng := rand.New(rand.NewSource(seed*7919 + 17))
	for i := 0; i < nShort; i++ {
		vfSeqChunk(t, w, rng, fmt.Sprintf("seq-short-%d", i), shortOps, 14, true)
	}
	for i := 0; i < nLong; i++ {
		vfSeqChunk(t, w, rng, fmt.Sprintf("seq-long-%d", i), longOps, 1<<30, false)
	}
	nCache := atoi("VERIF_C08_SEQ_CACHE", 1)
	for i := 0; i < nCache; i++ {
		vfSeqChunk(t, w, rng, fmt.Sprintf("seq-cache-%d", i), 1150+rng.Intn(200), -1, false)
	}
	fmt.Fprintf(w, "{\"ev\":\"Done\",\"runs\":%d}\n", nShort+nLong+nCache)
}
