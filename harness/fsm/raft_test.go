package main

// Thorough tier of C02: the same kind of schedule driven through a REAL
// single-node hashicorp/raft instance (in-memory transport; real LevelDB log and
// stable store, real FileSnapshotStore, raft.Snapshot(), Shutdown + NewRaft as
// restart).  Validates that the in-process harness imitates raft's calling
// discipline: indices assigned by raft (configuration / no-op entries make
// gaps), Snapshot() on the FSM goroutine, Restore(newest) + replay on start.
// The only oracle here is P1/P4: the node's state equals a reference replay of
// the commands raft reported as applied, at the indices raft assigned.

import (
	"encoding/json"
	"fmt"
	"io"
	"math/rand"
	"os"
	"path/filepath"
	"strconv"
	"testing"
	"time"

	"github.com/hashicorp/raft"
	"github.com/robustirc/robustirc/internal/ircserver"
	"github.com/robustirc/robustirc/internal/outputstream"
	"github.com/robustirc/robustirc/internal/raftstore"
	"github.com/robustirc/robustirc/internal/robust"
)

type vrResult struct {
	Scenario int      `json:"scenario"`
	Seed     int64    `json:"seed"`
	Steps    []string `json:"steps"`
	Indices  []uint64 `json:"indices"`
	OK       bool     `json:"ok"`
	Where    string   `json:"where,omitempty"`
	Diff     string   `json:"diff,omitempty"`
	Err      string   `json:"err,omitempty"`
	Restarts int      `json:"restarts"`
	Snaps    int      `json:"snaps"`
	SnapErrs int      `json:"snap_errs"`
	Migrated int      `json:"migrated"` // restarts of a JSON node with -pre1.0_protobuf (stores converted)
	Offset   uint64   `json:"offset"`   // robust.MessageOffset of the scenario
}

type vrNode struct {
	dir      string
	proto    bool
	node     *raft.Raft
	logstore *raftstore.LevelDBStore
	fsm      *FSM
	trans    *raft.InmemTransport
	addr     raft.ServerAddress
	applied  []vEntry // what raft reported as applied, with raft's indices
}

func (n *vrNode) start(bootstrap bool) error {
	*raftDir = n.dir
	*network = vNetwork
	*useProtobuf = n.proto
	if err := outputstream.DeleteOldDatabases(n.dir); err != nil {
		return err
	}
	ircServer = ircserver.NewIRCServer(*network, time.Now())
	var err error
	outputStream, err = outputstream.NewOutputStream(n.dir)
	if err != nil {
		return err
	}
	fss, err := raft.NewFileSnapshotStore(n.dir, 5, io.Discard)
	if err != nil {
		return err
	}
	n.logstore, err = raftstore.NewLevelDBStore(filepath.Join(n.dir, "raftlog"), bootstrap, n.proto)
	if err != nil {
		return err
	}
	ircStore, err = raftstore.NewLevelDBStore(filepath.Join(n.dir, "irclog"), bootstrap, n.proto)
	if err != nil {
		return err
	}
	n.fsm = &FSM{
		store:             n.logstore,
		ircstore:          ircStore,
		lastSnapshotState: make(map[uint64][]byte),
		ReplaceState: func(*ircserver.IRCServer, *raftstore.LevelDBStore, *outputstream.OutputStream) {
		},
	}
	cfg := raft.DefaultConfig()
	cfg.LogOutput = io.Discard
	cfg.LocalID = raft.ServerID("verif")
	cfg.HeartbeatTimeout = 50 * time.Millisecond
	cfg.ElectionTimeout = 50 * time.Millisecond
	cfg.LeaderLeaseTimeout = 50 * time.Millisecond
	cfg.CommitTimeout = 2 * time.Millisecond
	cfg.SnapshotThreshold = 1 << 40 // snapshots only when the schedule says so
	cfg.SnapshotInterval = time.Hour
	cfg.TrailingLogs = 2
	n.addr, n.trans = raft.NewInmemTransport(raft.ServerAddress("verif"))
	logcache, err := raft.NewLogCache(64, n.logstore)
	if err != nil {
		return err
	}
	if !bootstrap {
		// as robustirc.go does for a node that is not bootstrapping
		cc := *cfg
		if _, err := raft.GetConfiguration(&cc, n.fsm, logcache, n.logstore, fss, n.trans); err != nil {
			return fmt.Errorf("GetConfiguration: %v", err)
		}
	}
	n.node, err = raft.NewRaft(cfg, n.fsm, logcache, n.logstore, fss, n.trans)
	if err != nil {
		return err
	}
	if bootstrap {
		if err := n.node.BootstrapCluster(raft.Configuration{Servers: []raft.Server{{ID: cfg.LocalID, Address: n.addr}}}).Error(); err != nil {
			return err
		}
	}
	deadline := time.Now().Add(10 * time.Second)
	for n.node.State() != raft.Leader {
		if time.Now().After(deadline) {
			return fmt.Errorf("no leader")
		}
		time.Sleep(5 * time.Millisecond)
	}
	return n.node.Barrier(5 * time.Second).Error()
}

func (n *vrNode) stop() {
	if n.node != nil {
		n.node.Shutdown().Error()
	}
	if n.trans != nil {
		n.trans.Close()
	}
	if n.logstore != nil {
		n.logstore.Close()
	}
	if n.fsm != nil && n.fsm.ircstore != nil {
		n.fsm.ircstore.Close()
	}
	if outputStream != nil {
		outputStream.Close()
	}
}

func (n *vrNode) apply(e vEntry) (uint64, error) {
	f := n.node.Apply(vEncode(vMsg(e, false), n.proto), 5*time.Second)
	if err := f.Error(); err != nil {
		return 0, err
	}
	e.Idx = f.Index()
	e.Kind = "cmd"
	n.applied = append(n.applied, e)
	return f.Index(), nil
}

func (n *vrNode) compare() (bool, string) {
	s := &vSchedule{Log: n.applied}
	ref := &vRef{sched: s, canons: map[string]*vCanonEntry{}, mod: map[uint64]bool{}, cache: map[uint64]*vRefState{}, limit: 1 << 30,
		outs: map[uint64][]outputstream.Message{}}
	last := uint64(0)
	if len(n.applied) > 0 {
		last = n.applied[len(n.applied)-1].Idx
	}
	want := ref.at(last)
	live, err := ircServer.Marshal(0)
	if err != nil {
		return false, err.Error()
	}
	canon, snap, err := vCanon(live)
	if err != nil {
		return false, err.Error()
	}
	if canon != want.canon {
		return false, vDiff(canon, want.canon)
	}
	got := vProbe(ircServer, snap)
	_, refsnap, _ := vCanon(mustMarshal(want.srv))
	exp := vProbe(want.srv, refsnap)
	if len(got) != len(exp) {
		return false, fmt.Sprintf("probes: %d vs %d replies", len(got), len(exp))
	}
	for i := range got {
		if got[i] != exp[i] {
			return false, fmt.Sprintf("probe: got %q want %q", got[i], exp[i])
		}
	}
	return true, ""
}

func vrScenario(k int, seed int64, base string) (res vrResult) {
	rng := rand.New(rand.NewSource(seed))
	res = vrResult{Scenario: k, Seed: seed, OK: true}
	dir := filepath.Join(base, fmt.Sprintf("raft-%d", k))
	os.MkdirAll(dir, 0755)
	defer os.RemoveAll(dir)
	n := &vrNode{dir: dir, proto: rng.Intn(2) == 0}
	// half of the scenarios with the production default of -robustirc_message_offset
	robust.MessageOffset = 0
	if k%2 == 0 {
		robust.MessageOffset = 4648398125000000000
	}
	res.Offset = robust.MessageOffset
	defer func() {
		if p := recover(); p != nil {
			res.OK, res.Err = false, fmt.Sprint(p)
		}
		n.stop()
	}()
	if err := n.start(true); err != nil {
		res.OK, res.Err = false, "start: "+err.Error()
		return
	}
	const T0 = int64(1600000000) * 1e9
	const S = int64(1e9)
	allOld := rng.Intn(3) == 0 // every entry older than the horizon ("idle network")
	ts := func() int64 {
		if allOld || rng.Intn(3) == 0 {
			return T0 + int64(rng.Intn(30))*S
		}
		return T0 + 5000*S + int64(rng.Intn(30))*S
	}
	var sessions []uint64
	reg := map[uint64]int{}
	cmid := uint64(10)
	check := func(where string) bool {
		ok, diff := n.compare()
		if !ok && res.OK {
			res.OK, res.Where, res.Diff = false, where, diff
		}
		return ok
	}
	nsteps := 14 + rng.Intn(14)
	for step := 0; step < nsteps && res.OK; step++ {
		r := rng.Intn(100)
		switch {
		case r < 55 || len(n.applied) < 3:
			var e vEntry
			q := rng.Intn(10)
			switch {
			case q < 2 || len(sessions) == 0:
				e = vEntry{Type: int(robust.CreateSession), TS: ts(), Data: "auth"}
			case q < 3:
				e = vEntry{Type: int(robust.Config), TS: ts(), Rev: uint64(step + 1), Data: "SessionExpiration = \"" + []string{"45s", "10m", "30m"}[rng.Intn(3)] + "\"\n"}
			default:
				s := sessions[rng.Intn(len(sessions))]
				cmid++
				line := ""
				switch reg[s] {
				case 0:
					line = "NICK r" + strconv.FormatUint(s, 10)
				case 1:
					line = "USER r 0 * :r"
				default:
					line = []string{"JOIN #a", "JOIN #b", "PART #a", "TOPIC #a :t" + strconv.Itoa(step), "PRIVMSG #a :x", "AWAY :gone", "MODE #a +i"}[rng.Intn(7)]
				}
				reg[s]++
				e = vEntry{Type: int(robust.IRCFromClient), TS: ts(), Sess: s, Cmid: cmid, Data: line}
			}
			idx, err := n.apply(e)
			if err != nil {
				res.OK, res.Err = false, "apply: "+err.Error()
				return
			}
			if e.Type == int(robust.CreateSession) {
				sessions = append(sessions, idx)
			}
			res.Steps = append(res.Steps, fmt.Sprintf("apply@%d", idx))
			res.Indices = append(res.Indices, idx)
		case r < 80:
			*canaryCompactionStart = T0 + 2000*S + int64(rng.Intn(3))*3000*S
			err := n.node.Snapshot().Error()
			if err != nil {
				res.SnapErrs++
				res.Steps = append(res.Steps, "snapshot-err")
			} else {
				res.Snaps++
				res.Steps = append(res.Steps, "snapshot")
			}
			check("snapshot")
		default:
			n.stop()
			what := "restart"
			if !n.proto && rng.Intn(3) == 0 {
				// the encoding migration of the node: raft's own entries (configuration,
				// no-ops), its stable store and the JSON snapshots are in the raftdir
				n.proto = true
				res.Migrated++
				what = "restart-as-protobuf"
			}
			if err := n.start(false); err != nil {
				res.OK, res.Err = false, what+": "+err.Error()
				return
			}
			res.Restarts++
			res.Steps = append(res.Steps, what)
			check(what)
		}
	}
	if res.OK {
		// always end with snapshot, restart
		*canaryCompactionStart = T0 + 9000*S
		if n.node.Snapshot().Error() == nil {
			res.Snaps++
		}
		n.stop()
		what := "restart"
		if !n.proto {
			n.proto = true
			res.Migrated++
			what = "restart-as-protobuf"
		}
		if err := n.start(false); err != nil {
			res.OK, res.Err = false, "final "+what+": "+err.Error()
			return
		}
		res.Restarts++
		res.Steps = append(res.Steps, "snapshot", what)
		check("final-" + what)
	}
	return res
}

// TestVerifFSMRealRaft runs $VERIF_FSM_RAFT_N seeded scenarios and writes one
// JSON line per scenario to $VERIF_FSM_OUT.
func TestVerifFSMRealRaft(t *testing.T) {
	outp := os.Getenv("VERIF_FSM_OUT")
	if outp == "" || os.Getenv("VERIF_FSM_RAFT_N") == "" {
		t.Skip("VERIF_FSM_RAFT_N / VERIF_FSM_OUT not set")
	}
	vQuiet()
	num, _ := strconv.Atoi(os.Getenv("VERIF_FSM_RAFT_N"))
	seed, _ := strconv.ParseInt(os.Getenv("VERIF_SEED"), 10, 64)
	base := os.Getenv("VERIF_FSM_DIR")
	if base == "" {
		base = t.TempDir()
	}
	out, err := os.Create(outp)
	if err != nil {
		t.Fatal(err)
	}
	defer out.Close()
	enc := json.NewEncoder(out)
	for k := 0; k < num; k++ {
		enc.Encode(vrScenario(k, seed*1000003+int64(k), base))
	}
}
