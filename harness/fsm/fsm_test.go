package main

// Harness for C02 / C07 (DESIGN.md 3.3, 4.3, 6): executes schedules of
// Apply / SnapshotTake / PersistOK / PersistFail / Restore / Restart on the REAL
// FSM of package main (real LevelDB raftlog + irclog in a scratch raftdir, real
// OutputStream, real raft.FileSnapshotStore), and after every step writes
//   post : the projection of the node (DESIGN 4.3)
//   chk  : differential facts against a reference instance that applied
//          log[1..applied] with no snapshotting.
// The verdict is taken on the Python side (checks/fsm_common.py) and by TLC
// (FSMTrace.tla); this file only executes and observes.
//
// Injected into /repo by -overlay as zz_verif_fsm_test.go; nothing is written
// to /repo.  One process runs many schedules one after the other (package main
// keeps the FSM's world in globals, so there is one node at a time); process
// restarts and the message-of-death path run as separate child processes of
// the same test binary (schedule field "resume").

import (
	"bufio"
	"bytes"
	"encoding/base64"
	"encoding/binary"
	"encoding/json"
	"errors"
	"flag"
	"fmt"
	"io"
	"log"
	"math"
	"os"
	"path/filepath"
	"reflect"
	"regexp"
	"sort"
	"strconv"
	"strings"
	"testing"
	"time"

	"github.com/golang/protobuf/proto"
	"github.com/hashicorp/raft"
	"github.com/robustirc/rafthttp"
	"github.com/robustirc/robustirc/internal/ircserver"
	"github.com/robustirc/robustirc/internal/outputstream"
	pb "github.com/robustirc/robustirc/internal/proto"
	"github.com/robustirc/robustirc/internal/raftstore"
	"github.com/robustirc/robustirc/internal/robust"
	"gopkg.in/sorcix/irc.v2"
)

const vNetwork = "verif.net"

type vEntry struct {
	Idx      uint64 `json:"idx"`
	Kind     string `json:"kind"` // "cmd" | "raft"
	Type     int    `json:"type"` // robust.Type
	RaftType int    `json:"rafttype"`
	TS       int64  `json:"ts"` // UnixNano
	Sess     uint64 `json:"sess"`
	Cmid     uint64 `json:"cmid"`
	Rev      uint64 `json:"rev"`
	Data     string `json:"data"`
	Addr     string `json:"addr"`
	Ext      string `json:"ext"` // raft.Log.Extensions
}

type vStep struct {
	A   string `json:"a"`
	I   uint64 `json:"i"`
	Now int64  `json:"now"` // compaction time, UnixNano (SnapshotTake)
	K   int    `json:"k"`   // PersistFail: the sink fails once k bytes were written
	Enc string `json:"enc"` // RestartEnc: "proto" | "json", the value of -pre1.0_protobuf of the new process
}

type vSchedule struct {
	Name   string   `json:"name"`
	Proto  bool     `json:"proto"`
	Log    []vEntry `json:"log"`
	Steps  []vStep  `json:"steps"`
	Mod    []uint64 `json:"mod"`    // entries the reference treats as message of death
	Resume bool     `json:"resume"` // raftdir exists: run raft's start-up sequence first
	Dir    string   `json:"dir"`    // persistent raftdir (child-process schedules)
	Abs    bool     `json:"abs"`    // log is of the decodable family (effect marks)
	Twice  bool     `json:"twice"`  // Restore twice on start (GetConfiguration + NewRaft)
	// Prestore: the first n entries are in the raft log before anything is applied
	Prestore int `json:"prestore"`
	// Lenient: steps that are not enabled are skipped (random schedules)
	Lenient bool `json:"lenient"`
	// ConvDump (with Resume): this process start is the encoding migration of the node
	// (the stores were written by a process with the other encoding): the raw content of
	// both stores is recorded before they are opened (= converted) and after
	ConvDump bool `json:"convdump"`
	// Offset: robust.MessageOffset of the node's processes (-robustirc_message_offset; the
	// production default is 4648398125000000000).  Message and session ids are offset +
	// raft index; the schedule (sess of an entry), the reference's bookkeeping and every
	// projection use raft indices, the harness converts.
	Offset uint64 `json:"offset"`
}

// vId: the id the node gives the entry stored at a raft index (a session's id is the id of
// its CreateSession entry).
func vId(idx uint64) uint64 { return robust.IdFromRaftIndex(idx) }

// vIdx: id -> raft index for the projections.  An id below a non-zero offset cannot be any
// entry's id; it is mapped out of the index range so that it shows in the projection.
func vIdx(id uint64) uint64 {
	if robust.MessageOffset == 0 {
		return id
	}
	if id >= robust.MessageOffset {
		return id - robust.MessageOffset
	}
	return 1000000 + id%1000000
}

// vConv: raw content of the raft log store and of the irclog before and after the
// conversion which NewLevelDBStore runs when the node starts with another encoding
type vConv struct {
	Enc      string    `json:"enc"`
	RaftPre  []vRawRec `json:"raft_pre"`
	RaftPost []vRawRec `json:"raft_post"`
	IrcPre   []vRawRec `json:"irc_pre"`
	IrcPost  []vRawRec `json:"irc_post"`
}

type vAbs struct {
	Sess   []uint64          `json:"sess"`
	Marks  []uint64          `json:"marks"`
	Marker map[string]uint64 `json:"marker"`
	Rev    uint64            `json:"rev"`
	Cexp   int64             `json:"cexp"` // ns
	Maxs   uint64            `json:"maxs"` // Config.MaxSessions
}

type vLss struct {
	K      uint64 `json:"k"`
	Abs    *vAbs  `json:"abs,omitempty"`
	Covers []int  `json:"covers"` // every n with state == reference replay of log[1..n]
	Err    string `json:"err,omitempty"`
}

type vSnap struct {
	ID         string   `json:"id"`
	Ridx       uint64   `json:"ridx"`
	Li         uint64   `json:"li"`
	Abs        *vAbs    `json:"abs,omitempty"`
	Covers     []int    `json:"covers"`
	Retained   []uint64 `json:"retained"`
	RetainedOK bool     `json:"retained_ok"` // retained entries equal the raft log's entries
	Err        string   `json:"err,omitempty"`
	Fmt        string   `json:"fmt"`  // container: "proto" | "json"
	Renc       []vEnc   `json:"renc"` // encoding of every retained record
}

// vEnc: [key, envelope encoding, payload encoding] of one stored value
type vEnc [3]interface{}

type vPost struct {
	Applied uint64   `json:"applied"`
	Stored  uint64   `json:"stored"`
	Store   []uint64 `json:"store"`
	Lss     []vLss   `json:"lss"`
	Outs    []uint64 `json:"outs"`
	Snaps   []vSnap  `json:"snaps"` // oldest first
	Srv     *vAbs    `json:"srv,omitempty"`
	Exp     int64    `json:"exp"` // fsm.sessionExpirationDur, ns
	Pending *vPend   `json:"pending,omitempty"`
	Enc     string   `json:"enc"`  // *useProtobuf of the running process
	Renc    []vEnc   `json:"renc"` // raft log store, every value
	Ienc    []vEnc   `json:"ienc"` // irclog, every value
}

type vPend struct {
	First  uint64 `json:"first"`
	Last   uint64 `json:"last"`
	Ridx   uint64 `json:"ridx"`
	Covers []int  `json:"covers"`
	Abs    *vAbs  `json:"abs,omitempty"`
}

type vChk struct {
	SrvEq    bool     `json:"srv_eq"`
	SrvDiff  string   `json:"srv_diff,omitempty"`
	ProbeEq  bool     `json:"probe_eq"`
	ProbeDf  string   `json:"probe_diff,omitempty"`
	Probes   int      `json:"probes"`
	MarkerEq bool     `json:"marker_eq"`
	OutBad   []uint64 `json:"out_bad"`   // present in the output store but != reference replies
	RefOut   []uint64 `json:"ref_out"`   // command ids <= applied for which the reference produced output
	StoreBad []uint64 `json:"store_bad"` // irclog entries that differ from the raft log's entry
	RefExp   int64    `json:"ref_exp"`   // expiration configured in the reference, ns
	RefLimit int      `json:"ref_limit"` // the reference could be built up to this index
}

type vEvent struct {
	Sched string    `json:"sched"`
	N     int       `json:"n"`
	Ev    string    `json:"ev"`
	Step  *vStep    `json:"step,omitempty"`
	Err   string    `json:"err,omitempty"`
	Panic string    `json:"panic,omitempty"`
	Post  *vPost    `json:"post,omitempty"`
	Chk   *vChk     `json:"chk,omitempty"`
	Info  string    `json:"info,omitempty"`
	Raw   []vRawRec `json:"raw,omitempty"`
	Final *vFinal   `json:"final,omitempty"`
	Conv  *vConv    `json:"conv,omitempty"`
}

// vFinal: outcome of the state-changing probes run once at the end of a schedule
type vFinal struct {
	Eq     bool   `json:"eq"`
	Diff   string `json:"diff,omitempty"`
	Probes int    `json:"probes"`
}

// ---------------------------------------------------------------- encoding

func vMsg(e vEntry, asMod bool) *robust.Message {
	t := robust.Type(e.Type)
	if asMod {
		t = robust.MessageOfDeath
	}
	sess := uint64(0)
	if e.Sess != 0 {
		sess = vId(e.Sess)
	}
	// no embedded id: what api.applyMessageWait writes (the id is derived from the raft index)
	return &robust.Message{
		Session:         robust.Id{Id: sess},
		Type:            t,
		Data:            e.Data,
		UnixNano:        e.TS,
		ClientMessageId: e.Cmid,
		Revision:        e.Rev,
		RemoteAddr:      e.Addr,
	}
}

// vEncode encodes like api.applyMessageWait does.
func vEncode(m *robust.Message, useProto bool) []byte {
	if useProto {
		b, err := proto.Marshal(m.ProtoMessage())
		if err != nil {
			panic(err)
		}
		return append([]byte{'p'}, b...)
	}
	b, err := json.Marshal(m)
	if err != nil {
		panic(err)
	}
	return b
}

func vRaftLog(e vEntry, useProto bool) *raft.Log {
	if e.Kind == "raft" {
		t := raft.LogType(e.RaftType)
		if t == raft.LogCommand {
			t = raft.LogNoop
		}
		return &raft.Log{Index: e.Idx, Term: 1, Type: t, Extensions: vExt(e)}
	}
	return &raft.Log{Index: e.Idx, Term: 1, Type: raft.LogCommand, Data: vEncode(vMsg(e, false), useProto), Extensions: vExt(e)}
}

func vExt(e vEntry) []byte {
	if e.Ext == "" {
		return nil
	}
	return []byte(e.Ext)
}

func vEncName(useProto bool) string {
	if useProto {
		return "proto"
	}
	return "json"
}

// vEncOfValue classifies one stored value (its own decoder, not raftlog.FromBytes):
// envelope and payload encoding, "none" for a raft-internal entry.
func vEncOfValue(val []byte) (env, data string, err error) {
	var typ raft.LogType
	var payload []byte
	if len(val) > 0 && val[0] == 'p' {
		env = "proto"
		var p pb.RaftLog
		if err := proto.Unmarshal(val[1:], &p); err != nil {
			return env, "", err
		}
		typ, payload = raft.LogType(p.Type), p.Data
	} else {
		env = "json"
		var l raft.Log
		if err := json.Unmarshal(val, &l); err != nil {
			return env, "", err
		}
		typ, payload = l.Type, l.Data
	}
	if typ != raft.LogCommand {
		return env, "none", nil
	}
	if len(payload) > 0 && payload[0] == 'p' {
		return env, "proto", nil
	}
	return env, "json", nil
}

func vEncsOf(st *raftstore.LevelDBStore) []vEnc {
	res := []vEnc{}
	it := st.GetBulkIterator(0, math.MaxUint64)
	defer it.Release()
	for ok := it.First(); ok; ok = it.Next() {
		if len(it.Key()) != 8 {
			continue
		}
		env, data, err := vEncOfValue(it.Value())
		if err != nil {
			data = "undecodable"
		}
		res = append(res, vEnc{binary.BigEndian.Uint64(it.Key()), env, data})
	}
	return res
}

// ---------------------------------------------------------------- canonical state

var vRe003 = regexp.MustCompile(`( 003 [^:]*:This server was created ).*`)

func vCanon(state []byte) (string, *pb.Snapshot, error) {
	var s pb.Snapshot
	if err := proto.Unmarshal(state, &s); err != nil {
		return "", nil, err
	}
	s.LastIncludedIndex = 0
	sort.Slice(s.Sessions, func(a, b int) bool {
		if s.Sessions[a].Id.Id != s.Sessions[b].Id.Id {
			return s.Sessions[a].Id.Id < s.Sessions[b].Id.Id
		}
		return s.Sessions[a].Id.Reply < s.Sessions[b].Id.Reply
	})
	for _, x := range s.Sessions {
		sort.Strings(x.Channels)
		sort.Strings(x.InvitedTo)
		sort.Strings(x.Modes)
	}
	sort.Slice(s.Channels, func(a, b int) bool { return s.Channels[a].Name < s.Channels[b].Name })
	for _, c := range s.Channels {
		sort.Strings(c.Modes)
		for _, m := range c.Nicks {
			sort.Strings(m.Mode)
		}
	}
	b, err := json.Marshal(&s)
	if err != nil {
		return "", nil, err
	}
	return string(b), &s, nil
}

var (
	vReNick = regexp.MustCompile(`^n(\d+)$`)
	vReUser = regexp.MustCompile(`^u(\d+)$`)
	vReChan = regexp.MustCompile(`^#e(\d+)$`)
)

func vAbsOf(s *pb.Snapshot) *vAbs {
	a := &vAbs{Marker: map[string]uint64{}, Sess: []uint64{}, Marks: []uint64{}}
	add := func(re *regexp.Regexp, v string) {
		if m := re.FindStringSubmatch(v); m != nil {
			k, _ := strconv.ParseUint(m[1], 10, 64)
			a.Marks = append(a.Marks, k)
		}
	}
	for _, x := range s.Sessions {
		a.Sess = append(a.Sess, vIdx(x.Id.Id))
		a.Marker[strconv.FormatUint(vIdx(x.Id.Id), 10)] = x.LastClientMessageId
		add(vReNick, x.Nick)
		add(vReUser, x.Username)
		for _, c := range x.Channels {
			add(vReChan, c)
		}
	}
	sort.Slice(a.Sess, func(i, j int) bool { return a.Sess[i] < a.Sess[j] })
	sort.Slice(a.Marks, func(i, j int) bool { return a.Marks[i] < a.Marks[j] })
	if s.Config != nil {
		a.Rev = s.Config.Revision
		a.Maxs = s.Config.MaxSessions
		if d, err := time.ParseDuration(s.Config.SessionExpiration); err == nil {
			a.Cexp = int64(d)
		}
	}
	return a
}

// ---------------------------------------------------------------- reference

type vRefState struct {
	canon string
	abs   *vAbs
	exp   int64
	srv   *ircserver.IRCServer
}

type vCanonEntry struct {
	canon  string
	abs    *vAbs
	li     uint64
	covers []int
	err    error
}

type vRef struct {
	canons map[string]*vCanonEntry
	sched  *vSchedule
	mod    map[uint64]bool
	cache  map[uint64]*vRefState
	limit  int // entries above this index could not be applied by the reference (PANIC)
	outs   map[uint64][]outputstream.Message
	dir    string
}

var vRefCreation = time.Unix(1500000000, 0)

// replay applies log[1..n] to a fresh server, never snapshotting. It goes
// through the same FSM.applyRobustMessage as the node, on its own FSM value.
func (r *vRef) replay(n uint64, stream *outputstream.OutputStream) (srv *ircserver.IRCServer, reached uint64, panicked bool) {
	srv = ircserver.NewIRCServer(vNetwork, vRefCreation)
	f := &FSM{}
	defer func() {
		if p := recover(); p != nil {
			// a PANIC entry that is not (yet) marked: the reference ends before it
			panicked = true
		}
	}()
	for _, e := range r.sched.Log {
		if e.Idx > n {
			break
		}
		if e.Kind == "cmd" {
			m := robust.NewMessageFromBytes(vEncode(vMsg(e, false), false), robust.IdFromRaftIndex(e.Idx))
			if r.mod[e.Idx] {
				// "the log minus that entry, duplicate marker advanced" -- deliberately
				// NOT through applyRobustMessage's MessageOfDeath case
				srv.UpdateLastClientMessageID(&m)
			} else {
				f.applyRobustMessage(&m, srv, stream)
			}
		}
		reached = e.Idx
	}
	return srv, reached, false
}

func (r *vRef) at(n uint64) *vRefState {
	if st, ok := r.cache[n]; ok {
		return st
	}
	if int(n) > r.limit {
		return nil
	}
	srv, reached, panicked := r.replay(n, nil)
	if panicked {
		if int(reached) < r.limit {
			r.limit = int(reached)
		}
		return nil
	}
	b, err := srv.Marshal(0)
	if err != nil {
		panic(err)
	}
	c, snap, err := vCanon(b)
	if err != nil {
		panic(err)
	}
	srv.ConfigMu.RLock()
	exp := int64(srv.Config.SessionExpiration)
	srv.ConfigMu.RUnlock()
	st := &vRefState{canon: c, abs: vAbsOf(snap), exp: exp, srv: srv}
	r.cache[n] = st
	return st
}

func vNewRef(s *vSchedule, scratch string) *vRef {
	r := &vRef{sched: s, canons: map[string]*vCanonEntry{}, mod: map[uint64]bool{}, cache: map[uint64]*vRefState{}, limit: math.MaxInt32,
		outs: map[uint64][]outputstream.Message{}, dir: scratch}
	for _, m := range s.Mod {
		r.mod[m] = true
	}
	// one full pass with a real OutputStream gives the reference replies per input id
	stream, err := outputstream.NewOutputStream(scratch)
	if err != nil {
		panic(err)
	}
	last := uint64(0)
	if len(s.Log) > 0 {
		last = s.Log[len(s.Log)-1].Idx
	}
	_, reached, panicked := r.replay(last, stream)
	if panicked {
		r.limit = int(reached)
	}
	for _, e := range s.Log {
		if msgs, ok := stream.Get(robust.Id{Id: vId(e.Idx)}); ok {
			r.outs[e.Idx] = msgs
		}
	}
	stream.Close()
	return r
}

// describe decodes a serialized IRCServer state once (states are immutable byte strings)
func (r *vRef) describe(state []byte) *vCanonEntry {
	if e, ok := r.canons[string(state)]; ok {
		return e
	}
	e := &vCanonEntry{covers: []int{}}
	canon, snap, err := vCanon(state)
	if err != nil {
		e.err = err
	} else {
		var raw pb.Snapshot
		proto.Unmarshal(state, &raw)
		e.li = raw.LastIncludedIndex
		e.canon = canon
		e.abs = vAbsOf(snap)
		e.covers = r.covers(canon)
	}
	r.canons[string(state)] = e
	return e
}

func (r *vRef) covers(canon string) []int {
	res := []int{}
	last := uint64(0)
	if len(r.sched.Log) > 0 {
		last = r.sched.Log[len(r.sched.Log)-1].Idx
	}
	for n := uint64(0); n <= last; n++ {
		st := r.at(n)
		if st == nil {
			break
		}
		if st.canon == canon {
			res = append(res, int(n))
		}
	}
	return res
}

func vMsgsEqual(a, b []outputstream.Message) bool {
	if len(a) != len(b) {
		return false
	}
	for i := range a {
		if a[i].Id != b[i].Id {
			return false
		}
		if vRe003.ReplaceAllString(a[i].Data, "$1") != vRe003.ReplaceAllString(b[i].Data, "$1") {
			return false
		}
		if len(a[i].InterestingFor) != len(b[i].InterestingFor) {
			return false
		}
		for k, v := range a[i].InterestingFor {
			if b[i].InterestingFor[k] != v {
				return false
			}
		}
	}
	return true
}

// ---------------------------------------------------------------- probes

func vProbe(srv *ircserver.IRCServer, canon *pb.Snapshot) []string {
	var prober uint64
	found := false
	var nicks, chans []string
	for _, s := range canon.Sessions {
		if s.LoggedIn == pb.Bool_TRUE && !s.Server && s.Id.Reply == 0 && !found {
			prober, found = s.Id.Id, true
		}
		if s.Nick != "" {
			nicks = append(nicks, s.Nick)
		}
	}
	if !found {
		return nil
	}
	for _, c := range canon.Channels {
		chans = append(chans, c.Name)
	}
	var lines []string
	for _, c := range chans {
		lines = append(lines, "NAMES "+c, "MODE "+c, "TOPIC "+c, "MODE "+c+" b", "WHO "+c)
	}
	for _, n := range nicks {
		lines = append(lines, "WHOIS "+n, "USERHOST "+n)
	}
	lines = append(lines, "LIST", "ISON "+strings.Join(nicks, " "))
	var out []string
	for _, l := range lines {
		m := &robust.Message{Id: robust.Id{Id: 1 << 40}, Session: robust.Id{Id: prober}, Type: robust.IRCFromClient, Data: l}
		rep := srv.ProcessMessage(m, irc.ParseMessage(l))
		for _, x := range rep.Messages {
			var to []string
			for k, v := range x.InterestingFor {
				if v {
					to = append(to, strconv.FormatUint(k, 10))
				}
			}
			sort.Strings(to)
			out = append(out, l+" => "+x.Data+" @"+strings.Join(to, ","))
		}
	}
	return out
}

// ---------------------------------------------------------------- snapshot file parser (independent of Restore)

type vSnapContent struct {
	state    []byte
	retained []*raft.Log
	fmt      string
	renc     []vEnc
}

func vParseSnapshot(rd io.Reader) (*vSnapContent, error) {
	b := bufio.NewReader(rd)
	first, err := b.Peek(1)
	if err != nil {
		return nil, err
	}
	c := &vSnapContent{fmt: "json", renc: []vEnc{}}
	handle := func(l *raft.Log, env string) error {
		msg := robust.NewMessageFromBytes(l.Data, robust.IdFromRaftIndex(l.Index))
		if msg.Type == robust.State {
			st, err := base64.StdEncoding.DecodeString(msg.Data)
			if err != nil {
				return err
			}
			c.state = st
			return nil
		}
		c.retained = append(c.retained, l)
		data := "json"
		if len(l.Data) > 0 && l.Data[0] == 'p' {
			data = "proto"
		}
		c.renc = append(c.renc, vEnc{l.Index, env, data})
		return nil
	}
	if first[0] == 'p' {
		c.fmt = "proto"
		b.ReadByte()
		for {
			var lenbuf [8]byte
			if _, err := io.ReadFull(b, lenbuf[:]); err != nil {
				if err == io.EOF {
					break
				}
				return nil, err
			}
			buf := make([]byte, binary.BigEndian.Uint64(lenbuf[:]))
			if _, err := io.ReadFull(b, buf); err != nil {
				return nil, err
			}
			if len(buf) == 0 || buf[0] != 'p' {
				return nil, fmt.Errorf("record without p prefix")
			}
			var p pb.RaftLog
			if err := proto.Unmarshal(buf[1:], &p); err != nil {
				return nil, err
			}
			if err := handle(&raft.Log{Index: p.Index, Term: p.Term, Type: raft.LogType(p.Type), Data: p.Data}, "proto"); err != nil {
				return nil, err
			}
		}
		return c, nil
	}
	dec := json.NewDecoder(b)
	for {
		var l raft.Log
		if err := dec.Decode(&l); err != nil {
			if err == io.EOF {
				break
			}
			return nil, err
		}
		if err := handle(&l, "json"); err != nil {
			return nil, err
		}
	}
	return c, nil
}

// ---------------------------------------------------------------- the node

type vNode struct {
	s           *vSchedule
	dir         string
	logstore    *raftstore.LevelDBStore
	fsm         *FSM
	fss         *raft.FileSnapshotStore
	pending     raft.FSMSnapshot
	pendingRidx uint64
	applied     uint64
	stored      uint64
	ref         *vRef
	byIdx       map[uint64]vEntry
	snapCache   map[string]*vSnapContent
	proto       bool   // *useProtobuf of the running process
	conv        *vConv // set by a RestartEnc step, collected by the driver
}

func (n *vNode) open() error {
	*raftDir = n.dir
	*network = vNetwork
	*useProtobuf = n.proto
	if err := outputstream.DeleteOldDatabases(n.dir); err != nil {
		return err
	}
	ircServer = ircserver.NewIRCServer(*network, time.Now())
	var err error
	outputStream, err = outputstream.NewOutputStream(n.dir)
	if err != nil {
		return err
	}
	n.fss, err = raft.NewFileSnapshotStore(n.dir, 5, io.Discard)
	if err != nil {
		return err
	}
	n.logstore, err = raftstore.NewLevelDBStore(filepath.Join(n.dir, "raftlog"), false, n.proto)
	if err != nil {
		return err
	}
	ircStore, err = raftstore.NewLevelDBStore(filepath.Join(n.dir, "irclog"), false, n.proto)
	if err != nil {
		return err
	}
	n.fsm = &FSM{
		store:             n.logstore,
		ircstore:          ircStore,
		lastSnapshotState: make(map[uint64][]byte),
		ReplaceState: func(*ircserver.IRCServer, *raftstore.LevelDBStore, *outputstream.OutputStream) {
		},
	}
	n.pending = nil
	return nil
}

func (n *vNode) closeStores() {
	if n.logstore != nil {
		n.logstore.Close()
	}
	if n.fsm != nil && n.fsm.ircstore != nil {
		n.fsm.ircstore.Close()
	}
	if outputStream != nil {
		outputStream.Close()
	}
}

// startup is raft's start-up sequence: Restore(newest snapshot) (twice when the
// node is not bootstrapping: raft.GetConfiguration and raft.NewRaft both do
// it), then Apply of the raft log after the snapshot's index.
func (n *vNode) startup() error {
	last, err := n.logstore.LastIndex()
	if err != nil {
		return err
	}
	n.stored = last
	snaps, err := n.fss.List()
	if err != nil {
		return err
	}
	from := uint64(1)
	if len(snaps) > 0 {
		times := 1
		if n.s.Twice {
			times = 2
		}
		for i := 0; i < times; i++ {
			_, rc, err := n.fss.Open(snaps[0].ID)
			if err != nil {
				return err
			}
			if err := n.fsm.Restore(rc); err != nil {
				return fmt.Errorf("Restore: %v", err)
			}
		}
		from = snaps[0].Index + 1
		n.applied = snaps[0].Index
	}
	for i := from; i <= last; i++ {
		var l raft.Log
		if err := n.logstore.GetLog(i, &l); err != nil {
			return fmt.Errorf("GetLog(%d): %v", i, err)
		}
		n.fsm.Apply(&l)
		n.applied = i
	}
	return nil
}

type vFailSink struct {
	raft.SnapshotSink
	left   int
	failed bool // a Write was refused
}

var errSinkFull = errors.New("verif: injected sink failure")

func (f *vFailSink) Write(p []byte) (int, error) {
	if len(p) > f.left {
		n, _ := f.SnapshotSink.Write(p[:f.left])
		f.left = 0
		f.failed = true
		return n, errSinkFull
	}
	f.left -= len(p)
	return f.SnapshotSink.Write(p)
}

func (n *vNode) step(st vStep) (errs string) {
	switch st.A {
	case "Apply", "ApplyPanics":
		if st.I == 0 {
			// random schedules: "the next entry"
			st.I = n.applied + 1
			if _, ok := n.byIdx[st.I]; !ok {
				return "skip: log exhausted"
			}
		}
		if st.I != n.applied+1 {
			return fmt.Sprintf("harness: Apply(%d) but applied=%d", st.I, n.applied)
		}
		if st.I > n.stored {
			e, ok := n.byIdx[st.I]
			if !ok {
				return fmt.Sprintf("harness: no entry %d", st.I)
			}
			if err := n.logstore.StoreLogs([]*raft.Log{vRaftLog(e, n.proto)}); err != nil {
				return "StoreLogs: " + err.Error()
			}
			n.stored = st.I
		}
		var l raft.Log
		if err := n.logstore.GetLog(st.I, &l); err != nil {
			return "GetLog: " + err.Error()
		}
		n.fsm.Apply(&l)
		n.applied = st.I
	case "SnapshotTake":
		if n.pending != nil && n.s.Lenient {
			return "skip: snapshot pending"
		}
		*canaryCompactionStart = st.Now
		snap, err := n.fsm.Snapshot()
		if err != nil {
			return "Snapshot: " + err.Error()
		}
		n.pending = snap
		n.pendingRidx = n.applied
	case "PersistOK", "PersistFail":
		if n.pending == nil {
			if n.s.Lenient {
				return "skip: no pending snapshot"
			}
			return "harness: no pending snapshot"
		}
		time.Sleep(1100 * time.Microsecond) // snapshot ids carry a millisecond timestamp
		sink, err := n.fss.Create(1, n.pendingRidx, 1, raft.Configuration{}, 0, &rafthttp.HTTPTransport{})
		if err != nil {
			return "Create: " + err.Error()
		}
		var target raft.SnapshotSink = sink
		var fs *vFailSink
		if st.A == "PersistFail" {
			fs = &vFailSink{SnapshotSink: sink, left: st.K}
			target = fs
		}
		perr := n.pending.Persist(target)
		if fs != nil && fs.failed && perr == nil {
			// raft finalises the sink when Persist returns nil: a truncated snapshot would become the newest one
			sink.Cancel()
			n.pending.Release()
			n.pending = nil
			return "Persist returned nil although a write to the sink failed"
		}
		if perr != nil || st.A == "PersistFail" {
			// Persist failed, or (k beyond the snapshot's size) finalising the
			// sink failed: raft cancels the sink either way
			sink.Cancel()
		} else if err := sink.Close(); err != nil {
			return "sink.Close: " + err.Error()
		}
		n.pending.Release()
		n.pending = nil
		if st.A == "PersistOK" && perr != nil {
			return "Persist: " + perr.Error()
		}
	case "Restore":
		snaps, err := n.fss.List()
		if err == nil && len(snaps) == 0 && n.s.Lenient {
			return "skip: no snapshot"
		}
		if n.pending != nil && n.s.Lenient {
			return "skip: snapshot pending"
		}
		if err != nil || len(snaps) == 0 {
			return fmt.Sprintf("harness: no snapshot to restore (%v)", err)
		}
		_, rc, err := n.fss.Open(snaps[0].ID)
		if err != nil {
			return "Open: " + err.Error()
		}
		if err := n.fsm.Restore(rc); err != nil {
			return "Restore: " + err.Error()
		}
		n.applied = snaps[0].Index
	case "Restart":
		n.closeStores()
		if err := n.open(); err != nil {
			return "open: " + err.Error()
		}
		if err := n.startup(); err != nil {
			return "startup: " + err.Error()
		}
	case "RestartEnc":
		// the node is stopped and started with the other value of -pre1.0_protobuf:
		// robustirc.go opens both stores with the new flag (NewLevelDBStore converts
		// them), then raft starts (Restore(newest snapshot), replay of the raft log)
		want := st.Enc == "proto"
		if want == n.proto || !want {
			if n.s.Lenient {
				return "skip: no migration from " + vEncName(n.proto) + " to " + st.Enc
			}
			return "harness: no migration from " + vEncName(n.proto) + " to " + st.Enc
		}
		n.closeStores()
		n.logstore, n.fsm = nil, nil
		conv := &vConv{Enc: st.Enc}
		var err error
		if conv.RaftPre, conv.IrcPre, err = vDumpDir(n.dir); err != nil {
			return "harness: dump before the conversion: " + err.Error()
		}
		n.proto = want
		if err := n.open(); err != nil {
			return "open: " + err.Error()
		}
		conv.RaftPost, conv.IrcPost = vRawDump(n.logstore), vRawDump(n.fsm.ircstore)
		n.conv = conv
		if err := n.startup(); err != nil {
			return "startup: " + err.Error()
		}
	case "Tick":
	default:
		return "harness: unknown step " + st.A
	}
	return ""
}

// vSameEntry: the same entry, whatever the encoding of the two copies (a snapshot
// written in the JSON life is compared with the converted raft log).
func vSameEntry(a, b *raft.Log) (same bool) {
	if a.Type != b.Type {
		return false
	}
	if bytes.Equal(a.Data, b.Data) {
		return true
	}
	if a.Type != raft.LogCommand {
		return false
	}
	defer func() {
		if recover() != nil {
			same = false
		}
	}()
	x := robust.NewMessageFromBytes(a.Data, robust.IdFromRaftIndex(a.Index))
	y := robust.NewMessageFromBytes(b.Data, robust.IdFromRaftIndex(b.Index))
	return reflect.DeepEqual(x, y)
}

func vKeys(st *raftstore.LevelDBStore) []uint64 {
	keys := []uint64{}
	it := st.GetBulkIterator(0, math.MaxUint64)
	defer it.Release()
	for ok := it.First(); ok; ok = it.Next() {
		if len(it.Key()) == 8 {
			keys = append(keys, binary.BigEndian.Uint64(it.Key()))
		}
	}
	return keys
}

func (n *vNode) observe() (*vPost, *vChk) {
	p := &vPost{Applied: n.applied, Stored: n.stored, Lss: []vLss{}, Outs: []uint64{}, Snaps: []vSnap{}}
	c := &vChk{OutBad: []uint64{}, RefOut: []uint64{}, StoreBad: []uint64{}}
	p.Exp = int64(n.fsm.sessionExpiration())
	p.Enc = vEncName(*useProtobuf)
	p.Renc = vEncsOf(n.logstore)
	p.Ienc = vEncsOf(n.fsm.ircstore)

	// irclog
	p.Store = vKeys(n.fsm.ircstore)
	for _, k := range p.Store {
		var a, b raft.Log
		if err := n.fsm.ircstore.GetLog(k, &a); err != nil {
			c.StoreBad = append(c.StoreBad, k)
			continue
		}
		if err := n.logstore.GetLog(k, &b); err != nil || a.Index != b.Index || !vSameEntry(&a, &b) {
			c.StoreBad = append(c.StoreBad, k)
		}
	}

	// lastSnapshotState
	lk := []uint64{}
	for k := range n.fsm.lastSnapshotState {
		lk = append(lk, k)
	}
	sort.Slice(lk, func(i, j int) bool { return lk[i] < lk[j] })
	for _, k := range lk {
		e := vLss{K: k, Covers: []int{}}
		if d := n.ref.describe(n.fsm.lastSnapshotState[k]); d.err != nil {
			e.Err = d.err.Error()
		} else {
			e.Abs, e.Covers = d.abs, d.covers
		}
		p.Lss = append(p.Lss, e)
	}

	// pending
	if rs, ok := n.pending.(*robustSnapshot); ok && rs != nil {
		pe := &vPend{First: rs.firstIndex, Last: rs.lastIndex, Ridx: n.pendingRidx, Covers: []int{}}
		if d := n.ref.describe(rs.state); d.err == nil {
			pe.Abs, pe.Covers = d.abs, d.covers
		}
		p.Pending = pe
	}

	// output store
	for id := uint64(1); id <= n.stored; id++ {
		msgs, ok := outputStream.Get(robust.Id{Id: vId(id)})
		if !ok {
			continue
		}
		p.Outs = append(p.Outs, id)
		if want, ok := n.ref.outs[id]; !ok || !vMsgsEqual(msgs, want) {
			if int(id) <= n.ref.limit {
				c.OutBad = append(c.OutBad, id)
			}
		}
	}
	for _, e := range n.s.Log {
		if e.Idx <= n.applied {
			if _, ok := n.ref.outs[e.Idx]; ok {
				c.RefOut = append(c.RefOut, e.Idx)
			}
		}
	}

	// snapshot store
	metas, err := n.fss.List()
	if err == nil {
		for i := len(metas) - 1; i >= 0; i-- {
			m := metas[i]
			sn := vSnap{ID: m.ID, Ridx: m.Index, Covers: []int{}, Retained: []uint64{}, RetainedOK: true, Renc: []vEnc{}}
			content, ok := n.snapCache[m.ID]
			if !ok {
				_, rc, err := n.fss.Open(m.ID)
				if err != nil {
					sn.Err = err.Error()
				} else {
					content, err = vParseSnapshot(rc)
					rc.Close()
					if err != nil {
						sn.Err = err.Error()
						content = nil
					} else {
						n.snapCache[m.ID] = content
					}
				}
			}
			if content != nil {
				sn.Fmt, sn.Renc = content.fmt, content.renc
				if d := n.ref.describe(content.state); d.err != nil {
					sn.Err = d.err.Error()
				} else {
					sn.Li, sn.Abs, sn.Covers = d.li, d.abs, d.covers
				}
				for _, l := range content.retained {
					sn.Retained = append(sn.Retained, l.Index)
					var b raft.Log
					if err := n.logstore.GetLog(l.Index, &b); err != nil || !vSameEntry(&b, l) {
						sn.RetainedOK = false
					}
				}
			}
			p.Snaps = append(p.Snaps, sn)
		}
	}

	// live server against the reference at `applied`
	c.RefLimit = n.ref.limit
	live, err := ircServer.Marshal(0)
	if err != nil {
		c.SrvDiff = "Marshal: " + err.Error()
		return p, c
	}
	canon, snap, err := vCanon(live)
	if err != nil {
		c.SrvDiff = "canon: " + err.Error()
		return p, c
	}
	p.Srv = vAbsOf(snap)
	ref := n.ref.at(n.applied)
	if ref == nil {
		// the reference cannot be built here (unmarked PANIC ahead): no verdict
		c.SrvEq, c.ProbeEq, c.MarkerEq = true, true, true
		c.SrvDiff = "no-reference"
		return p, c
	}
	c.RefExp = ref.exp
	c.SrvEq = canon == ref.canon
	if !c.SrvEq {
		c.SrvDiff = vDiff(canon, ref.canon)
	}
	c.MarkerEq = true
	for _, s := range snap.Sessions {
		if ircServer.LastPostMessage(robust.Id{Id: s.Id.Id, Reply: s.Id.Reply}) != ref.srv.LastPostMessage(robust.Id{Id: s.Id.Id, Reply: s.Id.Reply}) {
			c.MarkerEq = false
		}
	}
	ircServer.ConfigMu.RLock()
	liveRev := ircServer.Config.Revision
	ircServer.ConfigMu.RUnlock()
	ref.srv.ConfigMu.RLock()
	refRev := ref.srv.Config.Revision
	ref.srv.ConfigMu.RUnlock()
	if liveRev != refRev {
		c.MarkerEq = false
	}
	got := vProbe(ircServer, snap)
	_, refsnap, _ := vCanon(mustMarshal(ref.srv))
	want := vProbe(ref.srv, refsnap)
	c.Probes = len(want)
	c.ProbeEq = len(got) == len(want)
	for i := 0; c.ProbeEq && i < len(got); i++ {
		if got[i] != want[i] {
			c.ProbeEq = false
			c.ProbeDf = fmt.Sprintf("got %q want %q", got[i], want[i])
		}
	}
	if !c.ProbeEq && c.ProbeDf == "" {
		c.ProbeDf = fmt.Sprintf("got %d probe replies, want %d", len(got), len(want))
	}
	return p, c
}

// vActiveProbe sends state-changing commands from EVERY session (JOIN / PRIVMSG /
// TOPIC / NAMES on a probe channel): whether they are executed or answered 451
// depends on per-session state (registration, login pending) that queries from
// one logged-in session do not exercise.  It changes the server, so it is only
// run when the schedule is over.
func vActiveProbe(srv *ircserver.IRCServer, ids []robust.Id) []string {
	var out []string
	k := uint64(0)
	for _, id := range ids {
		for _, l := range []string{"JOIN #zzprobe", "PRIVMSG #zzprobe :probe", "TOPIC #zzprobe :t", "NAMES #zzprobe", "MODE #zzprobe"} {
			if _, err := srv.GetSession(id); err != nil {
				out = append(out, fmt.Sprintf("%d %s => no such session", id.Id, l))
				continue
			}
			k++
			m := &robust.Message{Id: robust.Id{Id: 1<<41 + k}, Session: id, Type: robust.IRCFromClient, Data: l}
			rep := srv.ProcessMessage(m, irc.ParseMessage(l))
			srv.MaybeDeleteSession(id)
			for _, x := range rep.Messages {
				var to []string
				for t, v := range x.InterestingFor {
					if v {
						to = append(to, strconv.FormatUint(t, 10))
					}
				}
				sort.Strings(to)
				out = append(out, fmt.Sprintf("%d %s => %s @%s", id.Id, l, vRe003.ReplaceAllString(x.Data, "$1"), strings.Join(to, ",")))
			}
		}
	}
	return out
}

func (n *vNode) finalProbe() *vFinal {
	if n.ref.at(n.applied) == nil {
		return nil
	}
	refsrv, _, panicked := n.ref.replay(n.applied, nil) // a fresh, never-snapshotted instance
	if panicked {
		return nil
	}
	idset := map[robust.Id]bool{}
	for _, srv := range []*ircserver.IRCServer{ircServer, refsrv} {
		_, snap, err := vCanon(mustMarshal(srv))
		if err != nil {
			return &vFinal{Eq: false, Diff: err.Error()}
		}
		for _, x := range snap.Sessions {
			idset[robust.Id{Id: x.Id.Id, Reply: x.Id.Reply}] = true
		}
	}
	ids := make([]robust.Id, 0, len(idset))
	for id := range idset {
		ids = append(ids, id)
	}
	sort.Slice(ids, func(a, b int) bool {
		if ids[a].Id != ids[b].Id {
			return ids[a].Id < ids[b].Id
		}
		return ids[a].Reply < ids[b].Reply
	})
	got := vActiveProbe(ircServer, ids)
	want := vActiveProbe(refsrv, ids)
	f := &vFinal{Eq: len(got) == len(want), Probes: len(want)}
	for i := 0; f.Eq && i < len(got); i++ {
		if got[i] != want[i] {
			f.Eq = false
			f.Diff = fmt.Sprintf("got %q want %q", got[i], want[i])
		}
	}
	if !f.Eq && f.Diff == "" {
		f.Diff = fmt.Sprintf("%d probe replies, reference %d", len(got), len(want))
	}
	if f.Eq {
		// and the states the probes led to
		a, _, _ := vCanon(mustMarshal(ircServer))
		b, _, _ := vCanon(mustMarshal(refsrv))
		if a != b {
			f.Eq, f.Diff = false, "state after the probes: "+vDiff(a, b)
		}
	}
	return f
}

func mustMarshal(s *ircserver.IRCServer) []byte {
	b, err := s.Marshal(0)
	if err != nil {
		panic(err)
	}
	return b
}

func vDiff(a, b string) string {
	i := 0
	for i < len(a) && i < len(b) && a[i] == b[i] {
		i++
	}
	lo := i - 60
	if lo < 0 {
		lo = 0
	}
	cut := func(s string) string {
		hi := i + 100
		if hi > len(s) {
			hi = len(s)
		}
		if lo > len(s) {
			return ""
		}
		return s[lo:hi]
	}
	return fmt.Sprintf("live …%s… ref …%s…", cut(a), cut(b))
}

// ---------------------------------------------------------------- driver

func vRunSchedule(s *vSchedule, base string, seq int, emit func(vEvent)) {
	robust.MessageOffset = s.Offset
	dir := s.Dir
	if dir == "" {
		dir = filepath.Join(base, fmt.Sprintf("rd-%d", seq))
	}
	if err := os.MkdirAll(dir, 0755); err != nil {
		emit(vEvent{Sched: s.Name, N: -1, Ev: "HarnessError", Err: err.Error()})
		return
	}
	refdir := filepath.Join(base, fmt.Sprintf("ref-%d", seq))
	os.MkdirAll(refdir, 0755)
	n := &vNode{s: s, dir: dir, byIdx: map[uint64]vEntry{}, snapCache: map[string]*vSnapContent{}, proto: s.Proto}
	for _, e := range s.Log {
		n.byIdx[e.Idx] = e
	}
	n.ref = vNewRef(s, refdir)
	defer func() {
		n.closeStores()
		os.RemoveAll(refdir)
		if s.Dir == "" {
			os.RemoveAll(dir)
		}
	}()
	var conv *vConv
	if s.Resume && s.ConvDump {
		// this process start is the migration: what the previous process left, untouched
		conv = &vConv{Enc: vEncName(s.Proto)}
		var err error
		if conv.RaftPre, conv.IrcPre, err = vDumpDir(dir); err != nil {
			emit(vEvent{Sched: s.Name, N: -1, Ev: "HarnessError", Err: "dump before the conversion: " + err.Error()})
			return
		}
	}
	if err := n.open(); err != nil {
		emit(vEvent{Sched: s.Name, N: -1, Ev: "HarnessError", Err: "open: " + err.Error()})
		return
	}
	if s.Resume {
		ev := vEvent{Sched: s.Name, N: -1, Ev: "Restart"}
		if conv != nil {
			conv.RaftPost, conv.IrcPost = vRawDump(n.logstore), vRawDump(n.fsm.ircstore)
			ev.Ev, ev.Conv, ev.Step = "RestartEnc", conv, &vStep{A: "RestartEnc", Enc: conv.Enc}
		}
		func() {
			defer func() {
				if p := recover(); p != nil {
					ev.Panic = fmt.Sprint(p)
				}
			}()
			if err := n.startup(); err != nil {
				ev.Err = err.Error()
			}
		}()
		if ev.Panic == "" && ev.Err == "" {
			ev.Post, ev.Chk = n.observe()
		}
		emit(ev)
		if ev.Panic != "" || ev.Err != "" {
			return
		}
	} else {
		for i := 0; i < s.Prestore && i < len(s.Log); i++ {
			if err := n.logstore.StoreLogs([]*raft.Log{vRaftLog(s.Log[i], s.Proto)}); err != nil {
				emit(vEvent{Sched: s.Name, N: -1, Ev: "HarnessError", Err: "prestore: " + err.Error()})
				return
			}
			n.stored = s.Log[i].Idx
		}
		// raft keeps its stable store in the same LevelDB (keys "stablestore-..." sort
		// after the log entries): the conversion and DeleteRange have to stop there
		n.logstore.SetUint64([]byte("CurrentTerm"), 1)
		n.logstore.Set([]byte("LastVoteCand"), []byte("verif"))
		ev := vEvent{Sched: s.Name, N: -1, Ev: "Reset"}
		ev.Post, ev.Chk = n.observe()
		emit(ev)
	}
	for i := range s.Steps {
		st := s.Steps[i]
		ev := vEvent{Sched: s.Name, N: i, Ev: st.A, Step: &st}
		if st.A == "ApplyPanics" {
			// the process is expected to die inside this step: put the entry into the
			// raft log first (as raft does) and record the store's raw content
			if e, ok := n.byIdx[st.I]; ok && st.I > n.stored {
				if err := n.logstore.StoreLogs([]*raft.Log{vRaftLog(e, n.proto)}); err == nil {
					n.stored = st.I
				}
			}
			emit(vEvent{Sched: s.Name, N: i, Ev: "AboutToPanic", Step: &st, Raw: vRawDump(n.logstore)})
		}
		func() {
			defer func() {
				if p := recover(); p != nil {
					ev.Panic = fmt.Sprint(p)
				}
			}()
			ev.Err = n.step(st)
			ev.Conv, n.conv = n.conv, nil
			if strings.HasPrefix(ev.Err, "skip:") {
				ev.Ev, ev.Info, ev.Err = "Skip", ev.Err, ""
				return
			}
			if !strings.HasPrefix(ev.Err, "harness:") {
				ev.Post, ev.Chk = n.observe()
			}
		}()
		emit(ev)
		if ev.Panic != "" || strings.HasPrefix(ev.Err, "harness:") {
			return
		}
	}
	end := vEvent{Sched: s.Name, N: len(s.Steps), Ev: "End"}
	func() {
		defer func() {
			if p := recover(); p != nil {
				end.Final = &vFinal{Eq: false, Diff: "panic in final probes: " + fmt.Sprint(p)}
			}
		}()
		end.Final = n.finalProbe()
	}()
	emit(end)
}

// vQuiet: the real code logs every step; keep the pipes quiet unless asked.
func vQuiet() {
	if os.Getenv("VERIF_FSM_VERBOSE") == "" {
		flag.Set("stderrthreshold", "FATAL")
		flag.Set("log_dir", os.TempDir())
		log.SetOutput(io.Discard)
	} else {
		flag.Set("logtostderr", "true")
	}
}

// TestVerifFSM runs every schedule of $VERIF_FSM_PROGRAM (a JSON array, or
// ND-JSON) and appends one event per step to $VERIF_FSM_OUT.
func TestVerifFSM(t *testing.T) {
	prog := os.Getenv("VERIF_FSM_PROGRAM")
	outp := os.Getenv("VERIF_FSM_OUT")
	if prog == "" || outp == "" {
		t.Skip("VERIF_FSM_PROGRAM / VERIF_FSM_OUT not set")
	}
	vQuiet()
	base := os.Getenv("VERIF_FSM_DIR")
	if base == "" {
		var err error
		base, err = os.MkdirTemp("", "verif-fsm-")
		if err != nil {
			t.Fatal(err)
		}
		defer os.RemoveAll(base)
	}
	in, err := os.Open(prog)
	if err != nil {
		t.Fatal(err)
	}
	defer in.Close()
	out, err := os.OpenFile(outp, os.O_CREATE|os.O_WRONLY|os.O_APPEND, 0644)
	if err != nil {
		t.Fatal(err)
	}
	defer out.Close()
	w := bufio.NewWriter(out)
	emit := func(e vEvent) {
		b, err := json.Marshal(e)
		if err != nil {
			panic(err)
		}
		w.Write(b)
		w.WriteByte('\n')
		w.Flush() // a child may die in the next step
	}
	sc := bufio.NewScanner(in)
	sc.Buffer(make([]byte, 1<<20), 1<<28)
	seq := 0
	for sc.Scan() {
		line := bytes.TrimSpace(sc.Bytes())
		if len(line) == 0 {
			continue
		}
		var s vSchedule
		if err := json.Unmarshal(line, &s); err != nil {
			t.Fatalf("bad schedule: %v", err)
		}
		seq++
		vRunSchedule(&s, base, seq, emit)
	}
	emit(vEvent{Sched: "", N: seq, Ev: "Done"})
}

type vRawRec struct {
	Idx      uint64          `json:"idx"`
	Hex      string          `json:"hex"`
	RaftType int             `json:"rafttype"`
	Term     uint64          `json:"term"`
	DataEnc  string          `json:"data_enc"` // "proto" | "json" | ""
	StoreEnc string          `json:"store_enc"`
	Msg      *robust.Message `json:"msg,omitempty"`
	Err      string          `json:"err,omitempty"`
	Ext      string          `json:"ext"`      // raft.Log.Extensions
	Appended int64           `json:"appended"` // raft.Log.AppendedAt (UnixNano, 0 = zero time)
}

// vDumpDir dumps the raft log store and the irclog of a raftdir as they are on disk:
// the stores are opened WITHOUT the protobuf flag, so nothing is converted.
func vDumpDir(dir string) (raftlog, irclog []vRawRec, err error) {
	for k, name := range []string{"raftlog", "irclog"} {
		st, err := raftstore.NewLevelDBStore(filepath.Join(dir, name), false, false)
		if err != nil {
			return nil, nil, err
		}
		recs := vRawDump(st)
		st.Close()
		if k == 0 {
			raftlog = recs
		} else {
			irclog = recs
		}
	}
	return raftlog, irclog, nil
}

// vRawDump lists the raft log store: raw value bytes and the decoded entry.
func vRawDump(st *raftstore.LevelDBStore) []vRawRec {
	recs := []vRawRec{}
	it := st.GetBulkIterator(0, math.MaxUint64)
	defer it.Release()
	for ok := it.First(); ok; ok = it.Next() {
		if len(it.Key()) != 8 {
			continue
		}
		r := vRawRec{Idx: binary.BigEndian.Uint64(it.Key()), Hex: fmt.Sprintf("%x", it.Value()), StoreEnc: "json"}
		if len(it.Value()) > 0 && it.Value()[0] == 'p' {
			r.StoreEnc = "proto"
		}
		var l raft.Log
		if err := st.GetLog(r.Idx, &l); err != nil {
			r.Err = err.Error()
		} else {
			r.RaftType = int(l.Type)
			r.Term = l.Term
			r.Ext = string(l.Extensions)
			if !l.AppendedAt.IsZero() {
				r.Appended = l.AppendedAt.UnixNano()
			}
			if l.Type == raft.LogCommand {
				if len(l.Data) > 0 && l.Data[0] == 'p' {
					r.DataEnc = "proto"
				} else {
					r.DataEnc = "json"
				}
				func() {
					defer func() {
						if p := recover(); p != nil {
							r.Err = fmt.Sprint(p)
						}
					}()
					m := robust.NewMessageFromBytes(l.Data, robust.IdFromRaftIndex(l.Index))
					r.Msg = &m
				}()
			}
		}
		recs = append(recs, r)
	}
	return recs
}

// TestVerifFSMDumpLog dumps the raw raft log store of $VERIF_FSM_DIR/raftlog:
// key -> value bytes (hex) plus the decoded entry, for the C07 parent.
func TestVerifFSMDumpLog(t *testing.T) {
	dir := os.Getenv("VERIF_FSM_DUMPDIR")
	outp := os.Getenv("VERIF_FSM_OUT")
	if dir == "" || outp == "" {
		t.Skip("VERIF_FSM_DUMPDIR / VERIF_FSM_OUT not set")
	}
	if v := os.Getenv("VERIF_FSM_OFFSET"); v != "" {
		robust.MessageOffset, _ = strconv.ParseUint(v, 10, 64)
	}
	st, err := raftstore.NewLevelDBStore(filepath.Join(dir, "raftlog"), false, false)
	if err != nil {
		t.Fatal(err)
	}
	defer st.Close()
	recs := vRawDump(st)
	b, _ := json.Marshal(recs)
	if err := os.WriteFile(outp, b, 0644); err != nil {
		t.Fatal(err)
	}
}
