package ircserver

import (
	"fmt"
	"reflect"
	"regexp"
	"sort"
	"strings"
	"sync"
	"time"
	"unsafe"

	"github.com/robustirc/robustirc/internal/robust"
)

// vexport makes an addressable value reached through unexported fields readable.
func vexport(v reflect.Value) (reflect.Value, bool) {
	if v.CanInterface() {
		return v, true
	}
	if v.CanAddr() {
		return reflect.NewAt(v.Type(), unsafe.Pointer(v.UnsafeAddr())).Elem(), true
	}
	return v, false
}

// VerifCanon renders the COMPLETE server value (every field of IRCServer,
// Session, channel, svshold, config.Network — found by reflection, so fields
// added later are included automatically) in a canonical, comparable form.
// Skipped: mutexes, ServerCreation (differs between replicas by design).
// serverSessions is compared as a set.
func (i *IRCServer) VerifCanon() map[string]string {
	i.sessionsMu.RLock()
	defer i.sessionsMu.RUnlock()
	i.ConfigMu.RLock()
	defer i.ConfigMu.RUnlock()
	out := map[string]string{}
	vflat(reflect.ValueOf(i).Elem(), "", "IRCServer", out)
	return out
}

// VerifCanonLive is VerifCanon with serverSessions restricted to ids that are
// still sessions: the slice never shrinks on a running server, while a loaded
// one rebuilds it from the sessions (ids of ended links are undeliverable).
func (i *IRCServer) VerifCanonLive() map[string]string {
	out := i.VerifCanon()
	i.sessionsMu.RLock()
	defer i.sessionsMu.RUnlock()
	var ids []uint64
	seen := map[uint64]bool{}
	for _, id := range i.serverSessions {
		if s, ok := i.sessions[robust.Id{Id: id}]; ok && s.Server && !seen[id] {
			seen[id] = true
			ids = append(ids, id)
		}
	}
	sort.Slice(ids, func(a, b int) bool { return ids[a] < ids[b] })
	out[".serverSessions"] = fmt.Sprintf("%v", ids)
	return out
}

// VerifIsSession reports whether id is currently a session.
func (i *IRCServer) VerifIsSession(id uint64) bool {
	i.sessionsMu.RLock()
	defer i.sessionsMu.RUnlock()
	_, ok := i.sessions[robust.Id{Id: id}]
	return ok
}

// VerifCanonDiff lists the paths on which two canonical forms differ.
func VerifCanonDiff(a, b map[string]string) []string {
	seen := map[string]bool{}
	var res []string
	for k, v := range a {
		if w, ok := b[k]; !ok || w != v {
			seen[k] = true
		}
	}
	for k := range b {
		if _, ok := a[k]; !ok {
			seen[k] = true
		}
	}
	for k := range seen {
		res = append(res, k)
	}
	sort.Strings(res)
	return res
}

// vflat writes one "path -> leaf value" entry per leaf; containers contribute a length entry.
func vflat(v reflect.Value, path, owner string, out map[string]string) {
	switch v.Type() {
	case vtTime, vtRW, vtRWv, vtMu, vtRegexp:
		out[path] = vcanon(v, owner)
		return
	}
	switch v.Kind() {
	case reflect.Ptr, reflect.Interface:
		if v.IsNil() {
			out[path] = "nil"
			return
		}
		vflat(v.Elem(), path, owner, out)
	case reflect.Struct:
		for f := 0; f < v.NumField(); f++ {
			name := v.Type().Field(f).Name
			if owner == "IRCServer" && (name == "ServerCreation" || name == "serverSessions") {
				if name == "serverSessions" {
					out[path+".serverSessions"] = vcanon(v, owner)[0:0] + vServerSet(v.Field(f))
				}
				continue
			}
			vflat(v.Field(f), path+"."+name, v.Type().Name(), out)
		}
	case reflect.Map:
		out[path+".#"] = fmt.Sprintf("%d", v.Len())
		iter := v.MapRange()
		for iter.Next() {
			vflat(iter.Value(), path+"["+vcanon(iter.Key(), owner)+"]", owner, out)
		}
	case reflect.Slice, reflect.Array:
		if v.Kind() == reflect.Slice && v.Type().Elem().Kind() == reflect.Uint8 {
			out[path] = fmt.Sprintf("bytes(%x)", v.Bytes())
			return
		}
		if v.Kind() == reflect.Array && v.Type().Elem().Kind() == reflect.Bool {
			out[path] = vcanon(v, owner)
			return
		}
		out[path+".#"] = fmt.Sprintf("%d", v.Len())
		for k := 0; k < v.Len(); k++ {
			vflat(v.Index(k), fmt.Sprintf("%s[%d]", path, k), owner, out)
		}
	default:
		out[path] = vcanon(v, owner)
	}
}

func vServerSet(f reflect.Value) string {
	var ids []uint64
	for k := 0; k < f.Len(); k++ {
		ids = append(ids, f.Index(k).Uint())
	}
	sort.Slice(ids, func(a, b int) bool { return ids[a] < ids[b] })
	return fmt.Sprintf("%v", ids)
}

var (
	vtTime   = reflect.TypeOf(time.Time{})
	vtRegexp = reflect.TypeOf(&regexp.Regexp{})
	vtRW     = reflect.TypeOf(&sync.RWMutex{})
	vtRWv    = reflect.TypeOf(sync.RWMutex{})
	vtMu     = reflect.TypeOf(sync.Mutex{})
)

func vcanon(v reflect.Value, path string) string {
	switch v.Type() {
	case vtTime:
		if x, ok := vexport(v); ok {
			t := x.Interface().(time.Time)
			return fmt.Sprintf("T(%d,%v)", t.UnixNano(), t.IsZero())
		}
		// not addressable (map value): wall/ext fields
		return fmt.Sprintf("Tw(%d,%d)", v.Field(0).Uint(), v.Field(1).Int())
	case vtRW, vtRWv, vtMu:
		return "mu"
	case vtRegexp:
		if v.IsNil() {
			return "re(nil)"
		}
		if x, ok := vexport(v); ok {
			return "re(" + x.Interface().(*regexp.Regexp).String() + ")"
		}
		return "re(?)"
	}
	switch v.Kind() {
	case reflect.Ptr, reflect.Interface:
		if v.IsNil() {
			return "nil"
		}
		return "&" + vcanon(v.Elem(), path)
	case reflect.Struct:
		s := "{"
		for f := 0; f < v.NumField(); f++ {
			name := v.Type().Field(f).Name
			if path == "IRCServer" && name == "ServerCreation" {
				continue
			}
			if path == "IRCServer" && name == "serverSessions" {
				var ids []uint64
				for k := 0; k < v.Field(f).Len(); k++ {
					ids = append(ids, v.Field(f).Index(k).Uint())
				}
				sort.Slice(ids, func(a, b int) bool { return ids[a] < ids[b] })
				s += fmt.Sprintf("serverSessions:%v;", ids)
				continue
			}
			s += name + ":" + vcanon(v.Field(f), v.Type().Name()) + ";"
		}
		return s + "}"
	case reflect.Map:
		var items []string
		iter := v.MapRange()
		for iter.Next() {
			items = append(items, vcanon(iter.Key(), path)+"=>"+vcanon(iter.Value(), path))
		}
		sort.Strings(items)
		return fmt.Sprintf("map%v", items)
	case reflect.Slice, reflect.Array:
		if v.Kind() == reflect.Slice && v.Type().Elem().Kind() == reflect.Uint8 {
			return fmt.Sprintf("bytes(%x)", v.Bytes())
		}
		if v.Type().Elem().Kind() == reflect.Bool {
			b := make([]byte, v.Len())
			for k := 0; k < v.Len(); k++ {
				if v.Index(k).Bool() {
					b[k] = '1'
				} else {
					b[k] = '0'
				}
			}
			return string(b)
		}
		var sb strings.Builder
		sb.WriteString("[")
		for k := 0; k < v.Len(); k++ {
			sb.WriteString(vcanon(v.Index(k), path))
			sb.WriteString(",")
		}
		sb.WriteString("]")
		return sb.String()
	case reflect.String:
		return fmt.Sprintf("%q", v.String())
	case reflect.Bool:
		return fmt.Sprintf("%v", v.Bool())
	case reflect.Int, reflect.Int8, reflect.Int16, reflect.Int32, reflect.Int64:
		return fmt.Sprintf("%d", v.Int())
	case reflect.Uint, reflect.Uint8, reflect.Uint16, reflect.Uint32, reflect.Uint64:
		return fmt.Sprintf("%d", v.Uint())
	case reflect.Float32, reflect.Float64:
		return fmt.Sprintf("%g", v.Float())
	}
	return "?" + v.Kind().String()
}
