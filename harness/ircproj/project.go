package ircserver

// Injected into internal/ircserver by /verif (go -overlay); never part of the
// repository. Projects the unexported server state to the abstract state of
// /verif/spec/IRC.tla.

import (
	"sort"
	"time"

	"github.com/robustirc/robustirc/internal/robust"
)

// VerifRidOf maps the Reply half of a pseudo-client id (fnv64 of the
// introduction nickname) to a small index; installed by the harness.
var VerifRidOf = func(reply uint64) int {
	if reply == 0 {
		return 0
	}
	return -1
}

func vsec(t time.Time) int64 {
	if t.IsZero() {
		return -1
	}
	return t.Unix()
}

func vmodes(m ['z']bool) []string {
	res := []string{}
	for c := 'A'; c < 'z'; c++ {
		if m[c] {
			res = append(res, string(c))
		}
	}
	return res
}

func vkeysChan(m map[lcChan]bool) []string {
	res := make([]string, 0, len(m))
	for k := range m {
		res = append(res, string(k))
	}
	sort.Strings(res)
	return res
}

// VerifSid is the model's session key.
func VerifSid(id robust.Id) int64 {
	return int64(id.Id)*1000 + int64(VerifRidOf(id.Reply))
}

// VerifProject returns the abstract state (JSON-able, canonical order).
func (i *IRCServer) VerifProject() map[string]interface{} {
	i.sessionsMu.RLock()
	defer i.sessionsMu.RUnlock()
	i.ConfigMu.RLock()
	defer i.ConfigMu.RUnlock()

	ids := make([]robust.Id, 0, len(i.sessions))
	for id := range i.sessions {
		ids = append(ids, id)
	}
	sort.Slice(ids, func(a, b int) bool {
		if ids[a].Id != ids[b].Id {
			return ids[a].Id < ids[b].Id
		}
		return ids[a].Reply < ids[b].Reply
	})
	ss := make([]interface{}, 0, len(ids))
	for _, id := range ids {
		s := i.sessions[id]
		ss = append(ss, map[string]interface{}{
			"id": int64(id.Id), "rid": VerifRidOf(id.Reply), "auth": s.auth,
			"nick": s.Nick, "user": s.Username, "real": s.Realname,
			"li": s.loggedIn, "op": s.Operator, "sv": s.Server,
			"chans": vkeysChan(s.Channels), "inv": vkeysChan(s.invitedTo),
			"modes": vmodes(s.modes), "away": s.AwayMsg, "pass": s.Pass,
			"addr": s.RemoteAddr, "cmid": int64(s.lastClientMessageId),
			"la": vsec(s.LastActivity), "lnp": vsec(s.LastNonPing),
			"cr": s.Created / int64(time.Second), "del": s.deleted, "svid": s.svid,
			"lsc": vsec(s.LastSolvedCaptcha),
			"pfx": map[string]interface{}{"n": s.ircPrefix.Name, "u": s.ircPrefix.User, "h": s.ircPrefix.Host},
		})
	}
	nk := map[string]interface{}{}
	for n, s := range i.nicks {
		nk[string(n)] = VerifSid(s.Id)
	}
	ch := map[string]interface{}{}
	for lc, c := range i.channels {
		mem := map[string]interface{}{}
		for n, perms := range c.nicks {
			if perms == nil {
				mem[string(n)] = "nil"
				continue
			}
			mem[string(n)] = perms[chanop]
		}
		bans := make([]interface{}, 0, len(c.bans))
		for _, b := range c.bans {
			bans = append(bans, map[string]interface{}{"m": b.pattern, "r": b.re.String()})
		}
		ch[string(lc)] = map[string]interface{}{
			"name": c.name, "mem": mem, "modes": vmodes(c.modes), "key": c.key, "bans": bans,
			"topic": c.topic, "tn": c.topicNick, "tt": vsec(c.topicTime),
		}
	}
	holds := map[string]interface{}{}
	for n, h := range i.svsholds {
		holds[string(n)] = map[string]interface{}{"added": vsec(h.added), "dur": int64(h.duration / time.Second), "reason": h.reason}
	}
	// serverSessions in sorted order: its order is never observable (sendServices only fills a recipient
	// map) and a loaded server rebuilds it in map iteration order
	sids := append([]uint64{}, i.serverSessions...)
	sort.Slice(sids, func(a, b int) bool { return sids[a] < sids[b] })
	srv := make([]interface{}, 0, len(sids))
	for _, id := range sids {
		srv = append(srv, int64(id))
	}
	i.lastProcessedMu.RLock()
	lp := int64(i.lastProcessed.Id)
	i.lastProcessedMu.RUnlock()

	opers := make([]interface{}, 0)
	for _, o := range i.Config.IRC.Operators {
		opers = append(opers, []interface{}{o.Name, o.Password})
	}
	svc := make([]interface{}, 0)
	for _, s := range i.Config.IRC.Services {
		svc = append(svc, s.Password)
	}
	banned := map[string]interface{}{}
	for k, v := range i.Config.Banned {
		banned[k] = v
	}
	cfg := map[string]interface{}{
		"rev": int64(i.Config.Revision), "opers": opers, "svc": svc,
		"maxs": int64(i.Config.MaxSessions), "maxc": int64(i.Config.MaxChannels),
		"banned": banned, "exp": int64(time.Duration(i.Config.SessionExpiration) / time.Second),
		"capcfg":   i.Config.CaptchaURL != "" && len(i.Config.CaptchaHMACSecret) > 0,
		"caplogin": i.Config.CaptchaRequiredForLogin,
	}
	return map[string]interface{}{"ss": ss, "nk": nk, "ch": ch, "holds": holds, "srv": srv, "lp": lp, "cfg": cfg}
}

// VerifConfigExtra returns the configuration fields the IRC model does not
// interpret but that must survive serialization (C03/C16).
func (i *IRCServer) VerifConfigExtra() map[string]interface{} {
	i.ConfigMu.RLock()
	defer i.ConfigMu.RUnlock()
	tb := map[string]interface{}{}
	for k, v := range i.Config.TrustedBridges {
		tb[k] = v
	}
	or := []string{}
	for k, v := range i.Config.WhitelistedOrigins {
		if v {
			or = append(or, k)
		}
	}
	sort.Strings(or)
	return map[string]interface{}{
		"cooloff": time.Duration(i.Config.PostMessageCooloff).String(),
		"tb":      tb, "origins": or, "capurl": i.Config.CaptchaURL,
		"capsecret": i.Config.CaptchaHMACSecret.String(),
	}
}

// VerifLookup classifies GetSession's answer for id.
func (i *IRCServer) VerifLookup(id uint64) string {
	class := func(err error) string {
		switch err {
		case nil:
			return "ok"
		case ErrNoSuchSession:
			return "nosuch"
		case ErrSessionNotYetSeen:
			return "notyet"
		}
		return "other"
	}
	_, err := i.GetSession(robust.Id{Id: id})
	_, aerr := i.GetAuth(robust.Id{Id: id}) // the lookup the HTTP API performs for every request
	if class(err) != class(aerr) {
		return "GetSession:" + class(err) + "/GetAuth:" + class(aerr)
	}
	return class(err)
}

// VerifSetLastActivity sets the last activity of every session to now-age(id).
func (i *IRCServer) VerifSetLastActivity(age func(id robust.Id) time.Duration, now time.Time) {
	i.sessionsMu.Lock()
	defer i.sessionsMu.Unlock()
	for id, s := range i.sessions {
		s.LastActivity = now.Add(-age(id))
	}
}
