package outputstream

// C20 output-stream stress (built with `go test -race`, injected into
// internal/outputstream of the tree under test by -overlay; see
// checks/c20.py and harness/race/raftstore for the rationale): every pair of
// OutputStream methods the lock model says can overlap, on ONE stream object,
// including Close followed by reset() (the object's own re-initialisation).
// Panics (use after Close, deleting everything) are recovered and counted;
// only race-detector reports count.

import (
	"context"
	"encoding/json"
	"fmt"
	"math/rand"
	"os"
	"runtime"
	"strings"
	"sync"
	"sync/atomic"
	"testing"
	"time"

	"github.com/robustirc/robustirc/internal/robust"
)

type voJob struct {
	ID    int    `json:"id"`
	A     string `json:"a"`
	B     string `json:"b"`
	Iters int    `json:"iters"`
	Fill  int    `json:"fill"` // the stream holds at least this many batches when the job starts
}

type voPlan struct {
	Seed int64   `json:"seed"`
	Jobs []voJob `json:"jobs"`
}

type voSys struct {
	o      *OutputStream
	next   uint64
	since  uint64 // batches added since the stream was last emptied
	panics int64
}

// existing, deleted/unknown and future ids
func (v *voSys) some(r *rand.Rand) robust.Id {
	n := atomic.LoadUint64(&v.next)
	switch r.Intn(4) {
	case 0:
		return robust.Id{Id: n + uint64(1+r.Intn(1000))}
	case 1:
		return robust.Id{Id: 0}
	}
	return robust.Id{Id: 1 + uint64(r.Int63n(int64(n)+1)), Reply: uint64(r.Intn(2))}
}

var voDrivers = map[string]func(v *voSys, r *rand.Rand){
	"Add": func(v *voSys, r *rand.Rand) {
		id := atomic.AddUint64(&v.next, 1)
		atomic.AddUint64(&v.since, 1)
		v.o.Add([]Message{
			{Id: robust.Id{Id: id, Reply: 1}, Data: "PING", InterestingFor: map[uint64]bool{1: true}},
			{Id: robust.Id{Id: id, Reply: 2}, Data: "PONG", InterestingFor: map[uint64]bool{2: true}},
		})
	},
	"Delete": func(v *voSys, r *rand.Rand) {
		id := v.some(r)
		if id.Id == 0 {
			id.Id = 1
		}
		v.o.Delete(id)
	},
	"Get": func(v *voSys, r *rand.Rand) {
		if msgs, ok := v.o.Get(v.some(r)); ok {
			for _, m := range msgs {
				_ = m.InterestingFor[1]
			}
		}
	},
	"LastSeen": func(v *voSys, r *rand.Rand) { v.o.LastSeen() },
	"GetNext": func(v *voSys, r *rand.Rand) {
		ctx, cancel := context.WithCancel(context.Background())
		done := make(chan struct{})
		go func() {
			defer close(done)
			defer voRecover(v)
			for _, m := range v.o.GetNext(ctx, v.some(r)) {
				_ = m.InterestingFor[1]
			}
			v.o.GetNext(ctx, v.o.LastSeen()) // blocks until interrupted
		}()
		for k := 0; k < 3; k++ {
			runtime.Gosched()
		}
		cancel()
		for {
			select {
			case <-done:
				return
			default:
				func() {
					defer voRecover(v)
					v.o.InterruptGetNext()
				}()
				runtime.Gosched()
			}
		}
	},
	"InterruptGetNext": func(v *voSys, r *rand.Rand) { v.o.InterruptGetNext() },
	"Close": func(v *voSys, r *rand.Rand) {
		func() {
			defer voRecover(v)
			v.o.Close()
		}()
		// reset() refuses to run on a closed database handle: forget it first
		v.o.messagesMu.Lock()
		v.o.db = nil
		v.o.messagesMu.Unlock()
		func() {
			defer voRecover(v)
			v.o.reset()
		}()
		atomic.StoreUint64(&v.since, 0)
	},
}

func voRecover(v *voSys) {
	if r := recover(); r != nil {
		atomic.AddInt64(&v.panics, 1)
	}
}

func voMethod(op string) string {
	if k := strings.LastIndex(op, "."); k >= 0 {
		return op[k+1:]
	}
	return op
}

func voSide(v *voSys, f func(*voSys, *rand.Rand), seed int64, iters int, wg *sync.WaitGroup) {
	defer wg.Done()
	r := rand.New(rand.NewSource(seed))
	for k := 0; k < iters; k++ {
		func() {
			defer voRecover(v)
			f(v, r)
		}()
		for y := r.Intn(3); y > 0; y-- {
			runtime.Gosched()
		}
	}
}

func TestVerifRaceStream(t *testing.T) {
	planPath := os.Getenv("VERIF_RACE_PLAN")
	if planPath == "" {
		t.Skip("VERIF_RACE_PLAN not set")
	}
	raw, err := os.ReadFile(planPath)
	if err != nil {
		t.Fatal(err)
	}
	var plan voPlan
	if err := json.Unmarshal(raw, &plan); err != nil {
		t.Fatal(err)
	}
	dir, err := os.MkdirTemp(os.Getenv("VERIF_SCRATCH"), "race-stream-")
	if err != nil {
		t.Fatal(err)
	}
	defer os.RemoveAll(dir)
	v := &voSys{}
	v.o, err = NewOutputStream(dir)
	if err != nil {
		fmt.Fprintf(os.Stderr, "VERIF-RACE-FATAL open: %v\n", err)
		t.Fatal(err)
	}
	fmt.Fprintf(os.Stderr, "VERIF-RACE-READY jobs=%d\n", len(plan.Jobs))
	for _, job := range plan.Jobs {
		fa, oka := voDrivers[voMethod(job.A)]
		fb, okb := voDrivers[voMethod(job.B)]
		if !oka || !okb {
			fmt.Fprintf(os.Stderr, "VERIF-JOB-NODRIVER %d %s %s\n", job.ID, job.A, job.B)
			continue
		}
		// a few messages so that hits exist (a Close job starts an empty stream)
		for k := 0; k < 6; k++ {
			func() {
				defer voRecover(v)
				voDrivers["Add"](v, nil)
			}()
		}
		for job.Fill > 0 && atomic.LoadUint64(&v.since) < uint64(job.Fill) {
			func() {
				defer voRecover(v)
				voDrivers["Add"](v, nil)
			}()
		}
		fmt.Fprintf(os.Stderr, "VERIF-JOB-BEGIN %d %s %s\n", job.ID, job.A, job.B)
		t0 := time.Now()
		var wg sync.WaitGroup
		wg.Add(2)
		go voSide(v, fa, plan.Seed*7919+int64(job.ID)*2+1, job.Iters, &wg)
		go voSide(v, fb, plan.Seed*7919+int64(job.ID)*2+2, job.Iters, &wg)
		wg.Wait()
		fmt.Fprintf(os.Stderr, "VERIF-JOB-END %d panics=%d errs=0 ms=%d\n", job.ID, atomic.LoadInt64(&v.panics), time.Since(t0).Milliseconds())
	}
	fmt.Fprintf(os.Stderr, "VERIF-RACE-DONE panics=%d errs=0\n", atomic.LoadInt64(&v.panics))
}
