package main

// C20 stress harness (built with `go test -race`, injected into package main
// of the tree under test by -overlay; see /verif/checks/c20.py).
//
// It boots what main() boots -- the globals ircServer/outputStream/ircStore/
// node, raft.NewRaft over the LevelDB log/stable store and a file snapshot
// store, the real FSM, api.NewHTTP with fsm.ReplaceState = api.ReplaceState --
// as a single-node raft network, and then runs JOBS: each job is a pair of
// operation names taken from the TLA+ model (spec/Locks.tla, operations
// extracted by tools/lockextract).  Both operations are executed repeatedly
// from two goroutines on the SAME shared objects, with seeded random yields.
//
// The goroutine structure is the real one: everything the model puts on the
// raft FSM goroutine (FSM.Apply/Snapshot/Restore and the methods only they
// reach) is triggered THROUGH raft (raftNode.Apply via api.ApplyMessageWait,
// raft.Snapshot, raft.Restore), so raft itself provides the mutual exclusion
// the concurrency relation assumes; HTTP handlers are called through
// api.DispatchPublic / DispatchPrivateWithoutAuth; public methods reachable
// from handler goroutines are called directly.
//
// The harness never decides anything: it prints job markers to stderr, the
// race detector (GORACE=halt_on_error=0) prints its reports to stderr, and
// the check driver attributes and classifies them.  Verdict-relevant is only
// whether the detector reports a race whose two stacks are in repository
// code; iteration counts, not wall-clock durations, bound every job.

import (
	"bytes"
	"context"
	"encoding/json"
	"flag"
	"fmt"
	"github.com/golang/protobuf/proto"
	"io"
	"log"
	"math/rand"
	"net/http"
	"net/http/httptest"
	"os"
	"path/filepath"
	"runtime"
	"strings"
	"sync"
	"sync/atomic"
	"testing"
	"time"

	"github.com/hashicorp/go-hclog"
	"github.com/hashicorp/raft"
	"github.com/robustirc/internal/robusthttp"
	"github.com/robustirc/rafthttp"
	"github.com/robustirc/robustirc/internal/api"
	"github.com/robustirc/robustirc/internal/ircserver"
	"github.com/robustirc/robustirc/internal/outputstream"
	"github.com/robustirc/robustirc/internal/raftstore"
	"github.com/robustirc/robustirc/internal/robust"
	"github.com/stapelberg/glog"
)

type vrSession struct {
	id   robust.Id
	auth string
	cmid uint64
}

type vrObjs struct {
	irc   *ircserver.IRCServer
	out   *outputstream.OutputStream
	store *raftstore.LevelDBStore
}

type vrSys struct {
	api      *api.HTTP
	fsm      *FSM
	logStore *raftstore.LevelDBStore
	fss      *raft.FileSnapshotStore

	mu       sync.Mutex // harness-private state below
	objs     vrObjs
	base     []*vrSession // sessions that exist in every snapshot
	ended    []*vrSession // sessions that were created and deleted again (ids below lastProcessed)
	gline    int32        // this job may apply GLINE (see vrApplyOne)
	nickless *vrSession
	focus    int32      // this job walks ONE published session through its whole life (see vrLifecycleStep)
	fresh    *vrSession // that session, while it exists
	stage    int
	lives    int
	pollStop context.CancelFunc
	pollDone chan struct{}

	restoreSerial sync.Mutex
	nickSeq       uint64
	chanSeq       uint64
	panics        int64
	errs          int64
}

func (s *vrSys) cur() vrObjs {
	s.mu.Lock()
	defer s.mu.Unlock()
	return s.objs
}

func (s *vrSys) pick(r *rand.Rand) *vrSession {
	s.mu.Lock()
	defer s.mu.Unlock()
	return s.base[r.Intn(len(s.base))]
}

// any returns an argument for operations that take a session: mostly a
// session that exists, but also one that has ended, an id that never was a
// session (below and far above the last processed message), so that both the
// hit and the miss paths of every lookup run.
func (s *vrSys) any(r *rand.Rand) *vrSession {
	s.mu.Lock()
	defer s.mu.Unlock()
	if atomic.LoadInt32(&s.focus) == 1 && s.fresh != nil && r.Intn(5) != 0 {
		return s.fresh
	}
	switch r.Intn(10) {
	case 0:
		if len(s.ended) > 0 {
			return s.ended[r.Intn(len(s.ended))]
		}
	case 1:
		// a message id, never a session, older than the last processed message
		return &vrSession{id: robust.Id{Id: s.base[len(s.base)-1].id.Id + 1}, auth: "never"}
	case 2:
		// not (yet) created: newer than everything processed so far
		return &vrSession{id: robust.Id{Id: s.base[0].id.Id + 1<<40 + uint64(r.Intn(1000))}, auth: "notyet"}
	case 3:
		return &vrSession{id: robust.Id{Id: uint64(1 + r.Intn(3))}, auth: "ancient"}
	}
	return s.base[r.Intn(len(s.base))]
}

func vrBoot(dir string) (*vrSys, error) {
	s := &vrSys{}
	flag.Set("log_dir", dir)
	flag.Set("stderrthreshold", "FATAL")
	*raftDir = dir
	*network = "race.example"
	*networkPassword = "race-Passw0rd"
	*peerAddr = "race-node.invalid:443"
	*useProtobuf = true
	// compaction folds every stored entry (the log entries of this run are
	// seconds old; without this Snapshot would never reach the delete path)
	*canaryCompactionStart = time.Now().Add(24 * time.Hour).UnixNano()
	robust.MessageOffset = *messageOffset
	log.SetOutput(io.Discard)
	glog.CopyStandardLogTo("INFO")

	ircServer = ircserver.NewIRCServer(*network, time.Now())
	var err error
	outputStream, err = outputstream.NewOutputStream(*raftDir)
	if err != nil {
		return nil, err
	}
	transport := rafthttp.NewHTTPTransport(raft.ServerAddress(*peerAddr), robusthttp.Client(*networkPassword, false), nil, "")
	config := raft.DefaultConfig()
	config.Logger = hclog.New(&hclog.LoggerOptions{Output: io.Discard, Level: hclog.Error})
	fss, err := raft.NewFileSnapshotStoreWithLogger(*raftDir, 3, config.Logger)
	if err != nil {
		return nil, err
	}
	s.fss = fss
	config.SnapshotInterval = 3600 * time.Second
	config.SnapshotThreshold = 1 << 40
	config.TrailingLogs = 4
	config.MaxAppendEntries = 1024
	config.LeaderLeaseTimeout = 50 * time.Millisecond
	config.HeartbeatTimeout = 50 * time.Millisecond
	config.ElectionTimeout = 50 * time.Millisecond
	config.ProtocolVersion = raft.ProtocolVersion(*raftProtocolVersion)
	config.LocalID = raft.ServerID(*peerAddr)

	logStore, err := raftstore.NewLevelDBStore(filepath.Join(*raftDir, "raftlog"), true, *useProtobuf)
	if err != nil {
		return nil, err
	}
	s.logStore = logStore
	ircStore, err = raftstore.NewLevelDBStore(filepath.Join(*raftDir, "irclog"), true, *useProtobuf)
	if err != nil {
		return nil, err
	}
	fsm := &FSM{
		store:             logStore,
		ircstore:          ircStore,
		lastSnapshotState: make(map[uint64][]byte),
	}
	s.fsm = fsm
	logcache, err := raft.NewLogCache(config.MaxAppendEntries, logStore)
	if err != nil {
		return nil, err
	}
	node, err = raft.NewRaft(config, fsm, logcache, logStore, fss, transport)
	if err != nil {
		return nil, err
	}
	s.api = api.NewHTTP(ircServer, node, ircStore, outputStream, transport, *network, *networkPassword, *raftDir, *peerAddr, *useProtobuf, *raftProtocolVersion)
	fsm.ReplaceState = s.api.ReplaceState
	if err := node.BootstrapCluster(raft.Configuration{Servers: []raft.Server{{ID: config.LocalID, Address: raft.ServerAddress(*peerAddr)}}}).Error(); err != nil {
		return nil, err
	}
	deadline := time.Now().Add(120 * time.Second)
	for node.State() != raft.Leader {
		if time.Now().After(deadline) {
			return nil, fmt.Errorf("node did not become leader")
		}
		time.Sleep(5 * time.Millisecond)
	}
	if err := node.Barrier(60 * time.Second).Error(); err != nil {
		return nil, err
	}
	s.objs = vrObjs{irc: ircServer, out: outputStream, store: ircStore}
	return s, nil
}

// ---------------------------------------------------------------- raft-side triggers

func (s *vrSys) apply(msg *robust.Message) error {
	err := s.api.ApplyMessageWait(msg, 60*time.Second)
	if err != nil {
		atomic.AddInt64(&s.errs, 1)
	}
	return err
}

func (s *vrSys) irc(sess *vrSession, line string) error {
	// the client's address changes now and then (ProcessMessage then consults
	// the ban list); 192.0.2.x is never banned by the drivers
	return s.ircFrom(sess, line, fmt.Sprintf("192.0.2.%d", 7+atomic.AddUint64(&sess.cmid, 0)%16/15))
}

func (s *vrSys) ircFrom(sess *vrSession, line, remote string) error {
	cm := atomic.AddUint64(&sess.cmid, 1)
	return s.apply(&robust.Message{Session: sess.id, Type: robust.IRCFromClient, Data: line, ClientMessageId: cm, RemoteAddr: remote})
}

func (s *vrSys) createSession() (*vrSession, error) {
	msg := &robust.Message{Type: robust.CreateSession, Data: fmt.Sprintf("auth%016x%016x", rand.Uint64(), rand.Uint64())}
	if err := s.apply(msg); err != nil {
		return nil, err
	}
	return &vrSession{id: robust.Id{Id: msg.Id.Id}, auth: msg.Data}, nil
}

// oldSession creates a session whose last activity lies two hours in the past (the CreateSession entry is
// proposed with that timestamp, bypassing applyMessageWait which stamps entries with the local clock): the
// expiry sweep picks it although it is still in use.
func (s *vrSys) oldSession() *vrSession {
	msg := &robust.Message{Type: robust.CreateSession, Data: fmt.Sprintf("auth%016x%016x", rand.Uint64(), rand.Uint64()),
		UnixNano: time.Now().Add(-2 * time.Hour).UnixNano()}
	b, err := proto.Marshal(msg.ProtoMessage())
	if err != nil {
		return nil
	}
	f := node.Apply(append([]byte{'p'}, b...), 10*time.Second)
	if f.Error() != nil {
		return nil
	}
	if e, ok := f.Response().(error); ok && e != nil {
		return nil
	}
	return &vrSession{id: robust.Id{Id: robust.IdFromRaftIndex(f.Index())}, auth: msg.Data}
}

func (s *vrSys) deleteSession(sess *vrSession) {
	s.apply(&robust.Message{Session: sess.id, Type: robust.DeleteSession, Data: "bye"})
}

const vrConfig = `SessionExpiration = "30m0s"
PostMessageCooloff = "2ms"
MaxSessions = 0
[IRC]
  [[IRC.Operators]]
    Name = "op"
    Password = "oppass"
  [[IRC.Services]]
    Password = "svcpass"
[TrustedBridges]
  "bridgeauth" = "bridge1"
`

func (s *vrSys) applyConfig() {
	o := s.cur()
	o.irc.ConfigMu.RLock()
	rev := o.irc.Config.Revision
	o.irc.ConfigMu.RUnlock()
	s.apply(&robust.Message{Type: robust.Config, Data: vrConfig, Revision: rev + 1})
}

func (s *vrSys) snapshot() {
	// make sure there is something new to snapshot
	s.irc(s.base[0], "PING :snap")
	if err := node.Snapshot().Error(); err != nil && err != raft.ErrNothingNewToSnapshot {
		atomic.AddInt64(&s.errs, 1)
	}
}

func (s *vrSys) restore() {
	s.restoreSerial.Lock()
	defer s.restoreSerial.Unlock()
	// a long poll waiting on the output stream that Restore closes makes
	// GetNext panic in a goroutine of its own: stop ours first
	s.stopPoll()
	snaps, err := s.fss.List()
	if err != nil || len(snaps) == 0 {
		atomic.AddInt64(&s.errs, 1)
		return
	}
	meta, rc, err := s.fss.Open(snaps[0].ID)
	if err != nil {
		atomic.AddInt64(&s.errs, 1)
		return
	}
	defer rc.Close()
	if err := node.Restore(meta, rc, 120*time.Second); err != nil {
		atomic.AddInt64(&s.errs, 1)
		return
	}
	// ordered after Restore by raft's future
	s.mu.Lock()
	s.objs = vrObjs{irc: ircServer, out: outputStream, store: ircStore}
	s.mu.Unlock()
}

func (s *vrSys) setup() error {
	s.applyConfig()
	for k := 0; k < 4; k++ {
		sess, err := s.createSession()
		if err != nil {
			return fmt.Errorf("create session: %v", err)
		}
		s.irc(sess, fmt.Sprintf("NICK base%d", k))
		s.irc(sess, fmt.Sprintf("USER base%d 0 * :Base %d", k, k))
		s.irc(sess, "JOIN #base")
		s.base = append(s.base, sess)
	}
	for k := 0; k < 2; k++ {
		sess, err := s.createSession()
		if err != nil {
			return fmt.Errorf("create session: %v", err)
		}
		s.irc(sess, fmt.Sprintf("NICK gone%d", k))
		s.deleteSession(sess)
		s.ended = append(s.ended, sess)
	}
	s.irc(s.base[0], "OPER op oppass")
	s.irc(s.base[1], "JOIN #side")
	s.irc(s.base[0], "TOPIC #base :hello")
	// a first snapshot, so that Restore always has one to restore from
	if err := node.Snapshot().Error(); err != nil {
		return fmt.Errorf("snapshot: %v", err)
	}
	s.irc(s.base[2], "PRIVMSG #base :after snapshot")
	return nil
}

// ---------------------------------------------------------------- HTTP side

func (s *vrSys) private(method, target string, body string) int {
	req := httptest.NewRequest(method, target, strings.NewReader(body))
	rec := httptest.NewRecorder()
	s.api.DispatchPrivateWithoutAuth(rec, req)
	return rec.Code
}

func (s *vrSys) privateAuth(method, target string, user, pass string) int {
	req := httptest.NewRequest(method, target, nil)
	req.SetBasicAuth(user, pass)
	rec := httptest.NewRecorder()
	s.api.DispatchPrivate(rec, req)
	return rec.Code
}

func (s *vrSys) public(ctx context.Context, method, target string, sess *vrSession, body string, hdr map[string]string) *httptest.ResponseRecorder {
	req := httptest.NewRequest(method, target, strings.NewReader(body))
	if ctx != nil {
		req = req.WithContext(ctx)
	}
	if sess != nil {
		req.Header.Set("X-Session-Auth", sess.auth)
	}
	for k, v := range hdr {
		req.Header.Set(k, v)
	}
	rec := httptest.NewRecorder()
	s.api.DispatchPublic(rec, req)
	return rec
}

func (s *vrSys) postMessage(sess *vrSession, line string) {
	cm := atomic.AddUint64(&sess.cmid, 1)
	b, _ := json.Marshal(struct {
		Data            string
		ClientMessageId uint64
	}{line, cm})
	s.public(nil, "POST", fmt.Sprintf("/robustirc/v1/%d/message", sess.id.Id), sess, string(b),
		map[string]string{"X-Bridge-Auth": "bridgeauth", "X-Forwarded-For": "198.51.100.9", "Origin": "https://webchat.example"})
}

func (s *vrSys) longPoll(sess *vrSession, d time.Duration) {
	ctx, cancel := context.WithTimeout(context.Background(), d)
	defer cancel()
	s.public(ctx, "GET", fmt.Sprintf("/robustirc/v1/%d/messages?lastseen=0.0", sess.id.Id), sess, "", nil)
}

// ensureNicklessPoll keeps one long poll open that was started for a session
// without a nickname, so that /status/getmessage goes through
// GetMessagesStats.NickWithFallback.
func (s *vrSys) ensureNicklessPoll() {
	s.mu.Lock()
	if s.pollDone != nil {
		select {
		case <-s.pollDone:
			s.pollDone = nil
		default:
			s.mu.Unlock()
			return
		}
	}
	s.mu.Unlock()
	sess, err := s.createSession()
	if err != nil {
		return
	}
	ctx, cancel := context.WithCancel(context.Background())
	done := make(chan struct{})
	go func() {
		defer close(done)
		defer vrRecover(s)
		s.public(ctx, "GET", fmt.Sprintf("/robustirc/v1/%d/messages?lastseen=0.0", sess.id.Id), sess, "", nil)
	}()
	// wait until the request is registered
	for k := 0; k < 2000; k++ {
		if strings.Contains(vrBody(s, "/status/getmessage"), fmt.Sprintf("0x%x", sess.id.Id)) {
			break
		}
		time.Sleep(time.Millisecond)
	}
	s.mu.Lock()
	s.nickless, s.pollStop, s.pollDone = sess, cancel, done
	s.mu.Unlock()
}

func vrBody(s *vrSys, target string) string {
	req := httptest.NewRequest("GET", target, nil)
	rec := httptest.NewRecorder()
	s.api.DispatchPrivateWithoutAuth(rec, req)
	return rec.Body.String()
}

func (s *vrSys) stopPoll() {
	s.mu.Lock()
	stop, done, sess := s.pollStop, s.pollDone, s.nickless
	s.pollStop, s.pollDone, s.nickless = nil, nil, nil
	s.mu.Unlock()
	if stop != nil {
		stop()
		<-done
		if sess != nil {
			s.deleteSession(sess)
		}
	}
}

func vrRecover(s *vrSys) {
	if r := recover(); r != nil {
		atomic.AddInt64(&s.panics, 1)
	}
}

// ---------------------------------------------------------------- drivers

type vrDriver struct {
	run   func(s *vrSys, r *rand.Rand)
	heavy bool
	prep  func(s *vrSys)
}

var vrChannels = []string{"#base", "#side", "#c1", "#c2", "#c3"}

// vrChan: mostly channels that exist or get created, sometimes one nobody ever joined
func vrChan(r *rand.Rand) string {
	if r.Intn(6) == 0 {
		return fmt.Sprintf("#never%d", r.Intn(50))
	}
	return vrChannels[r.Intn(len(vrChannels))]
}

// vrNick: nicknames of base sessions (which may have been renamed since) and unknown ones
func vrNick(r *rand.Rand) string {
	if r.Intn(4) == 0 {
		return fmt.Sprintf("nobody%d", r.Intn(50))
	}
	return fmt.Sprintf("base%d", r.Intn(4))
}

// one state-machine entry, chosen to cover the write paths of the IRC state;
// arguments are existing and non-existing sessions, channels and nicknames
// vrLifecycleStep applies the next entry in the life of one session that the other side of the job is using
// at the same time: created, registered, joined, away, oper, renamed, gone -- and, every other life, a
// session that authenticates as a services link, becomes one, introduces a pseudo-client and goes.  Every
// field of a session that some entry writes is written here while the session is in use.
func vrLifecycleStep(s *vrSys, r *rand.Rand) {
	s.mu.Lock()
	t, stage, life := s.fresh, s.stage, s.lives
	s.mu.Unlock()
	if t == nil {
		nt, err := s.createSession()
		if err != nil {
			return
		}
		s.mu.Lock()
		s.fresh, s.stage = nt, 0
		s.lives++
		s.mu.Unlock()
		return
	}
	k := atomic.AddUint64(&s.nickSeq, 1)
	var lines []string
	if life%2 == 0 {
		lines = []string{
			fmt.Sprintf("NICK life%d", k), "USER life 0 * :Life", "JOIN #base", "AWAY :gone", "OPER op oppass",
			fmt.Sprintf("NICK lifer%d", k), "MODE #base +t", "PRIVMSG #base :hi", "AWAY", "PART #base",
		}
	} else {
		lines = []string{
			"PASS :services=svcpass", "SERVER services.verif 1 :Services",
			fmt.Sprintf(":services.verif NICK svc%d 1 1 svc services.verif services.verif 0 :Service", k),
			fmt.Sprintf(":svc%d PRIVMSG base0 :notice", k), "PING :x",
		}
	}
	if stage < len(lines) {
		s.irc(t, lines[stage])
		s.mu.Lock()
		s.stage++
		s.mu.Unlock()
		return
	}
	s.deleteSession(t)
	s.mu.Lock()
	s.fresh = nil
	s.ended = append(s.ended, t)
	if len(s.ended) > 64 {
		s.ended = s.ended[len(s.ended)-64:]
	}
	s.mu.Unlock()
}

func vrApplyOne(s *vrSys, r *rand.Rand) {
	if atomic.LoadInt32(&s.focus) == 1 {
		vrLifecycleStep(s, r)
		return
	}
	sess := s.pick(r)
	ch := vrChan(r)
	n := 19
	if atomic.LoadInt32(&s.gline) == 1 {
		n = 21
	}
	switch r.Intn(n) {
	case 0, 1:
		s.irc(sess, "JOIN "+ch)
	case 2:
		s.irc(sess, "PART "+ch)
	case 3:
		s.irc(sess, fmt.Sprintf("NICK n%d", atomic.AddUint64(&s.nickSeq, 1)))
	case 4:
		s.irc(sess, fmt.Sprintf("TOPIC %s :t%d", ch, r.Intn(100)))
	case 5:
		s.irc(sess, "PRIVMSG "+ch+" :hello there")
	case 6:
		s.irc(sess, "AWAY :gone")
	case 7:
		s.irc(sess, fmt.Sprintf("MODE %s +i", ch))
	case 8:
		s.irc(sess, "MODE "+ch+" -i")
	case 9:
		s.irc(sess, "PING :x")
	case 10:
		s.irc(sess, fmt.Sprintf("INVITE %s %s", vrNick(r), ch))
	case 11:
		s.irc(sess, "WHO "+ch)
	case 12:
		// the session /status/getmessage resolves through NickWithFallback
		s.mu.Lock()
		nl := s.nickless
		s.mu.Unlock()
		if nl != nil {
			s.irc(nl, fmt.Sprintf("NICK late%d", atomic.AddUint64(&s.nickSeq, 1)))
		} else {
			s.irc(sess, fmt.Sprintf("NICK m%d", atomic.AddUint64(&s.nickSeq, 1)))
		}
	case 13:
		if t, err := s.createSession(); err == nil {
			s.irc(t, fmt.Sprintf("NICK tmp%d", atomic.AddUint64(&s.nickSeq, 1)))
			s.irc(t, "USER tmp 0 * :tmp")
			s.irc(t, "JOIN #base")
			s.deleteSession(t)
		}
	case 14:
		s.applyConfig()
	case 15:
		s.irc(sess, "NAMES "+ch)
	case 16:
		// a message for a session that does not exist (ended, never created,
		// not yet created): the miss path of the session lookup
		s.irc(s.any(r), "PING :ghost")
	case 17:
		s.irc(sess, "PRIVMSG "+vrNick(r)+" :direct")
	case 18:
		s.irc(sess, "WHOIS "+vrNick(r))
	case 19, 20:
		// GLINE writes Config.Banned in place.  cmdGline takes ConfigMu.Lock
		// while holding sessionsMu; operations that take ConfigMu BEFORE
		// sessionsMu (ThrottleUntil, ExpireSessions, handleStatus) deadlock
		// against it -- a lock-order inversion of the tree, not a data race.
		// The check driver therefore enables GLINE only in jobs whose other
		// operation does not nest the two locks in that order.
		if t, err := s.createSession(); err == nil {
			k := atomic.AddUint64(&s.nickSeq, 1)
			addr := fmt.Sprintf("203.0.113.%d", k%250)
			s.ircFrom(t, fmt.Sprintf("NICK victim%d", k), addr)
			s.ircFrom(t, "USER victim 0 * :victim", addr)
			if r.Intn(3) == 0 {
				s.irc(s.base[0], fmt.Sprintf("GLINE nobody%d :no such nick", k))
			}
			s.irc(s.base[0], fmt.Sprintf("GLINE victim%d :spam", k))
			s.deleteSession(t)
		}
	}
}

func vrStatus(path string) func(s *vrSys, r *rand.Rand) {
	return func(s *vrSys, r *rand.Rand) { s.private("GET", path, "") }
}

func vrDirect(f func(o vrObjs, s *vrSys, r *rand.Rand)) func(s *vrSys, r *rand.Rand) {
	return func(s *vrSys, r *rand.Rand) { f(s.cur(), s, r) }
}

var vrDrivers = map[string]vrDriver{}

func vrAlias(target string, names ...string) {
	for _, n := range names {
		vrDrivers[n] = vrDrivers[target]
	}
}

func init() {
	d := vrDrivers
	// ---- raft FSM goroutine (through raft)
	d["FSM.Apply"] = vrDriver{run: vrApplyOne}
	vrAlias("FSM.Apply", "IRCServer.ProcessMessage", "IRCServer.UpdateLastClientMessageID", "IRCServer.SetLastProcessed",
		"IRCServer.MaybeDeleteSession", "IRCServer.Banned", "IRCServer.CreateSession", "OutputStream.Add",
		"LevelDBStore.StoreLogProto", "LevelDBStore.StoreLog", "LevelDBStore.StoreLogs",
		"LevelDBStore@log.StoreLog", "LevelDBStore@log.StoreLogs", "HTTP.ApplyMessageWait", "HTTP.applyMessageWait")
	d["FSM.Snapshot"] = vrDriver{run: func(s *vrSys, r *rand.Rand) { s.snapshot() }, heavy: true}
	vrAlias("FSM.Snapshot", "robustSnapshot.Persist", "OutputStream.Delete", "LevelDBStore.DeleteRange", "LevelDBStore@log.DeleteRange")
	d["FSM.Restore"] = vrDriver{run: func(s *vrSys, r *rand.Rand) { s.restore() }, heavy: true}
	vrAlias("FSM.Restore", "IRCServer.Unmarshal", "HTTP.ReplaceState", "LevelDBStore.Close", "OutputStream.Close",
		"LevelDBStore.WriteBatch", "LevelDBStore.ConvertToProto")

	// ---- HTTP handler goroutines
	d["HTTP.handleStatus"] = vrDriver{run: vrStatus("/status")}
	d["HTTP.handleStatusSessions"] = vrDriver{run: vrStatus("/status/sessions")}
	d["HTTP.handleStatusState"] = vrDriver{run: vrStatus("/status/state")}
	d["HTTP.handleStatusIrclog"] = vrDriver{run: vrStatus("/status/irclog")}
	d["HTTP.handleStatusGetMessage"] = vrDriver{run: vrStatus("/status/getmessage"), prep: func(s *vrSys) { s.ensureNicklessPoll() }}
	vrAlias("HTTP.handleStatusGetMessage", "GetMessagesStats.NickWithFallback", "GetMessagesStats.StartedAndRelative", "HTTP.copyGetMessagesRequests")
	d["HTTP.handleIrclog"] = vrDriver{run: func(s *vrSys, r *rand.Rand) {
		if r.Intn(8) == 0 {
			s.private("GET", "/irclog?sessionid=bogus", "")
			return
		}
		s.private("GET", fmt.Sprintf("/irclog?sessionid=%d", s.any(r).id.Id), "")
	}}
	d["HTTP.handleGetConfig"] = vrDriver{run: vrStatus("/config")}
	d["HTTP.handleLeader"] = vrDriver{run: vrStatus("/leader")}
	d["HTTP.DispatchPrivateWithoutAuth"] = vrDriver{run: vrStatus("/leader")}
	d["HTTP.DispatchPrivate"] = vrDriver{run: func(s *vrSys, r *rand.Rand) {
		// wrong passwords are throttled with an exponentially growing sleep
		if r.Intn(40) != 0 {
			s.privateAuth("GET", "/leader", "robustirc", *networkPassword)
		} else {
			s.privateAuth("GET", "/leader", "robustirc", "wrong")
		}
	}}
	// /metrics calls the GaugeFunc closures of robustirc.go (main.init$N)
	d["main.metrics"] = vrDriver{run: vrStatus("/metrics")}
	d["HTTP.handlePostConfig"] = vrDriver{run: func(s *vrSys, r *rand.Rand) {
		req := httptest.NewRequest("POST", "/config", strings.NewReader(vrConfig))
		o := s.cur()
		o.irc.ConfigMu.RLock()
		rev := o.irc.Config.Revision
		o.irc.ConfigMu.RUnlock()
		req.Header.Set("X-RobustIRC-Config-Revision", fmt.Sprint(rev))
		s.api.DispatchPrivateWithoutAuth(httptest.NewRecorder(), req)
	}}
	vrAlias("HTTP.handlePostConfig", "HTTP.applyConfig", "HTTP.configRevision")
	d["HTTP.handlePostMessage"] = vrDriver{run: func(s *vrSys, r *rand.Rand) {
		ch := vrChannels[r.Intn(len(vrChannels))]
		lines := []string{"JOIN " + ch, "PRIVMSG " + ch + " :posted", "PART " + ch, "PING :p"}
		if atomic.LoadInt32(&s.focus) == 1 {
			// the session may be a services link by the time the line is applied: what a link sends
			// carries a prefix (a line without one is outside the protocol and makes the server commands
			// dereference a nil prefix -- not a data race, and not in the scope of C06 either)
			for k := range lines {
				lines[k] = ":someone " + lines[k]
			}
		}
		// existing sessions, and ended / unknown / future ones (the handler
		// then fails in session(): the miss path of GetAuth/GetSession)
		s.postMessage(s.any(r), lines[r.Intn(len(lines))])
	}}
	vrAlias("HTTP.handlePostMessage", "HTTP.DispatchPublic", "HTTP.session", "HTTP.sessionOrProxy", "HTTP.ircServer", "HTTP.output", "HTTP.ircStore")
	d["HTTP.handleCreateSession"] = vrDriver{run: func(s *vrSys, r *rand.Rand) {
		rec := s.public(nil, "POST", "/robustirc/v1/session", nil, "", nil)
		var reply struct{ Sessionid, Sessionauth string }
		if json.Unmarshal(rec.Body.Bytes(), &reply) == nil && reply.Sessionid != "" {
			var id uint64
			fmt.Sscanf(reply.Sessionid, "0x%x", &id)
			t := &vrSession{id: robust.Id{Id: id}, auth: reply.Sessionauth}
			req := httptest.NewRequest("DELETE", fmt.Sprintf("/robustirc/v1/%d", id), strings.NewReader(`{"Quitmessage":"bye"}`))
			req.Header.Set("X-Session-Auth", t.auth)
			s.api.DispatchPublic(httptest.NewRecorder(), req)
		}
	}}
	vrAlias("HTTP.handleCreateSession", "HTTP.handleDeleteSession")
	d["HTTP.handleGetMessages"] = vrDriver{run: func(s *vrSys, r *rand.Rand) { s.longPoll(s.any(r), 6*time.Millisecond) }}
	vrAlias("HTTP.handleGetMessages", "HTTP.getMessages", "HTTP.pingTicker", "HTTP.setGetMessagesRequests", "HTTP.deleteGetMessagesRequests",
		"HTTP.pingMessage", "HTTP.partitioned", "OutputStream.InterruptGetNext")

	// ---- the expiry loop of main(): its body, on the current server
	d["main.mainLoop"] = vrDriver{run: vrDirect(func(o vrObjs, s *vrSys, r *rand.Rand) {
		// every other sweep finds an expired session that is posting at that very moment
		done := make(chan struct{})
		if idle := s.oldSession(); idle != nil && r.Intn(2) == 0 {
			go func() {
				defer close(done)
				s.irc(idle, "PING :still here")
			}()
		} else {
			close(done)
		}
		for _, msg := range o.irc.ExpireSessions() {
			s.api.ApplyMessageWait(msg, 10*time.Second)
		}
		<-done
	})}
	vrAlias("main.mainLoop", "IRCServer.ExpireSessions")

	// ---- public methods reachable from handler goroutines
	d["IRCServer.GetSession"] = vrDriver{run: vrDirect(func(o vrObjs, s *vrSys, r *rand.Rand) { o.irc.GetSession(s.any(r).id) })}
	d["IRCServer.GetAuth"] = vrDriver{run: vrDirect(func(o vrObjs, s *vrSys, r *rand.Rand) { o.irc.GetAuth(s.any(r).id) })}
	d["IRCServer.GetNick"] = vrDriver{run: vrDirect(func(o vrObjs, s *vrSys, r *rand.Rand) { o.irc.GetNick(s.any(r).id) })}
	d["IRCServer.ThrottleUntil"] = vrDriver{run: vrDirect(func(o vrObjs, s *vrSys, r *rand.Rand) { o.irc.ThrottleUntil(s.any(r).id) })}
	d["IRCServer.LastPostMessage"] = vrDriver{run: vrDirect(func(o vrObjs, s *vrSys, r *rand.Rand) { o.irc.LastPostMessage(s.any(r).id) })}
	d["IRCServer.GetSessions"] = vrDriver{run: vrDirect(func(o vrObjs, s *vrSys, r *rand.Rand) {
		for _, sess := range o.irc.GetSessions() {
			_ = sess.Nick
		}
	})}
	d["IRCServer.NumSessions"] = vrDriver{run: vrDirect(func(o vrObjs, s *vrSys, r *rand.Rand) { o.irc.NumSessions() })}
	d["IRCServer.NumChannels"] = vrDriver{run: vrDirect(func(o vrObjs, s *vrSys, r *rand.Rand) { o.irc.NumChannels() })}
	d["IRCServer.SessionLimit"] = vrDriver{run: vrDirect(func(o vrObjs, s *vrSys, r *rand.Rand) { o.irc.SessionLimit() })}
	d["IRCServer.ChannelLimit"] = vrDriver{run: vrDirect(func(o vrObjs, s *vrSys, r *rand.Rand) { o.irc.ChannelLimit() })}
	d["IRCServer.OriginWhitelisted"] = vrDriver{run: vrDirect(func(o vrObjs, s *vrSys, r *rand.Rand) { o.irc.OriginWhitelisted("https://x.example") })}
	d["IRCServer.TrustedBridge"] = vrDriver{run: vrDirect(func(o vrObjs, s *vrSys, r *rand.Rand) {
		o.irc.TrustedBridge([]string{"bridgeauth", "unknown-bridge", ""}[r.Intn(3)])
	})}
	d["IRCServer.Marshal"] = vrDriver{run: vrDirect(func(o vrObjs, s *vrSys, r *rand.Rand) { o.irc.Marshal(0) })}
	d["OutputStream.Get"] = vrDriver{run: vrDirect(func(o vrObjs, s *vrSys, r *rand.Rand) {
		o.out.Get(o.out.LastSeen())
		o.out.Get(robust.Id{Id: s.any(r).id.Id})
	})}
	d["OutputStream.GetNext"] = vrDriver{run: vrDirect(func(o vrObjs, s *vrSys, r *rand.Rand) {
		ctx, cancel := context.WithCancel(context.Background())
		done := make(chan struct{})
		go func() {
			defer close(done)
			defer vrRecover(s)
			o.out.GetNext(ctx, robust.Id{Id: uint64(r.Intn(3))})
			o.out.GetNext(ctx, o.out.LastSeen())
		}()
		for k := 0; k < 3; k++ {
			runtime.Gosched()
		}
		cancel()
		for {
			select {
			case <-done:
				return
			default:
				o.out.InterruptGetNext()
				runtime.Gosched()
			}
		}
	})}
	d["LevelDBStore.FirstIndex"] = vrDriver{run: vrDirect(func(o vrObjs, s *vrSys, r *rand.Rand) { o.store.FirstIndex() })}
	d["LevelDBStore.LastIndex"] = vrDriver{run: vrDirect(func(o vrObjs, s *vrSys, r *rand.Rand) { o.store.LastIndex() })}
	d["LevelDBStore.GetLog"] = vrDriver{run: vrDirect(func(o vrObjs, s *vrSys, r *rand.Rand) {
		last, _ := o.store.LastIndex()
		var l raft.Log
		o.store.GetLog(last, &l)
		o.store.GetLog(last+uint64(1+r.Intn(100)), &l) // not stored
		o.store.GetLog(0, &l)
	})}
	d["LevelDBStore.GetBulkIterator"] = vrDriver{run: vrDirect(func(o vrObjs, s *vrSys, r *rand.Rand) {
		first, _ := o.store.FirstIndex()
		if r.Intn(4) == 0 {
			first += 1 << 30 // nothing stored there
		}
		it := o.store.GetBulkIterator(first, first+3)
		for it.Next() {
		}
		it.Release()
	})}
	// ---- the log/stable store instance owned by the raft library
	d["LevelDBStore@log.FirstIndex"] = vrDriver{run: func(s *vrSys, r *rand.Rand) { s.logStore.FirstIndex() }}
	d["LevelDBStore@log.LastIndex"] = vrDriver{run: func(s *vrSys, r *rand.Rand) { s.logStore.LastIndex() }}
	d["LevelDBStore@log.GetLog"] = vrDriver{run: func(s *vrSys, r *rand.Rand) {
		last, _ := s.logStore.LastIndex()
		var l raft.Log
		s.logStore.GetLog(last, &l)
		s.logStore.GetLog(last+uint64(1+r.Intn(100)), &l) // not stored
	}}
	d["LevelDBStore@log.Get"] = vrDriver{run: func(s *vrSys, r *rand.Rand) {
		s.logStore.Get([]byte("CurrentTerm"))
		s.logStore.Get([]byte("verif-no-such-key"))
	}}
	d["LevelDBStore@log.GetUint64"] = vrDriver{run: func(s *vrSys, r *rand.Rand) {
		s.logStore.GetUint64([]byte("CurrentTerm"))
		s.logStore.GetUint64([]byte("verif-no-such-u64"))
	}}
	d["LevelDBStore@log.Set"] = vrDriver{run: func(s *vrSys, r *rand.Rand) { s.logStore.Set([]byte("verif-key"), []byte("v")) }}
	d["LevelDBStore@log.SetUint64"] = vrDriver{run: func(s *vrSys, r *rand.Rand) { s.logStore.SetUint64([]byte("verif-u64"), uint64(r.Intn(9))) }}
}

// ---------------------------------------------------------------- jobs

type vrJob struct {
	ID    int    `json:"id"`
	A     string `json:"a"`
	B     string `json:"b"`
	Iters int    `json:"iters"`
	Gline bool   `json:"gline"`
	Focus bool   `json:"focus"`
}

type vrPlan struct {
	Seed int64   `json:"seed"`
	Jobs []vrJob `json:"jobs"`
}

func vrResolve(name string) (vrDriver, bool) {
	if strings.HasPrefix(name, "main.init$") {
		name = "main.metrics"
	}
	d, ok := vrDrivers[name]
	return d, ok
}

func vrSide(s *vrSys, d vrDriver, seed int64, iters int, partnerDone *int32, myDone *int32, wg *sync.WaitGroup) {
	defer wg.Done()
	defer atomic.StoreInt32(myDone, 1)
	reached := false
	r := rand.New(rand.NewSource(seed))
	n := iters
	if d.heavy {
		n = iters/40 + 2
	}
	for k := 0; ; k++ {
		if k >= n {
			if !reached {
				reached = true
				atomic.StoreInt32(myDone, 1)
			}
			// a light operation keeps going (bounded) while a heavy partner still runs
			if d.heavy || atomic.LoadInt32(partnerDone) == 1 || k >= 20*iters {
				return
			}
		}
		func() {
			defer vrRecover(s)
			d.run(s, r)
		}()
		for y := r.Intn(3); y > 0; y-- {
			runtime.Gosched()
		}
	}
}

func TestVerifRace(t *testing.T) {
	planPath := os.Getenv("VERIF_RACE_PLAN")
	if planPath == "" {
		t.Skip("VERIF_RACE_PLAN not set")
	}
	raw, err := os.ReadFile(planPath)
	if err != nil {
		t.Fatal(err)
	}
	var plan vrPlan
	if err := json.Unmarshal(raw, &plan); err != nil {
		t.Fatal(err)
	}
	dir, err := os.MkdirTemp(os.Getenv("VERIF_SCRATCH"), "race-node-")
	if err != nil {
		t.Fatal(err)
	}
	defer os.RemoveAll(dir)
	s, err := vrBoot(dir)
	if err != nil {
		fmt.Fprintf(os.Stderr, "VERIF-RACE-FATAL boot: %v\n", err)
		t.Fatal(err)
	}
	if err := s.setup(); err != nil {
		fmt.Fprintf(os.Stderr, "VERIF-RACE-FATAL setup: %v\n", err)
		t.Fatal(err)
	}
	fmt.Fprintf(os.Stderr, "VERIF-RACE-READY jobs=%d\n", len(plan.Jobs))
	for _, job := range plan.Jobs {
		da, oka := vrResolve(job.A)
		db, okb := vrResolve(job.B)
		if !oka || !okb {
			fmt.Fprintf(os.Stderr, "VERIF-JOB-NODRIVER %d %s %s\n", job.ID, job.A, job.B)
			continue
		}
		if da.prep != nil {
			da.prep(s)
		}
		if db.prep != nil {
			db.prep(s)
		}
		if job.Gline {
			atomic.StoreInt32(&s.gline, 1)
		} else {
			atomic.StoreInt32(&s.gline, 0)
		}
		if job.Focus {
			atomic.StoreInt32(&s.focus, 1)
		} else {
			atomic.StoreInt32(&s.focus, 0)
		}
		fmt.Fprintf(os.Stderr, "VERIF-JOB-BEGIN %d %s %s\n", job.ID, job.A, job.B)
		t0 := time.Now()
		var wg sync.WaitGroup
		var doneA, doneB int32
		wg.Add(2)
		go vrSide(s, da, plan.Seed*7919+int64(job.ID)*2+1, job.Iters, &doneB, &doneA, &wg)
		go vrSide(s, db, plan.Seed*7919+int64(job.ID)*2+2, job.Iters, &doneA, &doneB, &wg)
		wg.Wait()
		fmt.Fprintf(os.Stderr, "VERIF-JOB-END %d panics=%d errs=%d ms=%d\n", job.ID, atomic.LoadInt64(&s.panics), atomic.LoadInt64(&s.errs), time.Since(t0).Milliseconds())
	}
	s.stopPoll()
	fmt.Fprintf(os.Stderr, "VERIF-RACE-DONE panics=%d errs=%d\n", atomic.LoadInt64(&s.panics), atomic.LoadInt64(&s.errs))
	// the process ends here; raft and the stores are not shut down (main()
	// never does either) and the scratch directory is removed by the driver.
	_ = bytes.MinRead
	_ = http.MethodGet
}
