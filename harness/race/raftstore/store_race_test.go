package raftstore

// C20 store-level stress (built with `go test -race`, injected into
// internal/raftstore of the tree under test by -overlay; see checks/c20.py).
//
// The package-main harness cannot run FSM.Restore (which closes the irclog
// store) together with the handlers that use the store: on this tree a store
// method called between Close and the re-creation of the store panics and the
// handlers' exitOnRecover ends the process.  The pairs are therefore run here,
// on ONE standalone LevelDBStore: every pair of public methods the lock model
// says can overlap, including Close (followed by re-opening the SAME object, as
// only an in-package test can) and GetBulkIterator (iterate + Release).  A
// panic of use-after-close is recovered and counted -- it is not a data race;
// only race-detector reports count.  Job protocol as in harness/race.

import (
	"encoding/binary"
	"encoding/json"
	"fmt"
	"math/rand"
	"os"
	"path/filepath"
	"runtime"
	"strings"
	"sync"
	"sync/atomic"
	"testing"
	"time"

	"github.com/hashicorp/raft"
	"github.com/syndtr/goleveldb/leveldb"

	pb "github.com/robustirc/robustirc/internal/proto"
)

type vsJob struct {
	ID    int    `json:"id"`
	A     string `json:"a"`
	B     string `json:"b"`
	Iters int    `json:"iters"`
}

type vsPlan struct {
	Seed int64   `json:"seed"`
	Jobs []vsJob `json:"jobs"`
}

type vsSys struct {
	st     *LevelDBStore
	dir    string
	next   uint64 // next log index to store
	panics int64
}

func (v *vsSys) idx() uint64 { return atomic.AddUint64(&v.next, 1) }

// existing and non-existing indexes
func (v *vsSys) some(r *rand.Rand) uint64 {
	n := atomic.LoadUint64(&v.next)
	switch r.Intn(4) {
	case 0:
		return n + uint64(1+r.Intn(1000)) // not stored (yet)
	case 1:
		return 0
	}
	return 1 + uint64(r.Int63n(int64(n)+1))
}

func vsLog(i uint64) *raft.Log {
	return &raft.Log{Index: i, Term: 1, Type: raft.LogCommand, Data: []byte(fmt.Sprintf("p-entry-%d", i)), AppendedAt: time.Unix(1700000000, 0)}
}

// reopen gives the closed store object a database again (what FSM.Restore does
// by creating a new store; here the object stays the same so that later jobs
// keep using it).
func (v *vsSys) reopen() {
	db, err := leveldb.OpenFile(v.dir, nil)
	if err != nil {
		return
	}
	v.st.mu.Lock()
	old := v.st.db
	v.st.db = db
	v.st.mu.Unlock()
	if old != nil {
		old.Close()
	}
}

var vsDrivers = map[string]func(v *vsSys, r *rand.Rand){
	"Close": func(v *vsSys, r *rand.Rand) {
		func() {
			defer vsRecover(v)
			v.st.Close()
		}()
		v.reopen()
	},
	"ConvertToProto": func(v *vsSys, r *rand.Rand) { v.st.ConvertToProto() },
	"FirstIndex":     func(v *vsSys, r *rand.Rand) { v.st.FirstIndex() },
	"LastIndex":      func(v *vsSys, r *rand.Rand) { v.st.LastIndex() },
	"GetBulkIterator": func(v *vsSys, r *rand.Rand) {
		lo := v.some(r)
		it := v.st.GetBulkIterator(lo, lo+uint64(1+r.Intn(6)))
		for ok := it.First(); ok; ok = it.Next() {
			_ = it.Key()
			_ = it.Value()
		}
		_ = it.Error()
		it.Release()
	},
	"GetLog": func(v *vsSys, r *rand.Rand) {
		var l raft.Log
		v.st.GetLog(v.some(r), &l)
	},
	"StoreLog":  func(v *vsSys, r *rand.Rand) { v.st.StoreLog(vsLog(v.idx())) },
	"StoreLogs": func(v *vsSys, r *rand.Rand) { v.st.StoreLogs([]*raft.Log{vsLog(v.idx()), vsLog(v.idx())}) },
	"StoreLogProto": func(v *vsSys, r *rand.Rand) {
		i := v.idx()
		v.st.StoreLogProto(&pb.RaftLog{Index: i, Term: 1, Type: pb.RaftLog_COMMAND, Data: []byte(fmt.Sprintf("p-entry-%d", i))})
	},
	"WriteBatch": func(v *vsSys, r *rand.Rand) {
		var b leveldb.Batch
		key := make([]byte, 8)
		binary.BigEndian.PutUint64(key, v.idx())
		b.Put(key, []byte("pbatch"))
		v.st.WriteBatch(&b)
	},
	"DeleteRange": func(v *vsSys, r *rand.Rand) {
		lo := v.some(r)
		switch r.Intn(3) {
		case 0:
			v.st.DeleteRange(lo, lo) // one entry (or none)
		case 1:
			v.st.DeleteRange(lo+3, lo) // empty range
		default:
			v.st.DeleteRange(lo, lo+2)
		}
	},
	"Set": func(v *vsSys, r *rand.Rand) { v.st.Set([]byte(fmt.Sprintf("k%d", r.Intn(4))), []byte("v")) },
	"Get": func(v *vsSys, r *rand.Rand) { v.st.Get([]byte(fmt.Sprintf("k%d", r.Intn(8)))) },
	"SetUint64": func(v *vsSys, r *rand.Rand) {
		v.st.SetUint64([]byte(fmt.Sprintf("u%d", r.Intn(4))), uint64(r.Intn(100)))
	},
	"GetUint64": func(v *vsSys, r *rand.Rand) { v.st.GetUint64([]byte(fmt.Sprintf("u%d", r.Intn(8)))) },
}

func vsRecover(v *vsSys) {
	if r := recover(); r != nil {
		atomic.AddInt64(&v.panics, 1)
	}
}

func vsMethod(op string) string {
	if k := strings.LastIndex(op, "."); k >= 0 {
		return op[k+1:]
	}
	return op
}

func vsSide(v *vsSys, f func(*vsSys, *rand.Rand), seed int64, iters int, wg *sync.WaitGroup) {
	defer wg.Done()
	r := rand.New(rand.NewSource(seed))
	for k := 0; k < iters; k++ {
		func() {
			defer vsRecover(v)
			f(v, r)
		}()
		for y := r.Intn(3); y > 0; y-- {
			runtime.Gosched()
		}
	}
}

func TestVerifRaceStore(t *testing.T) {
	planPath := os.Getenv("VERIF_RACE_PLAN")
	if planPath == "" {
		t.Skip("VERIF_RACE_PLAN not set")
	}
	raw, err := os.ReadFile(planPath)
	if err != nil {
		t.Fatal(err)
	}
	var plan vsPlan
	if err := json.Unmarshal(raw, &plan); err != nil {
		t.Fatal(err)
	}
	dir, err := os.MkdirTemp(os.Getenv("VERIF_SCRATCH"), "race-store-")
	if err != nil {
		t.Fatal(err)
	}
	defer os.RemoveAll(dir)
	v := &vsSys{dir: filepath.Join(dir, "db")}
	v.st, err = NewLevelDBStore(v.dir, true, true)
	if err != nil {
		fmt.Fprintf(os.Stderr, "VERIF-RACE-FATAL open: %v\n", err)
		t.Fatal(err)
	}
	for k := 0; k < 20; k++ {
		v.st.StoreLog(vsLog(v.idx()))
	}
	v.st.Set([]byte("k0"), []byte("v"))
	v.st.SetUint64([]byte("u0"), 7)
	fmt.Fprintf(os.Stderr, "VERIF-RACE-READY jobs=%d\n", len(plan.Jobs))
	for _, job := range plan.Jobs {
		fa, oka := vsDrivers[vsMethod(job.A)]
		fb, okb := vsDrivers[vsMethod(job.B)]
		if !oka || !okb {
			fmt.Fprintf(os.Stderr, "VERIF-JOB-NODRIVER %d %s %s\n", job.ID, job.A, job.B)
			continue
		}
		fmt.Fprintf(os.Stderr, "VERIF-JOB-BEGIN %d %s %s\n", job.ID, job.A, job.B)
		t0 := time.Now()
		var wg sync.WaitGroup
		wg.Add(2)
		go vsSide(v, fa, plan.Seed*7919+int64(job.ID)*2+1, job.Iters, &wg)
		go vsSide(v, fb, plan.Seed*7919+int64(job.ID)*2+2, job.Iters, &wg)
		wg.Wait()
		// a job may leave the store closed (Close raced with the re-open of the other side)
		v.st.mu.RLock()
		closed := v.st.db == nil
		v.st.mu.RUnlock()
		if closed {
			v.reopen()
		}
		fmt.Fprintf(os.Stderr, "VERIF-JOB-END %d panics=%d errs=0 ms=%d\n", job.ID, atomic.LoadInt64(&v.panics), time.Since(t0).Milliseconds())
	}
	fmt.Fprintf(os.Stderr, "VERIF-RACE-DONE panics=%d errs=0\n", atomic.LoadInt64(&v.panics))
}
