package main

// Process and network plumbing of the expiry orchestrator: real robustirc
// binaries (built with -tags verif from the tree under test) on loopback, one
// node or three nodes. Adapted from harness/cluster (C05); this copy is
// independent of it.

import (
	"context"
	"crypto/rand"
	"crypto/rsa"
	"crypto/tls"
	"crypto/x509"
	"crypto/x509/pkix"
	"encoding/pem"
	"fmt"
	"io"
	"math/big"
	"net"
	"net/http"
	"os"
	"os/exec"
	"path/filepath"
	"regexp"
	"runtime"
	"strconv"
	"strings"
	"sync"
	"syscall"
	"time"
)

const networkPassword = "verif-c17-secret"

// Inconclusive is the error class for every machinery problem: never a violation.
type Inconclusive struct{ why string }

func (e *Inconclusive) Error() string { return e.why }

func inconclusive(format string, a ...interface{}) error {
	return &Inconclusive{fmt.Sprintf(format, a...)}
}

// Observed ends a scenario early because of something the real code did that the recording shows
// (e.g. a request for a live session answered 404): the recording is validated as it is.
type Observed struct{ why string }

func (e *Observed) Error() string { return e.why }

type Node struct {
	id   int
	port int
	addr string
	dir  string

	mu     sync.Mutex
	cmd    *exec.Cmd
	up     bool
	paused bool
	exited chan struct{}
	// started: when the process was started (its expireSessionsTimer fires every 10 s from shortly after)
	started time.Time
}

func (n *Node) live() bool {
	n.mu.Lock()
	defer n.mu.Unlock()
	return n.up && !n.paused
}

func (n *Node) isUp() bool {
	n.mu.Lock()
	defer n.mu.Unlock()
	return n.up
}

type Net struct {
	bin      string
	work     string
	out      string
	rec      *Rec
	nodes    []*Node
	certPath string
	keyPath  string
	client   *http.Client // short requests
	stream   *http.Client // long polls
	spawn    chan func()
	// trailingLogs >= 0 is handed to every node as VERIF_TRAILING_LOGS (raft.Config.TrailingLogs,
	// see checks/c17_expiry.py build()): with the default of 10240 the raft log is never
	// compacted in a short run and raft would never send InstallSnapshot
	trailingLogs int

	unexpectedMu    sync.Mutex
	unexpectedExits []string
}

func freePorts(n int) ([]int, error) {
	var ports []int
	var ls []net.Listener
	defer func() {
		for _, l := range ls {
			l.Close()
		}
	}()
	for i := 0; i < n; i++ {
		l, err := net.Listen("tcp", "127.0.0.1:0")
		if err != nil {
			return nil, err
		}
		ls = append(ls, l)
		ports = append(ports, l.Addr().(*net.TCPAddr).Port)
	}
	return ports, nil
}

// generateCert writes a self-signed certificate for "localhost".
func generateCert(dir string) (certPath, keyPath string, err error) {
	priv, err := rsa.GenerateKey(rand.Reader, 2048)
	if err != nil {
		return "", "", err
	}
	serial, err := rand.Int(rand.Reader, new(big.Int).Lsh(big.NewInt(1), 128))
	if err != nil {
		return "", "", err
	}
	template := x509.Certificate{
		SerialNumber:          serial,
		Subject:               pkix.Name{Organization: []string{"verif C17"}},
		DNSNames:              []string{"localhost"},
		IPAddresses:           []net.IP{net.ParseIP("127.0.0.1")},
		NotBefore:             time.Now().Add(-time.Hour),
		NotAfter:              time.Now().Add(365 * 24 * time.Hour),
		KeyUsage:              x509.KeyUsageKeyEncipherment | x509.KeyUsageDigitalSignature | x509.KeyUsageCertSign,
		IsCA:                  true,
		BasicConstraintsValid: true,
	}
	der, err := x509.CreateCertificate(rand.Reader, &template, &template, &priv.PublicKey, priv)
	if err != nil {
		return "", "", err
	}
	certPath = filepath.Join(dir, "cert.pem")
	keyPath = filepath.Join(dir, "key.pem")
	cf, err := os.Create(certPath)
	if err != nil {
		return "", "", err
	}
	pem.Encode(cf, &pem.Block{Type: "CERTIFICATE", Bytes: der})
	cf.Close()
	kf, err := os.OpenFile(keyPath, os.O_WRONLY|os.O_CREATE|os.O_TRUNC, 0600)
	if err != nil {
		return "", "", err
	}
	pem.Encode(kf, &pem.Block{Type: "RSA PRIVATE KEY", Bytes: x509.MarshalPKCS1PrivateKey(priv)})
	kf.Close()
	return certPath, keyPath, nil
}

func NewNet(bin, work, out string, rec *Rec, nnodes int, portBase int) (*Net, error) {
	c := &Net{bin: bin, work: work, out: out, rec: rec, spawn: make(chan func()), trailingLogs: -1}
	var err error
	c.certPath, c.keyPath, err = generateCert(work)
	if err != nil {
		return nil, err
	}
	pemBytes, err := os.ReadFile(c.certPath)
	if err != nil {
		return nil, err
	}
	pool := x509.NewCertPool()
	pool.AppendCertsFromPEM(pemBytes)
	mk := func() *http.Transport {
		return &http.Transport{
			TLSClientConfig:     &tls.Config{RootCAs: pool},
			MaxIdleConnsPerHost: 8,
			IdleConnTimeout:     20 * time.Second,
			DialContext:         (&net.Dialer{Timeout: 3 * time.Second}).DialContext,
			TLSHandshakeTimeout: 5 * time.Second,
		}
	}
	c.client = &http.Client{Transport: mk()}
	c.stream = &http.Client{Transport: mk()}
	var ports []int
	if portBase > 0 {
		for i := 0; i < nnodes; i++ {
			ports = append(ports, portBase+i)
		}
	} else {
		ports, err = freePorts(nnodes)
		if err != nil {
			return nil, err
		}
	}
	for i := 0; i < nnodes; i++ {
		n := &Node{id: i + 1, port: ports[i]}
		n.addr = fmt.Sprintf("localhost:%d", n.port)
		n.dir = filepath.Join(work, fmt.Sprintf("raftdir%d", n.id))
		c.nodes = append(c.nodes, n)
	}
	// children are started from one goroutine that owns its OS thread for ever, so that
	// Pdeathsig (tied to the creating thread) only fires when the orchestrator dies
	go func() {
		runtime.LockOSThread()
		for f := range c.spawn {
			f()
		}
	}()
	return c, nil
}

func (c *Net) node(id int) *Node { return c.nodes[id-1] }

func (c *Net) stderrPath(id int) string {
	return filepath.Join(c.work, fmt.Sprintf("node%d.stderr", id))
}

func (c *Net) tracePath(id int) string {
	return filepath.Join(c.out, fmt.Sprintf("node%d.hooks.ndjson", id))
}

// Start starts node id on a fresh -raftdir: node 1 with -singlenode, the others with -join.
func (c *Net) Start(id int) error {
	n := c.node(id)
	args := []string{
		"-network_name=verif.localhost",
		"-listen=" + n.addr,
		"-peer_addr=" + n.addr,
		"-raftdir=" + n.dir,
		"-tls_cert_path=" + c.certPath,
		"-tls_key_path=" + c.keyPath,
		"-tls_ca_file=" + c.certPath,
		"-disable_timesafeguard",
		// everything the node logs goes to its stderr file, unbuffered: the lines of
		// ExpireSessions ("Expiring session ...") are observations of the sweep
		"-logtostderr",
	}
	if id == 1 {
		args = append(args, "-singlenode")
	} else {
		args = append(args, "-join="+c.node(1).addr)
	}
	env := append(os.Environ(),
		"ROBUSTIRC_NETWORK_PASSWORD="+networkPassword,
		"VERIF_TRACE="+c.tracePath(id),
		"GOMAXPROCS=4")
	if c.trailingLogs >= 0 {
		env = append(env, fmt.Sprintf("VERIF_TRAILING_LOGS=%d", c.trailingLogs))
	}
	if err := os.MkdirAll(n.dir, 0700); err != nil {
		return err
	}
	logf, err := os.OpenFile(c.stderrPath(id), os.O_CREATE|os.O_WRONLY|os.O_APPEND, 0644)
	if err != nil {
		return err
	}
	cmd := exec.Command(c.bin, args...)
	cmd.Env = env
	cmd.Stdout = logf
	cmd.Stderr = logf
	cmd.SysProcAttr = &syscall.SysProcAttr{Setpgid: true, Pdeathsig: syscall.SIGKILL}
	errc := make(chan error, 1)
	c.spawn <- func() { errc <- cmd.Start() }
	if err := <-errc; err != nil {
		logf.Close()
		return inconclusive("cannot start node %d: %v", id, err)
	}
	c.rec.Raw("start", "n", id, "pid", cmd.Process.Pid, "addr", n.addr)
	exited := make(chan struct{})
	n.mu.Lock()
	n.cmd = cmd
	n.up = true
	n.paused = false
	n.exited = exited
	n.started = time.Now()
	n.mu.Unlock()
	go func() {
		err := cmd.Wait()
		logf.Close()
		n.mu.Lock()
		wasUp := n.up
		n.up = false
		n.mu.Unlock()
		if wasUp {
			words := c.lastWords(id)
			c.rec.Raw("exited", "n", id, "err", fmt.Sprint(err), "why", words)
			c.unexpectedMu.Lock()
			c.unexpectedExits = append(c.unexpectedExits, fmt.Sprintf("node %d: %v: %s", id, err, words))
			c.unexpectedMu.Unlock()
		}
		close(exited)
	}()
	return nil
}

func (c *Net) lastWords(id int) string {
	b, err := os.ReadFile(c.stderrPath(id))
	if err != nil {
		return ""
	}
	if len(b) > 1<<16 {
		b = b[len(b)-(1<<16):]
	}
	text := string(b)
	for _, marker := range []string{"panic:", "fatal error:"} {
		if i := strings.LastIndex(text, marker); i >= 0 {
			lines := strings.Split(text[i:], "\n")
			if len(lines) > 12 {
				lines = lines[:12]
			}
			return strings.Join(lines, " | ")
		}
	}
	lines := strings.Split(strings.TrimSpace(text), "\n")
	if len(lines) > 4 {
		lines = lines[len(lines)-4:]
	}
	return strings.Join(lines, " | ")
}

// Kill sends SIGKILL (also to a stopped process) and waits until the process is gone.
func (c *Net) Kill(id int) {
	n := c.node(id)
	n.mu.Lock()
	if n.cmd == nil || !n.up {
		n.mu.Unlock()
		return
	}
	cmd, exited := n.cmd, n.exited
	n.up = false
	n.paused = false
	n.mu.Unlock()
	syscall.Kill(-cmd.Process.Pid, syscall.SIGKILL)
	cmd.Process.Kill()
	select {
	case <-exited:
	case <-time.After(20 * time.Second):
	}
}

// Pause freezes the node (SIGSTOP) until Resume or Kill.
func (c *Net) Pause(id int) {
	n := c.node(id)
	n.mu.Lock()
	defer n.mu.Unlock()
	if !n.up || n.paused {
		return
	}
	n.paused = true
	syscall.Kill(n.cmd.Process.Pid, syscall.SIGSTOP)
}

// Resume lets a paused node run again (SIGCONT).
func (c *Net) Resume(id int) {
	n := c.node(id)
	n.mu.Lock()
	defer n.mu.Unlock()
	if !n.up || !n.paused {
		return
	}
	n.paused = false
	syscall.Kill(n.cmd.Process.Pid, syscall.SIGCONT)
}

func (c *Net) Shutdown() {
	for _, n := range c.nodes {
		c.Kill(n.id)
	}
}

// ---------------------------------------------------------------- HTTP helpers

func (c *Net) private(method string, id int, path string, body io.Reader, hdr map[string]string, timeout time.Duration) (int, string, http.Header, error) {
	ctx, cancel := context.WithTimeout(context.Background(), timeout)
	defer cancel()
	req, err := http.NewRequestWithContext(ctx, method, "https://"+c.node(id).addr+path, body)
	if err != nil {
		return 0, "", nil, err
	}
	req.SetBasicAuth("robustirc", networkPassword)
	for k, v := range hdr {
		req.Header.Set(k, v)
	}
	resp, err := c.client.Do(req)
	if err != nil {
		return 0, "", nil, err
	}
	defer resp.Body.Close()
	b, _ := io.ReadAll(io.LimitReader(resp.Body, 4<<20))
	return resp.StatusCode, string(b), resp.Header, nil
}

var (
	stateRe = regexp.MustCompile(`(?s)<th>State</th>\s*<td>\s*(\w+)\s*</td>`)
	termRe  = regexp.MustCompile(`(?s)<th>term</th>\s*<td>\s*(\d+)\s*</td>`)
)

// raftState reads the raft state and the current term of node id from its /status page.
func (c *Net) raftState(id int, timeout time.Duration) (state string, term int64, err error) {
	code, body, _, err := c.private("GET", id, "/status", nil, nil, timeout)
	if err != nil {
		return "", 0, err
	}
	if code != 200 {
		return "", 0, fmt.Errorf("HTTP %d", code)
	}
	m := stateRe.FindStringSubmatch(body)
	t := termRe.FindStringSubmatch(body)
	if m == nil || t == nil {
		return "", 0, fmt.Errorf("/status has no State/term")
	}
	term, _ = strconv.ParseInt(t[1], 10, 64)
	return m[1], term, nil
}

func (c *Net) leaderView(id int) int {
	code, body, _, err := c.private("GET", id, "/leader", nil, nil, 1500*time.Millisecond)
	if err != nil || code != 200 {
		return 0
	}
	body = strings.TrimSpace(body)
	for _, n := range c.nodes {
		if n.addr == body {
			return n.id
		}
	}
	return 0
}

// Leader returns a live node that considers itself the leader (0: none).
func (c *Net) Leader() int {
	for _, n := range c.nodes {
		if n.live() && c.leaderView(n.id) == n.id {
			return n.id
		}
	}
	return 0
}

func (c *Net) WaitLeader(deadline time.Duration, not int) (int, error) {
	end := time.Now().Add(deadline)
	for time.Now().Before(end) {
		if l := c.Leader(); l != 0 && l != not {
			return l, nil
		}
		time.Sleep(100 * time.Millisecond)
	}
	return 0, inconclusive("no leader within %v", deadline)
}

func (c *Net) WaitServing(id int, deadline time.Duration) error {
	end := time.Now().Add(deadline)
	for time.Now().Before(end) {
		if !c.node(id).isUp() {
			return inconclusive("node %d exited while starting: %s", id, c.lastWords(id))
		}
		if c.leaderView(id) != 0 {
			return nil
		}
		time.Sleep(100 * time.Millisecond)
	}
	return inconclusive("node %d did not come up within %v", id, deadline)
}

// peers returns the number of servers in the configuration as node id reports it.
func (c *Net) peers(id int) int {
	code, body, _, err := c.private("GET", id, "/status", nil, map[string]string{"Accept": "application/json"}, 2*time.Second)
	if err != nil || code != 200 {
		return 0
	}
	i := strings.Index(body, `"Peers":[`)
	if i < 0 {
		return 0
	}
	rest := body[i+len(`"Peers":[`):]
	j := strings.Index(rest, "]")
	if j < 0 {
		return 0
	}
	if strings.TrimSpace(rest[:j]) == "" {
		return 0
	}
	return strings.Count(rest[:j], ",") + 1
}
