package main

import (
	"fmt"
	"math/rand"
	"strings"
	"sync"
	"time"
)

const (
	sweepInterval = 10 * time.Second // expireSessionsInterval of robustirc.go (the specification's Interval)
	servicesPw    = "verifspw"
	channel       = "#verif"
)

// liveWait is how long the orchestrator waits for a session that must expire, counted from
// the moment it is idle for longer than the expiration (or a new leader is in office):
// three sweep intervals plus slack. ExpiryTrace.tla judges with a smaller bound.
const liveWait = 3*sweepInterval + 20*time.Second

func configTOML(exp time.Duration) string {
	return fmt.Sprintf("SessionExpiration = %q\nPostMessageCooloff = \"0s\"\n\n[IRC]\n[[IRC.Services]]\nPassword = %q\n", exp.String(), servicesPw)
}

func (sc *Scenario) setConfig(exp time.Duration) error {
	snd, ack, rev, err := sc.c.SetConfig(configTOML(exp))
	if err != nil {
		return err
	}
	sc.configs = append(sc.configs, cfgCall{rev, snd, ack})
	sc.c.rec.Raw("config", "exp", exp.String(), "rev", rev)
	return nil
}

func (sc *Scenario) session(name, nick string, at int, join bool) (*Sess, error) {
	s, err := sc.c.CreateSession(name, nick, at)
	if err != nil {
		return nil, err
	}
	sc.sessions = append(sc.sessions, s)
	s.StartReader()
	ch := ""
	if join {
		ch = channel
	}
	if err := s.Register(ch); err != nil {
		return nil, err
	}
	return s, nil
}

// pinger posts a line every `period` (measured from the previous send) until stop is
// closed or the session is gone. pingOnly: only PING lines (they refresh LastActivity but
// not LastNonPing); otherwise PING and PRIVMSG alternate.
func pinger(s *Sess, period time.Duration, pingOnly bool, stop <-chan struct{}, wg *sync.WaitGroup) {
	wg.Add(1)
	go func() {
		defer wg.Done()
		for k := 1; ; k++ {
			start := time.Now()
			line := fmt.Sprintf("PING :k%d", k)
			if !pingOnly && k%3 == 0 {
				line = fmt.Sprintf("PRIVMSG %s :hello %d from %s", channel, k, s.name)
			}
			p := s.Post(line, 0, 20*time.Second)
			if p.status == 404 {
				return
			}
			select {
			case <-stop:
				return
			case <-time.After(time.Until(start.Add(period))):
			}
		}
	}()
}

// edgePinger keeps the session alive with a PING every second until a time for its LAST line
// arrives on `target`; the last PING is sent at that time (channel closed: stop at once).
func edgePinger(s *Sess, target <-chan time.Time, wg *sync.WaitGroup) {
	wg.Add(1)
	go func() {
		defer wg.Done()
		var last time.Time
		known, final := false, false
		for k := 1; ; k++ {
			if p := s.Post(fmt.Sprintf("PING :e%d", k), 0, 20*time.Second); p.status == 404 || final {
				return
			}
			next := time.Now().Add(time.Second)
			for time.Now().Before(next) {
				if !known {
					select {
					case t, ok := <-target:
						if !ok || t.IsZero() {
							return
						}
						last, known = t, true
					default:
					}
				}
				if known && time.Until(last) <= 1300*time.Millisecond {
					// no further line in between: the last one is due soon
					time.Sleep(time.Until(last))
					final = true
					break
				}
				time.Sleep(50 * time.Millisecond)
			}
		}
	}()
}

// waitQuit waits until `watcher`'s stream shows the QUIT of nick; returns the line.
func waitQuit(watcher *Sess, nick string, deadline time.Duration) *Line {
	lc := strings.ToLower(nick)
	return watcher.WaitLine(func(l *Line) bool {
		p := parseIRC(l.data)
		return p.cmd == "QUIT" && strings.ToLower(p.prefix) == lc
	}, deadline)
}

// afterExpiry observes what is left of an expired session: the API's answers to its old
// secret, the channel's member list, and whether its nickname can be taken.
func (sc *Scenario) afterExpiry(gone *Sess, witness *Sess, tag string) error {
	// the node that delivered the QUIT / ERROR has applied the deletion
	n := witness.home
	for try := 0; try < 3; try++ {
		if gone.ProbeGet(gone.home) != 0 {
			break
		}
		time.Sleep(200 * time.Millisecond)
	}
	if n != gone.home {
		gone.ProbeGet(n)
	}
	gone.Post("PING :after-the-end", gone.home, 5*time.Second)
	witness.Post("NAMES "+channel, 0, 20*time.Second)
	chk, err := sc.c.CreateSession("retake-"+tag, gone.nick, 0)
	if err != nil {
		return err
	}
	sc.sessions = append(sc.sessions, chk)
	chk.StartReader()
	if err := chk.Register(channel); err != nil {
		return err
	}
	// 001 (welcome) or 433 (nickname in use)
	l := chk.WaitLine(func(l *Line) bool { c := parseIRC(l.data).cmd; return c == "001" || c == "433" }, 20*time.Second)
	if l == nil {
		sc.unmet = append(sc.unmet, "no answer to the NICK of the session that retakes "+gone.nick)
	}
	// the retaking session ends by itself (DELETE), so that it does not become another idle session
	chk.Delete("verif-bye " + tag)
	return nil
}

// waitExpiry waits for the sweep to delete `victim` - seen as its QUIT on witness' stream or
// as the ERROR line on its own - for at most liveWait after it became idle for longer than exp.
func (sc *Scenario) waitExpiry(victim, witness *Sess, idleSince time.Time, exp time.Duration, tag string) (bool, time.Duration) {
	due := idleSince.Add(exp)
	end := due.Add(liveWait)
	for {
		l := waitQuit(witness, victim.nick, 0)
		if l == nil {
			l = victim.WaitLine(func(l *Line) bool { return parseIRC(l.data).cmd == "ERROR" }, 0)
		}
		if l != nil {
			late := time.Since(due)
			sc.c.rec.Raw("expired", "name", victim.name, "after_due_ms", late.Milliseconds(), "line", l.data)
			return true, late
		}
		if time.Now().After(end) {
			sc.note("%s: session %s (idx %d) was not deleted within %v after it had been idle for %v", tag, victim.name, victim.idx, liveWait, exp)
			return false, 0
		}
		time.Sleep(100 * time.Millisecond)
	}
}

// ---------------------------------------------------------------- (a) (b) (e) on one node or three

// runMix: a silent session, an active one, one that is idle for a little less than the
// expiration between its lines, and a services link with a pseudo-client.
func (sc *Scenario) runMix(rng *rand.Rand, exp time.Duration) error {
	c := sc.c
	if err := sc.setConfig(exp); err != nil {
		return err
	}
	at := func() int { return 1 + rng.Intn(len(c.nodes)) }
	act, err := sc.session("active", "act"+fmt.Sprint(rng.Intn(90)+10), at(), true)
	if err != nil {
		return err
	}
	near, err := sc.session("near", "near"+fmt.Sprint(rng.Intn(90)+10), at(), true)
	if err != nil {
		return err
	}
	// services link + pseudo-client
	lnk, err := c.CreateSession("link", "services.verif", at())
	if err != nil {
		return err
	}
	sc.sessions = append(sc.sessions, lnk)
	lnk.StartReader()
	for _, l := range []string{"PASS :services=" + servicesPw, "SERVER services.verif 1 :verif services",
		"NICK NickServ 1 1422134861 services localhost.net services.verif 0 :Nick Server", ":NickServ JOIN " + channel} {
		if p := lnk.Post(l, 0, 30*time.Second); p.status != 200 {
			return inconclusive("services link: %q not acknowledged", l)
		}
	}
	var wg sync.WaitGroup
	stopAll := make(chan struct{})
	stopLnk := make(chan struct{})
	pinger(act, time.Second+time.Duration(rng.Intn(200))*time.Millisecond, false, stopAll, &wg)
	pinger(near, exp-time.Second-time.Duration(rng.Intn(200))*time.Millisecond, true, stopAll, &wg)
	pinger(lnk, time.Second, true, stopLnk, &wg)
	defer func() {
		select {
		case <-stopAll:
		default:
			close(stopAll)
		}
		select {
		case <-stopLnk:
		default:
			close(stopLnk)
		}
		wg.Wait()
	}()

	// two sessions whose last line is timed against the SECOND sweep (its time is known once the
	// first one has been seen): one idle for 0.7 x expiration then (must stay), one idle for the
	// expiration + 1.2 s (must go with that very sweep)
	under, err := sc.session("under", "und"+fmt.Sprint(rng.Intn(90)+10), at(), true)
	if err != nil {
		return err
	}
	over, err := sc.session("over", "ovr"+fmt.Sprint(rng.Intn(90)+10), at(), true)
	if err != nil {
		return err
	}
	underT, overT := make(chan time.Time, 1), make(chan time.Time, 1)
	edgePinger(under, underT, &wg)
	edgePinger(over, overT, &wg)

	sil, err := sc.session("silent", "sil"+fmt.Sprint(rng.Intn(90)+10), at(), true)
	if err != nil {
		return err
	}
	idleSince := time.Now()
	ok, _ := sc.waitExpiry(sil, act, idleSince, exp, "mix")
	first := time.Now()
	if ok && exp+1200*time.Millisecond < sweepInterval-2*time.Second {
		tick2 := first.Add(sweepInterval)
		underT <- tick2.Add(-exp * 7 / 10)
		overT <- tick2.Add(-exp - 1200*time.Millisecond)
		sc.c.rec.Raw("edges", "tick2", sc.c.rec.Ms(tick2), "under_last", sc.c.rec.Ms(tick2.Add(-exp*7/10)), "over_last", sc.c.rec.Ms(tick2.Add(-exp-1200*time.Millisecond)))
	} else {
		close(underT)
		close(overT)
	}
	if ok {
		// the silent session's own stream: ERROR, then the server ends the poll
		sil.WaitLine(func(l *Line) bool { return parseIRC(l.data).cmd == "ERROR" }, 10*time.Second)
		time.Sleep(300 * time.Millisecond)
		if err := sc.afterExpiry(sil, act, "mix"); err != nil {
			return err
		}
	}
	// the link falls silent: the sweep deletes it (it is a session with Reply = 0); its
	// pseudo-client goes with it, by the link's QUIT, never by an entry of its own
	close(stopLnk)
	linkIdle := time.Now()
	if ok {
		if l := waitQuit(act, "NickServ", time.Until(linkIdle.Add(exp).Add(liveWait))); l == nil {
			sc.note("mix: the services link was not deleted within %v", liveWait)
		} else {
			sc.c.rec.Raw("linkexpired", "line", l.data)
		}
		// several sweeps with the active and the nearly idle session still there
		if rest := time.Until(first.Add(2*sweepInterval + 2*time.Second)); rest > 0 {
			time.Sleep(rest)
		}
	}
	close(stopAll)
	wg.Wait()
	// the sessions that kept talking are still served
	for _, s := range []*Sess{act, near} {
		if !s.isGone() {
			s.ProbeGet(s.home)
		}
	}
	return nil
}

// ---------------------------------------------------------------- (c) the expiration changes

func (sc *Scenario) runConfig(rng *rand.Rand, exp time.Duration) error {
	if err := sc.setConfig(exp); err != nil {
		return err
	}
	var wg sync.WaitGroup
	stopAll := make(chan struct{})
	defer func() {
		select {
		case <-stopAll:
		default:
			close(stopAll)
		}
		wg.Wait()
	}()
	act, err := sc.session("active", "cact"+fmt.Sprint(rng.Intn(90)+10), 1, true)
	if err != nil {
		return err
	}
	pinger(act, time.Second, false, stopAll, &wg)
	x, err := sc.session("raised", "cx"+fmt.Sprint(rng.Intn(90)+10), 1, true)
	if err != nil {
		return err
	}
	idleSince := time.Now()
	// raised before any sweep can find x idle for longer than the old expiration
	high := 90 * time.Second
	if err := sc.setConfig(high); err != nil {
		return err
	}
	if time.Since(idleSince) > exp-500*time.Millisecond {
		sc.unmet = append(sc.unmet, "the expiration could not be raised before the old one had passed")
	}
	// at least one sweep runs while x is idle for longer than the OLD expiration
	time.Sleep(exp + sweepInterval + 1500*time.Millisecond - time.Since(idleSince))
	if x.isGone() || waitQuit(act, x.nick, 0) != nil {
		sc.note("config: session %s was deleted although the expiration had been raised to %v", x.name, high)
	} else {
		x.ProbeGet(1)
	}
	// lowered: x (idle for a long time by now) goes at the next sweep, under the new value
	low := exp - time.Second
	if low < 2*time.Second {
		low = 2 * time.Second
	}
	if err := sc.setConfig(low); err != nil {
		return err
	}
	lowered := time.Now()
	if ok, _ := sc.waitExpiry(x, act, lowered.Add(-low), low, "config"); ok {
		x.WaitLine(func(l *Line) bool { return parseIRC(l.data).cmd == "ERROR" }, 10*time.Second)
		time.Sleep(300 * time.Millisecond)
		x.ProbeGet(1)
	}
	close(stopAll)
	wg.Wait()
	if !act.isGone() {
		act.ProbeGet(1)
	}
	return nil
}

// ---------------------------------------------------------------- (d) three nodes, the leader goes away

func (sc *Scenario) runFailover(rng *rand.Rand, exp time.Duration, how string, sp *Sampler) error {
	c := sc.c
	if err := sc.setConfig(exp); err != nil {
		return err
	}
	leader, err := c.WaitLeader(20*time.Second, 0)
	if err != nil {
		return err
	}
	followers := []int{}
	for _, n := range c.nodes {
		if n.id != leader {
			followers = append(followers, n.id)
		}
	}
	var wg sync.WaitGroup
	stopAll := make(chan struct{})
	defer func() {
		select {
		case <-stopAll:
		default:
			close(stopAll)
		}
		wg.Wait()
	}()
	// long polls on the followers: they survive the leader
	act, err := sc.session("active", "fact"+fmt.Sprint(rng.Intn(90)+10), followers[0], true)
	if err != nil {
		return err
	}
	pinger(act, time.Second, false, stopAll, &wg)
	sil1, err := sc.session("silent1", "fsa"+fmt.Sprint(rng.Intn(90)+10), followers[1], true)
	if err != nil {
		return err
	}
	idle1 := time.Now()
	ok, _ := sc.waitExpiry(sil1, act, idle1, exp, "failover-1")
	if ok {
		sil1.WaitLine(func(l *Line) bool { return parseIRC(l.data).cmd == "ERROR" }, 10*time.Second)
		time.Sleep(200 * time.Millisecond)
		sil1.ProbeGet(sil1.home)
	} else {
		return nil // the trace shows the session alive at the end; nothing more to learn
	}
	// a second silent session, then the leader goes away
	sil2, err := sc.session("silent2", "fsb"+fmt.Sprint(rng.Intn(90)+10), followers[rng.Intn(2)], true)
	if err != nil {
		return err
	}
	if l := c.Leader(); l != 0 && l != leader {
		sc.note("failover: the leader changed by itself from node %d to node %d", leader, l)
		leader = l
	}
	f := newEv("fault")
	f.K, f.N, f.T = how, int64(leader), c.rec.Now()
	if how == "kill" {
		c.Kill(leader)
	} else {
		c.Pause(leader)
	}
	sc.faults = append(sc.faults, f)
	c.rec.Raw("fault", "how", how, "n", leader)
	nl, err := c.WaitLeader(60*time.Second, leader)
	if err != nil {
		return err
	}
	inOffice := time.Now()
	e := newEv("newleader")
	e.N, e.T = int64(nl), c.rec.Now()
	sc.extra = append(sc.extra, e)
	c.rec.Raw("newleader", "n", nl)
	// counted from the new leader taking office (its own timer decides when it sweeps)
	if ok, _ := sc.waitExpiry(sil2, act, inOffice.Add(-exp), exp, "failover-2"); ok {
		sil2.WaitLine(func(l *Line) bool { return parseIRC(l.data).cmd == "ERROR" }, 10*time.Second)
		time.Sleep(200 * time.Millisecond)
		sil2.ProbeGet(sil2.home)
	} else if act.isGone() {
		// the active session lost its lines during the election and expired itself: then nobody
		// is left to see silent2's QUIT; its own stream tells
		if sil2.WaitLine(func(l *Line) bool { return parseIRC(l.data).cmd == "ERROR" }, 0) == nil {
			sc.note("failover: neither the active session nor silent2 saw the expiry")
		}
	}
	close(stopAll)
	wg.Wait()
	sc.foldProbe(nl)
	return nil
}

// foldProbe asks a follower for a snapshot (GET /snapshot, as an administrator can) and records
// which index its FSM.Snapshot kept as the first one (hook fsm.snapshot): the entries older than
// "session expiration in force + sweep interval" are folded into the state. The follower's
// stores lose those entries; the log is read from another node afterwards.
func (sc *Scenario) foldProbe(leader int) {
	c := sc.c
	f := 0
	for _, n := range c.nodes {
		if n.id != leader && n.live() {
			f = n.id
		}
	}
	if f == 0 {
		return
	}
	before := len(c.snapshots(f))
	snd := c.rec.Now()
	if code, _, _, err := c.private("GET", f, "/snapshot", nil, nil, 20*time.Second); err != nil || code != 200 {
		sc.note("fold probe: GET /snapshot on node %d: %v HTTP %d", f, err, code)
		return
	}
	end := time.Now().Add(15 * time.Second)
	for time.Now().Before(end) {
		if snaps := c.snapshots(f); len(snaps) > before {
			e := newEv("snapshot")
			e.N, e.T, e.T2 = int64(f), snd, c.rec.Now()
			e.I, e.S = int64(snaps[len(snaps)-1][0]), int64(snaps[len(snaps)-1][1])
			sc.extra = append(sc.extra, e)
			c.rec.Raw("snapshot", "n", f, "first", e.I, "last", e.S)
			return
		}
		time.Sleep(100 * time.Millisecond)
	}
	sc.note("fold probe: node %d recorded no fsm.snapshot within 15 s", f)
}

// ---------------------------------------------------------------- (f) the leader's server object was replaced at run time

// highExp is the expiration in force while the restore and the change of leader are arranged:
// larger than every leaderless phase of those, so that the session that keeps talking is not
// deleted for a reason that has nothing to do with the restore.
const highExp = 30 * time.Second

// runRestoredLeader: a follower F installs a snapshot at RUN TIME (raft InstallSnapshot ->
// FSM.Restore, which builds a new IRCServer and publishes it; F's process and its timer loop
// go on), then F becomes the leader of a quorum, then the expiration is lowered by a Config
// entry. From then on F's sweeps must see the server the restore published: the session that
// keeps talking stays, the one that stopped talking goes, a session created after the restore
// goes, under the expiration set after the restore.
//
//	F is held back with SIGSTOP while the other two commit entries; the leader takes a snapshot
//	(GET /snapshot; with TrailingLogs = 1 its raft log is cut right behind the snapshot); F is
//	resumed: what it lacks is no longer in the leader's raft log. Its own hook trace shows
//	fsm.restored.
//	F is made the leader without an election it could lose: the third node O is stopped, one more
//	entry is committed by {L, F}, L is killed, O is resumed. O lacks an entry F has: O can vote,
//	but never win.
//
// Whatever cannot be arranged is reported as inconclusive, never judged.
//
// exLeader: F is the node that was the leader from the start and whose timer loop has already run
// as the leader's (at least one tick) before it is stopped; the other two elect a new leader while
// it is away. So F's loop has used the server object of process start before the restore replaces
// it. Otherwise F is one of the initial followers: its loop never got past the leader test before.
func (sc *Scenario) runRestoredLeader(rng *rand.Rand, exp time.Duration, long, exLeader bool) error {
	c := sc.c
	if err := sc.setConfig(highExp); err != nil {
		return err
	}
	leader, err := c.WaitLeader(20*time.Second, 0)
	if err != nil {
		return err
	}
	var fol []int
	for _, n := range c.nodes {
		if n.id != leader {
			fol = append(fol, n.id)
		}
	}
	if rng.Intn(2) == 1 {
		fol[0], fol[1] = fol[1], fol[0]
	}
	F, other := fol[0], fol[1]
	if exLeader {
		F, other, leader = leader, fol[0], fol[1]
	}
	var wg sync.WaitGroup
	stopAll, stopOld := make(chan struct{}), make(chan struct{})
	closeOnce := func(ch chan struct{}) {
		select {
		case <-ch:
		default:
			close(ch)
		}
	}
	defer func() {
		closeOnce(stopAll)
		closeOnce(stopOld)
		wg.Wait()
	}()
	// two sessions from before the restore, both talking; their long polls are not on F
	act, err := sc.session("active", "ract"+fmt.Sprint(rng.Intn(90)+10), other, true)
	if err != nil {
		return err
	}
	pinger(act, time.Second, false, stopAll, &wg)
	old, err := sc.session("old", "rold"+fmt.Sprint(rng.Intn(90)+10), leader, true)
	if err != nil {
		return err
	}
	pinger(old, time.Second, true, stopOld, &wg)
	if !c.waitApplied(F, uint64(old.idx)+3, 15*time.Second) {
		return inconclusive("node %d did not apply the first sessions", F)
	}
	restoresBefore := len(c.restores(F))
	if exLeader {
		// F's timer has fired at least once while F was the leader
		if d := time.Until(c.node(F).started.Add(sweepInterval + 1500*time.Millisecond)); d > 0 {
			time.Sleep(d)
		}
		if l := c.Leader(); l != F {
			return inconclusive("node %d did not stay the leader until its first sweep was due (leader: %d)", F, l)
		}
	}

	// ---- F falls behind, the leader cuts its raft log, F comes back
	c.Pause(F)
	f := newEv("fault")
	f.K, f.N, f.T = "stop", int64(F), c.rec.Now()
	sc.faults = append(sc.faults, f)
	c.rec.Raw("fault", "how", "stop", "n", F)
	time.Sleep(1500*time.Millisecond + time.Duration(rng.Intn(500))*time.Millisecond)
	l, err := c.WaitLeader(30*time.Second, F)
	if err != nil {
		return inconclusive("no leader among the two running nodes")
	}
	if exLeader {
		// entries under the new leader: acknowledged posts of the two sessions
		t0 := c.rec.Now()
		for end := time.Now().Add(20 * time.Second); ; time.Sleep(100 * time.Millisecond) {
			if act.ackedSince(t0)+old.ackedSince(t0) >= 3 {
				break
			}
			if time.Now().After(end) {
				return inconclusive("no entries were committed under the new leader %d", l)
			}
		}
	}
	// BOTH running nodes take a snapshot: when F comes back it disturbs the leader (its term is
	// higher), and whichever of the two leads afterwards must have cut its raft log
	for _, n := range c.nodes {
		if n.id == F {
			continue
		}
		snapsBefore := len(c.snapshots(n.id))
		if code, _, _, err := c.private("GET", n.id, "/snapshot", nil, nil, 20*time.Second); err != nil || code != 200 {
			return inconclusive("GET /snapshot on node %d: %v HTTP %d", n.id, err, code)
		}
		for end := time.Now().Add(15 * time.Second); len(c.snapshots(n.id)) == snapsBefore; time.Sleep(50 * time.Millisecond) {
			if time.Now().After(end) {
				return inconclusive("node %d recorded no fsm.snapshot within 15 s", n.id)
			}
		}
		c.rec.Raw("snapshot", "n", n.id)
	}
	// raft cuts the log after the snapshot is stored; further entries, so that F is more than
	// TrailingLogs behind
	time.Sleep(1200*time.Millisecond + time.Duration(rng.Intn(400))*time.Millisecond)
	pre := c.appliedIndex(F)
	resumed := c.rec.Now()
	c.Resume(F)
	c.rec.Raw("resume", "n", F, "applied", pre)
	for end := time.Now().Add(45 * time.Second); len(c.restores(F)) == restoresBefore; time.Sleep(50 * time.Millisecond) {
		if time.Now().After(end) {
			return inconclusive("the run-time restore could not be established: node %d, stopped at index %d behind the compacting snapshots of the other two, recorded no fsm.restored within 45 s of being resumed (%d ms ago; leader then: %d)", F, pre, c.rec.Now()-resumed, l)
		}
	}
	seen := c.rec.Now()
	rs := c.restores(F)
	r := rs[len(rs)-1]
	// (r.pre can be beyond `pre`: what F had stored but not applied when it was stopped is applied first)
	re := newEv("restore")
	re.N, re.T, re.T2, re.I, re.S = int64(F), resumed, seen, int64(r.pre), int64(r.last)
	if b, e := c.restoreLogTimes(F); len(b) > 0 && len(e) > 0 && b[len(b)-1] >= resumed-1000 && e[len(e)-1] <= seen+1000 && b[len(b)-1] <= e[len(e)-1] {
		// the node's own log dates the restore more closely
		re.T, re.T2 = b[len(b)-1], e[len(e)-1]
	}
	sc.extra = append(sc.extra, re)
	sc.restoredNode = F
	c.rec.Raw("restored", "n", F, "pre", r.pre, "first", r.first, "last", r.last, "t", re.T, "t2", re.T2)
	if r.last <= r.pre {
		sc.unmet = append(sc.unmet, fmt.Sprintf("the snapshot node %d installed (up to %d) is not ahead of what it had applied (%d)", F, r.last, r.pre))
	}

	// ---- a session created after the restore; it says nothing after its JOIN
	if _, err := c.WaitLeader(30*time.Second, F); err != nil {
		return err
	}
	home := other
	if l2 := c.Leader(); l2 != 0 && l2 != F {
		home = l2
	}
	fresh, err := sc.session("fresh", "rnew"+fmt.Sprint(rng.Intn(90)+10), home, true)
	if err != nil {
		return err
	}
	if !c.waitApplied(F, uint64(fresh.idx)+3, 20*time.Second) {
		return inconclusive("node %d did not catch up after its restore", F)
	}

	// ---- F becomes the leader
	L := c.Leader()
	if L == 0 || L == F {
		// (F can have won an election of its own by now: then the others are behind in nothing)
		if L, err = c.WaitLeader(10*time.Second, F); err != nil {
			return inconclusive("node %d became the leader before the third node could be held back", F)
		}
	}
	O := 6 - F - L
	c.Pause(O)
	c.rec.Raw("fault", "how", "stop", "n", O)
	paused := c.rec.Now()
	// an entry O lacks: acknowledged after O was stopped, so committed by L and F
	acked := func() bool { return act.ackedSince(paused+50)+old.ackedSince(paused+50) > 0 }
	for end := time.Now().Add(20 * time.Second); ; time.Sleep(100 * time.Millisecond) {
		if c.rec.Now() > paused+1200 && acked() {
			break
		}
		if time.Now().After(end) {
			return inconclusive("no entry was committed by nodes %d and %d while node %d was stopped", L, F, O)
		}
	}
	// "old" falls silent here (the expiration in force is still the high one): by the restored
	// leader's first sweep under the lowered expiration it has been idle for long enough
	closeOnce(stopOld)
	if l3 := c.Leader(); l3 != L {
		// the leader changed meanwhile: then it is F (O is stopped) - nothing left to arrange
		c.rec.Raw("note", "text", fmt.Sprintf("leader is %d, not %d, before the kill", l3, L))
	}
	f2 := newEv("fault")
	f2.K, f2.N, f2.T = "kill", int64(L), c.rec.Now()
	c.Kill(L)
	sc.faults = append(sc.faults, f2)
	c.rec.Raw("fault", "how", "kill", "n", L)
	c.Resume(O)
	c.rec.Raw("resume", "n", O)
	nl, err := c.WaitLeader(60*time.Second, L)
	if err != nil {
		return err
	}
	if nl != F {
		return inconclusive("node %d, not the restored node %d, became the leader", nl, F)
	}
	// with a quorum: a line of the talking session is acknowledged under the new leader
	took := c.rec.Now()
	for end := time.Now().Add(30 * time.Second); act.ackedSince(took) == 0; time.Sleep(50 * time.Millisecond) {
		if act.isGone() {
			sc.note("restored-leader: the active session was gone when node %d took office", F)
			return nil
		}
		if time.Now().After(end) {
			return inconclusive("no entry was acknowledged after node %d took office", F)
		}
	}
	inOffice := time.Now()
	e := newEv("newleader")
	e.N, e.T = int64(nl), c.rec.Now()
	sc.extra = append(sc.extra, e)
	c.rec.Raw("newleader", "n", nl)

	// ---- the Config entry after the restore
	if err := sc.setConfig(exp); err != nil {
		return err
	}
	lowered := time.Now()
	c.rec.Raw("lowered", "ms_after_taking_office", time.Since(inOffice).Milliseconds())
	var late *Sess
	if long {
		// created under the restored leader, silent from the start
		if late, err = sc.session("late", "rlate"+fmt.Sprint(rng.Intn(90)+10), F, true); err != nil {
			return err
		}
	}
	okF, _ := sc.waitExpiry(fresh, act, lowered.Add(-exp), exp, "restored-fresh")
	okO, _ := sc.waitExpiry(old, act, lowered.Add(-exp), exp, "restored-old")
	if okF {
		fresh.WaitLine(func(l *Line) bool { return parseIRC(l.data).cmd == "ERROR" }, 10*time.Second)
		time.Sleep(200 * time.Millisecond)
		if !act.isGone() {
			if err := sc.afterExpiry(fresh, act, "restored"); err != nil {
				return err
			}
		} else {
			fresh.ProbeGet(fresh.home)
		}
	}
	if okO {
		old.ProbeGet(old.home)
	}
	if late != nil && okF && okO {
		if ok, _ := sc.waitExpiry(late, act, time.Now().Add(-exp), exp, "restored-late"); ok {
			late.ProbeGet(late.home)
		}
	}
	closeOnce(stopAll)
	wg.Wait()
	if !act.isGone() {
		act.ProbeGet(act.home)
	}
	return nil
}

// ---------------------------------------------------------------- a services link that ends silently

// runLinkGone (not part of the tiers; run by hand): a services link without pseudo-clients is
// deleted; its QUIT produces no output, so its long poll stays open; the next line for "the
// services" (a client JOIN) is addressed to the stale id in serverSessions.
func (sc *Scenario) runLinkGone(rng *rand.Rand, exp time.Duration) error {
	c := sc.c
	if err := sc.setConfig(90 * time.Second); err != nil {
		return err
	}
	act, err := sc.session("active", "lact"+fmt.Sprint(rng.Intn(90)+10), 1, true)
	if err != nil {
		return err
	}
	lnk, err := c.CreateSession("link", "services.verif", 1)
	if err != nil {
		return err
	}
	sc.sessions = append(sc.sessions, lnk)
	lnk.StartReader()
	for _, l := range []string{"PASS :services=" + servicesPw, "SERVER services.verif 1 :verif services"} {
		if p := lnk.Post(l, 0, 30*time.Second); p.status != 200 {
			return inconclusive("services link: %q not acknowledged", l)
		}
	}
	time.Sleep(500 * time.Millisecond)
	lnk.Delete("verif-bye link")
	time.Sleep(500 * time.Millisecond)
	act.Post("JOIN #other", 0, 20*time.Second)
	time.Sleep(1500 * time.Millisecond)
	return nil
}
