package main

import (
	"encoding/json"
	"fmt"
	"os"
	"sync"
	"time"
)

// Ev is one record of the trace that ExpiryTrace.tla validates. Every record has every
// field (TLC reads them as records); unused numeric fields are 0 or -1, strings "".
// All times are wall-clock milliseconds since the start of the scenario: the timestamps
// of the raft entries (robust.Message.UnixNano, taken by the proposing node) and the
// client-side times of the orchestrator come from the same clock on the same machine.
type Ev struct {
	Ev    string   `json:"ev"`    // entry | line | probe | pollend (sequential part) / fol | lead | sweeplog | applyfail | fault | newleader | end | scenario (aux part)
	K     string   `json:"k"`     // entry: create|line|delete|config|other; line: class (ERROR, QUIT, 353, 433, 001, ...); fault: stop|kill
	I     int64    `json:"i"`     // entry: raft index; line: index of the causing entry; probe/pollend: highest index this node is known to have applied
	S     int64    `json:"s"`     // session, named by the raft index of its CreateSession entry
	R     int64    `json:"r"`     // 1: Session.Reply != 0 (services pseudo-client)
	Ts    int64    `json:"ts"`    // entry: its timestamp
	Snd   int64    `json:"snd"`   // entry: when the orchestrator sent the request that became this entry (-1 unknown)
	Ack   int64    `json:"ack"`   // entry: when the orchestrator got the acknowledgement (-1 unknown / none)
	Cmd   string   `json:"cmd"`   // entry of kind line: IRC command
	Arg   string   `json:"arg"`   // first parameter in lower case (nickname, channel); line: nickname concerned
	Names []string `json:"names"` // line 353: the nicknames listed
	Exp   int64    `json:"exp"`   // config entry: SessionExpiration in ms
	Sweep int64    `json:"sweep"` // delete entry: 1 = not requested by the orchestrator (so: proposed by a sweep)
	Named int64    `json:"named"` // delete entry: the timeout named in "Ping timeout (...)" in ms, -1 when the text is different
	By    int64    `json:"by"`    // entry: node whose applyMessageWait proposed it (hook api.applied), 0 unknown
	N     int64    `json:"n"`     // node
	St    int64    `json:"st"`    // HTTP status
	T     int64    `json:"t"`     // client-side time
	T2    int64    `json:"t2"`    // end of an interval
	Pt    int64    `json:"pt"`    // line: 1 when the text contains "Ping timeout"
	Q     int64    `json:"q"`     // position in the sequential part
	Text  string   `json:"text"`  // human-readable remainder (never interpreted by the specification)
}

func newEv(kind string) Ev {
	return Ev{Ev: kind, Snd: -1, Ack: -1, Named: -1, Names: []string{}}
}

// Rec is the orchestrator's clock and raw event log (orch.ndjson, for people).
type Rec struct {
	mu  sync.Mutex
	f   *os.File
	t0  time.Time
	seq int64
}

func NewRec(path string) (*Rec, error) {
	f, err := os.OpenFile(path, os.O_CREATE|os.O_WRONLY|os.O_TRUNC, 0644)
	if err != nil {
		return nil, err
	}
	return &Rec{f: f, t0: time.Now()}, nil
}

// Ms converts a wall-clock reading into trace time.
func (r *Rec) Ms(t time.Time) int64 {
	return (t.UnixNano() - r.t0.UnixNano()) / int64(time.Millisecond)
}

func (r *Rec) MsNano(unixNano int64) int64 {
	return (unixNano - r.t0.UnixNano()) / int64(time.Millisecond)
}

func (r *Rec) Now() int64 { return r.Ms(time.Now()) }

// ClockStepped reports whether wall clock and monotonic clock disagree about how long
// the scenario took (then the recorded times cannot be compared with the entries').
func (r *Rec) ClockStepped() (bool, time.Duration) {
	now := time.Now()
	mono := now.Sub(r.t0)
	wall := time.Duration(now.UnixNano() - r.t0.UnixNano())
	d := mono - wall
	if d < 0 {
		d = -d
	}
	return d > 50*time.Millisecond, d
}

func (r *Rec) Raw(ev string, kv ...interface{}) {
	rec := map[string]interface{}{"ev": ev}
	for i := 0; i+1 < len(kv); i += 2 {
		rec[fmt.Sprint(kv[i])] = kv[i+1]
	}
	r.mu.Lock()
	defer r.mu.Unlock()
	r.seq++
	rec["seq"] = r.seq
	rec["t"] = r.Ms(time.Now())
	b, err := json.Marshal(rec)
	if err != nil {
		b = []byte(fmt.Sprintf(`{"ev":"error","error":%q}`, err.Error()))
	}
	r.f.Write(append(b, '\n'))
}

func (r *Rec) Close() {
	r.mu.Lock()
	defer r.mu.Unlock()
	r.f.Close()
}

func writeEvs(path string, evs []Ev) error {
	f, err := os.Create(path)
	if err != nil {
		return err
	}
	defer f.Close()
	for _, e := range evs {
		if e.Names == nil {
			e.Names = []string{}
		}
		b, err := json.Marshal(e)
		if err != nil {
			return err
		}
		f.Write(append(b, '\n'))
	}
	return nil
}
