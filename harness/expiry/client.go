package main

import (
	"bytes"
	"context"
	"encoding/json"
	"fmt"
	"io"
	"net/http"
	"strconv"
	"strings"
	"sync"
	"time"
)

const messageOffset = 4648398125000000000 // default of -robustirc_message_offset

// Sess is one RobustIRC session driven through the real HTTP API like a bridge does.
type Sess struct {
	c     *Net
	name  string // role in the scenario
	nick  string
	sidS  string
	sid   uint64
	idx   int64 // raft index of the CreateSession entry (= sid - offset)
	auth  string
	home  int // node the long poll is connected to
	snd   int64
	ack   int64
	cmid  uint64
	posts []*Post

	mu      sync.Mutex
	lines   []*Line
	ends    []*PollEnd
	probes  []*Probe
	seen    map[int]int64 // node -> highest causing index delivered by that node
	cancel  context.CancelFunc
	stopped bool
	gone    bool // a request for this session was answered 404
	wg      sync.WaitGroup
	lastId  uint64
	lastRep uint64
}

type Post struct {
	cmid   uint64
	data   string
	snd    int64
	ack    int64 // -1: never acknowledged
	status int   // final HTTP status (200, 404, 0 = gave up)
	node   int
}

type Line struct {
	idx   int64
	reply int64
	data  string
	t     int64
	node  int
}

type PollEnd struct {
	t      int64
	node   int
	after  int64
	server bool // the server ended the poll (EOF on a 200 response)
}

type Probe struct {
	t      int64
	node   int
	after  int64
	status int
	what   string
}

// target picks a live node for a request (pref if it is live).
func (c *Net) target(pref int, rot *int) int {
	if pref >= 1 && pref <= len(c.nodes) && c.node(pref).live() {
		return pref
	}
	for i := 0; i < len(c.nodes); i++ {
		*rot++
		id := (*rot)%len(c.nodes) + 1
		if c.node(id).live() {
			return id
		}
	}
	return 1
}

// CreateSession: POST /session (not idempotent; only called while the network is calm).
func (c *Net) CreateSession(name, nick string, at int) (*Sess, error) {
	var lastErr error
	rot := 0
	for try := 0; try < 60; try++ {
		n := c.target(at, &rot)
		snd := c.rec.Now()
		ctx, cancel := context.WithTimeout(context.Background(), 8*time.Second)
		req, _ := http.NewRequestWithContext(ctx, "POST", "https://"+c.node(n).addr+"/robustirc/v1/session", nil)
		resp, err := c.client.Do(req)
		if err == nil {
			var reply struct {
				Sessionid   string
				Sessionauth string
			}
			b, _ := io.ReadAll(resp.Body)
			resp.Body.Close()
			if resp.StatusCode == 200 && json.Unmarshal(b, &reply) == nil && reply.Sessionid != "" {
				cancel()
				num, perr := strconv.ParseUint(reply.Sessionid, 0, 64)
				if perr != nil || num <= messageOffset {
					return nil, inconclusive("unparsable session id %q", reply.Sessionid)
				}
				s := &Sess{c: c, name: name, nick: nick, sidS: reply.Sessionid, sid: num, idx: int64(num - messageOffset),
					auth: reply.Sessionauth, home: n, snd: snd, ack: c.rec.Now(), seen: map[int]int64{}}
				c.rec.Raw("session", "name", name, "nick", nick, "idx", s.idx, "n", n)
				return s, nil
			}
			lastErr = fmt.Errorf("HTTP %d: %s", resp.StatusCode, strings.TrimSpace(string(b)))
		} else {
			lastErr = err
		}
		cancel()
		time.Sleep(250 * time.Millisecond)
	}
	return nil, inconclusive("cannot create session %s: %v", name, lastErr)
}

// Post sends one line with the next ClientMessageId and retries it (same id, live nodes
// in turn) until it is answered with 200 or 404, or for at most `patience`.
func (s *Sess) Post(data string, pref int, patience time.Duration) *Post {
	s.cmid++
	p := &Post{cmid: s.cmid, data: data, snd: s.c.rec.Now(), ack: -1}
	s.mu.Lock()
	s.posts = append(s.posts, p)
	s.mu.Unlock()
	body, _ := json.Marshal(struct {
		Data            string
		ClientMessageId uint64
	}{data, p.cmid})
	end := time.Now().Add(patience)
	rot := int(p.cmid)
	for attempt := 0; time.Now().Before(end); attempt++ {
		n := s.c.target(pref, &rot)
		if attempt > 0 {
			pref = 0
		}
		ctx, cancel := context.WithTimeout(context.Background(), 6*time.Second)
		req, _ := http.NewRequestWithContext(ctx, "POST", "https://"+s.c.node(n).addr+"/robustirc/v1/"+s.sidS+"/message", bytes.NewReader(body))
		req.Header.Set("X-Session-Auth", s.auth)
		req.Header.Set("Content-Type", "application/json")
		resp, err := s.c.client.Do(req)
		if err == nil {
			b, _ := io.ReadAll(io.LimitReader(resp.Body, 4096))
			resp.Body.Close()
			cancel()
			if resp.StatusCode == 200 {
				s.mu.Lock()
				p.ack = s.c.rec.Now()
				p.status = 200
				p.node = n
				s.mu.Unlock()
				return p
			}
			if resp.StatusCode == 404 {
				p.status = 404
				p.node = n
				s.mu.Lock()
				s.gone = true
				s.probes = append(s.probes, &Probe{t: s.c.rec.Now(), node: n, after: s.seen[n], status: 404, what: "post"})
				s.mu.Unlock()
				s.c.rec.Raw("post404", "name", s.name, "data", data, "n", n, "body", strings.TrimSpace(string(b)))
				return p
			}
			s.c.rec.Raw("postfail", "name", s.name, "n", n, "status", resp.StatusCode, "body", strings.TrimSpace(string(b)))
		} else {
			cancel()
			s.c.rec.Raw("postfail", "name", s.name, "n", n, "err", err.Error())
		}
		time.Sleep(80 * time.Millisecond)
	}
	return p
}

// ackedSince counts the lines of the session that were sent after t and have been acknowledged.
func (s *Sess) ackedSince(t int64) int {
	s.mu.Lock()
	defer s.mu.Unlock()
	n := 0
	for k := len(s.posts) - 1; k >= 0 && s.posts[k].snd > t; k-- {
		if s.posts[k].ack >= 0 {
			n++
		}
	}
	return n
}

// Register: NICK, USER and (optionally) JOIN.
func (s *Sess) Register(channel string) error {
	lines := []string{"NICK " + s.nick, fmt.Sprintf("USER %s 0 * :%s", s.nick, s.name)}
	if channel != "" {
		lines = append(lines, "JOIN "+channel)
	}
	for _, l := range lines {
		if p := s.Post(l, 0, 30*time.Second); p.status == 404 {
			// recorded as an answer about this session (probe "post"); ExpiryTrace.tla judges it
			return &Observed{fmt.Sprintf("session %s: %q answered 404 by node %d", s.name, l, p.node)}
		} else if p.status != 200 {
			return inconclusive("session %s: %q not acknowledged (status %d)", s.name, l, p.status)
		}
	}
	return nil
}

// ---------------------------------------------------------------- long poll

type outMsg struct {
	Id struct {
		Id    uint64
		Reply uint64
	}
	Type int
	Data string
}

// StartReader keeps a long poll for the session open on node `home`, resuming with
// lastseen when it ends, as a bridge does; a 404 ends it for good.
func (s *Sess) StartReader() {
	s.wg.Add(1)
	go func() {
		defer s.wg.Done()
		for {
			s.mu.Lock()
			stop := s.stopped
			s.mu.Unlock()
			if stop {
				return
			}
			n := s.home
			if !s.c.node(n).live() {
				rot := int(s.idx)
				n = s.c.target(0, &rot)
				s.home = n
			}
			if s.readOnce(n) {
				return
			}
			time.Sleep(150 * time.Millisecond)
		}
	}()
}

func (s *Sess) Stop() {
	s.mu.Lock()
	s.stopped = true
	if s.cancel != nil {
		s.cancel()
	}
	s.mu.Unlock()
	s.wg.Wait()
}

// readOnce returns true when the reader is finished for good (404).
func (s *Sess) readOnce(n int) bool {
	s.mu.Lock()
	lastId, lastRep := s.lastId, s.lastRep
	ctx, cancel := context.WithCancel(context.Background())
	s.cancel = cancel
	after := s.seen[n]
	s.mu.Unlock()
	defer cancel()
	url := fmt.Sprintf("https://%s/robustirc/v1/%s/messages?lastseen=%d.%d", s.c.node(n).addr, s.sidS, lastId, lastRep)
	req, _ := http.NewRequestWithContext(ctx, "GET", url, nil)
	req.Header.Set("X-Session-Auth", s.auth)
	resp, err := s.c.stream.Do(req)
	if err != nil {
		return false
	}
	defer resp.Body.Close()
	if resp.StatusCode != 200 {
		b, _ := io.ReadAll(io.LimitReader(resp.Body, 4096))
		s.c.rec.Raw("pollstatus", "name", s.name, "n", n, "status", resp.StatusCode, "body", strings.TrimSpace(string(b)))
		s.mu.Lock()
		s.probes = append(s.probes, &Probe{t: s.c.rec.Now(), node: n, after: after, status: resp.StatusCode, what: "poll"})
		if resp.StatusCode == 404 {
			s.gone = true
		}
		s.mu.Unlock()
		return resp.StatusCode == 404
	}
	dec := json.NewDecoder(resp.Body)
	for {
		var m outMsg
		if err := dec.Decode(&m); err != nil {
			s.mu.Lock()
			stopped := s.stopped
			s.ends = append(s.ends, &PollEnd{t: s.c.rec.Now(), node: n, after: s.seen[n], server: !stopped && ctx.Err() == nil})
			s.mu.Unlock()
			s.c.rec.Raw("pollend", "name", s.name, "n", n, "err", err.Error())
			return false
		}
		if m.Type != 3 { // robust.IRCToClient; pings are ignored
			continue
		}
		l := &Line{idx: int64(m.Id.Id - messageOffset), reply: int64(m.Id.Reply), data: m.Data, t: s.c.rec.Now(), node: n}
		s.mu.Lock()
		s.lines = append(s.lines, l)
		s.lastId, s.lastRep = m.Id.Id, m.Id.Reply
		if l.idx > s.seen[n] {
			s.seen[n] = l.idx
		}
		s.mu.Unlock()
	}
}

// WaitLine waits until a delivered line satisfies pred (lines are scanned from `from`).
func (s *Sess) WaitLine(pred func(*Line) bool, deadline time.Duration) *Line {
	end := time.Now().Add(deadline)
	from := 0
	for {
		s.mu.Lock()
		for ; from < len(s.lines); from++ {
			if pred(s.lines[from]) {
				l := s.lines[from]
				s.mu.Unlock()
				return l
			}
		}
		s.mu.Unlock()
		if time.Now().After(end) {
			return nil
		}
		time.Sleep(50 * time.Millisecond)
	}
}

func (s *Sess) isGone() bool {
	s.mu.Lock()
	defer s.mu.Unlock()
	return s.gone
}

// ProbeGet sends one GET .../messages for the session to node n and records the status
// (a 200 poll is closed again at once).
func (s *Sess) ProbeGet(n int) int {
	s.mu.Lock()
	after := s.seen[n]
	s.mu.Unlock()
	ctx, cancel := context.WithTimeout(context.Background(), 5*time.Second)
	defer cancel()
	url := fmt.Sprintf("https://%s/robustirc/v1/%s/messages?lastseen=0.0", s.c.node(n).addr, s.sidS)
	req, _ := http.NewRequestWithContext(ctx, "GET", url, nil)
	req.Header.Set("X-Session-Auth", s.auth)
	resp, err := s.c.stream.Do(req)
	if err != nil {
		return 0
	}
	resp.Body.Close()
	s.mu.Lock()
	s.probes = append(s.probes, &Probe{t: s.c.rec.Now(), node: n, after: after, status: resp.StatusCode, what: "get"})
	s.mu.Unlock()
	s.c.rec.Raw("probe", "name", s.name, "n", n, "status", resp.StatusCode)
	return resp.StatusCode
}

// Delete: DELETE /robustirc/v1/<sid> with a quit message that names the orchestrator.
func (s *Sess) Delete(msg string) int {
	body, _ := json.Marshal(struct{ Quitmessage string }{msg})
	rot := 0
	for try := 0; try < 20; try++ {
		n := s.c.target(0, &rot)
		ctx, cancel := context.WithTimeout(context.Background(), 6*time.Second)
		req, _ := http.NewRequestWithContext(ctx, "DELETE", "https://"+s.c.node(n).addr+"/robustirc/v1/"+s.sidS, bytes.NewReader(body))
		req.Header.Set("X-Session-Auth", s.auth)
		req.Header.Set("Content-Type", "application/json")
		resp, err := s.c.client.Do(req)
		if err == nil {
			io.Copy(io.Discard, io.LimitReader(resp.Body, 4096))
			resp.Body.Close()
			cancel()
			if resp.StatusCode == 200 || resp.StatusCode == 404 {
				return resp.StatusCode
			}
		} else {
			cancel()
		}
		time.Sleep(150 * time.Millisecond)
	}
	return 0
}

// ---------------------------------------------------------------- config

// SetConfig replaces the network configuration through POST /config (any node; followers
// proxy to the leader) and returns when it was sent and acknowledged.
func (c *Net) SetConfig(toml string) (snd, ack int64, rev int, err error) {
	var lastErr error
	rot := 0
	for try := 0; try < 40; try++ {
		n := c.target(0, &rot)
		code, _, hdr, e := c.private("GET", n, "/config", nil, nil, 5*time.Second)
		if e != nil || code != 200 {
			lastErr = fmt.Errorf("GET /config: %v HTTP %d", e, code)
			time.Sleep(200 * time.Millisecond)
			continue
		}
		revS := hdr.Get("X-RobustIRC-Config-Revision")
		snd = c.rec.Now()
		code, body, _, e := c.private("POST", n, "/config", strings.NewReader(toml), map[string]string{"X-RobustIRC-Config-Revision": revS}, 12*time.Second)
		if e == nil && code == 200 {
			r, _ := strconv.Atoi(revS)
			return snd, c.rec.Now(), r + 1, nil
		}
		lastErr = fmt.Errorf("POST /config: %v HTTP %d %s", e, code, strings.TrimSpace(body))
		time.Sleep(200 * time.Millisecond)
	}
	return 0, 0, 0, inconclusive("cannot set the configuration: %v", lastErr)
}
