// verif-expiry runs one scenario of the session-expiry stage of C17 against real
// robustirc binaries (one node or three nodes on loopback): sessions are driven through
// the real HTTP API, the expiration is set through the real POST /config, the sweep is the
// timer loop of the real main(). It records what happened - the replicated log as the
// nodes stored it (timestamps, sessions, quit texts), who proposed which entry (hook
// api.applied), what the long polls delivered, the answers of the API, the raft states of
// the nodes over time, and the lines the nodes' sweeps logged - and judges nothing:
// /verif/checks/c17_expiry.py validates the record against spec/ExpiryTrace.tla.
//
// Built inside the tree under test as an overlay package (cmd/zz_verif_expiry), so that the
// irclog is read with the tree's own store and message code.
package main

import (
	"encoding/json"
	"flag"
	"fmt"
	"math/rand"
	"os"
	"os/signal"
	"path/filepath"
	"syscall"
	"time"
)

type Result struct {
	Status          string                 `json:"status"` // ok | inconclusive
	Why             string                 `json:"why,omitempty"`
	Scenario        string                 `json:"scenario"`
	Nodes           int                    `json:"nodes"`
	ExpMs           int64                  `json:"exp_ms"`
	Notes           []string               `json:"notes,omitempty"`
	Unmet           []string               `json:"unmet,omitempty"`
	UnexpectedExits []string               `json:"unexpected_exits,omitempty"`
	WallS           float64                `json:"wall_s"`
	StartupS        float64                `json:"startup_s"`
	Ports           []int                  `json:"ports"`
	Info            map[string]interface{} `json:"info,omitempty"`
	Sessions        map[string]int64       `json:"sessions,omitempty"`
	RestoredNode    int                    `json:"restored_node,omitempty"`
}

func main() {
	bin := flag.String("bin", "", "robustirc binary built with -tags verif")
	work := flag.String("work", "", "scratch directory (raftdirs, certificates, node logs)")
	out := flag.String("out", "", "directory for trace.ndjson, aux.ndjson, result.json")
	scen := flag.String("scenario", "mix1", "mix1 | mix3 | config1 | failover-stop | failover-kill | restored-leader | restored-leader-long | restored-exleader | restored-exleader-long")
	seed := flag.Int64("seed", 1, "seed")
	expMs := flag.Int("exp", 4000, "SessionExpiration in ms")
	deadline := flag.Int("deadline", 240, "overall deadline in seconds")
	portBase := flag.Int("portbase", 0, "first TCP port (0: ports the kernel hands out)")
	flag.Parse()
	if *bin == "" || *work == "" || *out == "" {
		flag.Usage()
		os.Exit(2)
	}
	start := time.Now()
	res := Result{Status: "ok", Scenario: *scen, ExpMs: int64(*expMs)}
	writeResult := func() {
		res.WallS = time.Since(start).Seconds()
		b, _ := json.MarshalIndent(res, "", " ")
		os.WriteFile(filepath.Join(*out, "result.json"), b, 0644)
	}
	fail := func(err error) {
		res.Status = "inconclusive"
		res.Why = err.Error()
	}
	nodes, trailing := 1, -1
	switch *scen {
	case "mix3", "failover-stop", "failover-kill":
		nodes = 3
	case "restored-leader", "restored-leader-long", "restored-exleader", "restored-exleader-long":
		nodes = 3
		trailing = 1
	case "mix1", "config1", "linkgone1":
	default:
		fmt.Fprintln(os.Stderr, "unknown scenario", *scen)
		os.Exit(2)
	}
	res.Nodes = nodes
	os.MkdirAll(*work, 0755)
	os.MkdirAll(*out, 0755)
	rec, err := NewRec(filepath.Join(*out, "orch.ndjson"))
	if err != nil {
		fmt.Fprintln(os.Stderr, err)
		os.Exit(2)
	}
	c, err := NewNet(*bin, *work, *out, rec, nodes, *portBase)
	if err != nil {
		fmt.Fprintln(os.Stderr, err)
		os.Exit(2)
	}
	c.trailingLogs = trailing
	for _, n := range c.nodes {
		res.Ports = append(res.Ports, n.port)
	}
	sc := &Scenario{c: c, name: *scen}
	rng := rand.New(rand.NewSource(*seed))
	exp := time.Duration(*expMs) * time.Millisecond

	finished := make(chan struct{})
	sig := make(chan os.Signal, 1)
	signal.Notify(sig, syscall.SIGINT, syscall.SIGTERM)
	go func() {
		select {
		case <-sig:
			fail(inconclusive("interrupted"))
		case <-time.After(time.Duration(*deadline) * time.Second):
			fail(inconclusive("orchestrator deadline of %ds exceeded", *deadline))
		case <-finished:
			return
		}
		c.Shutdown()
		writeResult()
		os.Exit(3)
	}()

	var sp *Sampler
	func() {
		defer func() {
			if p := recover(); p != nil {
				fail(inconclusive("orchestrator panic: %v", p))
			}
		}()
		// bring the network up
		for id := 1; id <= nodes; id++ {
			if err := c.Start(id); err != nil {
				fail(err)
				return
			}
			if err := c.WaitServing(id, 60*time.Second); err != nil {
				fail(err)
				return
			}
			if id == 1 {
				if _, err := c.WaitLeader(30*time.Second, 0); err != nil {
					fail(err)
					return
				}
			}
		}
		if nodes > 1 {
			end := time.Now().Add(30 * time.Second)
			for {
				l := c.Leader()
				if l != 0 && c.peers(l) == nodes {
					break
				}
				if time.Now().After(end) {
					fail(inconclusive("the network did not reach %d members", nodes))
					return
				}
				time.Sleep(200 * time.Millisecond)
			}
		}
		res.StartupS = time.Since(start).Seconds()
		sp = c.StartSampler()
		var err error
		switch *scen {
		case "mix1", "mix3":
			err = sc.runMix(rng, exp)
		case "config1":
			err = sc.runConfig(rng, exp)
		case "linkgone1":
			err = sc.runLinkGone(rng, exp)
		case "failover-stop":
			err = sc.runFailover(rng, exp, "stop", sp)
		case "failover-kill":
			err = sc.runFailover(rng, exp, "kill", sp)
		case "restored-leader":
			err = sc.runRestoredLeader(rng, exp, false, false)
		case "restored-leader-long":
			err = sc.runRestoredLeader(rng, exp, true, false)
		case "restored-exleader":
			err = sc.runRestoredLeader(rng, exp, false, true)
		case "restored-exleader-long":
			err = sc.runRestoredLeader(rng, exp, true, true)
		}
		if o, ok := err.(*Observed); ok {
			sc.note("scenario ended early: %s", o.why)
		} else if err != nil {
			fail(err)
		}
	}()
	endEv := newEv("end")
	endEv.T = rec.Now()
	sc.extra = append(sc.extra, endEv)
	if sp != nil {
		sp.Stop()
	}
	for _, s := range sc.sessions {
		s.Stop()
	}
	c.unexpectedMu.Lock()
	res.UnexpectedExits = append(res.UnexpectedExits, c.unexpectedExits...)
	c.unexpectedMu.Unlock()
	c.Shutdown()
	close(finished)
	if stepped, d := rec.ClockStepped(); stepped && res.Status == "ok" {
		fail(inconclusive("wall clock and monotonic clock disagree by %v: recorded times are not comparable", d))
	}
	if sp != nil {
		func() {
			defer func() {
				if p := recover(); p != nil {
					fail(inconclusive("assembling the trace: %v", p))
				}
			}()
			seq, aux, info, err := sc.Assemble(sp)
			res.Info = info
			if err != nil {
				if res.Status == "ok" {
					fail(err)
				}
				return
			}
			meta := newEv("scenario")
			meta.K = *scen
			meta.N = int64(nodes)
			meta.Exp = int64(*expMs)
			aux = append([]Ev{meta}, aux...)
			if err := writeEvs(filepath.Join(*out, "trace.ndjson"), seq); err != nil {
				fail(inconclusive("%v", err))
			}
			if err := writeEvs(filepath.Join(*out, "aux.ndjson"), aux); err != nil {
				fail(inconclusive("%v", err))
			}
		}()
	}
	res.Sessions = map[string]int64{}
	for _, s := range sc.sessions {
		res.Sessions[s.name] = s.idx
	}
	res.Notes = sc.notes
	res.Unmet = sc.unmet
	res.RestoredNode = sc.restoredNode
	if len(res.UnexpectedExits) > 0 && res.Status == "ok" {
		fail(inconclusive("a node exited on its own: %v", res.UnexpectedExits))
	} else if len(res.UnexpectedExits) > 0 {
		res.Why += fmt.Sprintf(" (a node exited on its own: %.600v)", res.UnexpectedExits)
	}
	rec.Close()
	// the raft directories are large; the node logs and the hook traces stay for the report
	for _, n := range c.nodes {
		os.RemoveAll(n.dir)
	}
	writeResult()
	if res.Status != "ok" {
		fmt.Fprintln(os.Stderr, "INCONCLUSIVE:", res.Why)
		os.Exit(3)
	}
}
