package main

import (
	"bufio"
	"encoding/json"
	"fmt"
	"os"
	"path/filepath"
	"regexp"
	"sort"
	"strconv"
	"strings"
	"sync"
	"time"

	"github.com/BurntSushi/toml"
	"github.com/hashicorp/raft"
	"github.com/robustirc/robustirc/internal/config"
	"github.com/robustirc/robustirc/internal/raftstore"
	"github.com/robustirc/robustirc/internal/robust"
)

// ---------------------------------------------------------------- raft state sampler

type sample struct {
	n     int
	a, b  int64 // request sent / answer received
	state string
	term  int64
}

type Sampler struct {
	c    *Net
	mu   sync.Mutex
	s    []sample
	stop chan struct{}
	wg   sync.WaitGroup
}

// StartSampler reads State and term of every live node about five times a second.
func (c *Net) StartSampler() *Sampler {
	sp := &Sampler{c: c, stop: make(chan struct{})}
	for _, n := range c.nodes {
		sp.wg.Add(1)
		go func(id int) {
			defer sp.wg.Done()
			for {
				select {
				case <-sp.stop:
					return
				default:
				}
				if c.node(id).live() {
					a := c.rec.Now()
					st, term, err := c.raftState(id, 1500*time.Millisecond)
					b := c.rec.Now()
					if err == nil {
						sp.mu.Lock()
						sp.s = append(sp.s, sample{id, a, b, st, term})
						sp.mu.Unlock()
					}
				}
				time.Sleep(200 * time.Millisecond)
			}
		}(n.id)
	}
	return sp
}

func (sp *Sampler) Stop() {
	close(sp.stop)
	sp.wg.Wait()
}

// LeaderNow returns the node whose most recent sample (not older than 1.5 s) says Leader.
func (sp *Sampler) LeaderNow() int {
	now := sp.c.rec.Now()
	sp.mu.Lock()
	defer sp.mu.Unlock()
	last := map[int]sample{}
	for _, s := range sp.s {
		last[s.n] = s
	}
	for n, s := range last {
		if s.state == "Leader" && now-s.b < 1500 && sp.c.node(n).live() {
			return n
		}
	}
	return 0
}

// intervals turns the samples into statements "node n was in state X (term t) throughout
// [T, T2]": consecutive samples with the same state and the same term (a node cannot
// leave and re-enter a state without a new term) and no pause of more than 3 s between
// them, from the end of the first request to the start of the last one.
func (sp *Sampler) intervals() []Ev {
	sp.mu.Lock()
	defer sp.mu.Unlock()
	var res []Ev
	byNode := map[int][]sample{}
	for _, s := range sp.s {
		byNode[s.n] = append(byNode[s.n], s)
	}
	for n, ss := range byNode {
		sort.Slice(ss, func(i, j int) bool { return ss[i].a < ss[j].a })
		for i := 0; i < len(ss); {
			j := i
			// ... and answered without a pause of more than 3 s (so an interval also says that
			// the node was responsive all the time)
			for j+1 < len(ss) && ss[j+1].state == ss[i].state && ss[j+1].term == ss[i].term && ss[j+1].a-ss[j].b <= 3000 {
				j++
			}
			kind := ""
			switch ss[i].state {
			case "Leader":
				kind = "lead"
			case "Follower":
				kind = "fol"
			}
			if kind != "" && j > i && ss[j].a > ss[i].b {
				e := newEv(kind)
				e.N = int64(n)
				e.T = ss[i].b
				e.T2 = ss[j].a
				e.I = ss[i].term
				res = append(res, e)
			}
			i = j + 1
		}
	}
	sort.Slice(res, func(i, j int) bool { return res[i].T < res[j].T })
	return res
}

// ---------------------------------------------------------------- what the nodes recorded

type entry struct {
	idx   uint64
	typ   robust.Type
	sess  robust.Id
	nano  int64
	data  string
	cmid  uint64
	rev   uint64
	rtype raft.LogType
}

// dumpIrclog reads the irclog of a stopped node with the tree's own store code.
func dumpIrclog(dir string) ([]entry, error) {
	store, err := raftstore.NewLevelDBStore(filepath.Join(dir, "irclog"), false, true)
	if err != nil {
		return nil, err
	}
	defer store.Close()
	first, err := store.FirstIndex()
	if err != nil {
		return nil, err
	}
	last, err := store.LastIndex()
	if err != nil {
		return nil, err
	}
	var res []entry
	if first == 0 {
		return res, nil
	}
	for i := first; i <= last; i++ {
		var l raft.Log
		if err := store.GetLog(i, &l); err != nil {
			continue // raft-internal entries are not in the irclog
		}
		if l.Type != raft.LogCommand {
			continue
		}
		m := robust.NewMessageFromBytes(l.Data, robust.IdFromRaftIndex(l.Index))
		res = append(res, entry{idx: l.Index, typ: m.Type, sess: m.Session, nano: m.UnixNano, data: m.Data, cmid: m.ClientMessageId, rev: m.Revision})
	}
	return res, nil
}

// proposers reads the hook traces: api.applied on node n for index i means that n's
// applyMessageWait proposed entry i (and saw it committed and applied).
func (c *Net) proposers() map[uint64]int {
	res := map[uint64]int{}
	for _, n := range c.nodes {
		f, err := os.Open(c.tracePath(n.id))
		if err != nil {
			continue
		}
		sc := bufio.NewScanner(f)
		sc.Buffer(make([]byte, 1<<20), 1<<20)
		for sc.Scan() {
			var rec struct {
				Point string `json:"point"`
				Index uint64 `json:"index"`
			}
			if json.Unmarshal(sc.Bytes(), &rec) == nil && rec.Point == "api.applied" {
				res[rec.Index] = n.id
			}
		}
		f.Close()
	}
	return res
}

// snapshots returns the (first, last) pairs of the fsm.snapshot hook records of node id.
func (c *Net) snapshots(id int) [][2]uint64 {
	var res [][2]uint64
	f, err := os.Open(c.tracePath(id))
	if err != nil {
		return nil
	}
	defer f.Close()
	sc := bufio.NewScanner(f)
	sc.Buffer(make([]byte, 1<<20), 1<<20)
	for sc.Scan() {
		var rec struct {
			Point string `json:"point"`
			First uint64 `json:"first"`
			Last  uint64 `json:"last"`
		}
		if json.Unmarshal(sc.Bytes(), &rec) == nil && rec.Point == "fsm.snapshot" {
			res = append(res, [2]uint64{rec.First, rec.Last})
		}
	}
	return res
}

// hookRec is one record of a node's hook trace (/repo/verif_trace.go), as far as this stage reads it.
type hookRec struct {
	Point    string `json:"point"`
	Index    uint64 `json:"index"`
	First    uint64 `json:"first"`
	Last     uint64 `json:"last"`
	Included uint64 `json:"included"`
}

func (c *Net) hookRecs(id int) []hookRec {
	f, err := os.Open(c.tracePath(id))
	if err != nil {
		return nil
	}
	defer f.Close()
	var res []hookRec
	sc := bufio.NewScanner(f)
	sc.Buffer(make([]byte, 1<<20), 1<<20)
	for sc.Scan() {
		var rec hookRec
		if json.Unmarshal(sc.Bytes(), &rec) == nil {
			res = append(res, rec)
		}
	}
	return res
}

// appliedIndex is the raft index of the last entry node id's FSM.Apply has finished (hook
// fsm.apply; the entries FSM.Restore replays are not reported by that hook).
func (c *Net) appliedIndex(id int) uint64 {
	var last uint64
	for _, r := range c.hookRecs(id) {
		if r.Point == "fsm.apply" && r.Index > last {
			last = r.Index
		}
	}
	return last
}

// restoreRec describes one FSM.Restore of a node, from the node's own hook trace: the last index
// its FSM.Apply had finished before, and first/last of the irclog the restore left.
type restoreRec struct {
	pre, first, last uint64
}

func (c *Net) restores(id int) []restoreRec {
	var res []restoreRec
	var pre uint64
	for _, r := range c.hookRecs(id) {
		switch r.Point {
		case "fsm.apply":
			if r.Index > pre {
				pre = r.Index
			}
		case "fsm.restored":
			res = append(res, restoreRec{pre: pre, first: r.First, last: r.Last})
		}
	}
	return res
}

func (c *Net) waitApplied(id int, idx uint64, deadline time.Duration) bool {
	end := time.Now().Add(deadline)
	for {
		if c.appliedIndex(id) >= idx {
			return true
		}
		if time.Now().After(end) {
			return false
		}
		time.Sleep(100 * time.Millisecond)
	}
}

var restoreLogRe = regexp.MustCompile(`^[IWEF](\d{4}) (\d\d:\d\d:\d\d\.\d{6}).*\] (Restoring snapshot|Restored snapshot in)`)

// restoreLogTimes reads from node id's own log when its restores began and ended ("Restoring
// snapshot" / "Restored snapshot in ..." of FSM.Restore), in trace time.
func (c *Net) restoreLogTimes(id int) (begin, end []int64) {
	f, err := os.Open(c.stderrPath(id))
	if err != nil {
		return nil, nil
	}
	defer f.Close()
	sc := bufio.NewScanner(f)
	sc.Buffer(make([]byte, 1<<20), 1<<20)
	for sc.Scan() {
		if m := restoreLogRe.FindStringSubmatch(sc.Text()); m != nil {
			if t, ok := glogTime(m[1], m[2]); ok {
				if m[3] == "Restoring snapshot" {
					begin = append(begin, c.rec.Ms(t))
				} else {
					end = append(end, c.rec.Ms(t))
				}
			}
		}
	}
	return begin, end
}

var (
	// glog header: Lmmdd hh:mm:ss.uuuuuu threadid file:line] msg
	sweepLogRe = regexp.MustCompile(`^[IWEF](\d{4}) (\d\d:\d\d:\d\d\.\d{6}).*Expiring session \{(\d+) (\d+)\}`)
	applyLogRe = regexp.MustCompile(`^[IWEF](\d{4}) (\d\d:\d\d:\d\d\.\d{6}).*\] Apply\(\): (.*)$`)
)

func glogTime(mmdd, hms string) (time.Time, bool) {
	now := time.Now()
	t, err := time.ParseInLocation("20060102 15:04:05.000000", fmt.Sprintf("%04d%s %s", now.Year(), mmdd, hms), time.Local)
	return t, err == nil
}

// nodeLogs extracts from the nodes' own logs what their timer loops did: one record per
// "Expiring session" line of ExpireSessions (the sweep found the session and is about to
// propose its deletion) and per failed proposal.
func (c *Net) nodeLogs() (evs []Ev, lines int) {
	for _, n := range c.nodes {
		f, err := os.Open(c.stderrPath(n.id))
		if err != nil {
			continue
		}
		sc := bufio.NewScanner(f)
		sc.Buffer(make([]byte, 1<<20), 1<<20)
		for sc.Scan() {
			lines++
			line := sc.Text()
			if m := sweepLogRe.FindStringSubmatch(line); m != nil {
				t, ok := glogTime(m[1], m[2])
				id, _ := strconv.ParseUint(m[3], 10, 64)
				rep, _ := strconv.ParseUint(m[4], 10, 64)
				if !ok || id <= messageOffset {
					continue
				}
				e := newEv("sweeplog")
				e.N = int64(n.id)
				e.T = c.rec.Ms(t)
				e.S = int64(id - messageOffset)
				if rep != 0 {
					e.R = 1
				}
				evs = append(evs, e)
			} else if m := applyLogRe.FindStringSubmatch(line); m != nil {
				t, ok := glogTime(m[1], m[2])
				if !ok {
					continue
				}
				e := newEv("applyfail")
				e.N = int64(n.id)
				e.T = c.rec.Ms(t)
				e.Text = m[3]
				evs = append(evs, e)
			}
		}
		f.Close()
	}
	return evs, lines
}

// ---------------------------------------------------------------- IRC lines

type ircLine struct {
	prefix string // nickname part
	cmd    string
	params []string
}

func parseIRC(s string) ircLine {
	var l ircLine
	s = strings.TrimRight(s, "\r\n")
	if strings.HasPrefix(s, ":") {
		sp := strings.IndexByte(s, ' ')
		if sp < 0 {
			return l
		}
		l.prefix = s[1:sp]
		if i := strings.IndexAny(l.prefix, "!@"); i >= 0 {
			l.prefix = l.prefix[:i]
		}
		s = strings.TrimLeft(s[sp+1:], " ")
	}
	for len(s) > 0 {
		if s[0] == ':' {
			l.params = append(l.params, s[1:])
			break
		}
		sp := strings.IndexByte(s, ' ')
		if sp < 0 {
			l.params = append(l.params, s)
			break
		}
		l.params = append(l.params, s[:sp])
		s = strings.TrimLeft(s[sp+1:], " ")
	}
	if len(l.params) > 0 {
		l.cmd = strings.ToUpper(l.params[0])
		l.params = l.params[1:]
	}
	return l
}

var namedRe = regexp.MustCompile(`^Ping timeout \(([^)]*)\)$`)

// ---------------------------------------------------------------- assembling the trace

type Scenario struct {
	c        *Net
	name     string
	sessions []*Sess
	configs  []cfgCall
	faults   []Ev
	extra    []Ev // newleader, end, ...
	notes    []string
	unmet    []string
	expect   []string
	// restoredNode: the node that installed a snapshot at run time (0: none in this scenario)
	restoredNode int
}

type cfgCall struct {
	rev      int
	snd, ack int64
}

func (sc *Scenario) note(format string, a ...interface{}) {
	sc.notes = append(sc.notes, fmt.Sprintf(format, a...))
	sc.c.rec.Raw("note", "text", fmt.Sprintf(format, a...))
}

// Assemble builds the two parts of the trace after every node has been stopped.
func (sc *Scenario) Assemble(sp *Sampler) (seq []Ev, aux []Ev, info map[string]interface{}, err error) {
	c := sc.c
	info = map[string]interface{}{}
	// the replicated log, as stored by the nodes. No single node need have all of it: FSM.Snapshot
	// folds old entries into the state and deletes them from the irclog, FSM.Restore starts a new
	// irclog, a node that was killed lacks the end. The log is the union; where two nodes store
	// the same index they must agree.
	var entries []entry
	best, bestLen := 0, -1
	logs := map[int][]entry{}
	byIdx := map[uint64]entry{}
	for _, n := range c.nodes {
		es, e := dumpIrclog(n.dir)
		if e != nil {
			sc.note("irclog of node %d unreadable: %v", n.id, e)
			continue
		}
		logs[n.id] = es
		if len(es) > bestLen {
			best, bestLen = n.id, len(es)
		}
	}
	if best == 0 {
		return nil, nil, info, inconclusive("no irclog could be read")
	}
	for _, n := range c.nodes {
		differs := false
		for _, e := range logs[n.id] {
			if o, ok := byIdx[e.idx]; !ok {
				byIdx[e.idx] = e
			} else if (o.typ != e.typ || o.nano != e.nano || o.sess != e.sess) && !differs {
				differs = true
				sc.note("irclog of node %d differs from an earlier node's at index %d", n.id, e.idx)
			}
		}
	}
	for _, e := range byIdx {
		entries = append(entries, e)
	}
	sort.Slice(entries, func(a, b int) bool { return entries[a].idx < entries[b].idx })
	if len(entries) > bestLen {
		info["irclog_union_of_nodes"] = true
	}
	info["entries"] = len(entries)
	info["irclog_of_node"] = best
	// every session the orchestrator created must be in the log with its CreateSession entry:
	// otherwise the log that could be read is incomplete (folded away everywhere) and no verdict
	// may be based on it
	for _, s := range sc.sessions {
		if e, ok := byIdx[uint64(s.idx)]; !ok || e.typ != robust.CreateSession {
			return nil, nil, info, inconclusive("the CreateSession entry %d of session %s is in no irclog that could be read", s.idx, s.name)
		}
	}
	by := c.proposers()

	bySid := map[int64]*Sess{}
	for _, s := range sc.sessions {
		bySid[s.idx] = s
	}
	sessOf := func(id robust.Id) (int64, int64) {
		if id.Id <= messageOffset {
			return 0, 0
		}
		r := int64(0)
		if id.Reply != 0 {
			r = 1
		}
		return int64(id.Id - messageOffset), r
	}
	for _, en := range entries {
		e := newEv("entry")
		e.I = int64(en.idx)
		e.Ts = c.rec.MsNano(en.nano)
		e.By = int64(by[en.idx])
		e.S, e.R = sessOf(en.sess)
		switch en.typ {
		case robust.CreateSession:
			e.K = "create"
			e.S = int64(en.idx)
			if s := bySid[e.S]; s != nil {
				e.Snd, e.Ack = s.snd, s.ack
				e.Text = s.name
			}
		case robust.IRCFromClient:
			e.K = "line"
			l := parseIRC(en.data)
			e.Cmd = l.cmd
			if l.prefix != "" {
				e.Cmd = "SVC" // a services line about one of its pseudo-clients
				e.Arg = strings.ToLower(l.prefix)
			} else if len(l.params) > 0 {
				e.Arg = strings.ToLower(l.params[0])
			}
			if l.prefix == "" && l.cmd == "NICK" && len(l.params) > 1 {
				e.Cmd = "SNICK" // a services link introduces a pseudo-client
			}
			if s := bySid[e.S]; s != nil && e.R == 0 {
				for _, p := range s.posts {
					if p.cmid == en.cmid {
						e.Snd, e.Ack = p.snd, p.ack
					}
				}
			}
			e.Text = en.data
		case robust.DeleteSession:
			e.K = "delete"
			e.Text = en.data
			if strings.HasPrefix(en.data, "verif-bye") {
				e.Sweep = 0
			} else {
				e.Sweep = 1
			}
			if m := namedRe.FindStringSubmatch(en.data); m != nil {
				if d, perr := time.ParseDuration(m[1]); perr == nil {
					e.Named = int64(d / time.Millisecond)
				}
			}
		case robust.Config:
			e.K = "config"
			var cfg config.Network
			if _, derr := toml.Decode(en.data, &cfg); derr == nil {
				e.Exp = int64(time.Duration(cfg.SessionExpiration) / time.Millisecond)
			} else {
				e.K = "other"
			}
			for _, cc := range sc.configs {
				if uint64(cc.rev) == en.rev {
					e.Snd, e.Ack = cc.snd, cc.ack
				}
			}
		default:
			e.K = "other"
		}
		seq = append(seq, e)
	}
	// what the sessions' long polls delivered, and the answers to their requests
	nlines := 0
	for _, s := range sc.sessions {
		s.mu.Lock()
		for _, l := range s.lines {
			nlines++
			e := newEv("line")
			e.S = s.idx
			e.I = l.idx
			e.R = l.reply
			e.T = l.t
			e.N = int64(l.node)
			p := parseIRC(l.data)
			e.K = p.cmd
			e.Text = l.data
			switch p.cmd {
			case "ERROR":
				e.Arg = ""
			case "QUIT", "NICK", "JOIN", "PART":
				e.Arg = strings.ToLower(p.prefix)
			case "353":
				if len(p.params) > 0 {
					for _, nm := range strings.Fields(p.params[len(p.params)-1]) {
						e.Names = append(e.Names, strings.ToLower(strings.TrimLeft(nm, "@+")))
					}
				}
			case "433", "401":
				if len(p.params) > 1 {
					e.Arg = strings.ToLower(p.params[1])
				}
			}
			if strings.Contains(l.data, "Ping timeout") {
				e.Pt = 1
			}
			seq = append(seq, e)
		}
		for _, pe := range s.ends {
			if !pe.server {
				continue
			}
			e := newEv("pollend")
			e.S, e.I, e.T, e.N = s.idx, pe.after, pe.t, int64(pe.node)
			seq = append(seq, e)
		}
		for _, pr := range s.probes {
			e := newEv("probe")
			e.S, e.I, e.T, e.N, e.St, e.K = s.idx, pr.after, pr.t, int64(pr.node), int64(pr.status), pr.what
			seq = append(seq, e)
		}
		s.mu.Unlock()
	}
	info["stream_lines"] = nlines
	// order: by raft index; an entry before what it caused; observations of one session in the order of their times
	rank := map[string]int{"entry": 0, "line": 1, "pollend": 2, "probe": 2}
	sort.SliceStable(seq, func(a, b int) bool {
		if seq[a].I != seq[b].I {
			return seq[a].I < seq[b].I
		}
		if rank[seq[a].Ev] != rank[seq[b].Ev] {
			return rank[seq[a].Ev] < rank[seq[b].Ev]
		}
		if seq[a].Ev == "line" && seq[b].Ev == "line" && seq[a].S == seq[b].S && seq[a].N == seq[b].N {
			return seq[a].R < seq[b].R
		}
		return seq[a].T < seq[b].T
	})
	for k := range seq {
		seq[k].Q = int64(k + 1)
	}

	// aux part: raft states, the nodes' own logs, faults
	aux = append(aux, sp.intervals()...)
	logEvs, loglines := c.nodeLogs()
	info["node_log_lines"] = loglines
	nsweep := 0
	for _, e := range logEvs {
		if e.Ev == "sweeplog" {
			nsweep++
		}
	}
	info["sweep_log_lines"] = nsweep
	aux = append(aux, logEvs...)
	aux = append(aux, sc.faults...)
	aux = append(aux, sc.extra...)
	return seq, aux, info, nil
}
