package main

// Single-node rig, part 3: second replicas. After the live node was shut down
// cleanly the parent copies its raft directory and runs one of two observers
// in a fresh process (one FSM per process):
//
//   replay_log        a fresh FSM (fresh ircserver, fresh irclog, fresh output
//                     stream) is fed every entry of the copied raft log through
//                     FSM.Apply, i.e. what a follower that received the same log
//                     does.
//   restore_snapshot  a fresh FSM is restored from the newest snapshot of the
//                     copied FileSnapshotStore with FSM.Restore and then fed the
//                     raft log entries after the snapshot index, i.e. what a
//                     follower that got InstallSnapshot does.
//
// After every entry the observer records LastPostMessage and existence of every
// session it knows of (all client aliases and all sessions in the state).

import (
	"encoding/json"
	"fmt"
	"io"
	"io/ioutil"
	"os"
	"path/filepath"
	"strconv"
	"testing"
	"time"

	"github.com/hashicorp/raft"
	"github.com/robustirc/robustirc/internal/ircserver"
	"github.com/robustirc/robustirc/internal/outputstream"
	"github.com/robustirc/robustirc/internal/raftstore"
	"github.com/robustirc/robustirc/internal/robust"
	"github.com/stapelberg/glog"
)

type rigReplicaPoint struct {
	Idx      uint64            `json:"idx"`
	Type     string            `json:"type"`
	Markers  map[string]uint64 `json:"markers"` // small session id -> LastPostMessage
	Exists   map[string]bool   `json:"exists"`
	Sessions int               `json:"nSessions"`
	Entry    *rigReplicaEntry  `json:"entry,omitempty"`
}

type rigReplicaEntry struct {
	Type    string `json:"type"`
	Session int64  `json:"session"`
	Cmid    uint64 `json:"cmid"`
	Data    string `json:"data,omitempty"`
}

func rigCopyDir(src, dst string) error {
	return filepath.Walk(src, func(p string, info os.FileInfo, err error) error {
		if err != nil {
			return err
		}
		rel, _ := filepath.Rel(src, p)
		target := filepath.Join(dst, rel)
		if info.IsDir() {
			return os.MkdirAll(target, 0700)
		}
		if !info.Mode().IsRegular() {
			return nil
		}
		in, err := os.Open(p)
		if err != nil {
			return err
		}
		defer in.Close()
		out, err := os.Create(target)
		if err != nil {
			return err
		}
		defer out.Close()
		_, err = io.Copy(out, in)
		return err
	})
}

func rigRunReplica(p rigProgram, work, results string, stepI, seg int, mode string) error {
	if mode == "" {
		mode = "replay_log"
	}
	cp := filepath.Join(work, fmt.Sprintf("replica-%d-src", stepI))
	fresh := filepath.Join(work, fmt.Sprintf("replica-%d-dir", stepI))
	os.RemoveAll(cp)
	os.RemoveAll(fresh)
	if err := rigCopyDir(filepath.Join(work, "raft"), cp); err != nil {
		return fmt.Errorf("copy raft dir: %v", err)
	}
	logPath := filepath.Join(work, fmt.Sprintf("replica-%d.log", stepI))
	tagb, _ := json.Marshal(p.Steps[stepI].Tag)
	code, err := rigSpawn("^TestVerifRigReplica$", logPath, map[string]string{
		"VERIF_RIG_REPLICA":  mode,
		"VERIF_RIG_SRC":      cp,
		"VERIF_RIG_DIR":      fresh,
		"VERIF_RIG_CLIENT":   filepath.Join(work, "client.json"),
		"VERIF_RIG_RESULTS":  results,
		"VERIF_RIG_PROGNAME": p.Name,
		"VERIF_RIG_STEP":     strconv.Itoa(stepI),
		"VERIF_RIG_SEG":      strconv.Itoa(seg),
		"VERIF_RIG_JSON":     strconv.FormatBool(p.Opts.UseJSON),
		"VERIF_RIG_TAG":      string(tagb),
	})
	if err != nil {
		return err
	}
	if code != 0 {
		r := &rigResult{Prog: p.Name, I: stepI, Seg: seg, Op: "replica", Tag: p.Steps[stepI].Tag, Died: true, Exit: code,
			Log: rigTail(logPath, 800), Extra: map[string]interface{}{"mode": mode}}
		return rigAppendResult(results, r)
	}
	os.RemoveAll(cp)
	os.RemoveAll(fresh)
	return nil
}

func TestVerifRigReplica(t *testing.T) {
	mode := os.Getenv("VERIF_RIG_REPLICA")
	if mode == "" {
		t.Skip("not a rig replica")
	}
	src := os.Getenv("VERIF_RIG_SRC")
	dir := os.Getenv("VERIF_RIG_DIR")
	stepI, _ := strconv.Atoi(os.Getenv("VERIF_RIG_STEP"))
	seg, _ := strconv.Atoi(os.Getenv("VERIF_RIG_SEG"))
	fail := func(format string, a ...interface{}) {
		fmt.Fprintf(os.Stderr, "RIG-FAIL: "+format+"\n", a...)
		glog.Flush()
		os.Exit(rigExitFail)
	}
	var cs rigClientState
	if b, err := ioutil.ReadFile(os.Getenv("VERIF_RIG_CLIENT")); err == nil {
		json.Unmarshal(b, &cs)
	}
	robust.MessageOffset = *messageOffset
	*useProtobuf = os.Getenv("VERIF_RIG_JSON") != "true"
	if err := os.MkdirAll(dir, 0700); err != nil {
		fail("%v", err)
	}
	*raftDir = dir
	*network = rigNetwork
	ircServer = ircserver.NewIRCServer(*network, time.Now())
	var err error
	outputStream, err = outputstream.NewOutputStream(*raftDir)
	if err != nil {
		fail("outputstream: %v", err)
	}
	logStore, err := raftstore.NewLevelDBStore(filepath.Join(src, "raftlog"), false, *useProtobuf)
	if err != nil {
		fail("open copied raftlog: %v", err)
	}
	ircStore, err = raftstore.NewLevelDBStore(filepath.Join(dir, "irclog"), true, *useProtobuf)
	if err != nil {
		fail("irclog: %v", err)
	}
	fsm := &FSM{
		store:             logStore,
		ircstore:          ircStore,
		lastSnapshotState: make(map[uint64][]byte),
		ReplaceState: func(*ircserver.IRCServer, *raftstore.LevelDBStore, *outputstream.OutputStream) {
		},
	}

	known := make(map[uint64]bool)
	for _, s := range cs.Sessions {
		known[s.Id] = true
	}
	point := func(idx uint64, typ string) rigReplicaPoint {
		for id := range ircServer.GetSessions() {
			known[id.Id] = true
		}
		pt := rigReplicaPoint{Idx: idx, Type: typ, Markers: map[string]uint64{}, Exists: map[string]bool{}}
		for id := range known {
			k := strconv.FormatInt(rigSmall(id), 10)
			pt.Markers[k] = ircServer.LastPostMessage(robust.Id{Id: id})
			_, err := ircServer.GetSession(robust.Id{Id: id})
			pt.Exists[k] = err == nil
		}
		pt.Sessions = ircServer.NumSessions()
		return pt
	}

	res := &rigResult{Prog: os.Getenv("VERIF_RIG_PROGNAME"), I: stepI, Seg: seg, Op: "replica",
		Extra: map[string]interface{}{"mode": mode}}
	if tag := os.Getenv("VERIF_RIG_TAG"); tag != "" && tag != "null" {
		res.Tag = json.RawMessage(tag)
	}
	var points []rigReplicaPoint
	startAfter := uint64(0)
	if mode == "restore_snapshot" {
		fss, err := raft.NewFileSnapshotStore(src, 5, ioutil.Discard)
		if err != nil {
			fail("snapshot store: %v", err)
		}
		metas, err := fss.List()
		if err != nil {
			fail("snapshot list: %v", err)
		}
		if len(metas) == 0 {
			res.Extra["nosnapshot"] = true
		} else {
			meta, rc, err := fss.Open(metas[0].ID)
			if err != nil {
				fail("snapshot open: %v", err)
			}
			if err := fsm.Restore(rc); err != nil {
				res.Err = "Restore: " + err.Error()
			}
			startAfter = meta.Index
			res.Extra["snapshotIndex"] = meta.Index
			points = append(points, point(meta.Index, "restore"))
		}
	}
	first, _ := logStore.FirstIndex()
	last, _ := logStore.LastIndex()
	res.Extra["logFirst"] = first
	res.Extra["logLast"] = last
	func() {
		defer func() {
			if x := recover(); x != nil {
				res.Err = fmt.Sprintf("panic while applying: %v", x)
			}
		}()
		for idx := first; idx <= last && idx > 0; idx++ {
			if idx <= startAfter {
				continue
			}
			var l raft.Log
			if err := logStore.GetLog(idx, &l); err != nil {
				res.Err = fmt.Sprintf("GetLog(%d): %v", idx, err)
				break
			}
			if l.Type != raft.LogCommand {
				points = append(points, point(idx, "raft"))
				continue
			}
			m := robust.NewMessageFromBytes(l.Data, robust.IdFromRaftIndex(l.Index))
			fsm.Apply(&l)
			pt := point(idx, m.Type.String())
			pt.Entry = &rigReplicaEntry{Type: m.Type.String(), Session: rigSmall(m.Session.Id), Cmid: m.ClientMessageId}
			if m.Type == robust.IRCFromClient || m.Type == robust.MessageOfDeath {
				pt.Entry.Data = m.Data
			}
			points = append(points, pt)
		}
	}()
	res.Extra["points"] = points
	aliases := make(map[string]*rigClientSess)
	for a, s := range cs.Sessions {
		aliases[a] = s
	}
	// rigTakeProbe reads the raft node for indexes; a replica has none.
	res.Extra["sessions"] = rigReplicaSessions(aliases)
	// Observers added by other engines (steps_*.go); they look at the step's tag
	// to decide whether they are meant and add keys to res.Extra.
	for _, h := range rigReplicaHooks {
		h(mode, fsm, res)
	}
	if err := rigAppendResult(os.Getenv("VERIF_RIG_RESULTS"), res); err != nil {
		fail("write: %v", err)
	}
	logStore.Close()
	ircStore.Close()
	outputStream.Close()
	os.Exit(0)
}

// rigReplicaHooks run in the replica observer after the log was applied.
var rigReplicaHooks []func(mode string, fsm *FSM, res *rigResult)

func rigReplicaSessions(aliases map[string]*rigClientSess) []rigSessProj {
	var out []rigSessProj
	for a, s := range aliases {
		sp := rigSessProj{Alias: a, Sid: rigSmall(s.Id)}
		if _, err := ircServer.GetSession(robust.Id{Id: s.Id}); err == nil {
			sp.Exists = "ok"
		} else if err == ircserver.ErrNoSuchSession {
			sp.Exists = "nosuch"
		} else {
			sp.Exists = "notyet"
		}
		sp.LastCmid = ircServer.LastPostMessage(robust.Id{Id: s.Id})
		sp.Nick = ircServer.GetNick(robust.Id{Id: s.Id})
		out = append(out, sp)
	}
	return out
}
