package main

// Single-node in-process rig, part 2: programs, the orchestrating parent test
// and the child that executes one process lifetime of a program. The step
// vocabulary is documented in README.md (keep both in sync; other engines
// depend on it).

import (
	"bufio"
	"bytes"
	"context"
	"encoding/json"
	"fmt"
	"io"
	"io/ioutil"
	"net/http"
	"os"
	"os/exec"
	"path/filepath"
	"strconv"
	"strings"
	"sync"
	"syscall"
	"testing"
	"time"

	"github.com/golang/protobuf/proto"
	"github.com/hashicorp/raft"
	"github.com/robustirc/robustirc/internal/robust"
	"github.com/stapelberg/glog"
)

// ------------------------------------------------------------------ programs

type rigOpts struct {
	NoCooloffConfig bool `json:"no_cooloff_config,omitempty"`
	RealTimeouts    bool `json:"real_timeouts,omitempty"`
	UseJSON         bool `json:"use_json,omitempty"`
	ProbeFull       bool `json:"probe_full,omitempty"`
}

type rigStep struct {
	Op string `json:"op"`
	// Tag is copied verbatim into the result line (for the caller's bookkeeping).
	Tag json.RawMessage `json:"tag,omitempty"`

	As      string `json:"as,omitempty"`      // create_session: alias to store the new session under
	Session string `json:"session,omitempty"` // alias of the addressed session
	Sid     string `json:"sid,omitempty"`     // how the session id is written into the path (default hex)
	Auth    string `json:"auth,omitempty"`    // X-Session-Auth variant (default correct; http: default none)
	Basic   string `json:"basic,omitempty"`   // basic auth variant (default none; private: default correct)

	Data        string            `json:"data,omitempty"`
	Cmid        *uint64           `json:"cmid,omitempty"`
	Body        *string           `json:"body,omitempty"`
	Quitmessage string            `json:"quitmessage,omitempty"`
	Headers     map[string]string `json:"headers,omitempty"`
	Method      string            `json:"method,omitempty"`
	Path        string            `json:"path,omitempty"`
	Query       string            `json:"query,omitempty"`
	Lastseen    string            `json:"lastseen,omitempty"`

	Ms    int    `json:"ms,omitempty"`    // get/collect: read at most this long (default 300)
	Until int    `json:"until,omitempty"` // get/collect: stop after this many non-ping lines
	Bg    string `json:"bg,omitempty"`    // get: keep the long poll open under this name; collect: which one

	Nick string `json:"nick,omitempty"` // login

	Toml string `json:"toml,omitempty"` // config

	Fold string `json:"fold,omitempty"` // snapshot: real | all | allButLast | none
	Via  string `json:"via,omitempty"`  // snapshot: "" (node.Snapshot()) | http (GET /snapshot)

	Mode string `json:"mode,omitempty"` // restart: clean|kill ; replica: replay_log|restore_snapshot

	Type     string `json:"type,omitempty"` // apply: robust message type
	ExpandBody bool `json:"expand_body,omitempty"` // http: "@sid10:ALIAS@" in the body is replaced by the decimal id of ALIAS
	ClockMs  int64  `json:"clock_ms,omitempty"` // apply: the entry is stamped now+clock_ms (as by a leader whose clock is ahead/behind)
	Revision uint64 `json:"revision,omitempty"`
	Remote   string `json:"remote,omitempty"`

	Full bool `json:"full,omitempty"` // probe: include output ids and snapshot list
}

type rigProgram struct {
	Name  string    `json:"name"`
	Opts  rigOpts   `json:"opts"`
	Steps []rigStep `json:"steps"`
}

type rigClientSess struct {
	Id   uint64 `json:"id"`
	Auth string `json:"auth"`
}

type rigClientState struct {
	Sessions map[string]*rigClientSess `json:"sessions"`
	NextCmid uint64                    `json:"nextCmid"`
	Segment  int                       `json:"segment"`
	Prelude  bool                      `json:"prelude"`
}

type rigLine struct {
	Id    int64  `json:"id"`
	Reply uint64 `json:"reply"`
	Type  int64  `json:"type"`
	Data  string `json:"data"`
}

type rigResult struct {
	Prog   string            `json:"prog"`
	I      int               `json:"i"`
	Seg    int               `json:"seg"`
	Op     string            `json:"op"`
	Tag    json.RawMessage   `json:"tag,omitempty"`
	Status int               `json:"status"`
	Body   string            `json:"body,omitempty"`
	Hdr    map[string]string `json:"hdr,omitempty"`
	Lines  []rigLine         `json:"lines,omitempty"`
	NPings int               `json:"pings,omitempty"`
	Err    string            `json:"err,omitempty"`
	Died   bool              `json:"died,omitempty"`
	Exit   int               `json:"exit,omitempty"`
	Log    string            `json:"log,omitempty"`
	Pre    *rigProbe         `json:"pre,omitempty"`
	Post   *rigProbe         `json:"post,omitempty"`
	Delta  map[string]int64  `json:"delta,omitempty"`
	Extra  map[string]interface{} `json:"extra,omitempty"`
	Ms     int64             `json:"ms"`
}

const (
	rigExitDone    = 0
	rigExitRestart = 10
	rigExitReplica = 11
	rigExitFail    = 12
)

// -------------------------------------------------------------------- parent

// TestVerifRig is the entry point: it reads ND-JSON programs from
// $VERIF_RIG_PROGRAMS and executes each in its own working directory below
// $VERIF_RIG_OUTDIR, every process lifetime in a fresh child process of this
// test binary. Results: $VERIF_RIG_OUTDIR/<name>.ndjson.
func TestVerifRig(t *testing.T) {
	progPath := os.Getenv("VERIF_RIG_PROGRAMS")
	outDir := os.Getenv("VERIF_RIG_OUTDIR")
	if progPath == "" || outDir == "" {
		t.Skip("VERIF_RIG_PROGRAMS / VERIF_RIG_OUTDIR not set")
	}
	par, _ := strconv.Atoi(os.Getenv("VERIF_RIG_PAR"))
	if par < 1 {
		par = 4
	}
	f, err := os.Open(progPath)
	if err != nil {
		t.Fatal(err)
	}
	defer f.Close()
	var progs []rigProgram
	rd := bufio.NewReaderSize(f, 1<<20)
	for {
		line, err := rd.ReadBytes('\n')
		if len(bytes.TrimSpace(line)) > 0 {
			var p rigProgram
			if jerr := json.Unmarshal(line, &p); jerr != nil {
				t.Fatalf("bad program line: %v", jerr)
			}
			progs = append(progs, p)
		}
		if err != nil {
			break
		}
	}
	if err := os.MkdirAll(outDir, 0700); err != nil {
		t.Fatal(err)
	}
	var wg sync.WaitGroup
	ch := make(chan rigProgram)
	var failMu sync.Mutex
	var failures []string
	for w := 0; w < par; w++ {
		wg.Add(1)
		go func() {
			defer wg.Done()
			for p := range ch {
				if err := rigRunProgram(p, outDir); err != nil {
					failMu.Lock()
					failures = append(failures, p.Name+": "+err.Error())
					failMu.Unlock()
				}
			}
		}()
	}
	for _, p := range progs {
		ch <- p
	}
	close(ch)
	wg.Wait()
	for _, f := range failures {
		t.Errorf("rig: %s", f)
	}
}

func rigAppendResult(path string, r *rigResult) error {
	f, err := os.OpenFile(path, os.O_APPEND|os.O_CREATE|os.O_WRONLY, 0600)
	if err != nil {
		return err
	}
	defer f.Close()
	b, err := json.Marshal(r)
	if err != nil {
		return err
	}
	if _, err := f.Write(append(b, '\n')); err != nil {
		return err
	}
	return f.Sync()
}

func rigLastResult(path string) (last *rigResult) {
	b, err := ioutil.ReadFile(path)
	if err != nil {
		return nil
	}
	lines := bytes.Split(bytes.TrimSpace(b), []byte("\n"))
	for i := len(lines) - 1; i >= 0; i-- {
		var r rigResult
		if json.Unmarshal(lines[i], &r) == nil {
			return &r
		}
	}
	return nil
}

// rigTail returns the interesting part of a child's log: from the first
// panic / fatal error / RIG-FAIL line if there is one, else the end.
func rigTail(path string, n int) string {
	b, err := ioutil.ReadFile(path)
	if err != nil {
		return ""
	}
	// glog writes fatal/error records to files in the raft directory
	if dir := filepath.Join(filepath.Dir(path), "raft"); true {
		for _, pat := range []string{"*.FATAL.*", "*.ERROR.*"} {
			if ms, _ := filepath.Glob(filepath.Join(dir, pat)); len(ms) > 0 {
				if gb, err := ioutil.ReadFile(ms[len(ms)-1]); err == nil {
					if len(gb) > 2*n {
						gb = gb[:2*n]
					}
					b = append(append([]byte("glog "+filepath.Base(ms[len(ms)-1])+": "), gb...), b...)
					break
				}
			}
		}
	}
	for _, marker := range []string{"RIG-FAIL", "glog ", "panic:", "fatal error:", "--- FAIL"} {
		if i := bytes.Index(b, []byte(marker)); i >= 0 {
			e := i + 3*n
			if e > len(b) {
				e = len(b)
			}
			return string(b[i:e])
		}
	}
	if len(b) > n {
		b = b[len(b)-n:]
	}
	return string(b)
}

func rigRunProgram(p rigProgram, outDir string) error {
	work := filepath.Join(outDir, p.Name)
	if err := os.MkdirAll(work, 0700); err != nil {
		return err
	}
	progFile := filepath.Join(work, "program.json")
	b, _ := json.Marshal(&p)
	if err := ioutil.WriteFile(progFile, b, 0600); err != nil {
		return err
	}
	results := filepath.Join(outDir, p.Name+".ndjson")
	os.Remove(results)
	from := 0
	deaths := 0
	for seg := 0; from < len(p.Steps) || seg == 0; seg++ {
		if seg > 200 {
			return fmt.Errorf("too many segments")
		}
		logPath := filepath.Join(work, fmt.Sprintf("child-%d.log", seg))
		code, err := rigSpawn("^TestVerifRigChild$", logPath, map[string]string{
			"VERIF_RIG_CHILD":   "1",
			"VERIF_RIG_PROG":    progFile,
			"VERIF_RIG_FROM":    strconv.Itoa(from),
			"VERIF_RIG_DIR":     work,
			"VERIF_RIG_RESULTS": results,
			"VERIF_RIG_SEG":     strconv.Itoa(seg),
		})
		if err != nil {
			return err
		}
		last := rigLastResult(results)
		lastI := -1
		if last != nil && last.Seg == seg {
			lastI = last.I
		} else if last != nil {
			lastI = from - 1
		}
		switch code {
		case rigExitDone:
			return nil
		case rigExitFail:
			return fmt.Errorf("child reported a machinery failure, see %s:\n%s", logPath, rigTail(logPath, 1500))
		case rigExitRestart:
			from = lastI + 1
		case rigExitReplica:
			st := p.Steps[lastI]
			if err := rigRunReplica(p, work, results, lastI, seg, st.Mode); err != nil {
				return err
			}
			from = lastI + 1
			if from >= len(p.Steps) {
				return nil
			}
		default:
			// The process died inside step lastI+1 (log.Fatalf in /quit, glog.Fatalf
			// for a message of death, exitOnRecover, kill mode of restart).
			if last != nil && last.Seg == seg && last.Op == "restart" && p.Steps[last.I].Mode == "kill" {
				from = last.I + 1
				continue
			}
			deaths++
			di := lastI + 1
			if di < from {
				di = from
			}
			if di >= len(p.Steps) {
				return fmt.Errorf("child died (exit %d) outside of any step, see %s:\n%s", code, logPath, rigTail(logPath, 1500))
			}
			r := &rigResult{Prog: p.Name, I: di, Seg: seg, Op: p.Steps[di].Op, Tag: p.Steps[di].Tag,
				Died: true, Exit: code, Log: rigTail(logPath, 600)}
			if err := rigAppendResult(results, r); err != nil {
				return err
			}
			if deaths > 8 {
				return fmt.Errorf("child died %d times", deaths)
			}
			from = di + 1
		}
	}
	return nil
}

func rigSpawn(runRe string, logPath string, env map[string]string) (int, error) {
	cmd := exec.Command(os.Args[0], "-test.run", runRe, "-test.timeout", "600s")
	cmd.Env = os.Environ()
	for k, v := range env {
		cmd.Env = append(cmd.Env, k+"="+v)
	}
	lf, err := os.Create(logPath)
	if err != nil {
		return 0, err
	}
	defer lf.Close()
	cmd.Stdout = lf
	cmd.Stderr = lf
	err = cmd.Run()
	if err == nil {
		return 0, nil
	}
	if ee, ok := err.(*exec.ExitError); ok {
		if ws, ok := ee.Sys().(syscall.WaitStatus); ok && ws.Signaled() {
			return 128 + int(ws.Signal()), nil
		}
		return ee.ExitCode(), nil
	}
	return 0, err
}

// ---------------------------------------------------------------------- child

type rigChild struct {
	prog    rigProgram
	dir     string
	results string
	seg     int
	state   rigClientState
	n       *rigNode
	client  *http.Client
	bg      map[string]*rigBgGet
	lastPost *rigProbe
}

func (c *rigChild) statePath() string { return filepath.Join(c.dir, "client.json") }

func (c *rigChild) saveState() {
	b, _ := json.Marshal(&c.state)
	ioutil.WriteFile(c.statePath(), b, 0600)
}

func (c *rigChild) fail(format string, a ...interface{}) {
	fmt.Fprintf(os.Stderr, "RIG-FAIL: "+format+"\n", a...)
	glog.Flush()
	os.Exit(rigExitFail)
}

func TestVerifRigChild(t *testing.T) {
	if os.Getenv("VERIF_RIG_CHILD") == "" {
		t.Skip("not a rig child")
	}
	c := &rigChild{dir: os.Getenv("VERIF_RIG_DIR"), results: os.Getenv("VERIF_RIG_RESULTS"), bg: make(map[string]*rigBgGet)}
	c.seg, _ = strconv.Atoi(os.Getenv("VERIF_RIG_SEG"))
	from, _ := strconv.Atoi(os.Getenv("VERIF_RIG_FROM"))
	b, err := ioutil.ReadFile(os.Getenv("VERIF_RIG_PROG"))
	if err != nil {
		c.fail("program: %v", err)
	}
	if err := json.Unmarshal(b, &c.prog); err != nil {
		c.fail("program: %v", err)
	}
	c.state = rigClientState{Sessions: make(map[string]*rigClientSess), NextCmid: 1000}
	if sb, err := ioutil.ReadFile(c.statePath()); err == nil {
		if err := json.Unmarshal(sb, &c.state); err != nil {
			c.fail("client state: %v", err)
		}
	}
	c.state.Segment = c.seg
	c.client = &http.Client{
		CheckRedirect: func(*http.Request, []*http.Request) error { return http.ErrUseLastResponse },
	}
	c.n, err = rigStartNode(filepath.Join(c.dir, "raft"), c.prog.Opts)
	if err != nil {
		c.fail("start node: %v", err)
	}
	if !c.state.Prelude {
		c.state.Prelude = true
		if !c.prog.Opts.NoCooloffConfig {
			r := c.exec(-1, rigStep{Op: "config", Toml: "SessionExpiration = \"30m0s\"\nPostMessageCooloff = \"0s\"\n"})
			if r.Status != 200 {
				c.fail("prelude config rejected: %d %s", r.Status, r.Body)
			}
			c.write(r)
		}
		c.saveState()
	}
	for i := from; i < len(c.prog.Steps); i++ {
		st := c.prog.Steps[i]
		switch st.Op {
		case "restart":
			p := rigTakeProbe(c.state.Sessions, true, c.n.fss)
			r := &rigResult{Prog: c.prog.Name, I: i, Seg: c.seg, Op: st.Op, Tag: st.Tag, Pre: &p, Extra: map[string]interface{}{"mode": st.Mode}}
			c.saveState()
			if st.Mode == "kill" {
				c.write(r)
				glog.Flush()
				syscall.Kill(os.Getpid(), syscall.SIGKILL)
				time.Sleep(10 * time.Second)
			}
			c.closeBg()
			c.n.shutdown()
			c.write(r)
			os.Exit(rigExitRestart)
		case "replica":
			p := rigTakeProbe(c.state.Sessions, true, c.n.fss)
			r := &rigResult{Prog: c.prog.Name, I: i, Seg: c.seg, Op: "replica_mark", Tag: st.Tag, Pre: &p, Extra: map[string]interface{}{"mode": st.Mode}}
			c.saveState()
			c.closeBg()
			c.n.shutdown()
			c.write(r)
			os.Exit(rigExitReplica)
		}
		r := c.exec(i, st)
		c.write(r)
	}
	c.saveState()
	c.closeBg()
	c.n.shutdown()
	os.Exit(rigExitDone)
}

func (c *rigChild) write(r *rigResult) {
	if err := rigAppendResult(c.results, r); err != nil {
		c.fail("write result: %v", err)
	}
}

func (c *rigChild) closeBg() {
	for _, b := range c.bg {
		b.cancel()
	}
}

// exec runs one step; a panic of the harness itself is reported in the result.
func (c *rigChild) exec(i int, st rigStep) (r *rigResult) {
	r = &rigResult{Prog: c.prog.Name, I: i, Seg: c.seg, Op: st.Op, Tag: st.Tag}
	start := time.Now()
	full := c.prog.Opts.ProbeFull || st.Full
	if c.lastPost != nil && len(c.bg) == 0 && !full {
		r.Pre = c.lastPost
	} else {
		p := rigTakeProbe(c.state.Sessions, full, c.n.fss)
		r.Pre = &p
	}
	func() {
		defer func() {
			if x := recover(); x != nil {
				r.Err = fmt.Sprintf("harness panic: %v", x)
			}
		}()
		c.step(st, r)
	}()
	p := rigTakeProbe(c.state.Sessions, full, c.n.fss)
	r.Post = &p
	c.lastPost = &p
	r.Delta = map[string]int64{
		"raft":     int64(r.Post.RaftLast) - int64(r.Pre.RaftLast),
		"applied":  int64(r.Post.Applied) - int64(r.Pre.Applied),
		"irc":      int64(r.Post.IrcLast) - int64(r.Pre.IrcLast),
		"out":      int64(r.Post.OutCount) - int64(r.Pre.OutCount),
		"sessions": int64(r.Post.NSessions) - int64(r.Pre.NSessions),
	}
	if r.Post.Digest != r.Pre.Digest {
		r.Delta["digest"] = 1
	} else {
		r.Delta["digest"] = 0
	}
	if r.Post.OutLast != r.Pre.OutLast {
		r.Delta["outLastChanged"] = 1
	}
	r.Ms = time.Since(start).Milliseconds()
	return r
}

// ------------------------------------------------------------ request pieces

func (c *rigChild) sess(alias string) *rigClientSess {
	s, ok := c.state.Sessions[alias]
	if !ok {
		panic(fmt.Sprintf("unknown session alias %q", alias))
	}
	return s
}

// sidString renders the session id part of a path.
func (c *rigChild) sidString(alias, how string) string {
	switch {
	case how == "" || how == "hex":
		return fmt.Sprintf("0x%x", c.sess(alias).Id)
	case how == "dec":
		return strconv.FormatUint(c.sess(alias).Id, 10)
	case how == "never":
		// raft index 1 is the bootstrap configuration entry: never a session,
		// and older than anything processed.
		return fmt.Sprintf("0x%x", robust.MessageOffset+1)
	case how == "notyet":
		return fmt.Sprintf("0x%x", robust.MessageOffset+1000000)
	case how == "next":
		// session ids are predictable: the id of a session is the raft index
		// of its CreateSession entry, i.e. (if nothing else is proposed in
		// between) the node's last index + 1.
		return fmt.Sprintf("0x%x", robust.IdFromRaftIndex(node.LastIndex()+1))
	case how == "zero":
		return "0"
	case strings.HasPrefix(how, "raw:"):
		return how[len("raw:"):]
	}
	panic("unknown sid variant " + how)
}

func rigFlipLast(s string) string {
	if s == "" {
		return "0"
	}
	b := []byte(s)
	if b[len(b)-1] == '0' {
		b[len(b)-1] = '1'
	} else {
		b[len(b)-1] = '0'
	}
	return string(b)
}

// authHeader returns (value, present).
func (c *rigChild) authHeader(alias, how string) (string, bool) {
	switch {
	case how == "none":
		return "", false
	case how == "empty":
		return "", true
	case how == "correct":
		return c.sess(alias).Auth, true
	case how == "wrong", how == "wrongFlip":
		if alias == "" {
			return strings.Repeat("ab", 128), true
		}
		return rigFlipLast(c.sess(alias).Auth), true
	case how == "wrongRandom":
		return strings.Repeat("5a", 128), true
	case how == "wrongPrefix":
		a := c.sess(alias).Auth
		return a[:len(a)-1], true
	case how == "wrongSuper":
		return c.sess(alias).Auth + "0", true
	case how == "wrongUpper":
		return strings.ToUpper(c.sess(alias).Auth), true
	case how == "wrongSpace":
		return c.sess(alias).Auth + " x", true
	case strings.HasPrefix(how, "other:"):
		return c.sess(how[len("other:"):]).Auth, true
	case strings.HasPrefix(how, "raw:"):
		return how[len("raw:"):], true
	}
	panic("unknown auth variant " + how)
}

func (c *rigChild) applyBasic(req *http.Request, how string) {
	switch {
	case how == "" || how == "none":
	case how == "correct":
		req.SetBasicAuth("robustirc", rigPassword)
	case how == "wrongUser":
		req.SetBasicAuth("admin", rigPassword)
	case how == "wrongUserCase":
		req.SetBasicAuth("RobustIRC", rigPassword)
	case how == "emptyUser":
		req.SetBasicAuth("", rigPassword)
	case how == "wrongPw":
		req.SetBasicAuth("robustirc", rigFlipLast(rigPassword))
	case how == "wrongPwPrefix":
		req.SetBasicAuth("robustirc", rigPassword[:len(rigPassword)-1])
	case how == "wrongPwSuper":
		req.SetBasicAuth("robustirc", rigPassword+"x")
	case how == "wrongPwUpper":
		req.SetBasicAuth("robustirc", strings.ToUpper(rigPassword))
	case how == "emptyPw":
		req.SetBasicAuth("robustirc", "")
	case how == "bearer":
		req.Header.Set("Authorization", "Bearer "+rigPassword)
	case how == "malformed":
		req.Header.Set("Authorization", "Basic !!!notbase64")
	case strings.HasPrefix(how, "raw:"):
		parts := strings.SplitN(how[len("raw:"):], ":", 2)
		if len(parts) == 2 {
			req.SetBasicAuth(parts[0], parts[1])
		}
	default:
		panic("unknown basic variant " + how)
	}
}

func (c *rigChild) expandPath(p string) string {
	for {
		i := strings.Index(p, "{")
		if i < 0 {
			return p
		}
		j := strings.Index(p[i:], "}")
		if j < 0 {
			return p
		}
		tok := p[i+1 : i+j]
		var rep string
		switch {
		case strings.HasPrefix(tok, "sid:"):
			rep = c.sidString(tok[4:], "hex")
		case strings.HasPrefix(tok, "sid10:"):
			rep = c.sidString(tok[6:], "dec")
		case tok == "never" || tok == "notyet" || tok == "next":
			rep = c.sidString("", tok)
		default:
			panic("unknown path token {" + tok + "}")
		}
		p = p[:i] + rep + p[i+j+1:]
	}
}

var rigHdrOfInterest = []string{"Content-Type", "Www-Authenticate", "X-Robustirc-Config-Revision",
	"Content-Location", "Location", "Access-Control-Allow-Origin"}

func (c *rigChild) newRequest(ctx context.Context, st rigStep, method, path string, body io.Reader, authDefault, basicDefault string) *http.Request {
	u := c.n.srv.URL + path
	if st.Query != "" {
		u += "?" + st.Query
	}
	req, err := http.NewRequestWithContext(ctx, method, u, body)
	if err != nil {
		panic(fmt.Sprintf("NewRequest(%q): %v", u, err))
	}
	auth := st.Auth
	if auth == "" {
		auth = authDefault
	}
	if v, ok := c.authHeader(st.Session, auth); ok {
		req.Header["X-Session-Auth"] = []string{v}
	}
	basic := st.Basic
	if basic == "" {
		basic = basicDefault
	}
	c.applyBasic(req, basic)
	for k, v := range st.Headers {
		req.Header.Set(k, v)
	}
	return req
}

// do performs a non-streaming request and fills status/body/headers.
func (c *rigChild) do(req *http.Request, r *rigResult) {
	resp, err := c.client.Do(req)
	if err != nil {
		r.Err = "request: " + err.Error()
		return
	}
	defer resp.Body.Close()
	c.fillResponse(resp, r)
	b, _ := ioutil.ReadAll(io.LimitReader(resp.Body, 1<<20))
	if len(b) > 300 {
		r.Extra = map[string]interface{}{"bodyLen": len(b)}
		b = b[:300]
	}
	r.Body = string(b)
}

func (c *rigChild) fillResponse(resp *http.Response, r *rigResult) {
	r.Status = resp.StatusCode
	r.Hdr = make(map[string]string)
	for _, h := range rigHdrOfInterest {
		if v := resp.Header.Get(h); v != "" {
			r.Hdr[h] = v
		}
	}
}

// --------------------------------------------------------------- long polling

type rigBgGet struct {
	cancel context.CancelFunc
	mu     sync.Mutex
	lines  []rigLine
	pings  int
	status int
	hdr    map[string]string
	body   string
	err    string
	done   chan struct{}
	head   chan struct{}
}

func (c *rigChild) startGet(st rigStep) *rigBgGet {
	ctx, cancel := context.WithCancel(context.Background())
	g := &rigBgGet{cancel: cancel, done: make(chan struct{}), head: make(chan struct{})}
	path := "/robustirc/v1/" + c.sidString(st.Session, st.Sid) + "/messages"
	if st.Path != "" {
		path = c.expandPath(st.Path)
	}
	if st.Lastseen != "" {
		if st.Query != "" {
			st.Query += "&"
		}
		st.Query += "lastseen=" + st.Lastseen
	}
	req := c.newRequest(ctx, st, "GET", path, nil, "correct", "none")
	go func() {
		defer close(g.done)
		resp, err := c.client.Do(req)
		if err != nil {
			g.mu.Lock()
			g.err = err.Error()
			g.mu.Unlock()
			close(g.head)
			return
		}
		defer resp.Body.Close()
		tmp := &rigResult{}
		c.fillResponse(resp, tmp)
		g.mu.Lock()
		g.status = tmp.Status
		g.hdr = tmp.Hdr
		g.mu.Unlock()
		close(g.head)
		if resp.StatusCode != 200 {
			b, _ := ioutil.ReadAll(io.LimitReader(resp.Body, 300))
			g.mu.Lock()
			g.body = string(b)
			g.mu.Unlock()
			return
		}
		sc := bufio.NewScanner(resp.Body)
		sc.Buffer(make([]byte, 0, 64*1024), 4<<20)
		for sc.Scan() {
			var m robust.Message
			if err := json.Unmarshal(sc.Bytes(), &m); err != nil {
				g.mu.Lock()
				g.lines = append(g.lines, rigLine{Id: -1, Type: -1, Data: "UNPARSABLE:" + sc.Text()})
				g.mu.Unlock()
				continue
			}
			g.mu.Lock()
			if m.Type == robust.Ping {
				g.pings++
			} else {
				g.lines = append(g.lines, rigLine{Id: rigSmall(m.Id.Id), Reply: m.Id.Reply, Type: int64(m.Type), Data: m.Data})
			}
			g.mu.Unlock()
		}
	}()
	return g
}

// wait blocks until the long poll ended, `until` lines arrived or ms elapsed.
func (g *rigBgGet) wait(ms, until int, r *rigResult) {
	if ms <= 0 {
		ms = 300
	}
	deadline := time.Now().Add(time.Duration(ms) * time.Millisecond)
	for time.Now().Before(deadline) {
		select {
		case <-g.done:
			deadline = time.Now()
		default:
		}
		g.mu.Lock()
		n := len(g.lines)
		g.mu.Unlock()
		if until > 0 && n >= until {
			break
		}
		time.Sleep(2 * time.Millisecond)
	}
	pending := false
	select {
	case <-g.head:
	case <-time.After(1 * time.Second):
		pending = true // no response header yet: the request is still in flight
	}
	g.mu.Lock()
	defer g.mu.Unlock()
	if pending {
		r.Extra = map[string]interface{}{"pending": true}
	}
	r.Status = g.status
	r.Hdr = g.hdr
	r.Body = g.body
	r.Err = g.err
	r.Lines = append([]rigLine(nil), g.lines...)
	r.NPings = g.pings
	select {
	case <-g.done:
		if r.Extra == nil {
			r.Extra = map[string]interface{}{}
		}
		r.Extra["ended"] = true
	default:
	}
}

// ----------------------------------------------------------------- the steps

func (c *rigChild) step(st rigStep, r *rigResult) {
	ctx := context.Background()
	switch st.Op {
	case "create_session":
		req := c.newRequest(ctx, st, "POST", "/robustirc/v1/session", nil, "none", "none")
		resp, err := c.client.Do(req)
		if err != nil {
			r.Err = err.Error()
			return
		}
		defer resp.Body.Close()
		c.fillResponse(resp, r)
		b, _ := ioutil.ReadAll(io.LimitReader(resp.Body, 1<<16))
		var reply struct {
			Sessionid   string
			Sessionauth string
			Prefix      string
		}
		if resp.StatusCode == 200 && json.Unmarshal(b, &reply) == nil {
			id, err := strconv.ParseUint(reply.Sessionid, 0, 64)
			if err != nil {
				r.Err = "bad Sessionid " + reply.Sessionid
				return
			}
			if st.As != "" {
				c.state.Sessions[st.As] = &rigClientSess{Id: id, Auth: reply.Sessionauth}
				c.saveState()
			}
			r.Extra = map[string]interface{}{"sid": rigSmall(id), "authLen": len(reply.Sessionauth), "prefix": reply.Prefix}
		} else {
			if len(b) > 300 {
				b = b[:300]
			}
			r.Body = string(b)
		}

	case "post":
		path := "/robustirc/v1/" + c.sidString(st.Session, st.Sid) + "/message"
		if st.Path != "" {
			path = c.expandPath(st.Path)
		}
		var body string
		if st.Body != nil {
			body = *st.Body
		} else {
			cmid := c.state.NextCmid
			if st.Cmid != nil {
				cmid = *st.Cmid
			} else {
				c.state.NextCmid++
			}
			b, _ := json.Marshal(struct {
				Data            string
				ClientMessageId uint64
			}{st.Data, cmid})
			body = string(b)
			r.Extra = map[string]interface{}{"cmid": cmid}
		}
		req := c.newRequest(ctx, st, "POST", path, strings.NewReader(body), "correct", "none")
		req.Header.Set("Content-Type", "application/json")
		c.do(req, r)

	case "login":
		nick := st.Nick
		if nick == "" {
			nick = st.Session
		}
		for _, line := range []string{"NICK " + nick, "USER " + nick + " 0 * :" + nick} {
			sub := rigStep{Op: "post", Session: st.Session, Data: line}
			rr := &rigResult{}
			c.step(sub, rr)
			r.Status = rr.Status
			r.Body = rr.Body
			if rr.Err != "" || rr.Status != 200 {
				r.Err = "login: " + rr.Err
				return
			}
		}

	case "delete":
		path := "/robustirc/v1/" + c.sidString(st.Session, st.Sid)
		if st.Path != "" {
			path = c.expandPath(st.Path)
		}
		var body string
		if st.Body != nil {
			body = *st.Body
		} else {
			b, _ := json.Marshal(struct{ Quitmessage string }{st.Quitmessage})
			body = string(b)
		}
		req := c.newRequest(ctx, st, "DELETE", path, strings.NewReader(body), "correct", "none")
		req.Header.Set("Content-Type", "application/json")
		c.do(req, r)

	case "get":
		g := c.startGet(st)
		if st.Bg != "" {
			c.bg[st.Bg] = g
			// wait for the response header only
			select {
			case <-g.head:
			case <-time.After(5 * time.Second):
			}
			g.mu.Lock()
			r.Status, r.Hdr, r.Err = g.status, g.hdr, g.err
			g.mu.Unlock()
			return
		}
		g.wait(st.Ms, st.Until, r)
		g.cancel()
		select {
		case <-g.done:
		case <-time.After(2 * time.Second):
		}

	case "collect":
		g, ok := c.bg[st.Bg]
		if !ok {
			panic("collect: no background get " + st.Bg)
		}
		g.wait(st.Ms, st.Until, r)
		if st.Mode != "keep" {
			g.cancel()
			select {
			case <-g.done:
			case <-time.After(2 * time.Second):
			}
			delete(c.bg, st.Bg)
		}

	case "http", "private":
		method := st.Method
		if method == "" {
			method = "GET"
		}
		var body io.Reader
		if st.Body != nil {
			b := *st.Body
			for st.ExpandBody {
				i := strings.Index(b, "@sid10:")
				if i < 0 {
					break
				}
				j := strings.Index(b[i+1:], "@")
				if j < 0 {
					break
				}
				b = b[:i] + c.sidString(b[i+7:i+1+j], "dec") + b[i+2+j:]
			}
			body = strings.NewReader(b)
		}
		basicDefault := "none"
		if st.Op == "private" {
			basicDefault = "correct"
		}
		path := c.expandPath(st.Path)
		if st.Bg != "" {
			// request kept in flight: returns once the response header arrived or
			// after `ms` (default 100); read the rest with `collect`
			g := c.startGetGeneric(st, method, path, body, basicDefault)
			c.bg[st.Bg] = g
			ms := st.Ms
			if ms <= 0 {
				ms = 100
			}
			headSeen := false
			select {
			case <-g.head:
				headSeen = true
			case <-time.After(time.Duration(ms) * time.Millisecond):
			}
			g.mu.Lock()
			r.Status, r.Hdr, r.Err = g.status, g.hdr, g.err
			g.mu.Unlock()
			r.Extra = map[string]interface{}{"path": path, "headSeen": headSeen}
			return
		}
		if st.Ms > 0 {
			// streaming read (e.g. a GET that might turn out to be a long poll)
			st2 := st
			st2.Path = st.Path
			g := c.startGetGeneric(st2, method, path, body, basicDefault)
			g.wait(st.Ms, st.Until, r)
			g.cancel()
			select {
			case <-g.done:
			case <-time.After(2 * time.Second):
			}
			return
		}
		req := c.newRequest(ctx, st, method, path, body, "none", basicDefault)
		c.do(req, r)

	case "config":
		// What robustirc-config does: GET /config for the revision, POST it back.
		get := c.newRequest(ctx, rigStep{}, "GET", "/config", nil, "none", "correct")
		resp, err := c.client.Do(get)
		if err != nil {
			r.Err = err.Error()
			return
		}
		io.Copy(ioutil.Discard, resp.Body)
		resp.Body.Close()
		rev := resp.Header.Get("X-RobustIRC-Config-Revision")
		if st.Headers == nil {
			st.Headers = map[string]string{}
		}
		if _, ok := st.Headers["X-RobustIRC-Config-Revision"]; !ok {
			st.Headers["X-RobustIRC-Config-Revision"] = rev
		}
		req := c.newRequest(ctx, st, "POST", "/config", strings.NewReader(st.Toml), "none", "correct")
		c.do(req, r)
		if r.Extra == nil {
			r.Extra = map[string]interface{}{}
		}
		r.Extra["revisionBefore"] = rev

	case "snapshot":
		c.snapshot(st, r)

	case "apply":
		c.rawApply(st, r)

	case "expire":
		// What main()'s ticker does on the leader.
		n := 0
		for _, msg := range ircServer.ExpireSessions() {
			if err := c.n.api.ApplyMessageWait(msg, 10*time.Second); err != nil {
				r.Err = err.Error()
			}
			n++
		}
		r.Extra = map[string]interface{}{"expired": n}

	case "probe":
		// pre/post probes are attached by exec(); nothing else to do.

	case "sleep":
		time.Sleep(time.Duration(st.Ms) * time.Millisecond)

	default:
		// Steps added by other engines in their own files (steps_*.go) register
		// themselves in rigExtraSteps from an init() function.
		if f, ok := rigExtraSteps[st.Op]; ok {
			f(c, st, r)
			return
		}
		panic("unknown op " + st.Op)
	}
}

// rigExtraSteps: additional step types, keyed by op (see steps_c15c16.go).
var rigExtraSteps = map[string]func(c *rigChild, st rigStep, r *rigResult){}

func (c *rigChild) startGetGeneric(st rigStep, method, path string, body io.Reader, basicDefault string) *rigBgGet {
	ctx, cancel := context.WithCancel(context.Background())
	g := &rigBgGet{cancel: cancel, done: make(chan struct{}), head: make(chan struct{})}
	req := c.newRequest(ctx, st, method, path, body, "none", basicDefault)
	go func() {
		defer close(g.done)
		resp, err := c.client.Do(req)
		if err != nil {
			g.mu.Lock()
			g.err = err.Error()
			g.mu.Unlock()
			close(g.head)
			return
		}
		defer resp.Body.Close()
		tmp := &rigResult{}
		c.fillResponse(resp, tmp)
		g.mu.Lock()
		g.status, g.hdr = tmp.Status, tmp.Hdr
		g.mu.Unlock()
		close(g.head)
		ct := resp.Header.Get("Content-Type")
		if resp.StatusCode != 200 || !strings.HasPrefix(ct, "text/plain") {
			b, _ := ioutil.ReadAll(io.LimitReader(resp.Body, 300))
			g.mu.Lock()
			g.body = string(b)
			g.mu.Unlock()
			return
		}
		sc := bufio.NewScanner(resp.Body)
		sc.Buffer(make([]byte, 0, 64*1024), 4<<20)
		for sc.Scan() {
			var m robust.Message
			g.mu.Lock()
			if err := json.Unmarshal(sc.Bytes(), &m); err != nil || (m.Type != robust.IRCToClient && m.Type != robust.Ping) {
				if len(g.body) < 300 {
					g.body += sc.Text() + "\n"
				}
			} else if m.Type == robust.Ping {
				g.pings++
			} else {
				g.lines = append(g.lines, rigLine{Id: rigSmall(m.Id.Id), Reply: m.Id.Reply, Type: int64(m.Type), Data: m.Data})
			}
			g.mu.Unlock()
		}
	}()
	return g
}

func (c *rigChild) snapshot(st rigStep, r *rigResult) {
	fold := st.Fold
	if fold == "" {
		fold = "allButLast"
	}
	exp := c.n.fsm.sessionExpiration()
	if exp == 0 {
		exp = 10 * time.Minute
	}
	exp += expireSessionsInterval
	switch fold {
	case "real":
		*canaryCompactionStart = 0
	case "all":
		*canaryCompactionStart = time.Now().Add(24 * time.Hour).UnixNano()
	case "none":
		*canaryCompactionStart = 1
	case "allButLast":
		last, err := ircStore.LastIndex()
		if err != nil || last == 0 {
			*canaryCompactionStart = 1
			break
		}
		var l raft.Log
		if err := ircStore.GetLog(last, &l); err != nil {
			r.Err = fmt.Sprintf("GetLog(%d): %v", last, err)
			return
		}
		m := robust.NewMessageFromBytes(l.Data, robust.IdFromRaftIndex(l.Index))
		*canaryCompactionStart = m.Timestamp().Add(-1 * time.Nanosecond).Add(exp).UnixNano()
	default:
		panic("unknown fold " + fold)
	}
	before, _ := c.n.fss.List()
	if st.Via == "http" {
		req := c.newRequest(context.Background(), st, "GET", "/snapshot", nil, "none", "correct")
		c.do(req, r)
		deadline := time.Now().Add(20 * time.Second)
		for time.Now().Before(deadline) {
			after, _ := c.n.fss.List()
			if len(after) > 0 && (len(before) == 0 || after[0].ID != before[0].ID) {
				break
			}
			time.Sleep(5 * time.Millisecond)
		}
	} else {
		f := node.Snapshot()
		if err := f.Error(); err != nil {
			r.Err = "snapshot: " + err.Error()
		}
	}
	after, _ := c.n.fss.List()
	r.Extra = map[string]interface{}{"fold": fold, "snapshotsBefore": len(before), "snapshotsAfter": len(after)}
	if len(after) > 0 {
		r.Extra["snapshotIndex"] = after[0].Index
	}
	first, _ := ircStore.FirstIndex()
	last, _ := ircStore.LastIndex()
	r.Extra["ircFirst"] = first
	r.Extra["ircLast"] = last
	*canaryCompactionStart = 0
}

var rigTypes = map[string]robust.Type{
	"create_session":   robust.CreateSession,
	"delete_session":   robust.DeleteSession,
	"irc_from_client":  robust.IRCFromClient,
	"message_of_death": robust.MessageOfDeath,
	"config":           robust.Config,
}

// rawApply proposes an arbitrary robust.Message through the real raft node,
// encoded exactly like api.applyMessageWait does.
func (c *rigChild) rawApply(st rigStep, r *rigResult) {
	typ, ok := rigTypes[st.Type]
	if !ok {
		panic("apply: unknown type " + st.Type)
	}
	msg := &robust.Message{
		Type:       typ,
		Data:       st.Data,
		Revision:   st.Revision,
		RemoteAddr: st.Remote,
		UnixNano:   time.Now().UnixNano() + st.ClockMs*int64(time.Millisecond),
	}
	if st.Session != "" {
		switch st.Sid {
		case "never":
			msg.Session = robust.Id{Id: robust.MessageOffset + 1}
		case "notyet":
			msg.Session = robust.Id{Id: robust.MessageOffset + 1000000}
		default:
			msg.Session = robust.Id{Id: c.sess(st.Session).Id}
		}
	}
	if st.Cmid != nil {
		msg.ClientMessageId = *st.Cmid
	}
	var msgbytes []byte
	var err error
	if *useProtobuf {
		msgbytes, err = proto.Marshal(msg.ProtoMessage())
		msgbytes = append([]byte{'p'}, msgbytes...)
	} else {
		msgbytes, err = json.Marshal(msg)
	}
	if err != nil {
		r.Err = err.Error()
		return
	}
	f := node.Apply(msgbytes, 10*time.Second)
	if err := f.Error(); err != nil {
		r.Err = "raft: " + err.Error()
		return
	}
	r.Extra = map[string]interface{}{"index": f.Index()}
	if err, ok := f.Response().(error); ok {
		r.Extra["fsmError"] = err.Error()
	}
	if typ == robust.CreateSession && st.As != "" {
		c.state.Sessions[st.As] = &rigClientSess{Id: robust.IdFromRaftIndex(f.Index()), Auth: st.Data}
		c.saveState()
	}
	r.Status = 0
}
