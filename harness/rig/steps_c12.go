package main

// Step type "irchist" of the single-node rig (C12, HTTP level; also used by C04/C17 as attached evidence).
//
// A state-aware random history (the generator of harness/irc, the same one the IRC engine runs against
// the bare state machine) is executed through the REAL HTTP API of a real single-node network:
// POST /session, POST /<sid>/message (optionally through a trusted bridge with X-Forwarded-For),
// DELETE /<sid>, POST /config.  Every session keeps a real long poll GET /<sid>/messages open from its
// creation, some are cancelled and resumed with lastseen=<last line received>.
//
// Output (ND-JSON, c.dir/irctrace.ndjson), validated by TLC with IRCTrace.tla:
//   * one "step" record per applied entry, in exactly the format of the IRC engine (entry as it was
//     APPLIED - read back from the irclog -, projected post-state of the live server, projected replies
//     read from the live output stream, lookup classification), so that every predicate of IRCProps and
//     the conformance with IRC.tla's Step are evaluated on the complete node, not only on the bare
//     state machine;  plus "rawout": [rid, crc, recipients] of every message of the batch;
//   * one "streams" record at the end: what every session's long poll(s) delivered
//     ([entry id, reply id, crc of the line]), and whether the session is still alive.
//     Predicate (IRCTrace.tla, StreamIsEntitledReplies): the stream of a live session is exactly the
//     sequence of messages addressed to it; the stream of an ended session is a prefix of that.

import (
	"bufio"
	"encoding/json"
	"flag"
	"fmt"
	"hash/crc32"
	"math/rand"
	"os"
	"path/filepath"
	"sort"
	"time"

	"github.com/hashicorp/raft"
	"github.com/robustirc/robustirc/internal/outputstream"
	"github.com/robustirc/robustirc/internal/robust"
)

func init() {
	if os.Getenv("VERIF_RIG_OFFSET0") == "1" {
		// ids = raft indexes: small enough for TLC's integers and for the model's robust/0x.. hosts
		flag.Set("robustirc_message_offset", "0")
	}
	rigExtraSteps["irchist"] = c12History
}

type c12Params struct {
	Seed   int64 `json:"seed"`
	Len    int   `json:"len"`
	Wild   int   `json:"wild"`
	H      int   `json:"h"`
	Resume int   `json:"resume"` // every n-th step one long poll is cancelled and resumed (0: never)
}

type c12Raw struct {
	Rid int64   `json:"rid"`
	Crc int64   `json:"crc"`
	To  []int64 `json:"to"`
}

type c12Stream struct {
	Sid    int64     `json:"sid"`
	Live   bool      `json:"live"`
	Polls  int       `json:"polls"`
	Got    [][]int64 `json:"got"`
	Ended  bool      `json:"ended"`  // the last long poll was ended by the server
	Status int       `json:"status"` // HTTP status of the last long poll
	Note   string    `json:"note"`
}

type c12Rec struct {
	vRecord
	RawOut  []c12Raw    `json:"rawout"`
	Streams []c12Stream `json:"streams"`
	// HTTP lookups: [kind, status]; kind 1 = GET .../messages for an id NEWER than anything applied (a lagging
	// node must answer "not yet seen", never 404 "no such session"), kind 2 = for an ended session
	HTTPLk [][]int64 `json:"httplk"`
}

type c12Enc struct {
	e *json.Encoder
	w *bufio.Writer
}

func (x c12Enc) Encode(v interface{}) error {
	err := x.e.Encode(v)
	x.w.Flush()
	return err
}

type c12Sess struct {
	alias string
	id    uint64
	poll  *rigBgGet
	got   [][]int64
	polls int
	want  int
	note  string
}

// ended reports whether the server ended the current long poll (a bridge reconnects then).
func (s *c12Sess) ended() bool {
	if s.poll == nil {
		return false
	}
	select {
	case <-s.poll.done:
		return true
	default:
		return false
	}
}

func c12Crc(s string) int64 { return int64(crc32.ChecksumIEEE([]byte(s)) & 0x3fffffff) }

// lines a poll has received so far
func (s *c12Sess) drain() [][]int64 {
	if s.poll == nil {
		return nil
	}
	s.poll.mu.Lock()
	defer s.poll.mu.Unlock()
	var res [][]int64
	for _, l := range s.poll.lines {
		if l.Id < 0 {
			continue // the rest of a line that was cut off when the poll was cancelled: not received
		}
		res = append(res, []int64{l.Id, int64(l.Reply), c12Crc(l.Data)})
	}
	return res
}

func c12TypeName(t robust.Type) string {
	switch t {
	case robust.CreateSession:
		return "create"
	case robust.DeleteSession:
		return "delete"
	case robust.IRCFromClient:
		return "line"
	case robust.Config:
		return "config"
	case robust.MessageOfDeath:
		return "mod"
	}
	return "other"
}

func c12History(c *rigChild, st rigStep, r *rigResult) {
	var p c12Params
	if err := json.Unmarshal(st.Tag, &p); err != nil {
		r.Err = "irchist: bad tag: " + err.Error()
		return
	}
	f, err := os.OpenFile(filepath.Join(c.dir, "irctrace.ndjson"), os.O_CREATE|os.O_WRONLY|os.O_APPEND, 0644)
	if err != nil {
		r.Err = "irchist: " + err.Error()
		return
	}
	defer f.Close()
	w := bufio.NewWriterSize(f, 1<<20)
	defer w.Flush()
	jenc := json.NewEncoder(w)
	enc := c12Enc{jenc, w} // flushed after every record: the node may die in the middle of a history
	pending := filepath.Join(c.dir, "irchist.pending")

	rng := rand.New(rand.NewSource(p.Seed))
	g := &vGen{r: rng, ts: time.Now().Unix(), length: p.Len, wild: p.Wild, realtime: true}
	sessions := map[uint64]*c12Sess{}
	var order []uint64
	exists := func(proj map[string]interface{}, id uint64) bool {
		for _, x := range proj["ss"].([]interface{}) {
			m := x.(map[string]interface{})
			if uint64(m["id"].(int64)) == id && m["rid"].(int) == 0 {
				return true
			}
		}
		return false
	}
	openPoll := func(s *c12Sess, lastseen string) {
		s.poll = c.startGet(rigStep{Session: s.alias, Lastseen: lastseen})
		s.polls++
		select {
		case <-s.poll.head:
		case <-time.After(5 * time.Second):
		}
	}

	// what a bridge does when the server ends its long poll although the session is alive: reconnect
	// with the id of the last line it has
	reconnect := func(s *c12Sess) {
		s.got = append(s.got, s.drain()...)
		last := "0.0"
		if n := len(s.got); n > 0 {
			last = fmt.Sprintf("%d.%d", s.got[n-1][0], s.got[n-1][1])
		}
		s.poll.mu.Lock()
		s.note += fmt.Sprintf("poll %d ended by the server (status %d %s %q) after %d lines; ", s.polls, s.poll.status, s.poll.err, s.poll.body, len(s.got))
		s.poll.mu.Unlock()
		openPoll(s, last)
	}
	caughtUp := func(s *c12Sess, d time.Duration) {
		for dl := time.Now().Add(d); len(s.got)+len(s.drain()) < s.want && time.Now().Before(dl); {
			if s.ended() && s.polls < 12 {
				reconnect(s)
			}
			time.Sleep(time.Millisecond)
		}
	}

	pre := ircServer.VerifProject()
	enc.Encode(&c12Rec{vRecord: vRecord{K: "reset", H: p.H, Post: pre, Out: []vReply{}, Lookup: [][]interface{}{}}, RawOut: []c12Raw{}, Streams: []c12Stream{}, HTTPLk: [][]int64{}})
	nrec, refused, resumed := 0, 0, 0
	kinds := map[string]int{}
	for step := 1; step <= p.Len; step++ {
		before := node.LastIndex()
		g.id = int64(before)
		g.ts = time.Now().Unix()
		e := g.next(step, pre)
		if e == nil {
			break
		}
		rr := &rigResult{}
		// what is about to be sent (if the node dies while applying it, this is the entry that killed it)
		if pb, err := json.Marshal(map[string]interface{}{"step": step, "t": e.T, "sess": e.Sess, "data": e.Data, "addr": e.Addr}); err == nil {
			os.WriteFile(pending, pb, 0644)
		}
		switch e.T {
		case "create":
			alias := fmt.Sprintf("s%d", before+1)
			c.step(rigStep{Op: "create_session", As: alias}, rr)
			if cs, ok := c.state.Sessions[alias]; ok {
				s := &c12Sess{alias: alias, id: cs.Id}
				sessions[cs.Id] = s
				order = append(order, cs.Id)
				openPoll(s, "0.0")
			}
		case "line":
			s := sessions[uint64(e.Sess)]
			if s == nil {
				refused++
				continue
			}
			cmid := uint64(e.Cmid)
			sub := rigStep{Op: "post", Session: s.alias, Data: e.Data, Cmid: &cmid}
			if e.Addr != "" {
				sub.Headers = map[string]string{"X-Bridge-Auth": "bridgeauth", "X-Forwarded-For": e.Addr + ", 10.9.9.9"}
			}
			c.step(sub, rr)
		case "delete":
			s := sessions[uint64(e.Sess)]
			if s == nil {
				refused++
				continue
			}
			c.step(rigStep{Op: "delete", Session: s.alias, Quitmessage: e.Data}, rr)
		case "config":
			c.step(rigStep{Op: "config", Toml: e.Data}, rr)
		default:
			continue // messages of death cannot be produced through the API
		}
		after := node.LastIndex()
		for d := time.Now().Add(5 * time.Second); node.AppliedIndex() < after && time.Now().Before(d); {
			time.Sleep(200 * time.Microsecond)
		}
		if after == before {
			refused++ // refused by the API: nothing was proposed
			continue
		}
		if after != before+1 {
			r.Err = fmt.Sprintf("irchist: step %d (%s) produced %d raft entries", step, e.T, after-before)
			return
		}
		var rl raft.Log
		if err := ircStore.GetLog(after, &rl); err != nil {
			r.Err = fmt.Sprintf("irchist: irclog has no entry %d: %v", after, err)
			return
		}
		msg := robust.NewMessageFromBytes(rl.Data, robust.IdFromRaftIndex(after))
		ne := &vEntry{T: c12TypeName(msg.Type), Id: int64(msg.Id.Id), Sess: int64(msg.Session.Id), Ts: msg.UnixNano / int64(time.Second),
			Cmid: int64(msg.ClientMessageId), Addr: msg.RemoteAddr, Data: msg.Data, Rev: int64(msg.Revision),
			Sup: e.Sup && msg.Data == e.Data, Conf: e.Conf, CapOk: e.CapOk, Cfg: e.Cfg, CfgOk: e.CfgOk}
		if ne.T == "create" {
			ne.Sess = 0
		}
		if ne.T == "config" && e.Cfg != nil {
			cfg := map[string]interface{}{}
			for k, v := range e.Cfg {
				cfg[k] = v
			}
			cfg["rev"] = int64(msg.Revision)
			ne.Cfg = cfg
		}
		ne.fill()
		kinds[ne.T+":"+ne.Cmd]++
		msgs, _ := outputStream.Get(msg.Id)
		var om []outputstream.Message = msgs
		post := ircServer.VerifProject()
		rec := &c12Rec{vRecord: vRecord{K: "step", H: p.H, I: step, E: ne, Post: post, Out: vProjectReplies(om),
			Lines: vCheckLines(om), Rids: vCheckRids(om, ne.Id), Lookup: [][]interface{}{}}, RawOut: []c12Raw{}, Streams: []c12Stream{}, HTTPLk: [][]int64{}}
		for id := int64(0); id <= int64(after)+2; id++ {
			rec.Lookup = append(rec.Lookup, []interface{}{id, ircServer.VerifLookup(uint64(id))})
		}
		for _, m := range om {
			raw := c12Raw{Rid: int64(m.Id.Reply), Crc: c12Crc(m.Data), To: []int64{}}
			for id, ok := range m.InterestingFor {
				if ok {
					raw.To = append(raw.To, int64(id))
					if s := sessions[id]; s != nil {
						s.want++
					}
				}
			}
			sort.Slice(raw.To, func(a, b int) bool { return raw.To[a] < raw.To[b] })
			rec.RawOut = append(rec.RawOut, raw)
		}
		enc.Encode(rec)
		nrec++
		pre = post

		// cancel one long poll and resume it after the last line it delivered
		if p.Resume > 0 && step%p.Resume == 0 && len(order) > 0 {
			s := sessions[order[rng.Intn(len(order))]]
			if exists(post, s.id) && s.poll != nil {
				// let it catch up first sometimes, cut it off mid-way otherwise
				if rng.Intn(2) == 0 {
					caughtUp(s, 2*time.Second)
				}
				s.poll.cancel()
				select {
				case <-s.poll.done:
				case <-time.After(3 * time.Second):
				}
				s.got = append(s.got, s.drain()...)
				// a connection that dies loses what was in flight: forget up to 4 trailing lines, so that the
				// resume point also falls inside batches (lastseen=<id>.<reply> with more replies to come)
				if n := len(s.got); n > 0 && rng.Intn(2) == 0 {
					s.got = s.got[:n-1-rng.Intn(min(4, n))]
				}
				last := "0.0"
				if n := len(s.got); n > 0 {
					last = fmt.Sprintf("%d.%d", s.got[n-1][0], s.got[n-1][1])
				}
				openPoll(s, last)
				resumed++
			}
		}
	}

	lookups := [][]int64{{0, 0}}
	lookup := func(kind int64, alias, sid string) {
		rr := &rigResult{}
		c.step(rigStep{Op: "get", Session: alias, Sid: sid, Ms: 40}, rr)
		lookups = append(lookups, []int64{kind, int64(rr.Status)})
	}
	for _, id := range order {
		s := sessions[id]
		if exists(pre, id) {
			if len(lookups) < 4 {
				lookup(1, s.alias, "notyet")
			}
		} else if len(lookups) < 8 {
			lookup(2, s.alias, "")
		}
	}

	// final read of every stream
	final := &c12Rec{vRecord: vRecord{K: "streams", H: p.H, I: p.Len + 1, Post: pre, Out: []vReply{}, Lookup: [][]interface{}{}}, RawOut: []c12Raw{}, Streams: []c12Stream{}, HTTPLk: [][]int64{}}
	for _, id := range order {
		s := sessions[id]
		live := exists(pre, id)
		if live {
			caughtUp(s, 20*time.Second)
			if len(s.got)+len(s.drain()) < s.want && !s.ended() {
				// still short on an open connection: reconnect once more (as a bridge does after its
				// own read timeout) before calling the lines lost
				s.poll.cancel()
				select {
				case <-s.poll.done:
				case <-time.After(3 * time.Second):
				}
				reconnect(s)
				caughtUp(s, 10*time.Second)
			}
		} else if s.poll != nil {
			select {
			case <-s.poll.done:
			case <-time.After(2 * time.Second):
			}
		}
	}
	time.Sleep(40 * time.Millisecond) // anything that should NOT have been delivered gets its chance to arrive
	for _, id := range order {
		s := sessions[id]
		got := append(append([][]int64{}, s.got...), s.drain()...)
		if got == nil {
			got = [][]int64{}
		}
		st := c12Stream{Sid: int64(id), Live: exists(pre, id), Polls: s.polls, Got: got, Note: s.note}
		if s.poll != nil {
			st.Ended = s.ended()
			s.poll.mu.Lock()
			st.Status = s.poll.status
			s.poll.mu.Unlock()
			s.poll.cancel()
		}
		final.Streams = append(final.Streams, st)
	}
	final.HTTPLk = lookups
	enc.Encode(final)
	r.Status = 200
	r.Extra = map[string]interface{}{"records": nrec, "refused": refused, "resumed": resumed, "sessions": len(order), "kinds": kinds}
}
