package main

// Route-literal extraction for C11: every string literal of internal/api/*.go
// (and of the mux registration in package main) that is used as a request path
// or path suffix. A literal counts when
//   (a) it looks like an absolute path ("/…", only URL path characters), or
//   (b) it is compared (==, !=, switch case), prefix/suffix-tested
//       (strings.HasPrefix/HasSuffix/Contains/Index/TrimPrefix/TrimSuffix) or
//       sliced by len("…") against an expression that derives from the request
//       path (r.URL.Path, r.RequestURI, r.URL.…, or a local variable assigned
//       from one), or
//   (c) it is the pattern argument of (http|mux).HandleFunc/Handle.
// The check requires every extracted literal to be classified in ApiAuth.tla.

import (
	"encoding/json"
	"go/ast"
	"go/parser"
	"go/printer"
	"go/token"
	"io/ioutil"
	"os"
	"path/filepath"
	"regexp"
	"sort"
	"strconv"
	"strings"
	"testing"
)

type rigLiteral struct {
	Lit  string `json:"lit"`
	File string `json:"file"`
	Line int    `json:"line"`
	Ctx  string `json:"ctx"`
	// Under is the label of the innermost enclosing `case` of a switch over the
	// request method ("http.MethodGet", ...), "" if there is none.
	Under string `json:"under"`
	pos   token.Pos
}

var rigPathLike = regexp.MustCompile(`^/[A-Za-z0-9_./%~-]*$`)

func rigExprString(fset *token.FileSet, e ast.Expr) string {
	var sb strings.Builder
	printer.Fprint(&sb, fset, e)
	return sb.String()
}

func rigStrLit(e ast.Expr) (string, bool) {
	bl, ok := e.(*ast.BasicLit)
	if !ok || bl.Kind != token.STRING {
		return "", false
	}
	s, err := strconv.Unquote(bl.Value)
	if err != nil {
		return "", false
	}
	return s, true
}

func rigExtractFile(fset *token.FileSet, path string, rel string, muxOnly bool) (out []rigLiteral, err error) {
	f, err := parser.ParseFile(fset, path, nil, parser.ParseComments)
	if err != nil {
		return nil, err
	}
	for _, cg := range f.Comments {
		if cg.Pos() < f.Package && (strings.Contains(cg.Text(), "+build ignore") || strings.Contains(cg.Text(), "go:build ignore")) {
			return nil, nil
		}
	}
	type methodClause struct {
		from, to token.Pos
		label    string
	}
	var clauses []methodClause
	ast.Inspect(f, func(n ast.Node) bool {
		sw, ok := n.(*ast.SwitchStmt)
		if !ok || sw.Tag == nil || !strings.Contains(rigExprString(fset, sw.Tag), "Method") {
			return true
		}
		for _, cc := range sw.Body.List {
			c := cc.(*ast.CaseClause)
			var labels []string
			for _, e := range c.List {
				labels = append(labels, rigExprString(fset, e))
			}
			clauses = append(clauses, methodClause{c.Pos(), c.End(), strings.Join(labels, ",")})
		}
		return true
	})
	under := func(pos token.Pos) string {
		best := ""
		var bestLen token.Pos = -1
		for _, c := range clauses {
			if c.from <= pos && pos < c.to && (bestLen < 0 || c.to-c.from < bestLen) {
				best, bestLen = c.label, c.to-c.from
			}
		}
		return best
	}
	defer func() {
		for i := range out {
			out[i].Under = under(out[i].pos)
		}
	}()
	add := func(e ast.Expr, ctx string) {
		if s, ok := rigStrLit(e); ok {
			out = append(out, rigLiteral{Lit: s, File: rel, Line: fset.Position(e.Pos()).Line, Ctx: ctx, pos: e.Pos()})
		}
	}
	pathSrc := regexp.MustCompile(`\bURL\b|RequestURI|\.Path\b`)
	for _, decl := range f.Decls {
		fn, ok := decl.(*ast.FuncDecl)
		if !ok || fn.Body == nil {
			continue
		}
		tainted := map[string]bool{}
		derives := func(e ast.Expr) bool {
			s := rigExprString(fset, e)
			if pathSrc.MatchString(s) {
				return true
			}
			found := false
			ast.Inspect(e, func(n ast.Node) bool {
				if id, ok := n.(*ast.Ident); ok && tainted[id.Name] {
					found = true
				}
				return !found
			})
			return found
		}
		// two passes so that taint flows through chains of assignments
		for pass := 0; pass < 3; pass++ {
			ast.Inspect(fn.Body, func(n ast.Node) bool {
				as, ok := n.(*ast.AssignStmt)
				if !ok {
					return true
				}
				for i, rhs := range as.Rhs {
					if i < len(as.Lhs) && derives(rhs) {
						if id, ok := as.Lhs[i].(*ast.Ident); ok {
							tainted[id.Name] = true
						}
					}
				}
				return true
			})
		}
		ast.Inspect(fn.Body, func(n ast.Node) bool {
			switch x := n.(type) {
			case *ast.BasicLit:
				if muxOnly {
					return true
				}
				if s, ok := rigStrLit(x); ok && rigPathLike.MatchString(s) {
					out = append(out, rigLiteral{Lit: s, File: rel, Line: fset.Position(x.Pos()).Line, Ctx: "pathlike", pos: x.Pos()})
				}
			case *ast.BinaryExpr:
				if muxOnly {
					return true
				}
				if x.Op == token.EQL || x.Op == token.NEQ {
					if derives(x.X) {
						add(x.Y, "compare")
					}
					if derives(x.Y) {
						add(x.X, "compare")
					}
				}
			case *ast.SwitchStmt:
				if muxOnly {
					return true
				}
				if x.Tag != nil && derives(x.Tag) {
					for _, cc := range x.Body.List {
						for _, e := range cc.(*ast.CaseClause).List {
							add(e, "case")
						}
					}
				}
			case *ast.CallExpr:
				fun := rigExprString(fset, x.Fun)
				if strings.HasSuffix(fun, ".HandleFunc") || strings.HasSuffix(fun, ".Handle") {
					if len(x.Args) > 0 {
						add(x.Args[0], "mux")
					}
				}
				if muxOnly {
					return true
				}
				if strings.HasPrefix(fun, "strings.") && len(x.Args) >= 2 && derives(x.Args[0]) {
					for _, a := range x.Args[1:] {
						add(a, fun)
					}
				}
				if fun == "len" && len(x.Args) == 1 {
					// len("literal") used to slice a path
					if s, ok := rigStrLit(x.Args[0]); ok && (strings.Contains(s, "/") || rigPathLike.MatchString(s)) {
						out = append(out, rigLiteral{Lit: s, File: rel, Line: fset.Position(x.Pos()).Line, Ctx: "len", pos: x.Pos()})
					}
				}
			}
			return true
		})
	}
	return out, nil
}

// TestVerifRigExtract writes the literals found below $VERIF_RIG_REPO to
// $VERIF_RIG_EXTRACT_OUT as JSON.
func TestVerifRigExtract(t *testing.T) {
	repo := os.Getenv("VERIF_RIG_REPO")
	outPath := os.Getenv("VERIF_RIG_EXTRACT_OUT")
	if repo == "" || outPath == "" {
		t.Skip("VERIF_RIG_REPO / VERIF_RIG_EXTRACT_OUT not set")
	}
	fset := token.NewFileSet()
	var all []rigLiteral
	apiFiles, err := filepath.Glob(filepath.Join(repo, "internal", "api", "*.go"))
	if err != nil || len(apiFiles) == 0 {
		t.Fatalf("no files in internal/api: %v", err)
	}
	nfiles := 0
	for _, p := range apiFiles {
		if strings.HasSuffix(p, "_test.go") {
			continue
		}
		lits, err := rigExtractFile(fset, p, "internal/api/"+filepath.Base(p), false)
		if err != nil {
			t.Fatalf("%s: %v", p, err)
		}
		nfiles++
		all = append(all, lits...)
	}
	mainFiles, _ := filepath.Glob(filepath.Join(repo, "*.go"))
	for _, p := range mainFiles {
		if strings.HasSuffix(p, "_test.go") {
			continue
		}
		lits, err := rigExtractFile(fset, p, filepath.Base(p), true)
		if err != nil {
			t.Fatalf("%s: %v", p, err)
		}
		nfiles++
		all = append(all, lits...)
	}
	sort.Slice(all, func(a, b int) bool {
		if all[a].File != all[b].File {
			return all[a].File < all[b].File
		}
		if all[a].Line != all[b].Line {
			return all[a].Line < all[b].Line
		}
		return all[a].Ctx < all[b].Ctx
	})
	b, _ := json.MarshalIndent(map[string]interface{}{"files": nfiles, "literals": all}, "", " ")
	if err := ioutil.WriteFile(outPath, b, 0600); err != nil {
		t.Fatal(err)
	}
}
