package main

// Rig extensions for C16 (network configuration). Everything here is add-only:
//
//   step "cfgobs"      (live node) the config-related projection of the real node:
//                      GET /config through the real DispatchPrivate (status, revision
//                      header, full body), the real IRCServer.Config encoded the way
//                      handleGetConfig does it, FSM.sessionExpiration(), the answer of
//                      the real DispatchPublic to requests carrying an Origin header,
//                      IRCServer.TrustedBridge, the sessions (from Marshal) and the
//                      output lines produced by every raft entry since the previous
//                      cfgobs of this process lifetime.
//   step "cfgrepost"   (live node) what an operator does with robustirc-config: GET /config,
//                      POST the very same body back (revision header of the GET unless
//                      `headers` overrides it; the value "<omit>" sends no header).
//   step "cfgbattery"  (live node) the behaviour battery below, every message proposed
//                      through the real raft node.
//   replica hook       (observer process of step "replica") same projection + the same
//                      battery, fed to the replica's FSM with FSM.Apply. Acts only when
//                      the step's tag carries a key "cfgprobe".
//
// Parameters travel in the step's tag: {"cfgprobe": {"ops": [[name, password], ...],
// "svc": [password, ...], "addrs": [...], "origins": [...], "bridges": [secret, ...]}}.
//
// The battery creates throw-away sessions and deletes them again; it reports the
// raw reply lines, the caller classifies them.

import (
	"bytes"
	"context"
	"encoding/json"
	"fmt"
	"io"
	"io/ioutil"
	"sort"
	"strings"
	"time"

	"github.com/BurntSushi/toml"
	"github.com/golang/protobuf/proto"
	"github.com/hashicorp/raft"
	pb "github.com/robustirc/robustirc/internal/proto"
	"github.com/robustirc/robustirc/internal/robust"
)

type cfgCandidates struct {
	Ops     [][]string `json:"ops"`
	Svc     []string   `json:"svc"`
	Addrs   []string   `json:"addrs"`
	Origins []string   `json:"origins"`
	Bridges []string   `json:"bridges"`
	Battery bool       `json:"battery"`
}

func cfgParseTag(tag json.RawMessage) (*cfgCandidates, bool) {
	if len(tag) == 0 {
		return nil, false
	}
	var t struct {
		Cfgprobe *cfgCandidates `json:"cfgprobe"`
	}
	if err := json.Unmarshal(tag, &t); err != nil || t.Cfgprobe == nil {
		return nil, false
	}
	return t.Cfgprobe, true
}

// cfgProjection reads the real objects of this process.
func cfgProjection(fsm *FSM, cand *cfgCandidates) map[string]interface{} {
	out := map[string]interface{}{}
	var buf bytes.Buffer
	ircServer.ConfigMu.RLock()
	err := toml.NewEncoder(&buf).Encode(&ircServer.Config)
	out["rev"] = ircServer.Config.Revision
	out["bannedNil"] = ircServer.Config.Banned == nil
	ircServer.ConfigMu.RUnlock()
	if err != nil {
		out["tomlErr"] = err.Error()
	}
	out["toml"] = buf.String()
	out["fsmExpNs"] = int64(fsm.sessionExpiration())
	orig := map[string]bool{}
	br := map[string]string{}
	if cand != nil {
		for _, o := range cand.Origins {
			orig[o] = ircServer.OriginWhitelisted(o)
		}
		for _, b := range cand.Bridges {
			br[b] = ircServer.TrustedBridge(b)
		}
	}
	out["originWhitelisted"] = orig
	out["trustedBridge"] = br
	// IRCServer.Banned is what ProcessMessage asks when a session's address changes
	ban := map[string]string{}
	if cand != nil {
		for _, a := range cand.Addrs {
			ban[a] = ircServer.Banned(a)
		}
	}
	out["bannedFn"] = ban
	snap, err := rigCanonicalState(ircServer)
	if err != nil {
		out["marshalErr"] = err.Error()
		return out
	}
	out["nSessions"] = len(snap.Sessions)
	out["nChannels"] = len(snap.Channels)
	if snap.Config != nil {
		out["marshalRev"] = snap.Config.Revision
		keys := make([]string, 0, len(snap.Config.Banned))
		for k := range snap.Config.Banned {
			keys = append(keys, k)
		}
		sort.Strings(keys)
		out["marshalBanned"] = keys
	}
	var ss []map[string]interface{}
	for _, s := range snap.Sessions {
		ss = append(ss, map[string]interface{}{
			"sid": rigSmall(s.Id.Id), "nick": s.Nick, "loggedIn": s.LoggedIn == pb.Bool_TRUE,
			"oper": s.Operator, "addr": s.RemoteAddr, "channels": s.Channels, "server": s.Server,
		})
	}
	out["sessions"] = ss
	return out
}

// ------------------------------------------------------------------- battery

type cfgApplyFn func(typ robust.Type, session uint64, data, remote string) (id uint64, fsmErr string, err error)

func cfgEncode(msg *robust.Message) ([]byte, error) {
	if *useProtobuf {
		b, err := proto.Marshal(msg.ProtoMessage())
		return append([]byte{'p'}, b...), err
	}
	return json.Marshal(msg)
}

func cfgOutLines(id uint64) []string {
	msgs, ok := outputStream.Get(robust.Id{Id: id})
	if !ok {
		return nil
	}
	var lines []string
	for _, m := range msgs {
		lines = append(lines, m.Data)
	}
	return lines
}

type cfgBatteryRun struct {
	apply cfgApplyFn
	steps []map[string]interface{}
	seq   int
	cmid  uint64
	err   string
}

func (b *cfgBatteryRun) rec(what string, kv ...interface{}) map[string]interface{} {
	m := map[string]interface{}{"what": what}
	for i := 0; i+1 < len(kv); i += 2 {
		m[kv[i].(string)] = kv[i+1]
	}
	b.steps = append(b.steps, m)
	return m
}

// create returns the new session id or 0.
func (b *cfgBatteryRun) create(what string) uint64 {
	b.seq++
	auth := fmt.Sprintf("cfgbattery-auth-%04d-%s", b.seq, strings.Repeat("x", 16))
	id, fe, err := b.apply(robust.CreateSession, 0, auth, "")
	if err != nil {
		b.err = err.Error()
		b.rec(what, "err", err.Error())
		return 0
	}
	if fe != "" {
		b.rec(what, "created", false, "fsmError", fe)
		return 0
	}
	if _, gerr := ircServer.GetSession(robust.Id{Id: id}); gerr != nil {
		b.rec(what, "created", false, "fsmError", "session missing: "+gerr.Error())
		return 0
	}
	b.rec(what, "created", true, "auth", auth)
	return id
}

func (b *cfgBatteryRun) send(what string, session uint64, data, remote string) []string {
	b.cmid++
	id, fe, err := b.applyCmid(session, data, remote)
	if err != nil {
		b.err = err.Error()
		b.rec(what, "data", data, "err", err.Error())
		return nil
	}
	lines := cfgOutLines(id)
	_, gerr := ircServer.GetSession(robust.Id{Id: session})
	m := b.rec(what, "data", data, "lines", lines, "alive", gerr == nil)
	if remote != "" {
		m["remote"] = remote
	}
	if fe != "" {
		m["fsmError"] = fe
	}
	return lines
}

func (b *cfgBatteryRun) applyCmid(session uint64, data, remote string) (uint64, string, error) {
	return b.apply(robust.IRCFromClient, session, data, remote)
}

func (b *cfgBatteryRun) drop(session uint64) {
	if _, err := ircServer.GetSession(robust.Id{Id: session}); err != nil {
		return
	}
	b.apply(robust.DeleteSession, session, "cfgbattery done", "")
}

func cfgHas(lines []string, sub string) bool {
	for _, l := range lines {
		if strings.Contains(l, sub) {
			return true
		}
	}
	return false
}

const cfgNeutralAddr = "192.0.2.250"

func (b *cfgBatteryRun) login(tag string) (uint64, bool) {
	p := b.create("create:" + tag)
	if p == 0 {
		return 0, false
	}
	nick := fmt.Sprintf("zzp%d", b.seq)
	b.send("nick:"+tag, p, "NICK "+nick, cfgNeutralAddr)
	lines := b.send("user:"+tag, p, "USER "+nick+" 0 * :"+nick, cfgNeutralAddr)
	return p, cfgHas(lines, " 001 ")
}

func cfgBattery(apply cfgApplyFn, cand *cfgCandidates) map[string]interface{} {
	b := &cfgBatteryRun{apply: apply, cmid: 7000}
	out := map[string]interface{}{"nSessionsBefore": ircServer.NumSessions()}
	func() {
		defer func() {
			if x := recover(); x != nil {
				b.err = fmt.Sprintf("panic in battery: %v", x)
			}
		}()
		p, in := b.login("main")
		if p != 0 && in {
			for k, op := range cand.Ops {
				if len(op) == 2 {
					b.send(fmt.Sprintf("oper:%d", k), p, "OPER "+op[0]+" "+op[1], "")
				}
			}
			for k := 1; k <= 4; k++ {
				lines := b.send(fmt.Sprintf("join:%d", k), p, fmt.Sprintf("JOIN #zzb%d", k), "")
				if !cfgHas(lines, " JOIN ") {
					break
				}
				if k == 1 {
					b.send("modex", p, "MODE #zzb1 +x", "")
				}
			}
			for k, addr := range cand.Addrs {
				if p == 0 {
					break
				}
				b.send(fmt.Sprintf("addr:%d", k), p, "PING :cfgbattery", addr)
				if _, err := ircServer.GetSession(robust.Id{Id: p}); err != nil {
					p = 0
					if k+1 < len(cand.Addrs) {
						p, in = b.login(fmt.Sprintf("again%d", k))
						if !in && p != 0 {
							b.drop(p)
							p = 0
						}
					}
				}
			}
		}
		if p != 0 {
			b.drop(p)
		}
		for k, pw := range cand.Svc {
			s := b.create(fmt.Sprintf("create:svc%d", k))
			if s == 0 {
				break
			}
			b.send(fmt.Sprintf("svcpass:%d", k), s, "PASS services="+pw, cfgNeutralAddr)
			b.send(fmt.Sprintf("svc:%d", k), s, fmt.Sprintf("SERVER services%d.zz 1 :cfgbattery", k), cfgNeutralAddr)
			isServer := false
			if sess, err := ircServer.GetSession(robust.Id{Id: s}); err == nil {
				isServer = sess.Server
			}
			b.steps[len(b.steps)-1]["server"] = isServer
			b.drop(s)
		}
	}()
	out["steps"] = b.steps
	out["nSessionsAfter"] = ircServer.NumSessions()
	if b.err != "" {
		out["err"] = b.err
	}
	return out
}

// ---------------------------------------------------------- replica observer

func init() {
	rigReplicaHooks = append(rigReplicaHooks, func(mode string, fsm *FSM, res *rigResult) {
		cand, ok := cfgParseTag(res.Tag)
		if !ok {
			return
		}
		defer func() {
			if x := recover(); x != nil {
				res.Extra["cfgErr"] = fmt.Sprintf("panic in cfg hook: %v", x)
			}
		}()
		res.Extra["cfg"] = cfgProjection(fsm, cand)
		if !cand.Battery {
			return
		}
		next := uint64(0)
		if v, ok := res.Extra["logLast"].(uint64); ok {
			next = v
		}
		if v, ok := res.Extra["snapshotIndex"].(uint64); ok && v > next {
			next = v
		}
		apply := func(typ robust.Type, session uint64, data, remote string) (uint64, string, error) {
			next++
			msg := &robust.Message{Type: typ, Data: data, RemoteAddr: remote, UnixNano: time.Now().UnixNano()}
			if session != 0 {
				msg.Session = robust.Id{Id: session}
			}
			if typ == robust.IRCFromClient {
				msg.ClientMessageId = uint64(time.Now().UnixNano())
			}
			b, err := cfgEncode(msg)
			if err != nil {
				return 0, "", err
			}
			r := fsm.Apply(&raft.Log{Type: raft.LogCommand, Index: next, Term: 1, Data: b, AppendedAt: time.Now()})
			fe := ""
			if e, ok := r.(error); ok && e != nil {
				fe = e.Error()
			}
			return robust.IdFromRaftIndex(next), fe, nil
		}
		res.Extra["battery"] = cfgBattery(apply, cand)
		res.Extra["cfgAfterBattery"] = cfgProjection(fsm, cand)
	})
}

// ------------------------------------------------------------ live-node steps

var cfgLastObsIndex uint64

func cfgLiveApply(typ robust.Type, session uint64, data, remote string) (uint64, string, error) {
	msg := &robust.Message{Type: typ, Data: data, RemoteAddr: remote, UnixNano: time.Now().UnixNano()}
	if session != 0 {
		msg.Session = robust.Id{Id: session}
	}
	if typ == robust.IRCFromClient {
		msg.ClientMessageId = uint64(time.Now().UnixNano())
	}
	b, err := cfgEncode(msg)
	if err != nil {
		return 0, "", err
	}
	f := node.Apply(b, 10*time.Second)
	if err := f.Error(); err != nil {
		return 0, "", err
	}
	fe := ""
	if e, ok := f.Response().(error); ok && e != nil {
		fe = e.Error()
	}
	return robust.IdFromRaftIndex(f.Index()), fe, nil
}

func init() {
	rigExtraSteps["cfgobs"] = func(c *rigChild, st rigStep, r *rigResult) {
		cand, _ := cfgParseTag(st.Tag)
		if cand == nil {
			cand = &cfgCandidates{}
		}
		// GET /config through the real private dispatcher
		req := c.newRequest(context.Background(), rigStep{}, "GET", "/config", nil, "none", "correct")
		resp, err := c.client.Do(req)
		if err != nil {
			r.Err = "GET /config: " + err.Error()
			return
		}
		body, _ := ioutil.ReadAll(io.LimitReader(resp.Body, 1<<20))
		resp.Body.Close()
		c.fillResponse(resp, r)
		ex := map[string]interface{}{
			"getStatus": resp.StatusCode,
			"getRev":    resp.Header.Get("X-RobustIRC-Config-Revision"),
			"getBody":   string(body),
			"cfg":       cfgProjection(c.n.fsm, cand),
		}
		// Origin handling of the real public dispatcher
		cors := map[string]string{}
		for _, o := range cand.Origins {
			rq := c.newRequest(context.Background(), rigStep{Headers: map[string]string{"Origin": o}}, "GET",
				"/robustirc/v1/"+c.sidString("", "never")+"/messages", nil, "none", "none")
			rs, err := c.client.Do(rq)
			if err != nil {
				r.Err = "origin probe: " + err.Error()
				return
			}
			io.Copy(ioutil.Discard, io.LimitReader(rs.Body, 1<<16))
			rs.Body.Close()
			cors[o] = rs.Header.Get("Access-Control-Allow-Origin")
		}
		ex["cors"] = cors
		// output of the entries applied since the previous observation
		last := node.LastIndex()
		var outs []map[string]interface{}
		if cfgLastObsIndex > 0 && last-cfgLastObsIndex < 64 {
			for idx := cfgLastObsIndex + 1; idx <= last; idx++ {
				if lines := cfgOutLines(robust.IdFromRaftIndex(idx)); lines != nil {
					outs = append(outs, map[string]interface{}{"idx": idx, "lines": lines})
				}
			}
		}
		cfgLastObsIndex = last
		ex["outs"] = outs
		ex["raftLast"] = last
		r.Extra = ex
		r.Body = ""
	}

	rigExtraSteps["cfgrepost"] = func(c *rigChild, st rigStep, r *rigResult) {
		get := c.newRequest(context.Background(), rigStep{}, "GET", "/config", nil, "none", "correct")
		resp, err := c.client.Do(get)
		if err != nil {
			r.Err = "GET /config: " + err.Error()
			return
		}
		body, _ := ioutil.ReadAll(io.LimitReader(resp.Body, 1<<20))
		resp.Body.Close()
		rev := resp.Header.Get("X-RobustIRC-Config-Revision")
		if st.Headers == nil {
			st.Headers = map[string]string{}
		}
		if _, ok := st.Headers["X-RobustIRC-Config-Revision"]; !ok {
			st.Headers["X-RobustIRC-Config-Revision"] = rev
		}
		req := c.newRequest(context.Background(), st, "POST", "/config", bytes.NewReader(body), "none", "correct")
		if st.Headers["X-RobustIRC-Config-Revision"] == "<omit>" {
			req.Header.Del("X-RobustIRC-Config-Revision")
		}
		c.do(req, r)
		if r.Extra == nil {
			r.Extra = map[string]interface{}{}
		}
		r.Extra["revisionBefore"] = rev
		r.Extra["getStatus"] = resp.StatusCode
		r.Extra["repostLen"] = len(body)
	}

	rigExtraSteps["cfgbattery"] = func(c *rigChild, st rigStep, r *rigResult) {
		cand, _ := cfgParseTag(st.Tag)
		if cand == nil {
			cand = &cfgCandidates{}
		}
		r.Extra = map[string]interface{}{
			"cfg":     cfgProjection(c.n.fsm, cand),
			"battery": cfgBattery(cfgLiveApply, cand),
		}
		r.Extra["cfgAfterBattery"] = cfgProjection(c.n.fsm, cand)
		cfgLastObsIndex = node.LastIndex()
	}
}
