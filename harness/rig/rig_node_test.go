package main

// Single-node in-process rig, part 1: the node.
//
// rigStartNode builds exactly what main() builds (robustirc.go): the globals
// ircServer/outputStream/ircStore/node, a rafthttp transport, raft.NewRaft over
// the LevelDB log/stable store, raft.FileSnapshotStore, the real FSM and
// api.NewHTTP, and serves DispatchPublic/DispatchPrivate through an
// httptest.Server with the mux registrations of main() (rigHandler, generated
// from robustirc.go at check time). Differences
// to main(), all deliberate and documented in README.md:
//   * plain HTTP instead of TLS (tlsutil/http2 are not part of the property),
//   * raft heartbeat/election/lease timeouts are 50 ms unless real_timeouts,
//   * a restart re-opens the stores with errorIfExist=false and skips the
//     "only known peer is myself" guard and the time safeguard (a single-node
//     network cannot be restarted through main() at all),
//   * no expire-sessions ticker (there is an explicit step for it).

import (
	"context"
	"crypto/sha256"
	"encoding/json"
	"flag"
	"fmt"
	"log"
	"net/http/httptest"
	"os"
	"path/filepath"
	"sort"
	"sync"
	"time"

	"github.com/golang/protobuf/proto"
	"github.com/hashicorp/go-hclog"
	"github.com/hashicorp/go-metrics"
	metrics_prometheus "github.com/hashicorp/go-metrics/prometheus"
	"github.com/hashicorp/raft"
	"github.com/robustirc/internal/robusthttp"
	"github.com/robustirc/rafthttp"
	"github.com/robustirc/robustirc/internal/api"
	"github.com/robustirc/robustirc/internal/ircserver"
	"github.com/robustirc/robustirc/internal/outputstream"
	pb "github.com/robustirc/robustirc/internal/proto"
	"github.com/robustirc/robustirc/internal/raftstore"
	"github.com/robustirc/robustirc/internal/robust"
	"github.com/robustirc/robustirc/internal/timesafeguard"
	"github.com/stapelberg/glog"
)

const (
	rigNetwork  = "rig.example"
	rigPassword = "rig-Network-Passw0rd"
	rigPeerAddr = "rig-node.invalid:443"
)

type rigNode struct {
	fsm      *FSM
	logStore *raftstore.LevelDBStore
	fss      *raft.FileSnapshotStore
	api      *api.HTTP
	srv      *httptest.Server
	fresh    bool
}

var rigMetricsOnce sync.Once

func rigStartNode(dir string, opts rigOpts) (*rigNode, error) {
	n := &rigNode{}
	robust.MessageOffset = *messageOffset
	flag.Set("log_dir", dir)
	*raftDir = dir
	*network = rigNetwork
	*networkPassword = rigPassword
	*peerAddr = rigPeerAddr
	*useProtobuf = !opts.UseJSON
	if err := os.MkdirAll(*raftDir, 0700); err != nil {
		return nil, err
	}
	glog.CopyStandardLogTo("INFO")
	if err := outputstream.DeleteOldDatabases(*raftDir); err != nil {
		return nil, fmt.Errorf("DeleteOldDatabases: %v", err)
	}
	if err := deleteOldCompactionDatabases(*raftDir); err != nil {
		glog.Errorf("Could not delete old compaction databases: %v (ignoring)\n", err)
	}

	ircServer = ircserver.NewIRCServer(*network, time.Now())
	var err error
	outputStream, err = outputstream.NewOutputStream(*raftDir)
	if err != nil {
		return nil, fmt.Errorf("NewOutputStream: %v", err)
	}

	transport := rafthttp.NewHTTPTransport(
		raft.ServerAddress(*peerAddr),
		robusthttp.Client(*networkPassword, false),
		nil,
		"")

	config := raft.DefaultConfig()
	config.Logger = hclog.FromStandardLogger(
		log.New(glog.LogBridgeFor("INFO"), "", log.Lshortfile),
		hclog.DefaultOptions)

	fss, err := raft.NewFileSnapshotStoreWithLogger(*raftDir, 5, config.Logger)
	if err != nil {
		return nil, err
	}
	n.fss = fss
	config.SnapshotInterval = 300 * time.Second
	config.MaxAppendEntries = 1024
	if opts.RealTimeouts {
		config.LeaderLeaseTimeout = timesafeguard.ElectionTimeout
		config.HeartbeatTimeout = timesafeguard.ElectionTimeout
		config.ElectionTimeout = timesafeguard.ElectionTimeout
	} else {
		config.LeaderLeaseTimeout = 50 * time.Millisecond
		config.HeartbeatTimeout = 50 * time.Millisecond
		config.ElectionTimeout = 50 * time.Millisecond
	}
	config.ProtocolVersion = raft.ProtocolVersion(*raftProtocolVersion)
	config.LocalID = raft.ServerID(*peerAddr)

	rigMetricsOnce.Do(func() {
		sink, err := metrics_prometheus.NewPrometheusSink()
		if err == nil {
			metrics.NewGlobal(metrics.DefaultConfig("raftmetrics"), sink)
		}
	})

	_, statErr := os.Stat(filepath.Join(*raftDir, "raftlog"))
	n.fresh = os.IsNotExist(statErr)
	bootstrapping := n.fresh
	logStore, err := raftstore.NewLevelDBStore(filepath.Join(*raftDir, "raftlog"), bootstrapping, *useProtobuf)
	if err != nil {
		return nil, err
	}
	n.logStore = logStore
	ircStore, err = raftstore.NewLevelDBStore(filepath.Join(*raftDir, "irclog"), bootstrapping, *useProtobuf)
	if err != nil {
		return nil, err
	}
	fsm := &FSM{
		store:             logStore,
		ircstore:          ircStore,
		lastSnapshotState: make(map[uint64][]byte),
		ReplaceState: func(*ircserver.IRCServer, *raftstore.LevelDBStore, *outputstream.OutputStream) {
		},
	}
	n.fsm = fsm
	logcache, err := raft.NewLogCache(config.MaxAppendEntries, logStore)
	if err != nil {
		return nil, err
	}

	node, err = raft.NewRaft(config, fsm, logcache, logStore, fss, transport)
	if err != nil {
		return nil, fmt.Errorf("NewRaft: %v", err)
	}
	if n.fresh {
		if err := node.BootstrapCluster(raft.Configuration{
			Servers: []raft.Server{
				raft.Server{
					ID:      config.LocalID,
					Address: raft.ServerAddress(*peerAddr),
				},
			},
		}).Error(); err != nil {
			return nil, fmt.Errorf("BootstrapCluster: %v", err)
		}
	}

	n.api = api.NewHTTP(
		ircServer,
		node,
		ircStore,
		outputStream,
		transport,
		*network,
		*networkPassword,
		*raftDir,
		*peerAddr,
		*useProtobuf,
		*raftProtocolVersion)
	fsm.ReplaceState = n.api.ReplaceState
	// rigHandler is generated by checks/rig_common.py from the handler
	// registrations found in main() of the tree under test: the same patterns
	// on the same mux (main() registers on http.DefaultServeMux, which also
	// carries whatever package init()s registered there, e.g. net/http/pprof).
	n.srv = httptest.NewServer(rigHandler(n.api))

	deadline := time.Now().Add(60 * time.Second)
	for node.State() != raft.Leader {
		if time.Now().After(deadline) {
			return nil, fmt.Errorf("node did not become leader (state %v)", node.State())
		}
		time.Sleep(5 * time.Millisecond)
	}
	if err := node.Barrier(30 * time.Second).Error(); err != nil {
		return nil, fmt.Errorf("Barrier: %v", err)
	}
	return n, nil
}

func (n *rigNode) shutdown() {
	n.srv.CloseClientConnections()
	n.srv.Close()
	if err := node.Shutdown().Error(); err != nil {
		log.Printf("rig: raft shutdown: %v", err)
	}
	if err := n.logStore.Close(); err != nil {
		log.Printf("rig: logStore close: %v", err)
	}
	if err := ircStore.Close(); err != nil {
		log.Printf("rig: ircStore close: %v", err)
	}
	// The output stream is deliberately NOT closed (main() never closes it
	// either; the next start deletes old databases): server-side getMessages
	// goroutines of cancelled long polls may still be inside GetNext, which
	// panics (log.Panicf) on a closed database.
	outputStream.InterruptGetNext()
	glog.Flush()
}

// ---------------------------------------------------------------- projection

type rigSessProj struct {
	Alias     string   `json:"alias,omitempty"`
	Sid       int64    `json:"sid"`
	Exists    string   `json:"exists"` // ok | nosuch | notyet
	Nick      string   `json:"nick"`
	LoggedIn  bool     `json:"loggedIn"`
	LastCmid  uint64   `json:"lastCmid"`    // ircServer.LastPostMessage (what the POST handler reads)
	SnapCmid  uint64   `json:"marshalCmid"` // what Marshal() would put into a snapshot
	Channels  []string `json:"channels,omitempty"`
	InMarshal bool     `json:"inMarshal"`
	Operator  bool     `json:"operator,omitempty"`
	Server    bool     `json:"server,omitempty"`
}

type rigProbe struct {
	RaftLast   uint64        `json:"raftLast"`
	Applied    uint64        `json:"applied"`
	IrcFirst   uint64        `json:"ircFirst"`
	IrcLast    uint64        `json:"ircLast"`
	OutCount   int           `json:"outCount"`
	OutLast    int64         `json:"outLast"`
	OutIds     []int64       `json:"outIds,omitempty"`
	NSessions  int           `json:"nSessions"`
	NChannels  int           `json:"nChannels"`
	Digest     string        `json:"digest"`
	ConfigRev  uint64        `json:"configRev"`
	Cooloff    string        `json:"cooloff"`
	LastProc   int64         `json:"lastProcessed"`
	Sessions   []rigSessProj `json:"sessions"`
	Snapshots  []uint64      `json:"snapshots,omitempty"`
	ProbeError string        `json:"probeError,omitempty"`
}

func rigSmall(id uint64) int64 {
	return int64(id) - int64(robust.MessageOffset)
}

// rigCanonicalState returns the pb.Snapshot of the live server with all
// repeated fields sorted (Marshal iterates over maps).
func rigCanonicalState(i *ircserver.IRCServer) (*pb.Snapshot, error) {
	b, err := i.Marshal(0)
	if err != nil {
		return nil, err
	}
	var snap pb.Snapshot
	if err := proto.Unmarshal(b, &snap); err != nil {
		return nil, err
	}
	sort.Slice(snap.Sessions, func(a, b int) bool { return snap.Sessions[a].Id.Id < snap.Sessions[b].Id.Id })
	sort.Slice(snap.Channels, func(a, b int) bool { return snap.Channels[a].Name < snap.Channels[b].Name })
	for _, s := range snap.Sessions {
		sort.Strings(s.Channels)
		sort.Strings(s.InvitedTo)
		sort.Strings(s.Modes)
	}
	for _, c := range snap.Channels {
		sort.Strings(c.Modes)
		for _, m := range c.Nicks {
			sort.Strings(m.Mode)
		}
	}
	return &snap, nil
}

// rigOutIds walks the output store front to back through its public API.
func rigOutIds(o *outputstream.OutputStream) []int64 {
	var ids []int64
	last := o.LastSeen()
	cur := robust.Id{}
	// A cancelled context makes GetNext return instead of blocking should the
	// walk ever run past the end.
	ctx, cancel := context.WithCancel(context.Background())
	cancel()
	for guard := 0; cur.Id != last.Id && guard < 1000000; guard++ {
		msgs := o.GetNext(ctx, cur)
		if len(msgs) == 0 {
			break
		}
		cur = robust.Id{Id: msgs[0].Id.Id}
		ids = append(ids, rigSmall(cur.Id))
	}
	return ids
}

func rigTakeProbe(aliases map[string]*rigClientSess, full bool, fss *raft.FileSnapshotStore) (p rigProbe) {
	defer func() {
		if r := recover(); r != nil {
			p.ProbeError = fmt.Sprintf("panic in probe: %v", r)
		}
	}()
	p.RaftLast = node.LastIndex()
	p.Applied = node.AppliedIndex()
	p.IrcFirst, _ = ircStore.FirstIndex()
	p.IrcLast, _ = ircStore.LastIndex()
	ids := rigOutIds(outputStream)
	p.OutCount = len(ids)
	if len(ids) > 0 {
		p.OutLast = ids[len(ids)-1]
	}
	if full {
		p.OutIds = ids
	}
	snap, err := rigCanonicalState(ircServer)
	if err != nil {
		p.ProbeError = err.Error()
		return p
	}
	js, _ := json.Marshal(snap)
	p.Digest = fmt.Sprintf("%.8x", sha256.Sum256(js))
	p.NSessions = len(snap.Sessions)
	p.NChannels = len(snap.Channels)
	if snap.Config != nil {
		p.ConfigRev = snap.Config.Revision
	}
	ircServer.ConfigMu.RLock()
	p.Cooloff = ircServer.Config.PostMessageCooloff.String()
	ircServer.ConfigMu.RUnlock()
	if snap.LastProcessed != nil && snap.LastProcessed.Id != 0 {
		p.LastProc = rigSmall(snap.LastProcessed.Id)
	}
	byId := make(map[uint64]*pb.Snapshot_Session)
	for _, s := range snap.Sessions {
		// pseudo-clients of a services link share the link's Id.Id (Reply != 0)
		if s.Id.Reply == 0 {
			byId[s.Id.Id] = s
		}
	}
	seen := make(map[uint64]bool)
	var names []string
	for a := range aliases {
		names = append(names, a)
	}
	sort.Strings(names)
	add := func(alias string, id uint64) {
		sp := rigSessProj{Alias: alias, Sid: rigSmall(id)}
		_, err := ircServer.GetSession(robust.Id{Id: id})
		switch err {
		case nil:
			sp.Exists = "ok"
		case ircserver.ErrNoSuchSession:
			sp.Exists = "nosuch"
		case ircserver.ErrSessionNotYetSeen:
			sp.Exists = "notyet"
		default:
			sp.Exists = "err:" + err.Error()
		}
		sp.LastCmid = ircServer.LastPostMessage(robust.Id{Id: id})
		if s, ok := byId[id]; ok {
			sp.InMarshal = true
			sp.Nick = s.Nick
			sp.LoggedIn = s.LoggedIn == pb.Bool_TRUE
			sp.SnapCmid = s.LastClientMessageId
			sp.Channels = s.Channels
			sp.Operator = s.Operator
			sp.Server = s.Server
		}
		p.Sessions = append(p.Sessions, sp)
		seen[id] = true
	}
	for _, a := range names {
		add(a, aliases[a].Id)
	}
	for _, s := range snap.Sessions {
		if !seen[s.Id.Id] {
			add("", s.Id.Id)
		}
	}
	if full && fss != nil {
		if metas, err := fss.List(); err == nil {
			for _, m := range metas {
				p.Snapshots = append(p.Snapshots, m.Index)
			}
		}
	}
	return p
}
