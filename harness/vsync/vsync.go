// Package vsync is a drop-in for the subset of package sync used by
// internal/outputstream/outputstream.go (RWMutex, Mutex, Cond, NewCond,
// Locker) in which goroutines run one at a time under a scheduler that is
// driven by a test harness.
//
// It is injected into the repository module with go's -overlay (nothing is
// written to the repository); the check compiles a copy of outputstream.go
// whose import "sync" is rewritten to this package.
//
// Scheduling model. A managed goroutine ("thread") runs only while the
// controller has granted it the processor with Sched.Step. It gives the
// processor back (parks) at exactly these points:
//
//   - between two operations of its program (position "idle"),
//   - before acquiring a scheduled mutex, unless it has not executed any lock
//     operation since it was granted the processor (positions "lock"/"rlock"),
//   - on entry to Cond.Wait, still holding the mutex and BEFORE it is
//     registered as a waiter (position "waitentry"): sync.Cond permits
//     Broadcast without holding c.L, and such a Broadcast (like a context
//     cancellation, which never takes a lock) can land between the caller's
//     last check and the registration, where it is lost,
//   - inside Cond.Wait after registering and releasing the mutex (position
//     "parked", and "woken" once a Broadcast/Signal made it runnable again),
//   - with Sched.Inner set, additionally before every acquisition of a NoYield
//     mutex (position "inner"): these are the points inside a critical section
//     at which lock-free events of other threads can be interleaved.
//
// Hence one Step executes one critical section (or, at "waitentry"/"inner", a
// piece of it): these are the actions of OutStream.tla. A mutex with NoYield
// set (the harness sets it on cacheMu) is only acquired inside critical
// sections of a scheduled mutex.
// Whether a Broadcast/Signal is issued with c.L held by the caller is not
// assumed but observed: Thread.UnlockedBroadcasts counts the ones issued
// without it.
// Lock state is tracked for every mutex; a thread whose mutex is not
// available is reported as not enabled and is never granted the processor.
//
// Calls made while no scheduler is installed, or from the controller
// goroutine (e.g. NewOutputStream -> reset()), execute directly.
package vsync

import (
	"fmt"
)

// Locker is sync.Locker.
type Locker interface {
	Lock()
	Unlock()
}

// RWMutex is the scheduler-controlled sync.RWMutex.
type RWMutex struct {
	w bool
	r int
	// owner is the managed thread holding the write lock (nil: the controller).
	owner *Thread
	// NoYield makes acquisitions of this mutex invisible to the scheduler.
	NoYield bool
}

// Mutex is the scheduler-controlled sync.Mutex.
type Mutex struct {
	rw RWMutex
}

func (m *Mutex) Lock()   { m.rw.Lock() }
func (m *Mutex) Unlock() { m.rw.Unlock() }

// SetNoYield marks the mutex as invisible to the scheduler.
func (m *Mutex) SetNoYield(v bool) { m.rw.NoYield = v }

// WriteOwner returns the managed thread holding the write lock, if any.
func (m *RWMutex) WriteOwner() *Thread {
	if m.w {
		return m.owner
	}
	return nil
}

func (m *RWMutex) canLock() bool  { return !m.w && m.r == 0 }
func (m *RWMutex) canRLock() bool { return !m.w }

func (m *RWMutex) Lock() {
	acquire(m, true)
}

func (m *RWMutex) RLock() {
	acquire(m, false)
}

func (m *RWMutex) Unlock() {
	if !m.w {
		panic("vsync: Unlock of unlocked RWMutex")
	}
	m.w = false
	m.owner = nil
	released(m)
	ran()
}

// released keeps the per-thread count of scheduled mutexes held.
func released(m *RWMutex) {
	if cur != nil && cur.running != nil && !m.NoYield && cur.running.held > 0 {
		cur.running.held--
	}
}

func (m *RWMutex) RUnlock() {
	if m.r <= 0 {
		panic("vsync: RUnlock of unlocked RWMutex")
	}
	m.r--
	released(m)
	ran()
}

// RLocker is not provided on purpose: a use of it makes the harness build
// fail, which the check reports as inconclusive.

// Cond is the scheduler-controlled sync.Cond.
type Cond struct {
	L       Locker
	waiters []*Thread
}

func NewCond(l Locker) *Cond { return &Cond{L: l} }

// Wait parks the calling thread on entry (still holding c.L, not yet a
// waiter), then registers it as a waiter, releases c.L and parks it again;
// after a Broadcast/Signal the thread is runnable and re-acquires c.L when the
// controller grants it the processor.
func (c *Cond) Wait() {
	s := cur
	if s == nil || s.running == nil {
		panic("vsync: Cond.Wait outside a managed thread")
	}
	t := s.running
	s.park(t, PosWaitEntry)
	t.woken = false
	t.waitOn = c
	c.waiters = append(c.waiters, t)
	c.L.Unlock()
	s.park(t, PosParked)
	// granted again: only happens when woken and the lock is available
	t.waitOn = nil
	t.ranOps = false
	lockDirect(c.L, t)
	t.ranOps = true
}

// heldByCaller reports whether c.L is write-locked by the calling thread.
func (c *Cond) heldByCaller() bool {
	var t *Thread
	if cur != nil {
		t = cur.running
	}
	switch m := c.L.(type) {
	case *RWMutex:
		return m.w && m.owner == t
	case *Mutex:
		return m.rw.w && m.rw.owner == t
	}
	return true
}

func (c *Cond) noteBroadcast() {
	if cur != nil && cur.running != nil && !c.heldByCaller() {
		cur.running.UnlockedBroadcasts++
	}
}

func (c *Cond) Broadcast() {
	c.noteBroadcast()
	for _, t := range c.waiters {
		t.woken = true
		t.pos = PosWoken
	}
	c.waiters = nil
	ran()
}

func (c *Cond) Signal() {
	c.noteBroadcast()
	if len(c.waiters) > 0 {
		t := c.waiters[0]
		c.waiters = c.waiters[1:]
		t.woken = true
		t.pos = PosWoken
	}
	ran()
}

// ---------------------------------------------------------------- scheduler

// Positions of a thread as seen by the controller.
const (
	PosIdle      = "idle"      // between two operations (or before the first)
	PosLock      = "lock"      // about to acquire a write lock
	PosRLock     = "rlock"     // about to acquire a read lock
	PosWaitEntry = "waitentry" // entered Cond.Wait, holds the mutex, not yet a waiter
	PosInner     = "inner"     // inside a critical section, before acquiring a NoYield mutex
	PosParked    = "parked"    // in Cond.Wait, not woken
	PosWoken     = "woken"     // in Cond.Wait, woken, about to re-acquire
	PosDone      = "done"      // program finished (or aborted / panicked)
	PosRun       = "running"
)

type abortT struct{}

// Aborted is the panic value used to unwind a parked thread at the end of a run.
var Aborted = abortT{}

type Thread struct {
	ID     int
	s      *Sched
	resume chan struct{}
	pos    string
	want   *RWMutex // mutex it is about to acquire (PosLock / PosRLock)
	wantW  bool
	waitOn *Cond
	woken  bool
	ranOps bool // executed a lock operation since it was granted the processor
	abort  bool
	held   int // scheduled (yielding) mutexes currently held by this thread
	// UnlockedBroadcasts counts Broadcast/Signal calls of this thread issued
	// without holding the condition's mutex.
	UnlockedBroadcasts int
}

type Sched struct {
	threads []*Thread
	running *Thread
	yielded chan struct{}
	// Inner adds scheduling points before acquisitions of NoYield mutexes.
	Inner bool
}

var cur *Sched

// New creates a scheduler and installs it as the current one.
func New() *Sched {
	s := &Sched{yielded: make(chan struct{})}
	cur = s
	return s
}

// Uninstall removes the current scheduler (direct execution afterwards).
func Uninstall() { cur = nil }

// Spawn starts a managed thread running body. body must call t.Idle() before
// each operation of its program. Spawn returns when the thread has parked for
// the first time (or finished).
func (s *Sched) Spawn(id int, body func(t *Thread)) *Thread {
	t := &Thread{ID: id, s: s, resume: make(chan struct{}), pos: PosRun}
	s.threads = append(s.threads, t)
	s.running = t
	go func() {
		defer func() {
			r := recover()
			t.pos = PosDone
			s.running = nil
			if r != nil && r != Aborted {
				// body is expected to recover panics of the code under test itself
				fmt.Printf("vsync: thread %d died: %v\n", id, r)
			}
			s.yielded <- struct{}{}
		}()
		body(t)
	}()
	<-s.yielded
	return t
}

// Idle parks the calling thread between two operations.
func (t *Thread) Idle() {
	t.s.park(t, PosIdle)
	t.ranOps = false
}

func (s *Sched) park(t *Thread, pos string) {
	t.pos = pos
	s.running = nil
	s.yielded <- struct{}{}
	<-t.resume
	if t.abort {
		panic(Aborted)
	}
	s.running = t
	t.pos = PosRun
}

// Pos returns the position of thread t.
func (t *Thread) Pos() string { return t.pos }

// Enabled reports whether granting the processor to t lets it make a step.
func (t *Thread) Enabled() bool {
	switch t.pos {
	case PosIdle, PosWaitEntry, PosInner:
		return true
	case PosLock:
		return t.want.canLock()
	case PosRLock:
		return t.want.canRLock()
	case PosWoken:
		if m, ok := t.waitOn.L.(*RWMutex); ok {
			return m.canLock()
		}
		if m, ok := t.waitOn.L.(*Mutex); ok {
			return m.rw.canLock()
		}
		return true
	}
	return false
}

// Step grants the processor to t until it parks again or finishes.
func (s *Sched) Step(t *Thread) {
	if !t.Enabled() {
		panic(fmt.Sprintf("vsync: Step of thread %d which is not enabled (pos %s)", t.ID, t.pos))
	}
	t.ranOps = false
	t.resume <- struct{}{}
	<-s.yielded
}

// Abort unwinds every thread that has not finished (parked readers at the end
// of a run) so that no goroutine is leaked.
func (s *Sched) Abort() {
	for _, t := range s.threads {
		if t.pos != PosDone {
			t.abort = true
			t.resume <- struct{}{}
			<-s.yielded
		}
	}
	if cur == s {
		cur = nil
	}
}

func ran() {
	if cur != nil && cur.running != nil {
		cur.running.ranOps = true
	}
}

func lockDirect(l Locker, t *Thread) {
	switch m := l.(type) {
	case *RWMutex:
		if !m.canLock() {
			panic("vsync: woken thread granted although the mutex is held")
		}
		m.w, m.owner = true, t
		if !m.NoYield {
			t.held++
		}
	case *Mutex:
		if !m.rw.canLock() {
			panic("vsync: woken thread granted although the mutex is held")
		}
		m.rw.w, m.rw.owner = true, t
		if !m.rw.NoYield {
			t.held++
		}
	default:
		l.Lock()
	}
}

func acquire(m *RWMutex, write bool) {
	s := cur
	var t *Thread
	if s != nil {
		t = s.running
	}
	avail := func() bool {
		if write {
			return m.canLock()
		}
		return m.canRLock()
	}
	// A NoYield mutex is meant to be taken only INSIDE a critical section of a scheduled mutex. If the code
	// under test takes it while holding none (e.g. a lookup that no longer takes the stream lock), the
	// acquisition is an ordinary scheduling point: other threads' critical sections can run right before it.
	noYield := m.NoYield && !(t != nil && t.held == 0)
	if t != nil && noYield && s.Inner {
		s.park(t, PosInner)
	}
	if t != nil && !noYield {
		for t.ranOps || !avail() {
			t.want, t.wantW = m, write
			if write {
				s.park(t, PosLock)
			} else {
				s.park(t, PosRLock)
			}
			t.ranOps = false
			t.want = nil
		}
	}
	if !avail() {
		panic("vsync: mutex not available outside a managed thread (or NoYield mutex contended)")
	}
	if write {
		m.w, m.owner = true, t
	} else {
		m.r++
	}
	if t != nil {
		t.ranOps = true
		if !m.NoYield {
			t.held++
		}
	}
}
