// C09 harness, part 1: the fixed value tables shared with spec/RaftStore.tla.
//
// The TLA+ model talks about small ids; this file says which concrete bytes,
// times, terms, keys and values an id stands for.  The classes of the payloads
// (PClass in RaftStore.tla) are logged in every Reset record and compared by
// TLC, so that the two sides cannot drift apart silently.
//
// Injected by -overlay into /repo/internal/raftstore (package raftstore) as
// zz_verif_tables_test.go; nothing is written to the repository.
package raftstore

import (
	"bytes"
	"encoding/binary"
	"encoding/json"
	"fmt"
	"reflect"
	"time"

	"github.com/golang/protobuf/proto"
	"github.com/robustirc/robustirc/internal/robust"
)

// MaxIndex is the largest index (and DeleteRange bound) of the domain:
// DeleteRange computes max+1, which overflows for 2^64-1.
const MaxIndex = ^uint64(0) - 1

// StableBoundary ("stablest"): the 8-byte big-endian key of an index up to this
// value sorts before every "stablestore-" key of the shared LevelDB keyspace,
// the key of a larger index sorts after all of them.
const StableBoundary = uint64(0x737461626c657374)

var (
	payloads     [][]byte // 1-based ids; payloads[0] unused
	payloadClass []string
	extsTab      = [][]byte{nil, []byte("ext-one"), {0x00, 0xff, 'p', '{', 0x80}}
	timesTab     []time.Time
	termsTab     = []uint64{0, 1, 2, 1 << 40, ^uint64(0)}
	keysTab      = [][]byte{nil,
		[]byte("CurrentTerm"), []byte("LastVoteTerm"), []byte("LastVoteCand"),
		{}, // the empty key: LevelDB key is exactly "stablestore-"
		{0, 0, 0, 0, 0, 0, 0, 1},
		[]byte("stablestore-CurrentTerm"),
		{0xff, 0xff},
		// long keys that differ only behind a long common prefix, and that prefix itself
		[]byte("LastVoteCand-of-the-previous-term-a"),
		[]byte("LastVoteCand-of-the-previous-term-b"),
		[]byte("LastVoteCand-of-the-"),
	}
	bvalsTab = [][]byte{nil,
		{}, []byte("abc"), []byte("12345678"), bytes.Repeat([]byte("long-value."), 40),
		{'p', 0x08, 0x01}, []byte(`{"Index":1,"Term":1}`),
	}
	uvalsTab = []uint64{0, 0, 1, 1 << 40, 1 << 63, ^uint64(0)}
)

func mustJSON(m *robust.Message) []byte {
	b, err := json.Marshal(m)
	if err != nil {
		panic(err)
	}
	return b
}

func mustProto(m *robust.Message) []byte {
	b, err := proto.Marshal(m.ProtoMessage())
	if err != nil {
		panic(err)
	}
	return append([]byte{'p'}, b...)
}

func init() {
	// four different replicated messages
	mA := &robust.Message{ // Id 0: the raft index is filled in when decoding
		Session:         robust.Id{Id: 1420228218166687917},
		Type:            robust.IRCFromClient,
		Data:            "PRIVMSG #chan :hello wörld",
		UnixNano:        1420228218166687999,
		ClientMessageId: 4711,
	}
	mB := &robust.Message{ // every field set
		Id:              robust.Id{Id: 1420228218166688000, Reply: 3},
		Session:         robust.Id{Id: 1420228218166687917, Reply: 1},
		Type:            robust.Ping,
		Data:            "",
		UnixNano:        -5,
		Servers:         []string{"robust1:443", "robust2:443"},
		Currentmaster:   "robust1:443",
		ClientMessageId: ^uint64(0),
		Revision:        9,
		RemoteAddr:      "[::1]:1234",
	}
	mC := &robust.Message{ // Id 0, proto encoded
		Session: robust.Id{Id: 77},
		Type:    robust.DeleteSession,
		Data:    "bye",
	}
	mD := &robust.Message{
		Id:       robust.Id{Id: 1 << 62},
		Session:  robust.Id{Id: 1 << 61},
		Type:     robust.Config,
		Data:     "SessionExpiration = \"30m\"\n",
		Revision: 2,
	}
	payloads = [][]byte{nil,
		nil,
		mustJSON(mA),
		mustJSON(mB),
		mustProto(mC),
		mustProto(mD),
		{0x00, 0xff, 0xfe, '{', '"', 0x80, 0x00},
		{'p', 0xff, 0xff, 0xff, 0x00},
	}
	payloadClass = []string{"", "empty", "jmsg", "jmsg", "pmsg0", "pmsg", "bin", "binp"}

	timesTab = []time.Time{
		{},
		time.Unix(0, 0).UTC(),
		time.Date(2015, 1, 2, 3, 4, 5, 123456789, time.UTC),
		time.Date(2020, 6, 30, 23, 59, 59, 999999999, time.FixedZone("", 2*3600)),
		time.Date(1969, 12, 31, 23, 59, 59, 500000000, time.UTC),
		time.Date(9999, 12, 31, 23, 59, 59, 999999999, time.UTC),
	}

	// sanity of the tables themselves (a broken table is a machinery problem)
	for i, b := range bvalsTab {
		if len(b) == 8 {
			for _, u := range uvalsTab[1:] {
				if binary.BigEndian.Uint64(b) == u {
					panic(fmt.Sprintf("bvalsTab[%d] collides with a uint64 value", i))
				}
			}
		}
	}
}

func isMsgClass(d int) bool {
	c := payloadClass[d]
	return c == "jmsg" || c == "pmsg0" || c == "pmsg"
}

// decodeMsg decodes like the FSM does; robust.NewMessageFromBytes log.Panicf()s
// on garbage.
func decodeMsg(b []byte, index uint64) (m robust.Message, ok bool) {
	defer func() {
		if r := recover(); r != nil {
			ok = false
		}
	}()
	m = robust.NewMessageFromBytes(b, robust.IdFromRaftIndex(index))
	if len(m.Servers) == 0 {
		m.Servers = nil
	}
	return m, true
}

// classifyData maps data read back from the store (entry at real index idx) to
// (payload id, conv).  conv = 0: byte-identical to table entry id.  conv = 1:
// the bytes differ from every table entry but are a 'p' protobuf message that
// decodes to the same robust.Message as table entry id.  (-1, 0): neither.
func classifyData(b []byte, idx uint64) (int, int) {
	if len(b) == 0 {
		return 1, 0
	}
	for id := 2; id < len(payloads); id++ {
		if bytes.Equal(b, payloads[id]) {
			return id, 0
		}
	}
	if b[0] == 'p' {
		if m, ok := decodeMsg(b, idx); ok {
			for id := 2; id < len(payloads); id++ {
				if !isMsgClass(id) {
					continue
				}
				if q, ok := decodeMsg(payloads[id], idx); ok && reflect.DeepEqual(m, q) {
					return id, 1
				}
			}
		}
	}
	return -1, 0
}

func classifyExt(b []byte) int {
	if len(b) == 0 {
		return 0
	}
	for id := 1; id < len(extsTab); id++ {
		if bytes.Equal(b, extsTab[id]) {
			return id
		}
	}
	return -1
}

func classifyTime(t time.Time) int {
	if t.IsZero() {
		return 0
	}
	for id := 1; id < len(timesTab); id++ {
		if t.Equal(timesTab[id]) {
			return id
		}
	}
	return -1
}

func classifyTerm(t uint64) int {
	for id := 1; id < len(termsTab); id++ {
		if termsTab[id] == t {
			return id
		}
	}
	return -1
}

// classifyVal: (0,0) nothing/empty, (1,id) byte value, (2,id) uint64 value,
// (9,0) unknown.
func classifyVal(b []byte) (int, int) {
	if len(b) == 0 {
		return 0, 0
	}
	for id := 2; id < len(bvalsTab); id++ {
		if bytes.Equal(b, bvalsTab[id]) {
			return 1, id
		}
	}
	if len(b) == 8 {
		u := binary.BigEndian.Uint64(b)
		for id := 1; id < len(uvalsTab); id++ {
			if uvalsTab[id] == u {
				return 2, id
			}
		}
	}
	return 9, 0
}

func classifyU(u uint64) int {
	for id := 1; id < len(uvalsTab); id++ {
		if uvalsTab[id] == u {
			return id
		}
	}
	return -1
}
