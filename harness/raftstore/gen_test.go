// C09 harness, part 3: random program generator (the "random driver").
//
// Programs range over the index domain {1,2,3,7,2^40,2^40+1,2^62,"stablest",
// "stablest"+1,2^63,2^63+1,2^64-2} (and their neighbours as DeleteRange bounds):
// five of them sort after the "stablestore-" keys of the shared keyspace.  The
// "hot" indexes of a program are all below, all above, or mixed. all six raft log types, all payload
// classes, extensions present/absent, append time zero/non-zero, every stable
// key/value of the tables, Close/Open and Kill/Open in either encoding at random
// positions, ConvertToProto.  The generator only writes programs; they are
// executed by TestVerifExec like the TLC-generated ones, and a failing program
// can be re-executed from the replay file.
package raftstore

import (
	"bufio"
	"encoding/json"
	"fmt"
	"math/rand"
	"os"
	"sort"
	"strconv"
	"testing"
)

var randomIndexes = []uint64{1, 2, 3, 7, 1 << 40, 1<<40 + 1, 1 << 62,
	StableBoundary, StableBoundary + 1, 1 << 63, 1<<63 + 1, MaxIndex}

func randomDomain() (vals []string, dom []int) {
	set := map[uint64]bool{0: true}
	for _, v := range randomIndexes {
		set[v] = true
		set[v-1] = true
		if v+1 <= MaxIndex {
			set[v+1] = true
		}
	}
	var all []uint64
	for v := range set {
		all = append(all, v)
	}
	sort.Slice(all, func(i, j int) bool { return all[i] < all[j] })
	isIdx := map[uint64]bool{}
	for _, v := range randomIndexes {
		isIdx[v] = true
	}
	for r, v := range all {
		vals = append(vals, strconv.FormatUint(v, 10))
		if isIdx[v] {
			dom = append(dom, r)
		}
	}
	return
}

type gen struct {
	rnd  *rand.Rand
	dom  []int
	pool []int
	hot  []int
	keys []int
	nval int
}

func (g *gen) idx() int {
	if g.rnd.Intn(100) < 75 {
		return g.hot[g.rnd.Intn(len(g.hot))]
	}
	if g.rnd.Intn(100) < 60 {
		return g.pool[g.rnd.Intn(len(g.pool))]
	}
	return g.dom[g.rnd.Intn(len(g.dom))]
}

func (g *gen) entry(i int) []int {
	ty := 0
	if g.rnd.Intn(100) >= 45 {
		ty = g.rnd.Intn(6)
	}
	var d int
	if ty == 0 { // A2: commands carry robust messages
		d = 2 + g.rnd.Intn(4)
	} else {
		d = 1 + g.rnd.Intn(len(payloads)-1)
	}
	return []int{i, 1 + g.rnd.Intn(len(termsTab)-1), ty, d, g.rnd.Intn(len(extsTab)), g.rnd.Intn(len(timesTab))}
}

func (g *gen) program(id string, nops, killPct int) *Program {
	p := &Program{ID: id}
	p.Vals, p.Dom = randomDomain()
	g.dom = p.Dom
	for k := 1; k < len(keysTab); k++ {
		p.KDom = append(p.KDom, k)
	}
	nbelow := 0
	for _, v := range randomIndexes {
		if v <= StableBoundary {
			nbelow++
		}
	}
	pool := p.Dom // mixed
	switch g.rnd.Intn(3) {
	case 0:
		pool = p.Dom[:nbelow]
	case 1:
		pool = p.Dom[nbelow:]
	}
	g.pool = pool
	perm := g.rnd.Perm(len(pool))
	nh := 3 + g.rnd.Intn(3)
	if nh > len(pool) {
		nh = len(pool)
	}
	g.hot = nil
	for _, j := range perm[:nh] {
		g.hot = append(g.hot, pool[j])
	}
	sort.Ints(g.hot)
	p.Ops = append(p.Ops, Op{Op: "Open", Enc: g.rnd.Intn(2)})
	for len(p.Ops) < nops {
		r := g.rnd.Intn(100)
		switch {
		case r < 24:
			p.Ops = append(p.Ops, Op{Op: "StoreLog", Es: [][]int{g.entry(g.idx())}})
		case r < 36:
			n := 2 + g.rnd.Intn(3)
			var es [][]int
			if g.rnd.Intn(2) == 0 { // consecutive indexes of the domain, as raft does
				start := g.rnd.Intn(len(p.Dom))
				for j := start; j < len(p.Dom) && len(es) < n; j++ {
					es = append(es, g.entry(p.Dom[j]))
				}
			} else {
				for len(es) < n {
					es = append(es, g.entry(g.idx()))
				}
			}
			p.Ops = append(p.Ops, Op{Op: "StoreLogs", Es: es})
		case r < 44:
			e := g.entry(g.idx())
			unset := 0
			if g.rnd.Intn(4) == 0 {
				unset = 1
			}
			p.Ops = append(p.Ops, Op{Op: "StoreLogProto", P: append(e, unset)})
		case r < 60:
			var lo, hi int
			switch g.rnd.Intn(4) {
			case 0: // an index and a neighbour
				lo = g.idx()
				hi = lo + g.rnd.Intn(3) - 1
			case 1: // two indexes
				lo, hi = g.idx(), g.idx()
				if lo > hi && g.rnd.Intn(4) != 0 {
					lo, hi = hi, lo
				}
			case 2: // prefix, as log compaction does
				lo, hi = g.rnd.Intn(2), g.idx()
			default: // anything
				lo, hi = g.rnd.Intn(len(p.Vals)), g.rnd.Intn(len(p.Vals))
			}
			if hi < 0 {
				hi = 0
			}
			if hi >= len(p.Vals) {
				hi = len(p.Vals) - 1
			}
			p.Ops = append(p.Ops, Op{Op: "DeleteRange", Lo: lo, Hi: hi})
		case r < 69:
			p.Ops = append(p.Ops, Op{Op: "Set", K: 1 + g.rnd.Intn(len(keysTab)-1), V: 1 + g.rnd.Intn(len(bvalsTab)-1)})
		case r < 78:
			p.Ops = append(p.Ops, Op{Op: "SetU", K: 1 + g.rnd.Intn(len(keysTab)-1), V: 1 + g.rnd.Intn(len(uvalsTab)-1)})
		case r < 82:
			p.Ops = append(p.Ops, Op{Op: "Convert"})
		case r < 82+killPct:
			p.Ops = append(p.Ops, Op{Op: "Kill"}, Op{Op: "Open", Enc: g.rnd.Intn(2)})
		default:
			p.Ops = append(p.Ops, Op{Op: "Close"}, Op{Op: "Open", Enc: g.rnd.Intn(2)})
		}
	}
	return p
}

// TestVerifGen: VERIF_NPROG programs of VERIF_NOPS operations -> VERIF_PROGRAMS.
func TestVerifGen(t *testing.T) {
	outp := os.Getenv("VERIF_PROGRAMS")
	if outp == "" || os.Getenv("VERIF_NPROG") == "" {
		t.Skip("needs VERIF_PROGRAMS, VERIF_NPROG, VERIF_NOPS")
	}
	nprog, _ := strconv.Atoi(os.Getenv("VERIF_NPROG"))
	nops, _ := strconv.Atoi(os.Getenv("VERIF_NOPS"))
	seed, _ := strconv.ParseInt(os.Getenv("VERIF_SEED"), 10, 64)
	killPct := 5
	if s := os.Getenv("VERIF_KILLPCT"); s != "" {
		killPct, _ = strconv.Atoi(s)
	}
	f, err := os.Create(outp)
	if err != nil {
		t.Fatal(err)
	}
	w := bufio.NewWriter(f)
	g := &gen{rnd: rand.New(rand.NewSource(seed*7919 + 17))}
	total := 0
	for i := 0; i < nprog; i++ {
		p := g.program(fmt.Sprintf("rnd-s%d-%d", seed, i), nops, killPct)
		b, _ := json.Marshal(p)
		w.Write(b)
		w.WriteByte('\n')
		total += len(p.Ops)
	}
	w.Flush()
	f.Close()
	fmt.Printf("VERIF-GEN programs=%d ops=%d\n", nprog, total)
}
