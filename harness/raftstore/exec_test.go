// C09 harness, part 2: program executor.
//
// A program is a list of operations on ONE store directory, written with the
// small ids of spec/RaftStore.tla (index ranks, table ids).  The executor
// performs every operation on the real LevelDBStore and, after EVERY operation,
// records ALL observations (FirstIndex, LastIndex, GetLog for every index of
// the domain, Get and GetUint64 for every key of the domain) as one ND-JSON
// record.  TLC validates the records against spec/RaftStoreTrace.tla.
//
// Kill: the operations from the preceding Open up to the Kill run in a child
// process (this test binary, TestVerifChild) that SIGKILLs itself after the
// last of them returned; the parent then continues on the directory.
package raftstore

import (
	"bufio"
	"bytes"
	"encoding/binary"
	"encoding/json"
	"errors"
	"fmt"
	"io"
	"log"
	"os"
	"os/exec"
	"path/filepath"
	"runtime"
	"strconv"
	"strings"
	"syscall"
	"testing"
	"time"

	"github.com/hashicorp/raft"
	"google.golang.org/protobuf/types/known/timestamppb"

	pb "github.com/robustirc/robustirc/internal/proto"
)

type Op struct {
	Op  string  `json:"op"`
	Enc int     `json:"enc"`          // Open: 0 json, 1 proto
	Es  [][]int `json:"es,omitempty"` // StoreLog(s): [rank,term,ty,d,x,at]
	P   []int   `json:"p,omitempty"`  // StoreLogProto: [rank,term,ty,d,x,at,unset]
	Lo  int     `json:"lo"`
	Hi  int     `json:"hi"`
	K   int     `json:"k"`
	V   int     `json:"v"`
}

type Program struct {
	ID   string   `json:"id"`
	Vals []string `json:"vals"` // rank -> real uint64 (decimal); "" = no value at this rank
	Dom  []int    `json:"dom"`  // ranks observed with GetLog (every rank that may be stored)
	KDom []int    `json:"kdom"` // key ids observed
	Ops  []Op     `json:"ops"`
}

type machineryError struct{ msg string }

func (e machineryError) Error() string { return e.msg }

// errAbort: the store could not be opened (recorded as the Open record's result,
// judged by TLC); the rest of the program cannot run.
var errAbort = errors.New("program aborted: Open failed")

func environmental(msg string) bool {
	for _, s := range []string{"no space left", "too many open files", "permission denied",
		"resource temporarily unavailable", "cannot allocate memory"} {
		if strings.Contains(msg, s) {
			return true
		}
	}
	return false
}

type execer struct {
	p      *Program
	dir    string
	st     *LevelDBStore
	emit   func(map[string]interface{})
	real   []uint64
	has    []bool
	rankOf map[uint64]int
	dirty  int
}

func newExecer(p *Program, dir string, emit func(map[string]interface{})) (*execer, error) {
	x := &execer{p: p, dir: dir, emit: emit, rankOf: map[uint64]int{}}
	x.real = make([]uint64, len(p.Vals))
	x.has = make([]bool, len(p.Vals))
	var last uint64
	first := true
	for r, s := range p.Vals {
		if s == "" {
			continue
		}
		v, err := strconv.ParseUint(s, 10, 64)
		if err != nil {
			return nil, machineryError{"bad value in vals: " + s}
		}
		if v > MaxIndex {
			return nil, machineryError{"value outside the domain: " + s}
		}
		if !first && v <= last {
			return nil, machineryError{"vals not strictly increasing"}
		}
		first, last = false, v
		x.real[r], x.has[r] = v, true
		x.rankOf[v] = r
	}
	if len(p.Vals) == 0 || !x.has[0] || !x.has[len(p.Vals)-1] {
		return nil, machineryError{"first and last rank need a value"}
	}
	for _, r := range p.Dom {
		if r <= 0 || r >= len(x.has) || !x.has[r] || x.real[r] == 0 || x.real[r] > MaxIndex {
			return nil, machineryError{fmt.Sprintf("index rank %d has no usable value", r)}
		}
	}
	return x, nil
}

func (x *execer) inDom(r int) bool {
	for _, d := range x.p.Dom {
		if d == r {
			return true
		}
	}
	return false
}

// rank -> real value for a DeleteRange bound; a rank without a value is rounded
// to the next valued rank inwards (up for the lower bound, down for the upper
// bound): this selects exactly the same index ranks.
func (x *execer) bound(r int, lower bool) (uint64, error) {
	if r < 0 || r >= len(x.has) {
		return 0, machineryError{fmt.Sprintf("bound rank %d out of range", r)}
	}
	for ; r >= 0 && r < len(x.has); r += map[bool]int{true: 1, false: -1}[lower] {
		if x.has[r] {
			return x.real[r], nil
		}
	}
	return 0, machineryError{"no value for bound"}
}

// real index -> rank; 0 ("no entries") is 0 whatever value rank 0 stands for;
// -1: not a value of the domain.
func (x *execer) rankOfIndex(v uint64) int {
	if v == 0 {
		return 0
	}
	if r, ok := x.rankOf[v]; ok && r > 0 {
		return r
	}
	return -1
}

func guard(f func() error) (code int, msg string) {
	defer func() {
		if r := recover(); r != nil {
			code, msg = 3, fmt.Sprintf("panic: %v [%s]", r, panicSite())
		}
	}()
	if err := f(); err != nil {
		return 2, err.Error()
	}
	return 0, ""
}

// panicSite: the frames between the panic and the harness, innermost first.
func panicSite() string {
	pc := make([]uintptr, 32)
	n := runtime.Callers(4, pc)
	fr := runtime.CallersFrames(pc[:n])
	var out []string
	for {
		f, more := fr.Next()
		if strings.Contains(f.Function, "raftstore.guard") {
			break
		}
		if !strings.HasPrefix(f.Function, "runtime.") {
			out = append(out, fmt.Sprintf("%s:%d", f.Function[strings.LastIndex(f.Function, "/")+1:], f.Line))
		}
		if !more || len(out) >= 8 {
			break
		}
	}
	return strings.Join(out, " < ")
}

func (x *execer) mkLog(e []int) (*raft.Log, error) {
	if len(e) < 6 || !x.inDom(e[0]) || e[1] < 1 || e[1] >= len(termsTab) || e[2] < 0 || e[2] > 255 ||
		e[3] < 1 || e[3] >= len(payloads) || e[4] < 0 || e[4] >= len(extsTab) || e[5] < 0 || e[5] >= len(timesTab) {
		return nil, machineryError{fmt.Sprintf("bad entry %v", e)}
	}
	l := &raft.Log{
		Index:      x.real[e[0]],
		Term:       termsTab[e[1]],
		Type:       raft.LogType(e[2]),
		Data:       append([]byte(nil), payloads[e[3]]...),
		Extensions: append([]byte(nil), extsTab[e[4]]...),
		AppendedAt: timesTab[e[5]],
	}
	// the empty classes alternate between nil and empty-but-non-nil slices
	x.dirty++
	if e[3] == 1 && x.dirty%2 == 0 {
		l.Data = []byte{}
	}
	if e[4] == 0 && x.dirty%3 == 0 {
		l.Extensions = []byte{}
	}
	return l, nil
}

// observe records every observation.  No call may escape: a panic inside the
// store is an observation too.
func (x *execer) observe() map[string]interface{} {
	o := map[string]interface{}{}
	var notes []string
	var first, last uint64
	fr, m := guard(func() (err error) { first, err = x.st.FirstIndex(); return })
	if fr != 0 {
		notes = append(notes, "FirstIndex: "+m)
	}
	lr, m := guard(func() (err error) { last, err = x.st.LastIndex(); return })
	if lr != 0 {
		notes = append(notes, "LastIndex: "+m)
	}
	o["fr"], o["lr"] = fr, lr
	o["first"], o["last"] = x.rankOfIndex(first), x.rankOfIndex(last)
	if first != 0 && x.rankOfIndex(first) < 0 {
		notes = append(notes, fmt.Sprintf("FirstIndex=%d not in the domain", first))
	}
	if last != 0 && x.rankOfIndex(last) < 0 {
		notes = append(notes, fmt.Sprintf("LastIndex=%d not in the domain", last))
	}

	gl := make([][]int, 0, len(x.p.Dom))
	for _, r := range x.p.Dom {
		idx := x.real[r]
		var rl raft.Log
		x.dirty++
		if x.dirty%2 == 0 { // raft re-uses Log structs: every field must be overwritten
			rl = raft.Log{Index: 999, Term: 999, Type: 77, Data: []byte("stale"), Extensions: []byte("stale"),
				AppendedAt: time.Unix(1, 1)}
		}
		var ident bool
		code, m := guard(func() error {
			err := x.st.GetLog(idx, &rl)
			ident = err == raft.ErrLogNotFound
			return err
		})
		if code == 2 && ident {
			code = 1
		}
		if code >= 2 {
			notes = append(notes, fmt.Sprintf("GetLog(%d): %s", idx, m))
		}
		if code != 0 {
			gl = append(gl, []int{code, 0, 0, 0, 0, 0, 0, 0, -1})
			continue
		}
		d, conv := classifyData(rl.Data, idx)
		if d < 0 {
			notes = append(notes, fmt.Sprintf("GetLog(%d): data %x matches nothing written", idx, rl.Data))
		}
		venc := -1
		key := make([]byte, 8)
		binary.BigEndian.PutUint64(key, idx)
		if raw, err := x.st.db.Get(key, nil); err == nil { // peek at the value encoding (model-level only)
			if len(raw) > 0 && raw[0] == 'p' {
				venc = 1
			} else {
				venc = 0
			}
		}
		t := []int{0, x.rankOfIndex(rl.Index), classifyTerm(rl.Term), int(rl.Type), d, conv,
			classifyExt(rl.Extensions), classifyTime(rl.AppendedAt), venc}
		if t[1] < 0 || t[2] < 0 || t[6] < 0 || t[7] < 0 {
			notes = append(notes, fmt.Sprintf("GetLog(%d): index=%d term=%d ext=%x at=%s", idx, rl.Index, rl.Term,
				rl.Extensions, rl.AppendedAt.Format(time.RFC3339Nano)))
		}
		gl = append(gl, t)
	}
	o["gl"] = gl

	get := make([][]int, 0, len(x.p.KDom))
	getu := make([][]int, 0, len(x.p.KDom))
	for _, k := range x.p.KDom {
		var v []byte
		code, m := guard(func() (err error) { v, err = x.st.Get(keysTab[k]); return })
		switch {
		case code == 0:
			t, n := classifyVal(v)
			if t == 9 {
				notes = append(notes, fmt.Sprintf("Get(%q) = %x matches nothing written", keysTab[k], v))
			}
			get = append(get, []int{t, n})
		case code == 2 && m == "not found": // what raft's own stores answer; raft tolerates exactly this text
			get = append(get, []int{0, 0})
		default:
			notes = append(notes, fmt.Sprintf("Get(%q): %s", keysTab[k], m))
			get = append(get, []int{9, code})
		}
		var u uint64
		code, m = guard(func() (err error) { u, err = x.st.GetUint64(keysTab[k]); return })
		switch {
		case code == 0:
			getu = append(getu, []int{0, classifyU(u)})
		case code == 2 && m == "not found":
			getu = append(getu, []int{0, 1})
		default: // also: the panic on a value shorter than 8 bytes (outside the domain, A4)
			getu = append(getu, []int{code, 0})
		}
	}
	o["get"], o["getu"] = get, getu
	if len(notes) > 0 {
		o["note"] = strings.Join(notes, "; ")
	}
	return o
}

// step performs one operation (not Kill) and emits its record.
func (x *execer) step(op *Op) error {
	ev := map[string]interface{}{"ev": op.Op}
	if op.Op != "Open" && op.Op != "Reset" && x.st == nil {
		return machineryError{"operation " + op.Op + " on a closed store"}
	}
	var code int
	var msg string
	switch op.Op {
	case "Open":
		if x.st != nil {
			return machineryError{"Open on an open store"}
		}
		ev["enc"] = op.Enc
		code, msg = guard(func() error {
			st, err := NewLevelDBStore(x.dir, false, op.Enc == 1)
			if err == nil || st != nil {
				x.st = st
			}
			return err
		})
		if x.st == nil || code != 0 {
			if environmental(msg) {
				return machineryError{"cannot open store: " + msg}
			}
			if x.st != nil {
				guard(x.st.Close)
				x.st = nil
			}
			ev["res"], ev["msg"], ev["o"] = code, msg, 0
			x.emit(ev)
			return errAbort
		}
	case "Close":
		st := x.st
		x.st = nil
		code, msg = guard(st.Close)
	case "StoreLog", "StoreLogs":
		ev["es"] = op.Es
		logs := make([]*raft.Log, 0, len(op.Es))
		for _, e := range op.Es {
			l, err := x.mkLog(e)
			if err != nil {
				return err
			}
			logs = append(logs, l)
		}
		if op.Op == "StoreLog" {
			if len(logs) != 1 {
				return machineryError{"StoreLog needs one entry"}
			}
			code, msg = guard(func() error { return x.st.StoreLog(logs[0]) })
		} else {
			code, msg = guard(func() error { return x.st.StoreLogs(logs) })
		}
	case "StoreLogProto":
		ev["p"] = op.P
		if len(op.P) != 7 {
			return machineryError{"StoreLogProto needs 7 numbers"}
		}
		l, err := x.mkLog(op.P)
		if err != nil {
			return err
		}
		m := &pb.RaftLog{Index: l.Index, Term: l.Term, Type: pb.RaftLog_LogType(l.Type), Data: l.Data,
			Extensions: l.Extensions}
		if op.P[6] == 0 {
			m.AppendedAt = timestamppb.New(l.AppendedAt)
		}
		code, msg = guard(func() error { return x.st.StoreLogProto(m) })
	case "DeleteRange":
		ev["lo"], ev["hi"] = op.Lo, op.Hi
		lo, err := x.bound(op.Lo, true)
		if err != nil {
			return err
		}
		hi, err := x.bound(op.Hi, false)
		if err != nil {
			return err
		}
		ev["real"] = fmt.Sprintf("DeleteRange(%d,%d)", lo, hi)
		if lo <= StableBoundary && hi >= StableBoundary {
			// the byte range [key(lo), key(hi+1)) contains the "stablestore-" keys
			ev["across"] = 1
		}
		code, msg = guard(func() error { return x.st.DeleteRange(lo, hi) })
	case "Set":
		ev["k"], ev["v"] = op.K, op.V
		if op.K < 1 || op.K >= len(keysTab) || op.V < 1 || op.V >= len(bvalsTab) {
			return machineryError{"bad Set arguments"}
		}
		code, msg = guard(func() error {
			return x.st.Set(append([]byte(nil), keysTab[op.K]...), append([]byte(nil), bvalsTab[op.V]...))
		})
	case "SetU":
		ev["k"], ev["v"] = op.K, op.V
		if op.K < 1 || op.K >= len(keysTab) || op.V < 1 || op.V >= len(uvalsTab) {
			return machineryError{"bad SetU arguments"}
		}
		code, msg = guard(func() error { return x.st.SetUint64(append([]byte(nil), keysTab[op.K]...), uvalsTab[op.V]) })
	case "Convert":
		code, msg = guard(x.st.ConvertToProto)
	default:
		return machineryError{"unknown operation " + op.Op}
	}
	ev["res"] = code
	if msg != "" {
		if environmental(msg) {
			return machineryError{op.Op + ": " + msg}
		}
		ev["msg"] = msg
	}
	if x.st != nil {
		ev["o"] = 1
		ev["obs"] = x.observe()
	} else {
		ev["o"] = 0
	}
	x.emit(ev)
	return nil
}

type childSpec struct {
	Prog *Program `json:"prog"`
	From int      `json:"from"`
	To   int      `json:"to"` // exclusive; ops[To] is the Kill
	Dir  string   `json:"dir"`
	Out  string   `json:"out"`
}

// runProgram executes p in a fresh directory below base.
func runProgram(p *Program, base string, emit func(map[string]interface{})) error {
	dir := filepath.Join(base, "store")
	os.RemoveAll(dir)
	defer os.RemoveAll(dir)
	x, err := newExecer(p, dir, emit)
	if err != nil {
		return err
	}
	above := []int{} // index ranks whose key sorts after the "stablestore-" keys
	for _, r := range p.Dom {
		if x.real[r] > StableBoundary {
			above = append(above, r)
		}
	}
	emit(map[string]interface{}{"ev": "Reset", "prog": p.ID, "dom": p.Dom, "kdom": p.KDom, "above": above,
		"pclass": payloadClass[1:], "vals": p.Vals})
	defer func() {
		if x.st != nil {
			x.st.Close()
		}
	}()
	for i := 0; i < len(p.Ops); i++ {
		op := &p.Ops[i]
		if op.Op == "Kill" {
			return machineryError{"Kill without a preceding Open in the same segment"}
		}
		if op.Op == "Open" {
			// look ahead: does this open-segment end in a Kill?
			j := i + 1
			for j < len(p.Ops) && p.Ops[j].Op != "Close" && p.Ops[j].Op != "Kill" && p.Ops[j].Op != "Open" {
				j++
			}
			if j < len(p.Ops) && p.Ops[j].Op == "Kill" {
				if err := runChild(p, i, j, dir, base, emit); err != nil {
					if err == errAbort {
						return nil
					}
					return err
				}
				emit(map[string]interface{}{"ev": "Kill", "res": 0, "o": 0})
				i = j
				continue
			}
		}
		if err := x.step(op); err != nil {
			if err == errAbort {
				return nil
			}
			return err
		}
	}
	return nil
}

func runChild(p *Program, from, to int, dir, base string, emit func(map[string]interface{})) error {
	specPath := filepath.Join(base, "child.json")
	outPath := filepath.Join(base, "child.ndjson")
	os.Remove(outPath)
	b, _ := json.Marshal(&childSpec{Prog: p, From: from, To: to, Dir: dir, Out: outPath})
	if err := os.WriteFile(specPath, b, 0644); err != nil {
		return machineryError{err.Error()}
	}
	cmd := exec.Command(os.Args[0], "-test.run", "^TestVerifChild$")
	cmd.Env = append(os.Environ(), "VERIF_CHILD="+specPath)
	var stderr bytes.Buffer
	cmd.Stdout, cmd.Stderr = &stderr, &stderr
	err := cmd.Run()
	killed := false
	if ee, ok := err.(*exec.ExitError); ok {
		if ws, ok := ee.Sys().(syscall.WaitStatus); ok && ws.Signaled() && ws.Signal() == syscall.SIGKILL {
			killed = true
		}
	}
	if !killed {
		return machineryError{fmt.Sprintf("child did not die by SIGKILL: %v\n%s", err, tail(stderr.String(), 2000))}
	}
	f, err := os.Open(outPath)
	if err != nil {
		return machineryError{"child left no output: " + err.Error()}
	}
	defer f.Close()
	n := 0
	sc := bufio.NewScanner(f)
	sc.Buffer(make([]byte, 1<<20), 1<<26)
	for sc.Scan() {
		var ev map[string]interface{}
		if err := json.Unmarshal(sc.Bytes(), &ev); err != nil {
			return machineryError{"child output unreadable: " + err.Error()}
		}
		if ev["ev"] == "Machinery" {
			return machineryError{fmt.Sprintf("child: %v", ev["msg"])}
		}
		if ev["ev"] == "Abort" {
			return errAbort
		}
		ev["child"] = 1
		emit(ev)
		n++
	}
	if n != to-from {
		return machineryError{fmt.Sprintf("child recorded %d of %d operations\n%s", n, to-from, tail(stderr.String(), 2000))}
	}
	return nil
}

func tail(s string, n int) string {
	if len(s) > n {
		return s[len(s)-n:]
	}
	return s
}

// TestVerifChild: open the store, run ops[from:to], record each, die by SIGKILL.
func TestVerifChild(t *testing.T) {
	specPath := os.Getenv("VERIF_CHILD")
	if specPath == "" {
		t.Skip("child mode only")
	}
	log.SetOutput(io.Discard)
	b, err := os.ReadFile(specPath)
	if err != nil {
		t.Fatal(err)
	}
	var cs childSpec
	if err := json.Unmarshal(b, &cs); err != nil {
		t.Fatal(err)
	}
	out, err := os.OpenFile(cs.Out, os.O_CREATE|os.O_WRONLY|os.O_APPEND, 0644)
	if err != nil {
		t.Fatal(err)
	}
	emit := func(ev map[string]interface{}) {
		line, _ := json.Marshal(ev)
		out.Write(append(line, '\n')) // one write(2) per record, no user-space buffer
	}
	x, err := newExecer(cs.Prog, cs.Dir, emit)
	if err == nil {
		for i := cs.From; i < cs.To && err == nil; i++ {
			err = x.step(&cs.Prog.Ops[i])
		}
	}
	if err == errAbort {
		emit(map[string]interface{}{"ev": "Abort"})
	} else if err != nil {
		emit(map[string]interface{}{"ev": "Machinery", "msg": err.Error()})
	}
	// no Close, no deferred functions, no flush: the process just stops existing
	syscall.Kill(syscall.Getpid(), syscall.SIGKILL)
	select {}
}

// TestVerifExec: VERIF_PROGRAMS (ND-JSON, one program per line) -> VERIF_TRACE.
func TestVerifExec(t *testing.T) {
	in, outp := os.Getenv("VERIF_PROGRAMS"), os.Getenv("VERIF_TRACE")
	if in == "" || outp == "" {
		t.Skip("needs VERIF_PROGRAMS and VERIF_TRACE")
	}
	log.SetOutput(io.Discard)
	parent := os.Getenv("VERIF_STOREBASE") // store directories (the check points this at a tmpfs if there is one)
	if parent == "" {
		parent = os.Getenv("VERIF_SCRATCH")
	}
	base, err := os.MkdirTemp(parent, "c09-exec-")
	if err != nil {
		t.Fatal(err)
	}
	defer os.RemoveAll(base)
	f, err := os.Open(in)
	if err != nil {
		t.Fatal(err)
	}
	defer f.Close()
	of, err := os.Create(outp)
	if err != nil {
		t.Fatal(err)
	}
	w := bufio.NewWriterSize(of, 1<<20)
	emit := func(ev map[string]interface{}) {
		line, err := json.Marshal(ev)
		if err != nil {
			line, _ = json.Marshal(map[string]interface{}{"ev": "Machinery", "msg": err.Error()})
		}
		w.Write(line)
		w.WriteByte('\n')
	}
	sc := bufio.NewScanner(f)
	sc.Buffer(make([]byte, 1<<20), 1<<28)
	nprog, nops := 0, 0
	for sc.Scan() {
		if len(bytes.TrimSpace(sc.Bytes())) == 0 {
			continue
		}
		var p Program
		if err := json.Unmarshal(sc.Bytes(), &p); err != nil {
			emit(map[string]interface{}{"ev": "Machinery", "msg": "bad program: " + err.Error()})
			break
		}
		if err := runProgram(&p, base, emit); err != nil {
			emit(map[string]interface{}{"ev": "Machinery", "prog": p.ID, "msg": err.Error()})
			break
		}
		nprog++
		nops += len(p.Ops)
	}
	w.Flush()
	of.Close()
	fmt.Printf("VERIF-EXEC programs=%d ops=%d\n", nprog, nops)
}
