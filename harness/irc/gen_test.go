package main

// Seeded, state-aware generator of entry histories for the IRC layer.
// It looks at the projected state of the primary replica to pick plausible
// targets (existing nicknames in other spellings, members, channels) so that
// the deep branches of the handlers are reached, and mixes in lines outside
// the model's alphabet (sup=false) for C06 and the state invariants.

import (
	"crypto/hmac"
	"crypto/sha256"
	"encoding/base64"
	"fmt"
	"math/rand"
	"sort"
	"strings"
)

// vTsBase: first timestamp of generated histories (seconds). 1000 by default; the clock-shift comparison
// anchors it at the real time so that code reading the wall clock sees plausible distances.
var vTsBase int64 = 1000

const vCapSecretHex = "736563726574" // "secret"

type vView struct {
	sess   []map[string]interface{}
	chans  map[string]map[string]interface{}
	nextID int64
	ts     int64
	cmid   int64
}

func vViewOf(st map[string]interface{}) *vView {
	v := &vView{chans: map[string]map[string]interface{}{}}
	for _, s := range st["ss"].([]interface{}) {
		v.sess = append(v.sess, s.(map[string]interface{}))
	}
	for k, c := range st["ch"].(map[string]interface{}) {
		v.chans[k] = c.(map[string]interface{})
	}
	return v
}

func pick(r *rand.Rand, xs []string) string { return xs[r.Intn(len(xs))] }

// sortedKeys: Go randomises map iteration; the generator must be a function of the seed only.
func sortedKeys(m map[string]interface{}) []string {
	ks := make([]string, 0, len(m))
	for k := range m {
		ks = append(ks, k)
	}
	sort.Strings(ks)
	return ks
}

func (v *vView) chansAsIface() map[string]interface{} {
	m := map[string]interface{}{}
	for k := range v.chans {
		m[k] = true
	}
	return m
}

var (
	vNicks    = []string{"alice", "bob", "carol", "dave", "b[ob]", "eve", "fr\\ed", "FR|ED"}
	vBadNicks = []string{"1bad", "", "a b", "#chan", "toolongnickname-toolongnickname-x", "nickserv", "FooServ"}
	vChans    = []string{"#a", "#b", "#c", "#a,#b", "#Chan", "##a", "#@a"}
	vBadChans = []string{"&x", "#", "a", "#a:b", "", "0"}
	vKeys     = []string{"k1", "k2"}
	vTexts    = []string{"hi", "hello world", ":colon first", ""}
	// the last two: what a trusted bridge forwards need not be an address (handlePostMessage keeps it as it is)
	vAddrs  = []string{"a1", "a2", "a3", "2001:db8::1", "2001:DB8::1", "a1", "a2", "[2001:db8::1", "(unknown"}
	vPseudo = []string{"NickServ", "ChanServ", "Bot", "bot", "B[ot]", "OperServ", "b{ot}", "b[ot]", "Global.Notice", "4ever"}
)

// variant returns another spelling of the same name under IRC case mapping.
func variant(r *rand.Rand, n string) string {
	switch r.Intn(4) {
	case 0:
		return strings.ToUpper(n)
	case 1:
		if len(n) > 0 {
			return strings.ToUpper(n[:1]) + n[1:]
		}
	case 2:
		// the scandinavian pairs []\ ~ {}|, each on its own (a nickname need not contain a bracket)
		return strings.NewReplacer("[", "{", "]", "}", "{", "[", "}", "]", "\\", "|", "|", "\\").Replace(n)
	}
	return n
}

func vToken(purpose string) string {
	mac := hmac.New(sha256.New, []byte("secret"))
	mac.Write([]byte(purpose))
	mac.Write([]byte("chall123"))
	return strings.Join([]string{
		base64.StdEncoding.EncodeToString([]byte(purpose)),
		base64.StdEncoding.EncodeToString([]byte("chall123")),
		base64.StdEncoding.EncodeToString(mac.Sum(nil)),
	}, ".")
}

// vCaptcha returns a token and whether verifyCaptchaNonEmpty must accept it at time ts (seconds).
func vCaptcha(r *rand.Rand, ts int64, arg string) (string, bool) {
	switch r.Intn(6) {
	case 0, 1: // valid and fresh
		age := int64(r.Intn(290))
		return vToken(fmt.Sprintf("okay:join:%d:%s", (ts-age)*1000000000, arg)), true
	case 2: // too old: by minutes, by years, by more than a 64-bit count of nanoseconds can express
		switch r.Intn(5) {
		case 0:
			return vToken(fmt.Sprintf("okay:join:%d:%s", (ts-315360000)*1000000000, arg)), false
		case 1:
			return vToken(fmt.Sprintf("okay:join:-9000000000000000000:%s", arg)), false
		case 2:
			return vToken(fmt.Sprintf("okay:join:-9223372036854775808:%s", arg)), false
		case 3:
			return vToken(fmt.Sprintf("okay:join:-99999999999999999999:%s", arg)), false
		}
		return vToken(fmt.Sprintf("okay:join:%d:%s", (ts-301-int64(r.Intn(1000)))*1000000000, arg)), false
	case 3: // replay of the challenge itself (purpose lacks okay:)
		return vToken(fmt.Sprintf("join:%d:%s", ts*1000000000, arg)), false
	case 4: // bad mac
		t := vToken(fmt.Sprintf("okay:join:%d:%s", ts*1000000000, arg))
		b := []byte(t)
		if b[len(b)-3] == 'A' {
			b[len(b)-3] = 'B'
		} else {
			b[len(b)-3] = 'A'
		}
		return string(b), false
	}
	return "garbage", false
}

func vCfgEntry(r *rand.Rand, id, ts, rev int64) *vEntry {
	e := &vEntry{T: "config", Id: id, Ts: ts, Rev: rev, Sup: true, Conf: true}
	if r.Intn(6) == 0 {
		e.Data = "this is = not [valid toml"
		e.CfgOk = false
		return e
	}
	banned := map[string]interface{}{}
	proj := map[string]interface{}{"rev": rev, "banned": banned}
	var sb strings.Builder
	exp := []int64{600, 1800, 60}[r.Intn(3)]
	fmt.Fprintf(&sb, "SessionExpiration = \"%ds\"\nPostMessageCooloff = \"0s\"\n", exp)
	proj["exp"] = exp
	maxs := []int64{0, 0, 3, 5}[r.Intn(4)]
	maxc := []int64{0, 0, 1, 2}[r.Intn(4)]
	fmt.Fprintf(&sb, "MaxSessions = %d\nMaxChannels = %d\n", maxs, maxc)
	proj["maxs"], proj["maxc"] = maxs, maxc
	capcfg := r.Intn(2) == 0
	caplogin := capcfg && r.Intn(4) == 0
	if capcfg {
		fmt.Fprintf(&sb, "CaptchaURL = \"http://captcha.example/\"\nCaptchaHMACSecret = \"%s\"\n", vCapSecretHex)
	}
	if caplogin {
		sb.WriteString("CaptchaRequiredForLogin = true\n")
	}
	proj["capcfg"], proj["caplogin"] = capcfg, caplogin
	sb.WriteString("[TrustedBridges]\nbridgeauth = \"bridge1\"\n")
	if r.Intn(3) == 0 {
		// a ban table written by hand (an address may be spelled differently than the server sees it)
		sb.WriteString("[Banned]\n")
		for _, a := range []string{"2001:DB8::1", "a3"}[:1+r.Intn(2)] {
			fmt.Fprintf(&sb, "%q = %q\n", a, "listed "+a)
			banned[a] = "listed " + a
		}
	}
	if r.Intn(2) == 0 {
		sb.WriteString("[WhitelistedOrigins]\n\"https://web.example\" = true\n")
	}
	opers := []interface{}{}
	svc := []interface{}{}
	if r.Intn(4) != 0 {
		sb.WriteString("[[IRC.Operators]]\nName = \"op\"\nPassword = \"pw\"\n")
		opers = append(opers, []interface{}{"op", "pw"})
		if r.Intn(2) == 0 {
			// a second operator with another password: a name goes with ITS password
			sb.WriteString("[[IRC.Operators]]\nName = \"admin\"\nPassword = \"pw2\"\n")
			opers = append(opers, []interface{}{"admin", "pw2"})
		}
	}
	if r.Intn(4) != 0 {
		sb.WriteString("[[IRC.Services]]\nPassword = \"spw\"\n")
		svc = append(svc, "spw")
	}
	proj["opers"], proj["svc"] = opers, svc
	e.Data = sb.String()
	e.Cfg = proj
	e.CfgOk = true
	return e
}

type vGen struct {
	script     []*vEntry // scripted warm-up: registered users (and a services link) before the random phase
	r          *rand.Rand
	id         int64
	ts         int64
	cmid       int64
	rev        int64
	length     int
	anySvsnick bool // SVSNICK with any target onto any nickname (outside C14's scope; determinism-only histories)
	realtime   bool // ts is set from the wall clock before every entry (HTTP-level stage)
	minlen     int  // a scripted warm-up that is longer than the history length extends the history
	wild       int  // percentage of client lines drawn from the grammar/mutation fuzzer instead of the alphabet
}

func (g *vGen) tick() {
	g.id++
	if g.realtime {
		return // entries are stamped by a real clock: the generator's notion of "now" must not run ahead of it
	}
	switch g.r.Intn(40) {
	case 0:
		g.ts += 61
	case 1:
		g.ts += 301
	case 2:
		g.ts += 601
	case 3, 4, 5, 6, 7, 8, 9, 10:
		g.ts++
	}
}

func strs(x interface{}) []string {
	var res []string
	if a, ok := x.([]string); ok {
		return a
	}
	if a, ok := x.([]interface{}); ok {
		for _, v := range a {
			res = append(res, v.(string))
		}
	}
	return res
}

// next produces the next entry given the projected state of the primary replica.
func (g *vGen) next(step int, st map[string]interface{}) *vEntry {
	r := g.r
	v := vViewOf(st)
	g.tick()
	cfg := st["cfg"].(map[string]interface{})
	if step == 1 && r.Intn(5) != 0 {
		g.script = g.warmup()
	}
	if len(g.script) > 0 {
		e := g.script[0]
		g.script = g.script[1:]
		e.Id, e.Ts = g.id, g.ts
		if e.T == "line" || e.T == "mod" {
			g.cmid++
			e.Cmid = g.cmid
		}
		return e
	}
	// prologue: a configuration and a few sessions
	if step == 1 || r.Intn(45) == 0 {
		g.rev++
		rev := g.rev
		if r.Intn(8) == 0 {
			rev += int64(r.Intn(3)) - 1 // the FSM applies whatever is in the log
			g.rev = rev
		}
		return vCfgEntry(r, g.id, g.ts, rev)
	}
	var clients, links []map[string]interface{}
	for _, s := range v.sess {
		if s["rid"].(int) == 0 && !s["del"].(bool) {
			if s["sv"].(bool) {
				links = append(links, s)
			} else {
				clients = append(clients, s)
			}
		}
	}
	atLimit := cfg["maxs"].(int64) > 0 && int64(len(v.sess)) >= cfg["maxs"].(int64)
	if (len(clients)+len(links) < 3 && r.Intn(3) == 0 && !atLimit) || r.Intn(40) == 0 {
		return &vEntry{T: "create", Id: g.id, Ts: g.ts, Data: fmt.Sprintf("auth%04d-secret", g.id), Sup: true, Conf: true}
	}
	all := append(append([]map[string]interface{}{}, clients...), links...)
	if len(all) == 0 {
		return &vEntry{T: "create", Id: g.id, Ts: g.ts, Data: fmt.Sprintf("auth%04d-secret", g.id), Sup: true, Conf: true}
	}
	actor := all[r.Intn(len(all))]
	if len(links) > 0 && r.Intn(3) == 0 {
		actor = links[r.Intn(len(links))]
	}
	// prefer getting sessions registered early on
	if step < 25 {
		for _, s := range clients {
			if !s["li"].(bool) && r.Intn(2) == 0 {
				actor = s
				break
			}
		}
	}
	sess := actor["id"].(int64)
	if r.Intn(60) == 0 {
		sess = g.id - 1 - int64(r.Intn(3)) // possibly not a session
	}
	switch r.Intn(70) {
	case 0:
		return &vEntry{T: "delete", Id: g.id, Sess: sess, Ts: g.ts, Data: pick(r, []string{"bye", "Ping timeout (10m0s)", ""}), Sup: true, Conf: true}
	case 1:
		g.cmid++
		return &vEntry{T: "mod", Id: g.id, Sess: sess, Ts: g.ts, Cmid: g.cmid, Data: "PANIC", Sup: true, Conf: true}
	}
	g.cmid++
	e := &vEntry{T: "line", Id: g.id, Sess: sess, Ts: g.ts, Cmid: g.cmid, Sup: true, Conf: true}
	if r.Intn(5) == 0 {
		e.Addr = pick(r, vAddrs)
	}

	// names taken from the state, in other spellings
	var nicks, members []string
	for _, s := range v.sess {
		if n := s["nick"].(string); n != "" && !s["del"].(bool) {
			nicks = append(nicks, n)
		}
	}
	anyNick := func() string {
		if len(nicks) > 0 && r.Intn(6) != 0 {
			return variant(r, nicks[r.Intn(len(nicks))])
		}
		if r.Intn(3) == 0 {
			return pick(r, vBadNicks)
		}
		return pick(r, vNicks)
	}
	var chans []string
	for _, k := range sortedKeys(v.chansAsIface()) {
		chans = append(chans, v.chans[k]["name"].(string))
	}
	anyChan := func() string {
		if len(chans) > 0 && r.Intn(5) != 0 {
			c := chans[r.Intn(len(chans))]
			if r.Intn(3) == 0 {
				c = strings.ToUpper(c)
			}
			return c
		}
		if r.Intn(5) == 0 {
			return pick(r, vBadChans)
		}
		return pick(r, vChans)
	}
	mych := strs(actor["chans"])
	myChan := func() string {
		if len(mych) > 0 && r.Intn(5) != 0 {
			c := mych[r.Intn(len(mych))]
			if cc, ok := v.chans[c]; ok {
				members = append(members, sortedKeys(cc["mem"].(map[string]interface{}))...)
			}
			return c
		}
		return anyChan()
	}
	memberOrNick := func() string {
		if len(members) > 0 && r.Intn(4) != 0 {
			return variant(r, members[r.Intn(len(members))])
		}
		return anyNick()
	}

	if !actor["sv"].(bool) && g.wild > 0 && r.Intn(100) < g.wild {
		e.Sup = false
		e.Data = vWildLine(r, anyNick, anyChan)
		return e
	}
	if actor["sv"].(bool) {
		// protocol-conforming services lines
		var pseudos []string
		for _, s := range v.sess {
			if s["rid"].(int) != 0 && s["id"].(int64) == actor["id"].(int64) && !s["del"].(bool) {
				pseudos = append(pseudos, s["nick"].(string))
			}
		}
		pfx := "services.example"
		if len(pseudos) > 0 && r.Intn(5) != 0 {
			pfx = pseudos[r.Intn(len(pseudos))]
		}
		clientNick := func() string {
			var cs []string
			for _, s := range v.sess {
				if s["rid"].(int) == 0 && s["nick"].(string) != "" && !s["del"].(bool) && !s["sv"].(bool) {
					cs = append(cs, s["nick"].(string))
				}
			}
			if len(cs) > 0 && r.Intn(6) != 0 {
				return variant(r, cs[r.Intn(len(cs))])
			}
			return anyNick()
		}
		switch r.Intn(22) {
		case 0, 1, 2, 3:
			n := pick(r, vPseudo)
			e.Data = fmt.Sprintf("NICK %s 1 %d %s services.example services.example 0 +o :%s service", n, g.ts, strings.ToLower(n[:2]), n)
		case 4:
			if len(pseudos) > 0 {
				e.Data = fmt.Sprintf(":%s QUIT :%s", variant(r, pseudos[r.Intn(len(pseudos))]), pick(r, []string{"gone", ""}))
			} else {
				e.Data = "PING :services.example"
			}
		case 5:
			if r.Intn(6) == 0 {
				e.Data = "QUIT :services going down"
			} else {
				e.Data = "PING :services.example"
			}
		case 6:
			e.Data = fmt.Sprintf(":%s KILL %s :%s", pfx, clientNick(), pick(r, []string{"bad boy", "x"}))
		case 7, 8:
			e.Data = fmt.Sprintf(":%s JOIN %s", pfx, anyChan())
		case 9:
			e.Data = fmt.Sprintf(":%s PART %s", pfx, anyChan())
		case 10:
			c := myChan()
			e.Data = fmt.Sprintf(":%s KICK %s %s :%s", pfx, anyChan(), memberOrNick(), "out")
			_ = c
		case 11:
			e.Data = fmt.Sprintf(":%s MODE %s %s %s", pfx, anyChan(), pick(r, []string{"+o", "-o", "+t", "-t", "+i", "-i", "+r", "+s", "+z"}), clientNick())
		case 12:
			e.Data = fmt.Sprintf(":%s TOPIC %s %s %s :%s", pfx, anyChan(), pfx, pick(r, []string{"0", "5", "77", "x"}), pick(r, vTexts))
		case 13:
			e.Data = fmt.Sprintf(":%s INVITE %s %s", pfx, clientNick(), anyChan())
		case 14, 15:
			tgt := clientNick()
			if r.Intn(2) == 0 {
				tgt = anyChan()
			}
			e.Data = fmt.Sprintf(":%s %s %s :%s", pfx, pick(r, []string{"PRIVMSG", "NOTICE"}), tgt, pick(r, []string{"hi", "hello world"}))
		case 16:
			// onto a nickname that is free under case mapping (scope of C14)
			nn := pick(r, []string{"zed", "Yan", "x[1]", "will"})
			free := true
			for _, n := range nicks {
				if strings.EqualFold(strings.NewReplacer("[", "{", "]", "}").Replace(n), strings.NewReplacer("[", "{", "]", "}").Replace(nn)) {
					free = false
				}
			}
			// scope of C14: SVSNICK renames a CLIENT session onto a free nickname. (Renaming one of the
			// services' own pseudo-clients and re-introducing the old spelling overwrites the session
			// keyed by the hash of that spelling - services never do that; see DESIGN.md §11.4.)
			target := "nosuchnick"
			var cs []string
			for _, s := range v.sess {
				if s["rid"].(int) == 0 && s["nick"].(string) != "" && !s["del"].(bool) && !s["sv"].(bool) {
					cs = append(cs, s["nick"].(string))
				}
			}
			if len(cs) > 0 && r.Intn(8) != 0 {
				target = variant(r, cs[r.Intn(len(cs))])
			}
			if g.anySvsnick && len(nicks) > 0 {
				// determinism-only histories (C01 holds for ALL histories): services also rename their own
				// pseudo-clients, and onto nicknames that are taken
				target = variant(r, nicks[r.Intn(len(nicks))])
				if r.Intn(2) == 0 {
					nn = nicks[r.Intn(len(nicks))]
				}
				e.Sup = false
				e.Data = fmt.Sprintf(":%s SVSNICK %s %s %d", pfx, target, nn, g.ts)
			} else if len(nicks) > 0 && r.Intn(3) == 0 {
				// a nickname that is indexed: another spelling of the target's own one, or somebody else's
				e.Data = fmt.Sprintf(":%s SVSNICK %s %s %d", pfx, target, variant(r, nicks[r.Intn(len(nicks))]), g.ts)
			} else if len(cs) > 0 && r.Intn(4) == 0 {
				own := cs[r.Intn(len(cs))]
				e.Data = fmt.Sprintf(":%s SVSNICK %s %s %d", pfx, own, variant(r, own), g.ts)
			} else if free {
				e.Data = fmt.Sprintf(":%s SVSNICK %s %s %d", pfx, target, nn, g.ts)
			} else {
				e.Data = fmt.Sprintf(":%s SVSNICK %s %s %d", pfx, target, "1bad", g.ts)
			}
		case 17, 18:
			e.Data = fmt.Sprintf(":%s SVSJOIN %s %s", pfx, clientNick(), anyChan())
		case 19:
			e.Data = fmt.Sprintf(":%s SVSPART %s %s", pfx, clientNick(), anyChan())
		case 20:
			e.Data = fmt.Sprintf(":%s SVSMODE %s %s", pfx, clientNick(), pick(r, []string{"+r", "-r", "+d 7", "+x", "r", "+d", "-d", "+d 0"}))
		case 21:
			if r.Intn(3) == 0 {
				e.Data = fmt.Sprintf(":%s SVSHOLD %s", pfx, pick(r, vNicks))
			} else {
				durs := []string{"0", "5", "100", "x"}
				if g.realtime {
					// entries are stamped by the real clock: whether a hold of 0 or 5 s has run out when the
					// next NICK arrives is a matter of nanoseconds the model (whole seconds) cannot follow
					durs = []string{"100", "900", "x"}
				}
				e.Data = fmt.Sprintf(":%s SVSHOLD %s %s :%s", pfx, pick(r, vNicks), pick(r, durs), "held")
			}
		}
		// the models's SVSNICK scope: target is a client session
		return e
	}

	if !actor["li"].(bool) {
		switch r.Intn(12) {
		case 0, 1, 2, 3:
			e.Data = "NICK " + anyNick()
			if r.Intn(3) == 0 {
				e.Data = "NICK " + pick(r, vNicks)
			}
		case 4, 5, 6:
			e.Data = fmt.Sprintf("USER %s 0 * :%s", pick(r, []string{"u1", "u2", "root"}), pick(r, []string{"Real Name", "R"}))
		case 7:
			switch r.Intn(8) {
			case 6, 7:
				// several parts between colons: tags in any case, bare keywords, empty parts, a tag twice
				e.Data = "PASS :" + pick(r, vPassShapes)
			case 0:
				e.Data = "PASS services=spw"
			case 1:
				e.Data = "PASS oper=op pw"
			case 2:
				e.Data = "PASS secret"
			case 3:
				tok, ok := vCaptcha(r, g.ts, "")
				e.Data = "PASS captcha=" + tok
				e.CapOk = ok
			case 4:
				e.Data = "PASS services=wrong"
			case 5:
				e.Data = "PASS oper=op wrong"
			}
		case 8:
			e.Data = "SERVER services.example 1 :Services"
		case 9:
			e.Data = "QUIT :never mind"
			if r.Intn(3) != 0 {
				e.Data = "JOIN #a"
			}
		default:
			e.Data = "PRIVMSG " + anyNick() + " :early"
		}
		if actor["pass"].(string) != "" && strings.HasPrefix(actor["pass"].(string), "captcha=") {
			// the captcha stored by an earlier PASS is verified at login: tell the model whether it is acceptable now
			e.CapOk = vVerifyMirror(strings.TrimPrefix(actor["pass"].(string), "captcha="), g.ts)
		}
		return e
	}

	op := actor["op"].(bool)
	_ = op
	switch r.Intn(64) {
	case 0, 1, 2, 3, 4, 5, 6:
		c := anyChan()
		e.Data = "JOIN " + c
		if r.Intn(3) == 0 {
			if cfg["capcfg"].(bool) && r.Intn(2) == 0 && !strings.Contains(c, ",") {
				tok, ok := vCaptcha(r, g.ts, c)
				e.Data += " " + tok
				e.CapOk = ok
			} else {
				e.Data += " " + pick(r, vKeys)
			}
		}
	case 7, 8:
		e.Data = "PART " + myChan()
	case 9, 10, 11:
		c := myChan()
		e.Data = fmt.Sprintf("KICK %s %s :%s", c, memberOrNick(), pick(r, []string{"bye", "go away"}))
	case 12, 13, 14, 15, 16, 17, 18:
		c := myChan()
		switch r.Intn(14) {
		case 0:
			e.Data = "MODE " + c
		case 1:
			e.Data = fmt.Sprintf("MODE %s %s", c, pick(r, []string{"+i", "-i", "+s", "-s", "+t", "-t", "+n", "-n", "+x", "-x", "+it", "-it+s", "+z",
				"+b-t", "+b+i", "-t+b", "+z-t", "-k+b", "+b-k", "+b-n+s"}))
		case 2, 3:
			e.Data = fmt.Sprintf("MODE %s %s %s", c, pick(r, []string{"+o", "-o", "+oo"}), memberOrNick())
		case 4, 5:
			e.Data = fmt.Sprintf("MODE %s +k %s", c, pick(r, vKeys))
		case 6:
			e.Data = fmt.Sprintf("MODE %s -k %s", c, pick(r, []string{"k1", ""}))
		case 7, 8, 9:
			masks := []string{"*!*@a1", "*!*@a2", "bob!*@*", "*!u1@*", "*alice*", "*!*@robust/0x2", "*!*@robust/0x3",
				"BOB!*@*", "*!*@A1", "*!*@h[x]", "*!*@H{X}", "b[ob]!*@*", "B{OB}!*@*"} // incl. masks equal under IRC case mapping
			m := pick(r, masks)
			if len(clients) > 0 && r.Intn(3) == 0 {
				// a session that exists, by its host (the server bans the session's address along with it)
				m = fmt.Sprintf("*!*@robust/0x%x", clients[r.Intn(len(clients))]["id"].(int64))
			}
			// like nicknames and channels: prefer an existing mask in another spelling
			if cc, ok := v.chans[strings.ToLower(c)]; ok {
				if bans, ok := cc["bans"].([]interface{}); ok && len(bans) > 0 && r.Intn(2) == 0 {
					m = variant(r, bans[r.Intn(len(bans))].(map[string]interface{})["m"].(string))
				}
			}
			e.Data = fmt.Sprintf("MODE %s %s %s", c, pick(r, []string{"+b", "+b", "-b"}), m)
		case 10:
			e.Data = fmt.Sprintf("MODE %s +b", c)
		case 11:
			e.Data = fmt.Sprintf("MODE %s %s", anyNick(), pick(r, []string{"+i", "-i", "+G", "-G", "+iG", "+o", ""}))
		case 12:
			e.Data = fmt.Sprintf("MODE %s +k", c)
		case 13:
			e.Data = fmt.Sprintf("MODE %s +ik-t %s", c, pick(r, vKeys))
		}
	case 19, 20, 21, 22:
		c := anyChan()
		if r.Intn(2) == 0 {
			c = myChan()
		}
		switch r.Intn(4) {
		case 0:
			e.Data = "TOPIC " + c
		case 1:
			e.Data = "TOPIC " + c + " :"
		default:
			e.Data = "TOPIC " + c + " :" + pick(r, []string{"new topic", "t"})
		}
	case 23, 24, 25:
		e.Data = fmt.Sprintf("INVITE %s %s", anyNick(), myChan())
	case 26, 27, 28, 29, 30, 31:
		tgt := anyNick()
		if r.Intn(2) == 0 {
			tgt = anyChan()
			if r.Intn(2) == 0 {
				tgt = myChan()
			}
		}
		if r.Intn(12) == 0 {
			tgt = "$*"
		}
		e.Data = fmt.Sprintf("%s %s :%s", pick(r, []string{"PRIVMSG", "NOTICE", "privmsg"}), tgt, pick(r, []string{"hi", "hello world"}))
		if r.Intn(15) == 0 {
			e.Data = pick(r, []string{"PRIVMSG", "PRIVMSG " + tgt})
		}
	case 32, 33, 34:
		e.Data = "NICK " + anyNick()
		if r.Intn(3) == 0 {
			e.Data = "NICK " + variant(r, actor["nick"].(string))
		}
	case 35:
		e.Data = "QUIT :" + pick(r, []string{"bye", ""})
	case 36, 37:
		e.Data = fmt.Sprintf("KILL %s :%s", anyNick(), "reason")
	case 38:
		e.Data = fmt.Sprintf("GLINE %s :%s", anyNick(), pick(r, []string{"spam", ""}))
	case 39, 40, 41:
		e.Data = pick(r, []string{"OPER op pw", "OPER op wrong", "OPER nobody pw", "OPER op", "OPER admin pw2", "OPER op pw2", "OPER admin pw"})
	case 42, 56, 57:
		e.Data = "AWAY :" + pick(r, []string{"gone", "", "brb soon"})
	case 43:
		e.Data = pick(r, []string{"NAMES " + anyChan(), "NAMES"})
	case 44:
		e.Data = pick(r, []string{"WHO " + anyChan(), "WHO"})
	case 45, 46:
		e.Data = "WHOIS " + anyNick()
	case 47:
		e.Data = pick(r, []string{"LIST", "LIST " + anyChan()})
	case 48:
		e.Data = "ISON " + anyNick() + " " + anyNick()
	case 49:
		e.Data = "USERHOST " + anyNick()
	case 50:
		e.Data = pick(r, []string{"PING x", "PING", "ping :y"})
	case 51:
		e.Data = "KNOCK " + anyChan() + pick(r, []string{"", " :let me in"})
	case 52:
		e.Data = "MOTD"
	case 53:
		e.Data = pick(r, []string{"NS identify pw", "CS op #a", "NICKSERV help"})
	case 54:
		e.Data = pick(r, []string{"FOO bar", "JOIN", "KICK #a", "INVITE bob", "TOPIC", "x", "", ":onlyprefix", "USER a", "SERVER a b"})
	case 55:
		e.Data = pick(r, []string{"PASS x", "USER u2 0 * :again", "SERVER x 1 :y"})
	default:
		// outside the alphabet: C06 fuzz + invariants only
		e.Sup = false
		e.Data = vWildLine(r, anyNick, anyChan)
	}
	return e
}

// warmup returns a scripted registration phase; session ids are the entry ids, which are
// assigned when the entries are emitted (entry k of the script gets id g.id+k-1... the
// script therefore refers to sessions by position: Sess is patched below).
// volume: a history in which one thing exists in large numbers (more channels and pending invitations than any
// plausible internal cap or cache holds), so that "after the N-th item" code paths run
func (g *vGen) volume() []*vEntry {
	r := g.r
	var es []*vEntry
	g.rev++
	cfg := vCfgEntry(r, 0, 0, g.rev)
	for !cfg.CfgOk || cfg.Cfg["maxs"].(int64) != 0 || cfg.Cfg["maxc"].(int64) != 0 || len(cfg.Cfg["opers"].([]interface{})) == 0 {
		cfg = vCfgEntry(r, 0, 0, g.rev)
	}
	es = append(es, cfg)
	base := g.id
	line := func(sess int64, data string) {
		es = append(es, &vEntry{T: "line", Sess: sess, Data: data, Sup: true, Conf: true})
	}
	for k := 0; k < 2; k++ {
		es = append(es, &vEntry{T: "create", Data: fmt.Sprintf("auth%04d-secret", base+int64(k)+1), Sup: true, Conf: true})
	}
	a, b := base+1, base+2
	line(a, "NICK alice")
	line(a, "USER u1 0 * :Real 1")
	line(b, "NICK bob")
	line(b, "USER u2 0 * :Real 2")
	const n = 36
	for lo := 1; lo <= n; lo += 6 {
		var cs []string
		for k := lo; k < lo+6 && k <= n; k++ {
			cs = append(cs, fmt.Sprintf("#v%02d", k))
		}
		line(a, "JOIN "+strings.Join(cs, ","))
	}
	line(a, "MODE #v09 +i")
	for k := 1; k <= n; k++ {
		line(a, fmt.Sprintf("INVITE bob #v%02d", k))
	}
	for _, k := range []int{9, 1, n} {
		line(b, fmt.Sprintf("JOIN #v%02d", k))
	}
	// names that differ only in their run of leading sigils, or in where a sigil stands: whatever lists
	// channels in an order has to order these as well
	line(a, "JOIN ##v01,#@v01,#v01#,###v01")
	line(b, "JOIN ##v01,#@v01")
	line(b, "WHOIS alice")
	line(a, "WHOIS bob")
	line(a, "LIST")
	// a member of more channels than one reply line holds (the list of WHOIS passes 510 bytes): whatever
	// the server does with the overflow, every replica has to do the same
	for lo := 1; lo <= 18; lo += 6 {
		var cs []string
		for k := lo; k < lo+6; k++ {
			cs = append(cs, fmt.Sprintf("#w%02d-a-long-channel-name", k))
		}
		line(a, "JOIN "+strings.Join(cs, ","))
	}
	line(b, "WHOIS alice")
	line(b, "JOIN 0") // not a channel name (some servers read it as "leave everything")
	if r.Intn(2) == 0 {
		// the operators lower the channel limit below the number of channels that exist: nothing is
		// destroyed, and no new channel comes into being until enough old ones are gone
		g.rev++
		low := vCfgEntry(r, 0, 0, g.rev)
		for !low.CfgOk || low.Cfg["maxs"].(int64) != 0 || low.Cfg["maxc"].(int64) != 2 {
			low = vCfgEntry(r, 0, 0, g.rev)
		}
		es = append(es, low)
		line(a, "JOIN #new1")
		line(b, "JOIN #new2,#new3,#v02")
		line(a, "PART #v35,#v36")
		line(a, "JOIN #new4,#new5")
	}
	g.minlen = len(es) + 8
	return es
}

// bantable: the same address banned twice under two spellings - listed by hand in the configuration and banned
// again by an operator's GLINE - and then a new client arrives from it
func (g *vGen) bantable() []*vEntry {
	r := g.r
	var es []*vEntry
	pickCfg := func(withTable bool) *vEntry {
		g.rev++
		for {
			cfg := vCfgEntry(r, 0, 0, g.rev)
			if !cfg.CfgOk || cfg.Cfg["maxs"].(int64) != 0 || len(cfg.Cfg["opers"].([]interface{})) == 0 {
				continue
			}
			if (cfg.Cfg["banned"].(map[string]interface{})["2001:DB8::1"] != nil) == withTable {
				return cfg
			}
		}
	}
	es = append(es, pickCfg(false))
	base := g.id
	for k := 0; k < 3; k++ {
		es = append(es, &vEntry{T: "create", Data: fmt.Sprintf("auth%04d-secret", base+int64(k)+1), Sup: true, Conf: true})
	}
	line := func(sess int64, data, addr string) {
		es = append(es, &vEntry{T: "line", Sess: sess, Data: data, Addr: addr, Sup: true, Conf: true})
	}
	a, b, c := base+1, base+2, base+3
	line(a, "NICK alice", "a1")
	line(a, "USER u1 0 * :Real 1", "")
	line(b, "NICK bob", "2001:db8::1")
	line(b, "USER u2 0 * :Real 2", "")
	line(a, "OPER op pw", "")
	line(b, "JOIN #a", "")
	// the address is listed while its user is connected (a ban only closes sessions whose address changes) ...
	es = append(es, pickCfg(true))
	// ... and banned once more by an operator
	line(a, "GLINE bob :spam", "")
	line(c, "NICK carol", "2001:db8::1")
	line(c, "USER u3 0 * :Real 3", "")
	return es
}

// respell: a channel operator takes other spellings of its OWN nickname (letter case, the bracket pairs of
// the IRC case mapping, both) and goes on using its channels under each of them
func (g *vGen) respell() []*vEntry {
	r := g.r
	var es []*vEntry
	g.rev++
	cfg := vCfgEntry(r, 0, 0, g.rev)
	for !cfg.CfgOk || cfg.Cfg["maxs"].(int64) != 0 || cfg.Cfg["maxc"].(int64) != 0 {
		cfg = vCfgEntry(r, 0, 0, g.rev)
	}
	es = append(es, cfg)
	base := g.id
	line := func(sess int64, data string) {
		es = append(es, &vEntry{T: "line", Sess: sess, Data: data, Sup: true, Conf: true})
	}
	for k := 0; k < 2; k++ {
		es = append(es, &vEntry{T: "create", Data: fmt.Sprintf("auth%04d-secret", base+int64(k)+1), Sup: true, Conf: true})
	}
	a, b := base+1, base+2
	spell := [][]string{
		{"b[ob]", "b{ob}", "B[OB}", "b[ob]"},
		{"fr\\ed", "fr|ed", "FR\\ED", "Fr|ed"},
		{"x{y}|z", "x[y]\\z", "X{Y]|Z", "x{y}|z"},
	}[r.Intn(3)]
	line(a, "NICK "+spell[0])
	line(a, "USER u1 0 * :Real 1")
	line(b, "NICK alice")
	line(b, "USER u2 0 * :Real 2")
	line(a, "JOIN #a,#b")
	line(b, "JOIN #a")
	for k, n := range spell[1:] {
		line(a, "NICK "+n)
		switch (k + r.Intn(3)) % 3 {
		case 0:
			line(a, fmt.Sprintf("TOPIC #a :topic %d", k))
			line(a, "MODE #b +i")
		case 1:
			line(a, "PART #b")
			line(a, "JOIN #b")
			line(a, "MODE #a +o alice")
		case 2:
			line(b, "PRIVMSG "+n+" :still there?")
			line(a, "KICK #a alice :out")
			line(b, "JOIN #a")
		}
		line(b, "WHOIS "+spell[0])
		line(a, "NAMES #a")
	}
	g.minlen = len(es) + 6
	return es
}

// prelogin: the services put a session that has a nickname but has not logged in yet into channels; the
// session renames itself (twice) before it completes the login, and the channels are used afterwards
func (g *vGen) prelogin() []*vEntry {
	r := g.r
	var es []*vEntry
	g.rev++
	cfg := vCfgEntry(r, 0, 0, g.rev)
	for !cfg.CfgOk || cfg.Cfg["maxs"].(int64) != 0 || cfg.Cfg["maxc"].(int64) != 0 || len(cfg.Cfg["svc"].([]interface{})) == 0 {
		cfg = vCfgEntry(r, 0, 0, g.rev)
	}
	es = append(es, cfg)
	base := g.id
	line := func(sess int64, data string) {
		es = append(es, &vEntry{T: "line", Sess: sess, Data: data, Sup: true, Conf: true})
	}
	for k := 0; k < 3; k++ {
		es = append(es, &vEntry{T: "create", Data: fmt.Sprintf("auth%04d-secret", base+int64(k)+1), Sup: true, Conf: true})
	}
	a, c, l := base+1, base+2, base+3
	line(a, "NICK alice")
	line(a, "USER u1 0 * :Real 1")
	line(a, "JOIN #a")
	line(l, "PASS services=spw")
	line(l, "SERVER services.example 1 :Services")
	line(l, "NICK ChanServ 1 1 cs services.example services.example 0 +o :ChanServ service")
	line(c, "NICK carol")
	line(l, ":ChanServ SVSJOIN carol #a")
	if r.Intn(2) == 0 {
		line(l, ":ChanServ SVSJOIN carol #b")
	}
	line(c, "NICK dave")
	line(a, "NAMES #a")
	line(a, "PRIVMSG #a :anyone?")
	if r.Intn(2) == 0 {
		line(c, "NICK "+pick(r, []string{"DAVE", "eve"}))
	}
	line(c, "USER u2 0 * :Real 2")
	line(c, "PRIVMSG #a :here")
	line(a, "WHOIS "+pick(r, []string{"carol", "dave"}))
	line(a, "KICK #a dave :out")
	line(c, "PART #a")
	g.minlen = len(es) + 6
	return es
}

// oddaddr: a session whose stored remote address is not an address (a trusted bridge forwards what it was
// given) is named in ban masks: the address is pasted into the second pattern of the ban, which then does
// not compile - with an empty ban list, with the mask on the list, when setting and when removing
func (g *vGen) oddaddr() []*vEntry {
	r := g.r
	var es []*vEntry
	g.rev++
	cfg := vCfgEntry(r, 0, 0, g.rev)
	for !cfg.CfgOk || cfg.Cfg["maxs"].(int64) != 0 || cfg.Cfg["maxc"].(int64) != 0 {
		cfg = vCfgEntry(r, 0, 0, g.rev)
	}
	es = append(es, cfg)
	base := g.id
	line := func(sess int64, data, addr string) {
		es = append(es, &vEntry{T: "line", Sess: sess, Data: data, Sup: true, Conf: true, Addr: addr})
	}
	for k := 0; k < 2; k++ {
		es = append(es, &vEntry{T: "create", Data: fmt.Sprintf("auth%04d-secret", base+int64(k)+1), Sup: true, Conf: true})
	}
	a, b := base+1, base+2
	odd := pick(r, []string{"[2001:db8::1", "(unknown"})
	line(a, "NICK alice", "a1")
	line(a, "USER u1 0 * :Real 1", "")
	line(b, "NICK bob", odd)
	line(b, "USER u2 0 * :Real 2", "")
	line(a, "JOIN #a", "")
	mask := fmt.Sprintf("*!*@robust/0x%x", b)
	if r.Intn(2) == 0 {
		line(a, "MODE #a -b "+mask, "") // nothing on the list
	}
	line(a, "MODE #a +b "+mask, "")
	line(a, "MODE #a +b", "")
	line(a, "MODE #a -b "+mask, "")
	line(a, "MODE #a -b "+mask, "")
	line(a, "MODE #a +b", "")
	line(b, "JOIN #a", "")
	line(a, "MODE #a +b-b "+mask+" "+mask, "")
	g.minlen = len(es) + 6
	return es
}

var vPassShapes = []string{"hunter2:oper", "oper", "x:nickserv", "nickserv=a:b:oper=op pw", "OPER=op pw",
	"oper=op pw:tail", ":oper=op pw", "oper=:x", "captcha:oper=op wrong:", "nickserv=:", "services=spw:x", "oper=op pw:oper=", "a:b:c",
	"oper=admin pw2:nickserv=n", "Nickserv=x:y", "captcha", "x:captcha:y", "NICKSERV", "network=n:session=s:oper"}

// passparts: sessions that log in after a PASS made of several parts (the parts are taken apart at login)
func (g *vGen) passparts() []*vEntry {
	r := g.r
	var es []*vEntry
	g.rev++
	cfg := vCfgEntry(r, 0, 0, g.rev)
	for !cfg.CfgOk || cfg.Cfg["maxs"].(int64) != 0 {
		cfg = vCfgEntry(r, 0, 0, g.rev)
	}
	es = append(es, cfg)
	base := g.id
	line := func(sess int64, data string) {
		es = append(es, &vEntry{T: "line", Sess: sess, Data: data, Sup: true, Conf: true})
	}
	const n = 4
	for k := 0; k < n; k++ {
		es = append(es, &vEntry{T: "create", Data: fmt.Sprintf("auth%04d-secret", base+int64(k)+1), Sup: true, Conf: true})
	}
	nicks := []string{"alice", "bob", "carol", "dave"}
	for k := 0; k < n; k++ {
		sess := base + int64(k) + 1
		pass := "PASS :" + pick(r, vPassShapes)
		switch r.Intn(3) {
		case 0:
			line(sess, pass)
			line(sess, "NICK "+nicks[k])
			line(sess, fmt.Sprintf("USER u%d 0 * :Real %d", k, k))
		case 1:
			line(sess, "NICK "+nicks[k])
			line(sess, pass)
			line(sess, fmt.Sprintf("USER u%d 0 * :Real %d", k, k))
		default:
			line(sess, "NICK "+nicks[k])
			line(sess, fmt.Sprintf("USER u%d 0 * :Real %d", k, k))
			line(sess, pass) // after the login (with a captcha required for the login: what completes it)
		}
		line(sess, "JOIN #a")
	}
	g.minlen = len(es) + 6
	return es
}

// crowd: so many members with long nicknames in one channel that the list of names no longer fits into one
// line (what is cut, and where, must not depend on anything but the log)
func (g *vGen) crowd() []*vEntry {
	r := g.r
	var es []*vEntry
	g.rev++
	cfg := vCfgEntry(r, 0, 0, g.rev)
	for !cfg.CfgOk || cfg.Cfg["maxs"].(int64) != 0 || cfg.Cfg["maxc"].(int64) != 0 || cfg.Cfg["caplogin"].(bool) {
		cfg = vCfgEntry(r, 0, 0, g.rev)
	}
	es = append(es, cfg)
	base := g.id
	line := func(sess int64, data string) {
		es = append(es, &vEntry{T: "line", Sess: sess, Data: data, Sup: true, Conf: true})
	}
	const n = 19
	for k := 0; k < n; k++ {
		es = append(es, &vEntry{T: "create", Data: fmt.Sprintf("auth%04d-secret", base+int64(k)+1), Sup: true, Conf: true})
	}
	order := r.Perm(n)
	for _, k := range order {
		sess := base + int64(k) + 1
		line(sess, fmt.Sprintf("NICK crowd-member-%02d-of-many-xxxxxxx", k))
		line(sess, fmt.Sprintf("USER u%d 0 * :Real %d", k, k))
	}
	for _, k := range r.Perm(n) {
		line(base+int64(k)+1, "JOIN #crowd")
	}
	a := base + int64(order[0]) + 1
	line(a, "NAMES #crowd")
	line(a, "WHO #crowd")
	line(a, "PART #crowd")
	line(a, "JOIN #crowd")
	g.minlen = len(es) + 6
	return es
}

func (g *vGen) warmup() []*vEntry {
	r := g.r
	if g.anySvsnick && r.Intn(5) == 0 {
		// determinism-only histories: the model's string operators make states with hundreds of bytes of
		// nicknames too slow to evaluate in TLC; the replicas' agreement is what is judged there
		return g.crowd()
	}
	switch r.Intn(28) {
	case 0, 1:
		return g.volume()
	case 2, 3:
		return g.bantable()
	case 4, 5:
		return g.respell()
	case 6, 7:
		return g.prelogin()
	case 8, 9:
		return g.oddaddr()
	case 10, 11:
		return g.passparts()
	}
	var es []*vEntry
	g.rev++
	cfg := vCfgEntry(r, 0, 0, g.rev)
	for !cfg.CfgOk || len(cfg.Cfg["svc"].([]interface{})) == 0 || len(cfg.Cfg["opers"].([]interface{})) == 0 ||
		cfg.Cfg["maxs"].(int64) != 0 && r.Intn(3) != 0 {
		cfg = vCfgEntry(r, 0, 0, g.rev)
	}
	es = append(es, cfg)
	base := g.id // the config entry gets id base; creates get base+1..
	n := 2 + r.Intn(3)
	for k := 0; k < n; k++ {
		es = append(es, &vEntry{T: "create", Data: fmt.Sprintf("auth%04d-secret", base+int64(k)+1), Sup: true, Conf: true})
	}
	nicks := []string{"alice", "bob", "carol", "dave", "b[ob]", "fr\\ed"}
	r.Shuffle(len(nicks), func(a, b int) { nicks[a], nicks[b] = nicks[b], nicks[a] })
	withLink := r.Intn(2) == 0
	for k := 0; k < n; k++ {
		sess := base + int64(k) + 1
		if withLink && k == n-1 {
			es = append(es, &vEntry{T: "line", Sess: sess, Data: "PASS services=spw", Sup: true, Conf: true})
			es = append(es, &vEntry{T: "line", Sess: sess, Data: "SERVER services.example 1 :Services", Sup: true, Conf: true})
			for _, p := range vPseudo[:2+r.Intn(3)] {
				user := strings.ToLower(p[:2])
				if r.Intn(4) == 0 {
					user = "helpdesk-bot-of-the-robustirc-services-team" // longer than the limit for ordinary users
				}
				es = append(es, &vEntry{T: "line", Sess: sess, Sup: true, Conf: true,
					Data: fmt.Sprintf("NICK %s 1 1 %s services.example services.example 0 +o :%s service", p, user, p)})
			}
			continue
		}
		if r.Intn(6) == 0 {
			es = append(es, &vEntry{T: "line", Sess: sess, Data: pick(r, []string{"PASS oper=op pw", "PASS secret"}), Sup: true, Conf: true})
		}
		es = append(es, &vEntry{T: "line", Sess: sess, Data: "NICK " + nicks[k], Sup: true, Conf: true, Addr: pick(r, []string{"", "a1", "a2"})})
		es = append(es, &vEntry{T: "line", Sess: sess, Data: fmt.Sprintf("USER u%d 0 * :Real %d", k+1, k+1), Sup: true, Conf: true})
		if r.Intn(2) == 0 {
			es = append(es, &vEntry{T: "line", Sess: sess, Data: "JOIN " + pick(r, []string{"#a", "#b", "#a,#b", "#Chan", "#A", "#Chan,#b"}), Sup: true, Conf: true})
			if r.Intn(8) == 0 {
				// SERVER is an ordinary client command: a logged-in member may send it too
				es = append(es, &vEntry{T: "line", Sess: sess, Data: "PASS services=spw", Sup: true, Conf: true})
				es = append(es, &vEntry{T: "line", Sess: sess, Data: "SERVER late.example 1 :Late", Sup: true, Conf: true})
			}
		}
	}
	return es
}

var vAllCmds = []string{"NICK", "USER", "PASS", "JOIN", "PART", "KICK", "QUIT", "KILL", "GLINE", "OPER", "MODE", "TOPIC",
	"INVITE", "PRIVMSG", "NOTICE", "AWAY", "PING", "KNOCK", "ISON", "USERHOST", "MOTD", "NAMES", "LIST", "WHO", "WHOIS",
	"SERVER", "NICKSERV", "NS", "CHANSERV", "CS", "OPERSERV", "MEMOSERV", "HOSTSERV", "BOTSERV", "BS", "HS", "MS", "OS",
	"SVSNICK", "SVSJOIN", "SVSPART", "SVSMODE", "SVSHOLD", "CAP", "PONG", "WHOWAS", "PANIC"}

func vWildLine(r *rand.Rand, anyNick, anyChan func() string) string {
	atoms := []func() string{
		anyNick, anyChan,
		func() string { return "" },
		func() string { return ":" },
		func() string {
			return pick(r, []string{"+o", "-o", "+b", "+k", "+otsinkxbdrG", "-otsinkxbdrG", "+bbbb", "+kkk", "+ooo", "o", "+", "-"})
		},
		func() string { return pick(r, []string{"#a,#b,#c", "#a,,#b", ",", "#a,&x"}) },
		func() string { return strings.Repeat("x", 1+r.Intn(600)) },
		func() string {
			return pick(r, []string{"\x01ACTION x\x01", "caf\xc3\xa9", "\xff\xfe", "a\rb", "a\x00b", "\t"})
		},
		func() string { return pick(r, []string{"*", "*!*@*", "$*", "0", "-1", "99999999999999999999"}) },
	}
	var sb strings.Builder
	if r.Intn(12) == 0 {
		sb.WriteString(":" + anyNick() + " ")
	}
	sb.WriteString(pick(r, vAllCmds))
	n := r.Intn(6)
	for k := 0; k < n; k++ {
		sb.WriteString(" ")
		if k == n-1 && r.Intn(2) == 0 {
			sb.WriteString(":")
		}
		sb.WriteString(atoms[r.Intn(len(atoms))]())
	}
	s := sb.String()
	if r.Intn(10) == 0 && len(s) > 2 {
		b := []byte(s)
		b[r.Intn(len(b))] = byte(r.Intn(256))
		s = string(b)
	}
	// what reaches the state machine through the HTTP API went through encoding/json,
	// which replaces invalid UTF-8 by U+FFFD
	s = strings.ToValidUTF8(s, "\uFFFD")
	// ... and the POST handler cuts the line at the first CR, LF or NUL
	if idx := strings.IndexAny(s, "\r\n\x00"); idx > -1 {
		s = s[:idx]
	}
	return s
}

// vVerifyMirror is the harness's own reading of a token it minted itself
// (purpose okay:…:<nanos>:…, valid mac by construction unless garbage).
func vVerifyMirror(tok string, ts int64) bool {
	parts := strings.Split(tok, ".")
	if len(parts) != 3 {
		return false
	}
	p, err := base64.StdEncoding.DecodeString(parts[0])
	if err != nil {
		return false
	}
	if tok != vToken(string(p)) { // mac or challenge tampered with
		return false
	}
	pp := strings.Split(string(p), ":")
	if len(pp) != 4 || pp[0] != "okay" {
		return false
	}
	var nanos int64
	if _, err := fmt.Sscanf(pp[2], "%d", &nanos); err != nil {
		return false
	}
	return ts-nanos/1000000000 <= 300
}

func vGenHistory(rng *rand.Rand, length int, wild int) func(step int, st map[string]interface{}) *vEntry {
	return vGenHistoryOpt(rng, length, wild, false)
}

func vGenHistoryOpt(rng *rand.Rand, length int, wild int, anySvsnick bool) func(step int, st map[string]interface{}) *vEntry {
	g := &vGen{r: rng, ts: vTsBase + int64(rng.Intn(100)), length: length, wild: wild, anySvsnick: anySvsnick}
	return func(step int, st map[string]interface{}) *vEntry {
		if step > length && step > g.minlen {
			return nil
		}
		return g.next(step, st)
	}
}
