package main

// Fan-out probes: from the final state of a history, every actor x command
// template x target taken from that state is applied ONCE to a fresh copy of
// the server (Marshal/Unmarshal fork), and recorded as a one-step history. This
// is the "one implementation test per transition" idea applied to states the
// real server actually reached: role x command x parameter shape x membership
// x channel-mode combinations that random walks hit only rarely.

import (
	"encoding/json"
	"fmt"
	"strings"
	"time"

	"github.com/robustirc/robustirc/internal/ircserver"
)

func vFanTemplates(proj map[string]interface{}) []*vEntry {
	var res []*vEntry
	v := vViewOf(proj)
	var chans []string
	members := map[string][]string{}
	for _, k := range sortedKeys(v.chansAsIface()) {
		c := v.chans[k]
		name := c["name"].(string)
		chans = append(chans, name)
		members[name] = sortedKeys(c["mem"].(map[string]interface{}))
	}
	if len(chans) > 3 {
		chans = chans[:3]
	}
	var nicks []string
	for _, s := range v.sess {
		if n := s["nick"].(string); n != "" && !s["del"].(bool) {
			nicks = append(nicks, n)
		}
	}
	if len(nicks) > 8 {
		nicks = nicks[:8]
	}
	add := func(sess int64, line string) {
		res = append(res, &vEntry{T: "line", Sess: sess, Data: line, Sup: true, Conf: true})
	}
	up := func(s string) string { return strings.ToUpper(s) }
	for _, s := range v.sess {
		if s["rid"].(int) != 0 || s["del"].(bool) {
			continue
		}
		id := s["id"].(int64)
		res = append(res, &vEntry{T: "delete", Sess: id, Data: "bye", Sup: true, Conf: true})
		if s["sv"].(bool) {
			pfxs := []string{"services.example"}
			for _, p := range v.sess {
				if p["rid"].(int) != 0 && p["id"].(int64) == id && !p["del"].(bool) {
					pfxs = append(pfxs, p["nick"].(string))
					if len(pfxs) == 8 {
						break
					}
				}
			}
			for _, p := range pfxs {
				for _, c := range append(append([]string{}, chans...), "#new") {
					add(id, fmt.Sprintf(":%s JOIN %s", p, c))
					add(id, fmt.Sprintf(":%s PART %s", p, c))
					add(id, fmt.Sprintf(":%s PRIVMSG %s :hi", p, c))
					add(id, fmt.Sprintf(":%s MODE %s +i", p, c))
					add(id, fmt.Sprintf(":%s TOPIC %s %s 5 :svc topic", p, c, p))
					add(id, fmt.Sprintf(":%s TOPIC %s %s 0 :svc topic at epoch", p, c, p))
					for _, m := range members[c] {
						add(id, fmt.Sprintf(":%s KICK %s %s :x", p, c, m))
						add(id, fmt.Sprintf(":%s MODE %s +o %s", p, c, m))
						add(id, fmt.Sprintf(":%s MODE %s -o %s", p, c, m))
					}
				}
				for _, n := range nicks {
					add(id, fmt.Sprintf(":%s KILL %s :x", p, n))
					add(id, fmt.Sprintf(":%s PRIVMSG %s :hi", p, n))
					add(id, fmt.Sprintf(":%s SVSMODE %s +r", p, n))
					for _, c := range append(append([]string{}, chans...), "#new") {
						add(id, fmt.Sprintf(":%s SVSJOIN %s %s", p, n, c))
						add(id, fmt.Sprintf(":%s SVSPART %s %s", p, n, c))
						add(id, fmt.Sprintf(":%s INVITE %s %s", p, n, c))
					}
				}
				add(id, fmt.Sprintf(":%s SVSHOLD dave 5 :held", p))
				add(id, fmt.Sprintf(":%s QUIT :gone", p))
			}
			add(id, "QUIT :services going down")
			for _, pn := range vPseudo {
				add(id, fmt.Sprintf("NICK %s 1 1 %s services.example services.example 0 +o :%s service", pn, strings.ToLower(pn[:2]), pn))
			}
			add(id, "NICK Global 1 1 gl services.example services.example 0 +o :Global service")
			add(id, "PING :x")
			continue
		}
		if !s["li"].(bool) {
			for _, l := range []string{"NICK zed", "USER uz 0 * :Z", "QUIT :bye", "JOIN #a", "PASS secret", "PASS services=spw", "SERVER services.example 1 :S", "PING x"} {
				add(id, l)
			}
			for _, n := range nicks {
				add(id, "NICK "+n)
				add(id, "NICK "+up(n))
			}
			continue
		}
		for _, l := range []string{"AWAY :gone", "AWAY :", "OPER op pw", "OPER op bad", "QUIT :bye", "PING x", "MOTD", "LIST", "NICK zed",
			"NICK " + up(s["nick"].(string)), "JOIN #new", "JOIN #New,#new2", "PRIVMSG $* :all", "NS help", "NAMES", "WHO", "JOIN #new k1"} {
			add(id, l)
		}
		for _, c := range chans {
			for _, f := range []string{"JOIN %s", "PART %s", "TOPIC %s", "TOPIC %s :", "TOPIC %s :t", "MODE %s", "MODE %s +i", "MODE %s -i", "MODE %s +t",
				"MODE %s -t", "MODE %s +k k1", "MODE %s -k", "MODE %s +b bob!*@*", "MODE %s -b bob!*@*", "MODE %s +b", "MODE %s +b-t", "MODE %s -t+b", "MODE %s -n",
				"MODE %s +x", "NAMES %s", "WHO %s", "PRIVMSG %s :hi", "NOTICE %s :hi", "KNOCK %s", "LIST %s", "JOIN %s k1", "JOIN %s k2"} {
				add(id, fmt.Sprintf(f, c))
			}
			// existing ban masks in another spelling (equal under IRC case mapping, different bytes)
			if cc, ok := v.chans[strings.ToLower(c)]; ok {
				if bans, ok := cc["bans"].([]interface{}); ok {
					seen := map[string]bool{}
					for _, bb := range bans {
						m := bb.(map[string]interface{})["m"].(string)
						if !seen[m] && len(seen) < 2 {
							seen[m] = true
							add(id, fmt.Sprintf("MODE %s +b %s", c, up(m)))
							add(id, fmt.Sprintf("MODE %s -b %s", c, up(m)))
						}
					}
				}
			}
			add(id, "JOIN "+up(c))
			add(id, "PART "+up(c))
			add(id, "JOIN #fresh,"+c)
			add(id, "JOIN "+c+",#fresh")
			for _, m := range members[c] {
				add(id, fmt.Sprintf("KICK %s %s :x", c, m))
				add(id, fmt.Sprintf("KICK %s %s :x", up(c), up(m)))
				add(id, fmt.Sprintf("MODE %s +o %s", c, m))
				add(id, fmt.Sprintf("MODE %s -o %s", c, m))
			}
			for _, n := range nicks {
				add(id, fmt.Sprintf("INVITE %s %s", n, c))
			}
		}
		for _, n := range nicks {
			for _, f := range []string{"PRIVMSG %s :hi", "NOTICE %s :hi", "WHOIS %s", "KILL %s :r", "GLINE %s :r", "MODE %s +i", "MODE %s", "ISON %s", "USERHOST %s", "NICK %s"} {
				add(id, fmt.Sprintf(f, n))
			}
			add(id, "PRIVMSG "+up(n)+" :hi")
		}
	}
	// a line that arrives from another address: a fresh one, and every GLINE-banned one of this state
	// (ProcessMessage records the address first and closes sessions coming from a banned address)
	addrs := []string{"a9"}
	if cfg, ok := proj["cfg"].(map[string]interface{}); ok {
		if b, ok := cfg["banned"].(map[string]interface{}); ok {
			addrs = append(addrs, sortedKeys(b)...)
		}
	}
	base := len(res)
	for k := 0; k < base; k++ {
		e := res[k]
		if e.T != "line" || k%3 != 0 {
			continue
		}
		for _, a := range addrs {
			if a == "" {
				continue
			}
			c := *e
			c.Addr = a
			res = append(res, &c)
		}
	}
	return res
}

// vMutating reports whether a template can change membership / nickname / session state, so that the
// read-only battery after it can show damage that only a later reader trips over.
func vMutating(e *vEntry) bool {
	if e.T != "line" || e.Addr != "" {
		return true // (a line from another address may close the session: banned addresses)
	}
	d := strings.ToUpper(e.Data)
	if f := strings.Fields(d); len(f) >= 3 && (f[0] == "MODE" || (len(f) >= 4 && f[1] == "MODE")) {
		return true // a mode change (not a query)
	}
	for _, w := range []string{"NICK ", "JOIN ", "PART ", "KICK ", "QUIT", "KILL ", "GLINE ", "SVSNICK ", "SVSJOIN ", "SVSPART ", "SERVER "} {
		if strings.Contains(d, w) {
			return true
		}
	}
	return false
}

// vBattery returns read-only probes (WHOIS for every nickname, NAMES/WHO/TOPIC/MODE for every channel,
// LIST) sent by one logged-in client of the given state.
func vBattery(proj map[string]interface{}) []*vEntry {
	v := vViewOf(proj)
	var asker int64 = -1
	var nicks []string
	for _, s := range v.sess {
		if s["del"].(bool) {
			continue
		}
		if n := s["nick"].(string); n != "" && len(nicks) < 6 {
			nicks = append(nicks, n)
		}
		if asker < 0 && s["rid"].(int) == 0 && s["li"].(bool) && !s["sv"].(bool) {
			asker = s["id"].(int64)
		}
	}
	if asker < 0 {
		return nil
	}
	var res []*vEntry
	add := func(line string) {
		res = append(res, &vEntry{T: "line", Sess: asker, Data: line, Sup: true, Conf: true})
	}
	for _, n := range nicks {
		add("WHOIS " + n)
	}
	chans := sortedKeys(v.chansAsIface())
	if len(chans) > 3 {
		chans = chans[:3]
	}
	for _, k := range chans {
		c := v.chans[k]["name"].(string)
		add("NAMES " + c)
		add("WHO " + c)
		add("TOPIC " + c)
		add("MODE " + c)
		add("MODE " + c + " +b")
	}
	add("LIST")
	return res
}

// vFanOut writes one short history per template: the template applied to a fresh fork and, after a
// template that changes state, the read-only battery on the same fork. base is the number of the
// history whose final state is probed.
func vFanOut(enc *json.Encoder, base int, hstart int, srv *ircserver.IRCServer, nextID, ts int64) int {
	b, err := srv.Marshal(0)
	if err != nil {
		return 0
	}
	n := 0
	for _, e := range vFanTemplates(srv.VerifProject()) {
		cp := ircserver.NewIRCServer(vNet, time.Unix(1500000000, 0))
		if _, err := cp.Unmarshal(b); err != nil {
			return n
		}
		d := &vReplica{srv: cp, direct: true}
		// C01: a second fork receives the same probe(s); the two must agree byte for byte
		cp2 := ircserver.NewIRCServer(vNet, time.Unix(1500003600, 0))
		if _, err := cp2.Unmarshal(b); err != nil {
			return n
		}
		d2 := &vReplica{srv: cp2, direct: true}
		h := hstart + n
		n++
		enc.Encode(&vRecord{K: "reset", H: h, Base: base, Post: cp.VerifProject(), Out: []vReply{}, Lookup: [][]interface{}{}})
		steps := []*vEntry{e}
		for idx := 0; idx < len(steps); idx++ {
			x := steps[idx]
			x.Id, x.Ts, x.Cmid = nextID+int64(idx), ts+int64(idx), 999999+int64(idx)
			x.fill()
			rec := &vRecord{K: "step", H: h, I: idx + 1, Base: base, E: x, Lookup: [][]interface{}{}}
			msgs, p := d.apply(x)
			rec.Post = cp.VerifProject()
			if p != "" {
				rec.Panic, rec.PanicS, rec.Out = true, p, []vReply{}
				enc.Encode(rec)
				break
			}
			rec.Out = vProjectReplies(msgs)
			rec.Lines = vCheckLines(msgs)
			rec.Rids = vCheckRids(msgs, x.Id)
			if msgs2, p2 := d2.apply(x); p2 != "" {
				rec.Det = "second fork panicked: " + p2
			} else if dd := vSameOut(msgs, msgs2); dd != "" {
				rec.Det = "second fork: " + dd
			} else if idx == 0 {
				if sd := vStateDiff(vCanon(cp), vCanon(cp2)); sd != "" {
					rec.Det = "second fork: " + sd
				}
			}
			enc.Encode(rec)
			if idx == 0 && vMutating(e) && n%vBatteryEvery == 0 {
				steps = append(steps, vBattery(rec.Post)...)
			}
		}
	}
	return n
}

// every vBatteryEvery-th state-changing probe is followed by the read-only battery
var vBatteryEvery = 3
