package main

// Injected into /repo's package main by /verif (go -overlay); never part of the
// repository. Drives the real IRC state machine through the real
// FSM.applyRobustMessage and records, per entry, the abstract state and the
// replies for validation against /verif/spec/IRC.tla (IRCTrace.tla).
//
//   replicas P1..PK  real path: fsm.applyRobustMessage + own OutputStream  (C01: byte-level agreement)
//   replica  D0      direct path (harness copy of the per-entry gate), never serialized
//   replicas R_j     Marshal/Unmarshal copy of D0 taken after entry j, then fed the same entries (C03)

import (
	"bufio"
	"encoding/json"
	"fmt"
	"hash/fnv"
	"math/rand"
	"os"
	"reflect"
	"regexp"
	"sort"
	"strconv"
	"strings"
	"testing"
	"time"

	"github.com/robustirc/robustirc/internal/config"
	"github.com/robustirc/robustirc/internal/ircserver"
	"github.com/robustirc/robustirc/internal/outputstream"
	"github.com/robustirc/robustirc/internal/robust"
	"gopkg.in/sorcix/irc.v2"
)

const vNet = "robustirc.net"

// ---------------------------------------------------------------- entries

type vPfx struct {
	N string `json:"n"`
	U string `json:"u"`
	H string `json:"h"`
}

// vEntry is one committed input, in the vocabulary of IRC.tla.
type vEntry struct {
	T       string                 `json:"t"` // create delete line config mod
	Id      int64                  `json:"id"`
	Sess    int64                  `json:"sess"`
	Ts      int64                  `json:"ts"`
	Cmid    int64                  `json:"cmid"`
	Addr    string                 `json:"addr"`
	Data    string                 `json:"data"` // create: auth, delete: quit message, line: raw line, config: TOML
	Ok      bool                   `json:"ok"`   // line parsed
	Ping    bool                   `json:"ping"`
	Cmd     string                 `json:"cmd"`
	HasPfx  bool                   `json:"haspfx"`
	Pfx     vPfx                   `json:"pfx"`
	P       []string               `json:"p"`
	Cfg     map[string]interface{} `json:"cfg"`
	CfgOk   bool                   `json:"cfgok"`
	Rev     int64                  `json:"rev"`
	CapOk   bool                   `json:"capok"`
	Hrid    int                    `json:"hrid"`
	Hord    []int                  `json:"hord"`
	Sup     bool                   `json:"sup"`     // inside the alphabet the model interprets
	Conf    bool                   `json:"conf"`    // inside the scope of C06 (any client line; conforming services line)
	CfgName string                 `json:"cfgname"` // named configuration of IRCMC.tla (data is then filled in here)
}

// TOML of the named configurations of IRCMC.tla (CfgA, CfgB).
var vNamedCfg = map[string]string{
	"A": "SessionExpiration = \"600s\"\nPostMessageCooloff = \"0s\"\nCaptchaURL = \"http://captcha.example/\"\nCaptchaHMACSecret = \"736563726574\"\n[[IRC.Operators]]\nName = \"op\"\nPassword = \"pw\"\n[[IRC.Services]]\nPassword = \"spw\"\n",
	"B": "SessionExpiration = \"600s\"\nPostMessageCooloff = \"0s\"\nMaxSessions = 4\nMaxChannels = 1\nCaptchaURL = \"http://captcha.example/\"\nCaptchaHMACSecret = \"736563726574\"\n[[IRC.Operators]]\nName = \"op\"\nPassword = \"pw\"\n[[IRC.Services]]\nPassword = \"spw\"\n",
}

var vDefaultCfgProj = map[string]interface{}{
	"rev": 0, "opers": []interface{}{}, "svc": []interface{}{}, "maxs": 0, "maxc": 0,
	"banned": map[string]interface{}{}, "exp": 600, "capcfg": false, "caplogin": false,
}

// nick spellings known to the harness (index = rid of a pseudo-client introduced under that spelling)
var vNickTable = []string{"", "NickServ", "ChanServ", "Bot", "bot", "B[ot]", "b{ot}", "OperServ", "Global", "alice", "Alice", "bob", "carol", "dave", "b[ot]", "B[OT]", "Global.Notice", "4ever"}
var vRid = map[uint64]int{}
var vHord []int

func init() {
	type hv struct {
		h   uint64
		idx int
	}
	var hs []hv
	for idx, n := range vNickTable {
		if idx == 0 {
			continue
		}
		h := fnv.New64()
		h.Write([]byte(n))
		vRid[h.Sum64()] = idx
		hs = append(hs, hv{h.Sum64(), idx})
	}
	sort.Slice(hs, func(a, b int) bool { return hs[a].h < hs[b].h })
	for _, x := range hs {
		vHord = append(vHord, x.idx)
	}
	ircserver.VerifRidOf = func(reply uint64) int {
		if reply == 0 {
			return 0
		}
		if idx, ok := vRid[reply]; ok {
			return idx
		}
		return 999
	}
}

func vRidOfNick(n string) int {
	for idx, x := range vNickTable {
		if idx > 0 && x == n {
			return idx
		}
	}
	return 999
}

// fill derives the parsed fields of a line entry from e.Data with the real parser.
func (e *vEntry) fill() {
	if e.P == nil {
		e.P = []string{}
	}
	if e.Cfg == nil {
		e.Cfg = vDefaultCfgProj
	}
	e.Hord = vHord
	if e.T == "config" && e.Data == "" && e.CfgName != "" {
		e.Data = vNamedCfg[e.CfgName]
	}
	if e.T != "line" {
		return
	}
	// scenario placeholders: correctly signed tokens that are too old by ten years, by more than a 64-bit count
	// of nanoseconds can express (the difference to "now" wraps around), and the smallest timestamp there is
	for ph, stamp := range map[string]string{
		"CAPTCHA-OLD10Y":  fmt.Sprint((e.Ts - 315360000) * 1000000000),
		"CAPTCHA-ANCIENT": "-9000000000000000000",
		"CAPTCHA-MININT":  "-9223372036854775808",
	} {
		if strings.Contains(e.Data, ph) {
			e.Data = strings.Replace(e.Data, ph, vToken("okay:join:"+stamp+":x"), 1)
		}
	}
	if strings.Contains(e.Data, "CAPTCHA") { // scenario placeholder: a valid, fresh token
		e.Data = strings.Replace(e.Data, "CAPTCHA", vToken(fmt.Sprintf("okay:join:%d:x", e.Ts*1000000000)), 1)
	}
	m := irc.ParseMessage(e.Data)
	e.Ping = strings.HasPrefix(strings.ToLower(e.Data), "ping")
	if m == nil {
		e.Ok = false
		return
	}
	e.Ok = true
	e.Cmd = strings.ToUpper(m.Command)
	if m.Prefix != nil {
		e.HasPfx = true
		e.Pfx = vPfx{m.Prefix.Name, m.Prefix.User, m.Prefix.Host}
	}
	e.P = append([]string{}, m.Params...)
	if e.Cmd == "NICK" && len(e.P) > 0 {
		e.Hrid = vRidOfNick(e.P[0])
	}
}

func (e *vEntry) message() *robust.Message {
	m := &robust.Message{
		Id:              robust.Id{Id: uint64(e.Id)},
		Session:         robust.Id{Id: uint64(e.Sess)},
		UnixNano:        e.Ts * int64(time.Second),
		ClientMessageId: uint64(e.Cmid),
		RemoteAddr:      e.Addr,
		Data:            e.Data,
		Revision:        uint64(e.Rev),
	}
	switch e.T {
	case "create":
		m.Type = robust.CreateSession
		m.Session = robust.Id{}
	case "delete":
		m.Type = robust.DeleteSession
	case "line":
		m.Type = robust.IRCFromClient
	case "config":
		m.Type = robust.Config
	case "mod":
		m.Type = robust.MessageOfDeath
	}
	return m
}

// ---------------------------------------------------------------- replies

type vReply struct {
	Cmd  string        `json:"cmd"`
	From vPfx          `json:"from"`
	To   []int64       `json:"to"`
	P    []interface{} `json:"p"`
	Rid  int64         `json:"rid"`
	Raw  string        `json:"-"`
}

func vProjectReplies(msgs []outputstream.Message) []vReply {
	var res []vReply
	for _, m := range msgs {
		r := vReply{Rid: int64(m.Id.Reply), Raw: m.Data, P: []interface{}{}}
		for id := range m.InterestingFor {
			r.To = append(r.To, int64(id))
		}
		sort.Slice(r.To, func(a, b int) bool { return r.To[a] < r.To[b] })
		if r.To == nil {
			r.To = []int64{}
		}
		pm := irc.ParseMessage(m.Data)
		if pm == nil {
			r.Cmd = "?unparsable"
		} else {
			r.Cmd = pm.Command
			if pm.Prefix != nil {
				r.From = vPfx{pm.Prefix.Name, pm.Prefix.User, pm.Prefix.Host}
			}
			for _, p := range pm.Params {
				r.P = append(r.P, p)
			}
		}
		// consecutive RPL_BANLIST lines (sorted by mask) are one listing "367*"
		if r.Cmd == "367" && len(r.P) == 3 {
			if n := len(res); n > 0 && res[n-1].Cmd == "367*" && reflect.DeepEqual(res[n-1].To, r.To) {
				res[n-1].P[2] = append(res[n-1].P[2].([]interface{}), r.P[2])
				continue
			}
			r.Cmd = "367*"
			r.P[2] = []interface{}{r.P[2]}
		}
		res = append(res, r)
	}
	if res == nil {
		res = []vReply{}
	}
	return res
}

// ---------------------------------------------------------------- replicas

type vReplica struct {
	srv    *ircserver.IRCServer
	out    *outputstream.OutputStream // nil for direct-path replicas
	fsm    *FSM
	direct bool
}

func vNewReal(tmp string, created time.Time) (*vReplica, error) {
	o, err := outputstream.NewOutputStream(tmp)
	if err != nil {
		return nil, err
	}
	return &vReplica{srv: ircserver.NewIRCServer(vNet, created), out: o, fsm: &FSM{}}, nil
}

func (r *vReplica) close() {
	if r.out != nil {
		r.out.Close()
	}
}

// apply feeds one entry; returns the replies and whether the call panicked.
func (r *vReplica) apply(e *vEntry) (msgs []outputstream.Message, panicked string) {
	msg := e.message()
	defer func() {
		if x := recover(); x != nil {
			panicked = fmt.Sprintf("%v", x)
		}
	}()
	if !r.direct {
		r.fsm.applyRobustMessage(msg, r.srv, r.out)
		if got, ok := r.out.Get(robust.Id{Id: msg.Id.Id}); ok {
			msgs = got
		}
		return msgs, ""
	}
	// direct path: the per-entry gate of FSM.applyRobustMessage without an output stream
	var reply *ircserver.Replyctx
	i := r.srv
	switch msg.Type {
	case robust.MessageOfDeath:
		i.UpdateLastClientMessageID(msg)
	case robust.CreateSession:
		i.CreateSession(msg.Id, msg.Data, msg.Timestamp())
	case robust.DeleteSession:
		if _, err := i.GetSession(msg.Session); err == nil {
			reply = i.ProcessMessage(msg, irc.ParseMessage("QUIT :"+string(msg.Data)))
			i.SetLastProcessed(robust.Id{Id: msg.Id.Id})
			i.MaybeDeleteSession(msg.Session)
		}
	case robust.IRCFromClient:
		if err := i.UpdateLastClientMessageID(msg); err == nil {
			reply = i.ProcessMessage(msg, irc.ParseMessage(msg.Data))
			i.SetLastProcessed(robust.Id{Id: msg.Session.Id})
			i.MaybeDeleteSession(msg.Session)
		}
	case robust.Config:
		if newCfg, err := config.FromString(msg.Data); err == nil {
			i.ConfigMu.Lock()
			i.Config = newCfg
			i.Config.Revision = msg.Revision
			i.ConfigMu.Unlock()
		}
	}
	if reply != nil {
		for _, m := range reply.Messages {
			msgs = append(msgs, outputstream.Message{Id: m.Id, Data: m.Data, InterestingFor: m.InterestingFor})
		}
	}
	return msgs, ""
}

var stateEvery = 7

// fan-out probes (fanout_test.go): every vFanEvery-th history, numbered from vFanNext
var (
	vFanEvery = 0
	vFanNext  = 200000
	vFanCount = 0
)

var vCreatedRe = regexp.MustCompile(`This server was created .*$`)

// vSameOut compares two reply lists byte for byte (003's creation time masked).
func vSameOut(a, b []outputstream.Message) string {
	if len(a) != len(b) {
		return fmt.Sprintf("number of replies %d vs %d", len(a), len(b))
	}
	for k := range a {
		if a[k].Id != b[k].Id {
			return fmt.Sprintf("reply %d id %v vs %v", k, a[k].Id, b[k].Id)
		}
		da, db := a[k].Data, b[k].Data
		if strings.Contains(da, " 003 ") {
			da, db = vCreatedRe.ReplaceAllString(da, ""), vCreatedRe.ReplaceAllString(db, "")
		}
		if da != db {
			return fmt.Sprintf("reply %d data %q vs %q", k, a[k].Data, b[k].Data)
		}
		if !reflect.DeepEqual(a[k].InterestingFor, b[k].InterestingFor) {
			return fmt.Sprintf("reply %d recipients %v vs %v (%q)", k, a[k].InterestingFor, b[k].InterestingFor, a[k].Data)
		}
	}
	return ""
}

func vCanon(s *ircserver.IRCServer) map[string]string {
	return s.VerifCanon()
}

var vIdxRe = regexp.MustCompile(`\[[^\]]*\]`)

// vStateDiff names the (index-free) field paths on which two servers differ, "" if none.
func vStateDiff(want, got map[string]string) string {
	d := ircserver.VerifCanonDiff(want, got)
	if len(d) == 0 {
		return ""
	}
	seen := map[string]bool{}
	var paths []string
	for _, p := range d {
		q := vIdxRe.ReplaceAllString(p, "[]")
		if !seen[q] {
			seen[q] = true
			paths = append(paths, q)
		}
	}
	sort.Strings(paths)
	ex := d[0]
	return fmt.Sprintf("state differs at %s (e.g. %s: want %q got %q)", strings.Join(paths, ","), ex, want[ex], got[ex])
}

// ---------------------------------------------------------------- trace records

type vRecord struct {
	K      string                 `json:"k"`              // reset | step
	Base   int                    `json:"base,omitempty"` // fan-out probe: number of the history whose final state is probed
	H      int                    `json:"h"`              // history number
	I      int                    `json:"i"`              // step number within the history
	E      *vEntry                `json:"e,omitempty"`
	Post   map[string]interface{} `json:"post"`
	Out    []vReply               `json:"out"`
	Panic  bool                   `json:"panic"`
	PanicS string                 `json:"panics,omitempty"`
	Lookup [][]interface{}        `json:"lookup"`
	// verdicts of the real-vs-real comparisons (decided in Go, re-checked as trace invariants)
	Det    string `json:"det"`    // "" or description of a replica disagreement (C01)
	Snap   string `json:"snap"`   // "" or description of a restored-replica disagreement (C03)
	SnapAt int    `json:"snapat"` // cut point of the disagreeing restored replica
	Lines  string `json:"lines"`  // "" or description of a malformed output line (C15 at the FSM level)
	View   string `json:"view"`   // "" or mismatch between NAMES/LIST/WHOIS answers and the projected state (C14)
	Rids   string `json:"rids"`   // "" or description of a reply whose id is not (entry id, position in the batch) (C04/C01)
	LkLoad string `json:"lkload"` // "" or a live session reported as "no such session" WHILE a snapshot was being loaded (C17)
	// expiry probe (k = "expire"): sessions with their age relative to the expiration, and what ExpireSessions proposed
	Exp    int64           `json:"exp,omitempty"`
	Ages   [][]interface{} `json:"ages,omitempty"`   // [id, rid, age-exp in seconds]
	Expire []int64         `json:"expire,omitempty"` // ids proposed for deletion
}

// vCheckRids: reply k of the batch for entry id must carry the id (id, k): GetMessages resumes by position.
func vCheckRids(msgs []outputstream.Message, id int64) string {
	for k, m := range msgs {
		if m.Id.Id != uint64(id) || m.Id.Reply != uint64(k+1) {
			return fmt.Sprintf("reply at position %d of the batch for entry %d has id %d.%d", k+1, id, m.Id.Id, m.Id.Reply)
		}
	}
	return ""
}

func vCheckLines(msgs []outputstream.Message) string {
	for _, m := range msgs {
		if len(m.Data) > 510 {
			return fmt.Sprintf("line longer than 510 bytes (%d)", len(m.Data))
		}
		if strings.ContainsAny(m.Data, "\r\n\x00") {
			return fmt.Sprintf("line contains CR/LF/NUL: %q", m.Data)
		}
	}
	return ""
}

// vRunHistory executes one history on all replicas and appends records to w.
// vDetOnly: the history is outside the scope of the state predicates (e.g. SVSNICK onto a taken nickname); only the
// real-path replicas are run and compared, and the records (kind "det") carry nothing but that verdict.
var vDetOnly bool

func vRunDetHistory(t *testing.T, h int, next func(step int, st map[string]interface{}) *vEntry, k int, tmp string, w *bufio.Writer) {
	enc := json.NewEncoder(w)
	var reals []*vReplica
	base := time.Unix(1500000000, 0)
	for j := 0; j < k; j++ {
		r, err := vNewReal(tmp, base.Add(time.Duration(j)*time.Hour))
		if err != nil {
			t.Fatalf("NewOutputStream: %v", err)
		}
		defer r.close()
		reals = append(reals, r)
	}
	enc.Encode(&vRecord{K: "reset", H: h, Post: reals[0].srv.VerifProject(), Out: []vReply{}, Lookup: [][]interface{}{}})
	for idx := 0; ; idx++ {
		e := next(idx+1, reals[0].srv.VerifProject())
		if e == nil {
			return
		}
		e.fill()
		rec := &vRecord{K: "det", H: h, I: idx + 1, E: e, Post: map[string]interface{}{}, Out: []vReply{}, Lookup: [][]interface{}{}}
		msgs, p := reals[0].apply(e)
		if p != "" {
			// a panic outside the scope of C06 ends the history; replicas that do not panic alike disagree
			for j := 1; j < len(reals); j++ {
				if _, p2 := reals[j].apply(e); p2 == "" {
					rec.Det = fmt.Sprintf("replica 1 panicked (%s), replica %d did not", p, j+1)
				}
			}
			enc.Encode(rec)
			return
		}
		want := vCanon(reals[0].srv)
		for j := 1; j < len(reals); j++ {
			m2, p2 := reals[j].apply(e)
			if p2 != "" {
				rec.Det = "replica panicked: " + p2
				break
			}
			if d := vSameOut(msgs, m2); d != "" {
				rec.Det = fmt.Sprintf("replica %d: %s", j+1, d)
				break
			}
			if d := vStateDiff(want, vCanon(reals[j].srv)); d != "" {
				rec.Det = fmt.Sprintf("replica %d: %s", j+1, d)
				break
			}
		}
		enc.Encode(rec)
		if rec.Det != "" {
			return // once diverged, every later step differs
		}
	}
}

func vRunHistory(t *testing.T, h int, next func(step int, st map[string]interface{}) *vEntry, k int, snapEvery int, tmp string, w *bufio.Writer) {
	enc := json.NewEncoder(w)
	var reals []*vReplica
	base := time.Unix(1500000000, 0)
	for j := 0; j < k; j++ {
		r, err := vNewReal(tmp, base.Add(time.Duration(j)*time.Hour))
		if err != nil {
			t.Fatalf("NewOutputStream: %v", err)
		}
		defer r.close()
		reals = append(reals, r)
	}
	d0 := &vReplica{srv: ircserver.NewIRCServer(vNet, base), direct: true}
	type restored struct {
		r  *vReplica
		at int
	}
	var rs []restored

	enc.Encode(&vRecord{K: "reset", H: h, Post: reals[0].srv.VerifProject(), Out: []vReply{}, Lookup: [][]interface{}{}})
	maxid := int64(0)
	for idx := 0; ; idx++ {
		e := next(idx+1, reals[0].srv.VerifProject())
		if e == nil {
			break
		}
		e.fill()
		if e.Id > maxid {
			maxid = e.Id
		}
		rec := &vRecord{K: "step", H: h, I: idx + 1, E: e}
		msgs, p := reals[0].apply(e)
		if p != "" {
			rec.Panic, rec.PanicS = true, p
			rec.Post = reals[0].srv.VerifProject()
			rec.Out = []vReply{}
			rec.Lookup = [][]interface{}{}
			enc.Encode(rec)
			return // the instance is dead; the rest of the history is dropped
		}
		rec.Out = vProjectReplies(msgs)
		rec.Lines = vCheckLines(msgs)
		rec.Rids = vCheckRids(msgs, e.Id)
		rec.Post = reals[0].srv.VerifProject()
		// C01: all real-path replicas agree byte for byte
		var want map[string]string
		cmpState := (idx+1)%4 == 0 || e.T == "config" || len(msgs) > 6
		if cmpState && len(reals) > 1 {
			want = vCanon(reals[0].srv)
		}
		for j := 1; j < len(reals); j++ {
			m2, p2 := reals[j].apply(e)
			if p2 != "" {
				rec.Det = "replica panicked: " + p2
				break
			}
			if d := vSameOut(msgs, m2); d != "" {
				rec.Det = fmt.Sprintf("replica %d: %s", j+1, d)
				break
			}
			if !cmpState {
				continue
			}
			if d := vStateDiff(want, vCanon(reals[j].srv)); d != "" {
				rec.Det = fmt.Sprintf("replica %d: %s", j+1, d)
				break
			}
		}
		// C03: D0 and every restored copy see the same entry
		preSess := map[uint64]bool{}
		for _, x := range d0.srv.VerifProject()["ss"].([]interface{}) {
			// a recipient id is a session that has a stream: Reply = 0 (the pseudo-clients of a link that was
			// closed - e.g. for coming from a banned address - linger, but nobody reads "their" stream)
			if m := x.(map[string]interface{}); m["rid"].(int) == 0 {
				preSess[uint64(m["id"].(int64))] = true
			}
		}
		dm, dp := d0.apply(e)
		if dp != "" {
			rec.Snap, rec.SnapAt = "direct replica panicked: "+dp, -1
		} else {
			dwant := d0.srv.VerifCanonLive()
			// the direct-path replica never goes through a snapshot round trip, so (only) stale
			// services-link ids may differ in the recipient sets: compare what live sessions receive
			if d := vSameOutLive(msgs, dm, d0.srv, preSess); d != "" && rec.Det == "" {
				rec.Det = "direct-path replica: " + d
			}
			for _, x := range rs {
				xm, xp := x.r.apply(e)
				var d string
				if xp != "" {
					d = "restored replica panicked: " + xp
				} else if d = vSameOutLive(dm, xm, d0.srv, preSess); d == "" && (idx+1-x.at)%stateEvery == 0 {
					d = vStateDiff(dwant, x.r.srv.VerifCanonLive())
				}
				if d != "" && rec.Snap == "" {
					rec.Snap, rec.SnapAt = d, x.at
				}
			}
			if snapEvery > 0 && (idx+1)%snapEvery == 0 {
				if b, err := d0.srv.Marshal(uint64(e.Id)); err != nil {
					rec.Snap, rec.SnapAt = "Marshal: "+err.Error(), idx+1
				} else {
					ns := ircserver.NewIRCServer(vNet, base)
					// C17: a node that loads a snapshot serves lookups meanwhile (FSM.Restore publishes the new
					// server first): until the sessions are there, every id must be "not yet seen", never "no such
					// session" - a concurrent reader asks for the live sessions all the time
					var liveIds []uint64
					for _, x := range d0.srv.VerifProject()["ss"].([]interface{}) {
						m := x.(map[string]interface{})
						if m["rid"].(int) == 0 && !m["del"].(bool) {
							liveIds = append(liveIds, uint64(m["id"].(int64)))
						}
					}
					stop, done := make(chan struct{}), make(chan string, 1)
					go func() {
						for {
							select {
							case <-stop:
								done <- ""
								return
							default:
							}
							for _, id := range liveIds {
								// (the two lookups inside VerifLookup happen at different instants: "notyet" and "ok" may mix)
								if c := ns.VerifLookup(id); strings.Contains(c, "nosuch") || strings.Contains(c, "other") {
									<-stop
									done <- fmt.Sprintf("session %d looked up while the snapshot was being loaded: %s", id, c)
									return
								}
							}
						}
					}()
					_, uerr := ns.Unmarshal(b)
					close(stop)
					if d := <-done; d != "" && rec.LkLoad == "" {
						rec.LkLoad = d
					}
					if err := uerr; err != nil {
						rec.Snap, rec.SnapAt = "Unmarshal: "+err.Error(), idx+1
					} else {
						if d := vStateDiff(dwant, ns.VerifCanonLive()); d != "" && rec.Snap == "" {
							rec.Snap, rec.SnapAt = "right after load: "+d, idx+1
						}
						rs = append(rs, restored{&vReplica{srv: ns, direct: true}, idx + 1})
					}
				}
			}
		}
		// C14/C03: every now and then all real-path replicas go through a snapshot round trip
		// (what a node does when it restores); the projection must not change.
		if snapEvery > 0 && (h*31+idx)%9 == 0 && rec.Det == "" {
			before := reals[0].srv.VerifProject()
			okAll := true
			for _, r := range reals {
				b, err := r.srv.Marshal(uint64(e.Id))
				if err != nil {
					okAll = false
					break
				}
				ns := ircserver.NewIRCServer(vNet, r.srv.ServerCreation)
				if _, err := ns.Unmarshal(b); err != nil {
					okAll = false
					break
				}
				r.srv = ns
			}
			if okAll {
				rec.Lookup = [][]interface{}{}
				for id := int64(0); id <= maxid+2; id++ {
					rec.Lookup = append(rec.Lookup, []interface{}{id, "skip"})
				}
				enc.Encode(rec)
				_ = before
				rec = &vRecord{K: "snap", H: h, I: idx + 1, E: e, Post: reals[0].srv.VerifProject(), Out: []vReply{}}
			}
		}
		rec.Lookup = [][]interface{}{}
		for id := int64(0); id <= maxid+2; id++ {
			rec.Lookup = append(rec.Lookup, []interface{}{id, reals[0].srv.VerifLookup(uint64(id))})
		}
		if (idx+1)%5 == 0 {
			rec.View = vProbeView(d0.srv, rec.Post)
		}
		enc.Encode(rec)
	}
	if vFanEvery > 0 && h%vFanEvery == 0 {
		lastTs := int64(2000)
		if m, ok := d0.srv.VerifProject()["ss"].([]interface{}); ok {
			for _, x := range m {
				if la := x.(map[string]interface{})["la"].(int64); la > lastTs {
					lastTs = la
				}
			}
		}
		n := vFanOut(enc, h, vFanNext, d0.srv, maxid+1, lastTs+1)
		vFanNext += n
		vFanCount += n
	}
	// C17: expiry sweep around the threshold, on a serialized copy of the final state
	if b, err := d0.srv.Marshal(0); err == nil {
		cp := ircserver.NewIRCServer(vNet, base)
		if _, err := cp.Unmarshal(b); err == nil {
			proj := cp.VerifProject()
			exp := proj["cfg"].(map[string]interface{})["exp"].(int64)
			offs := []int64{-3600, -60, -3, 3, 60, 3600}
			rec := &vRecord{K: "expire", H: h, Post: proj, Out: []vReply{}, Lookup: [][]interface{}{}, Exp: exp,
				Ages: [][]interface{}{{-7, 0, -1}}} // first row / element -7: sentinel (empty lists are omitted from the JSON)
			age := map[robust.Id]int64{}
			for n, x := range proj["ss"].([]interface{}) {
				m := x.(map[string]interface{})
				off := offs[(n+h)%len(offs)]
				rec.Ages = append(rec.Ages, []interface{}{m["id"], m["rid"], off})
				_ = m
				age[vIdOf(m)] = exp + off
			}
			cp.VerifSetLastActivity(func(id robust.Id) time.Duration {
				return time.Duration(age[id]) * time.Second
			}, time.Now())
			rec.Expire = []int64{-7}
			for _, m := range cp.ExpireSessions() {
				if m.Type != robust.DeleteSession || m.Session.Reply != 0 {
					rec.Expire = append(rec.Expire, -1)
					continue
				}
				rec.Expire = append(rec.Expire, int64(m.Session.Id))
			}
			sort.Slice(rec.Expire, func(a, b int) bool { return rec.Expire[a] < rec.Expire[b] })
			enc.Encode(rec)
		}
	}
}

// vIdOf reconstructs the robust.Id of a projected session.
func vIdOf(m map[string]interface{}) robust.Id {
	id := robust.Id{Id: uint64(m["id"].(int64))}
	if rid := m["rid"].(int); rid != 0 {
		for h, idx := range vRid {
			if idx == rid {
				id.Reply = h
			}
		}
	}
	return id
}

// vProbeView asks a serialized copy of the server (so probing does not perturb the run) what
// NAMES says about every channel, from a member's point of view, and compares with the projection.
func vProbeView(srv *ircserver.IRCServer, proj map[string]interface{}) string {
	b, err := srv.Marshal(0)
	if err != nil {
		return "" // serialization problems are C03's business
	}
	cp := ircserver.NewIRCServer(vNet, time.Unix(1500000000, 0))
	if _, err := cp.Unmarshal(b); err != nil {
		return ""
	}
	nk := proj["nk"].(map[string]interface{})
	sessBySid := map[int64]map[string]interface{}{}
	for _, x := range proj["ss"].([]interface{}) {
		m := x.(map[string]interface{})
		sessBySid[m["id"].(int64)*1000+int64(m["rid"].(int))] = m
	}
	for lc, c := range proj["ch"].(map[string]interface{}) {
		ch := c.(map[string]interface{})
		mem := ch["mem"].(map[string]interface{})
		// a member that is a client session asks
		var asker map[string]interface{}
		for n := range mem {
			if sid, ok := nk[n]; ok {
				// (a logged-in member that turned itself into a services link no longer speaks the client commands)
				if s := sessBySid[sid.(int64)]; s != nil && s["rid"].(int) == 0 && s["li"].(bool) && !s["sv"].(bool) {
					asker = s
					break
				}
			}
		}
		if asker == nil {
			continue
		}
		var want []string
		for n, op := range mem {
			sid, ok := nk[n]
			if !ok || sessBySid[sid.(int64)] == nil {
				return fmt.Sprintf("member %q of %s does not resolve to a session", n, lc)
			}
			p := ""
			if b, _ := op.(bool); b {
				p = "@"
			}
			want = append(want, p+sessBySid[sid.(int64)]["nick"].(string))
		}
		sort.Strings(want)
		msg := &robust.Message{Id: robust.Id{Id: 1 << 40}, Session: robust.Id{Id: uint64(asker["id"].(int64))}}
		var got []string
		func() {
			defer func() {
				if x := recover(); x != nil {
					got = []string{fmt.Sprintf("panic: %v", x)}
				}
			}()
			reply := cp.ProcessMessage(msg, irc.ParseMessage("NAMES "+ch["name"].(string)))
			for _, m := range reply.Messages {
				if pm := irc.ParseMessage(m.Data); pm != nil && pm.Command == "353" && len(pm.Params) == 4 {
					got = append(got, strings.Fields(pm.Params[3])...)
				}
			}
		}()
		sort.Strings(got)
		if strings.Join(got, " ") != strings.Join(want, " ") {
			return fmt.Sprintf("NAMES %s answers %v, state says %v", ch["name"], got, want)
		}
	}
	return ""
}

// vSameOutLive compares outputs restricted to recipients that are sessions of the reference server.
func vSameOutLive(a, b []outputstream.Message, ref *ircserver.IRCServer, pre map[uint64]bool) string {
	f := func(in []outputstream.Message) []outputstream.Message {
		out := make([]outputstream.Message, len(in))
		for k, m := range in {
			out[k] = outputstream.Message{Id: m.Id, Data: m.Data, InterestingFor: map[uint64]bool{}}
			for id, v := range m.InterestingFor {
				if v && (pre[id] || ref.VerifIsSession(id)) {
					out[k].InterestingFor[id] = true
				}
			}
		}
		return out
	}
	return vSameOut(f(a), f(b))
}

func vFirstDiff(a, b string) string {
	n := len(a)
	if len(b) < n {
		n = len(b)
	}
	i := 0
	for i < n && a[i] == b[i] {
		i++
	}
	lo := i - 60
	if lo < 0 {
		lo = 0
	}
	ha, hb := i+60, i+60
	if ha > len(a) {
		ha = len(a)
	}
	if hb > len(b) {
		hb = len(b)
	}
	return fmt.Sprintf("want …%s… got …%s…", a[lo:ha], b[lo:hb])
}

// ---------------------------------------------------------------- test entry points

func vEnvInt(name string, def int) int {
	if v := os.Getenv(name); v != "" {
		if n, err := strconv.Atoi(v); err == nil {
			return n
		}
	}
	return def
}

// TestVerifIRC: VERIF_IRC_IN (optional ND-JSON, one {"prog":[entries]} per line) and/or
// VERIF_IRC_GEN=<n> random histories of VERIF_IRC_LEN entries; trace to VERIF_IRC_OUT.
func TestVerifIRC(t *testing.T) {
	outp := os.Getenv("VERIF_IRC_OUT")
	if outp == "" {
		t.Skip("VERIF_IRC_OUT not set")
	}
	f, err := os.Create(outp)
	if err != nil {
		t.Fatal(err)
	}
	defer f.Close()
	w := bufio.NewWriterSize(f, 1<<20)
	defer w.Flush()
	tmp := t.TempDir()
	k := vEnvInt("VERIF_IRC_K", 3)
	snapEvery := vEnvInt("VERIF_IRC_SNAP", 1)
	stateEvery = vEnvInt("VERIF_IRC_STATE_EVERY", 7)
	vFanEvery = vEnvInt("VERIF_IRC_FANOUT", 0)
	if b := vEnvInt("VERIF_IRC_TSBASE", 0); b > 0 {
		vTsBase = int64(b)
	}
	h := 0
	if in := os.Getenv("VERIF_IRC_IN"); in != "" {
		pf, err := os.Open(in)
		if err != nil {
			t.Fatal(err)
		}
		sc := bufio.NewScanner(pf)
		sc.Buffer(make([]byte, 1<<20), 1<<26)
		for sc.Scan() {
			if len(strings.TrimSpace(sc.Text())) == 0 {
				continue
			}
			var p struct {
				Prog []*vEntry `json:"prog"`
			}
			if err := json.Unmarshal(sc.Bytes(), &p); err != nil {
				t.Fatalf("bad program line: %v", err)
			}
			h++
			prog := p.Prog
			vRunHistory(t, h, func(step int, st map[string]interface{}) *vEntry {
				if step > len(prog) {
					return nil
				}
				return prog[step-1]
			}, k, snapEvery, tmp, w)
		}
		pf.Close()
	}
	n := vEnvInt("VERIF_IRC_GEN", 0)
	length := vEnvInt("VERIF_IRC_LEN", 40)
	seed := int64(vEnvInt("VERIF_SEED", 1))
	for g := 0; g < n; g++ {
		rng := rand.New(rand.NewSource(seed*1000003 + int64(g)))
		h++
		wild := 0
		if g%4 == 3 { // every fourth history is mostly fuzz outside the alphabet (C06, state invariants)
			wild = 60
		}
		vRunHistory(t, h, vGenHistory(rng, length, wild), k, snapEvery, tmp, w)
	}
	// determinism beyond the scope of the state predicates (C01 is stated for ALL histories)
	if vEnvInt("VERIF_IRC_DET", 0) > 0 {
		// scripted: services rename one of their pseudo-clients onto the nickname of another one, then address
		// "that nickname" (QUIT / KILL with prefix, WHOIS by a client) - three pairs, in both orders
		mk := func(pairs [][2]string, useKill bool) func(step int, st map[string]interface{}) *vEntry {
			var es []*vEntry
			line := func(sess int64, data string) {
				es = append(es, &vEntry{T: "line", Sess: sess, Data: data, Conf: true})
			}
			es = append(es, &vEntry{T: "config", CfgName: "A", CfgOk: true, Rev: 1, Cfg: map[string]interface{}{"rev": int64(1), "opers": []interface{}{[]interface{}{"op", "pw"}}, "svc": []interface{}{"spw"}, "maxs": int64(0), "maxc": int64(0), "banned": map[string]interface{}{}, "exp": int64(600), "capcfg": true, "caplogin": false}})
			es = append(es, &vEntry{T: "create", Data: "auth-a"}, &vEntry{T: "create", Data: "auth-b"})
			line(2, "NICK alice")
			line(2, "USER ua 0 * :A")
			line(2, "JOIN #a")
			line(3, "PASS services=spw")
			line(3, "SERVER services.example 1 :S")
			for _, p := range []string{"NickServ", "ChanServ", "Bot", "OperServ", "Global", "bot"} {
				line(3, fmt.Sprintf("NICK %s 1 1 %s services.example services.example 0 +o :%s", p, strings.ToLower(p[:2]), p))
				line(3, fmt.Sprintf(":%s JOIN #a", p))
			}
			for _, pr := range pairs {
				line(3, fmt.Sprintf(":services.example SVSNICK %s %s 1", pr[0], pr[1]))
				line(2, "WHOIS "+pr[1])
				if useKill {
					line(3, fmt.Sprintf(":%s KILL alice :x", pr[1]))
					line(2, "NICK alice")
				} else {
					line(3, fmt.Sprintf(":%s QUIT :gone", pr[1]))
				}
				line(2, "NAMES #a")
			}
			return func(step int, st map[string]interface{}) *vEntry {
				if step > len(es) {
					return nil
				}
				e := es[step-1]
				e.Id, e.Ts = int64(step), vTsBase+int64(step)
				if e.T == "line" {
					e.Cmid = int64(step)
				}
				return e
			}
		}
		for _, useKill := range []bool{false, true} {
			h++
			vRunDetHistory(t, h, mk([][2]string{{"NickServ", "ChanServ"}, {"Bot", "OperServ"}, {"Global", "bot"}}, useKill), k+1, tmp, w)
			h++
			vRunDetHistory(t, h, mk([][2]string{{"ChanServ", "NickServ"}, {"OperServ", "Bot"}, {"bot", "Global"}}, useKill), k+1, tmp, w)
		}
	}
	for g := 0; g < vEnvInt("VERIF_IRC_DET", 0); g++ {
		rng := rand.New(rand.NewSource(seed*7000003 + int64(g)))
		h++
		vRunDetHistory(t, h, vGenHistoryOpt(rng, length, 0, true), k+1, tmp, w)
	}
	json.NewEncoder(w).Encode(&vRecord{K: "end", H: h, Post: map[string]interface{}{}, Out: []vReply{}, Lookup: [][]interface{}{}})
}

// TestVerifIRCEdges replays the transition cover printed by TLC (IRCMC_edges*.cfg): for every
// (prologue, entries) pair the prologue is applied silently to a fresh server, then the entries are
// applied and recorded, so that TLC validates exactly the transitions it generated.
func TestVerifIRCEdges(t *testing.T) {
	outp, in := os.Getenv("VERIF_IRC_OUT"), os.Getenv("VERIF_IRC_EDGES")
	if outp == "" || in == "" {
		t.Skip("VERIF_IRC_OUT / VERIF_IRC_EDGES not set")
	}
	var spec struct {
		Prologues map[string][]*vEntry `json:"prologues"`
		Edges     []struct {
			Pro int       `json:"pro"`
			Es  []*vEntry `json:"es"`
		} `json:"edges"`
	}
	b, err := os.ReadFile(in)
	if err != nil {
		t.Fatal(err)
	}
	if err := json.Unmarshal(b, &spec); err != nil {
		t.Fatal(err)
	}
	f, err := os.Create(outp)
	if err != nil {
		t.Fatal(err)
	}
	defer f.Close()
	w := bufio.NewWriterSize(f, 1<<20)
	defer w.Flush()
	enc := json.NewEncoder(w)
	base := time.Unix(1500000000, 0)
	for n, ed := range spec.Edges {
		h := 100000 + n
		d := &vReplica{srv: ircserver.NewIRCServer(vNet, base), direct: true}
		d2 := &vReplica{srv: ircserver.NewIRCServer(vNet, base.Add(time.Hour)), direct: true} // C01: must agree byte for byte
		dead := false
		for _, e := range spec.Prologues[strconv.Itoa(ed.Pro)] {
			cp := *e
			cp.fill()
			if _, p := d.apply(&cp); p != "" {
				dead = true
				break
			}
			cp2 := *e
			cp2.fill()
			d2.apply(&cp2)
		}
		if dead {
			continue
		}
		enc.Encode(&vRecord{K: "reset", H: h, Post: d.srv.VerifProject(), Out: []vReply{}, Lookup: [][]interface{}{}})
		for idx, e := range ed.Es {
			cp := *e
			cp.fill()
			rec := &vRecord{K: "step", H: h, I: idx + 1, E: &cp, Lookup: [][]interface{}{}}
			msgs, p := d.apply(&cp)
			rec.Post = d.srv.VerifProject()
			if p != "" {
				rec.Panic, rec.PanicS, rec.Out = true, p, []vReply{}
				enc.Encode(rec)
				break
			}
			rec.Out = vProjectReplies(msgs)
			rec.Lines = vCheckLines(msgs)
			rec.Rids = vCheckRids(msgs, cp.Id)
			cp2 := *e
			cp2.fill()
			if msgs2, p2 := d2.apply(&cp2); p2 != "" {
				rec.Det = "second replica panicked: " + p2
			} else if dd := vSameOut(msgs, msgs2); dd != "" {
				rec.Det = "second replica: " + dd
			} else if sd := vStateDiff(vCanon(d.srv), vCanon(d2.srv)); sd != "" {
				rec.Det = "second replica: " + sd
			}
			enc.Encode(rec)
		}
	}
	enc.Encode(&vRecord{K: "end", H: len(spec.Edges), Post: map[string]interface{}{}, Out: []vReply{}, Lookup: [][]interface{}{}})
}
