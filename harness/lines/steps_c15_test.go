package main

// C15 additions to the single-node rig (injected next to harness/rig/*.go by
// checks/c15.py). Registered in rigExtraSteps; nothing of the rig is changed.
//
//   {"op": "raw", "session": alias, "method": "POST"|"DELETE", "data": base64(body)}
//       sends a request body given as raw bytes (bodies that are not valid
//       UTF-8 / not valid JSON). POST goes to /robustirc/v1/<sid>/message,
//       DELETE to /robustirc/v1/<sid>; X-Session-Auth is the session's secret.
//
//   {"op": "drain", "session": alias, "ms": deadline, "bg": name?}
//       posts `PING :sentinel` for the session, then reads the session's
//       stream (a new GET .../messages?lastseen=0.0, or the background GET
//       `bg`) until a line of the sentinel request arrived, the stream ended
//       or the deadline passed. Result: lines as for `get`,
//       extra.sentinel = raft index of the sentinel, extra.reached.

import (
	"bytes"
	"context"
	"encoding/base64"
	"time"
)

func init() {
	rigExtraSteps["raw"] = func(c *rigChild, st rigStep, r *rigResult) {
		body, err := base64.StdEncoding.DecodeString(st.Data)
		if err != nil {
			panic("raw: data is not base64: " + err.Error())
		}
		method := st.Method
		if method == "" {
			method = "POST"
		}
		path := "/robustirc/v1/" + c.sidString(st.Session, st.Sid)
		if method == "POST" {
			path += "/message"
		}
		req := c.newRequest(context.Background(), st, method, path, bytes.NewReader(body), "correct", "none")
		req.Header.Set("Content-Type", "application/json")
		c.do(req, r)
	}

	rigExtraSteps["drain"] = func(c *rigChild, st rigStep, r *rigResult) {
		rr := &rigResult{}
		c.step(rigStep{Op: "post", Session: st.Session, Data: "PING :sentinel"}, rr)
		if rr.Err != "" || rr.Status != 200 {
			r.Status = rr.Status
			r.Err = "drain: sentinel refused: " + rr.Err + " " + rr.Body
			return
		}
		want := int64(node.LastIndex())
		var g *rigBgGet
		if st.Bg != "" {
			var ok bool
			if g, ok = c.bg[st.Bg]; !ok {
				panic("drain: no background get " + st.Bg)
			}
			delete(c.bg, st.Bg)
		} else {
			g = c.startGet(rigStep{Session: st.Session, Lastseen: "0.0"})
		}
		ms := st.Ms
		if ms <= 0 {
			ms = 20000
		}
		deadline := time.Now().Add(time.Duration(ms) * time.Millisecond)
		reached := false
		for !reached && time.Now().Before(deadline) {
			g.mu.Lock()
			if n := len(g.lines); n > 0 && g.lines[n-1].Id >= want {
				reached = true
			}
			g.mu.Unlock()
			if reached {
				break
			}
			select {
			case <-g.done:
				deadline = time.Now()
			case <-time.After(time.Millisecond):
			}
		}
		// the lines of one request are written as one batch: give the tail a moment
		if reached {
			time.Sleep(2 * time.Millisecond)
		}
		g.wait(1, 0, r)
		g.cancel()
		select {
		case <-g.done:
		case <-time.After(2 * time.Second):
		}
		g.mu.Lock()
		r.Lines = append([]rigLine(nil), g.lines...)
		g.mu.Unlock()
		if r.Extra == nil {
			r.Extra = map[string]interface{}{}
		}
		r.Extra["sentinel"] = want
		r.Extra["reached"] = reached
	}
}
