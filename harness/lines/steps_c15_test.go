package main

// C15 additions to the single-node rig (injected next to harness/rig/*.go by
// checks/c15.py): a step that sends a request body given as raw bytes, so that
// bodies that are not valid UTF-8 / not valid JSON can be posted. Registered in
// rigExtraSteps, nothing of the rig itself is changed.
//
//   {"op": "raw", "session": alias, "method": "POST"|"DELETE", "data": base64(body)}
//
// POST goes to /robustirc/v1/<sid>/message, DELETE to /robustirc/v1/<sid>;
// X-Session-Auth is the session's secret (or the `auth` variant).

import (
	"bytes"
	"context"
	"encoding/base64"
)

func init() {
	rigExtraSteps["raw"] = func(c *rigChild, st rigStep, r *rigResult) {
		body, err := base64.StdEncoding.DecodeString(st.Data)
		if err != nil {
			panic("raw: data is not base64: " + err.Error())
		}
		method := st.Method
		if method == "" {
			method = "POST"
		}
		path := "/robustirc/v1/" + c.sidString(st.Session, st.Sid)
		if method == "POST" {
			path += "/message"
		}
		req := c.newRequest(context.Background(), st, method, path, bytes.NewReader(body), "correct", "none")
		req.Header.Set("Content-Type", "application/json")
		c.do(req, r)
	}
}
