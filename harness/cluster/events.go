package main

import (
	"encoding/json"
	"fmt"
	"os"
	"sync"
	"time"
)

// Recorder writes the orchestrator's own event stream: one ND-JSON record per
// event, numbered under the recorder's mutex. Events of different processes
// (the nodes write their own streams from the verif hooks) are NEVER ordered
// by wall clock; the validator only uses these per-process sequence numbers.
type Recorder struct {
	mu  sync.Mutex
	f   *os.File
	seq uint64
	t0  time.Time
}

func NewRecorder(path string) (*Recorder, error) {
	f, err := os.OpenFile(path, os.O_CREATE|os.O_WRONLY|os.O_TRUNC, 0644)
	if err != nil {
		return nil, err
	}
	return &Recorder{f: f, t0: time.Now()}, nil
}

// Log appends one event. kv are alternating keys and values.
func (r *Recorder) Log(ev string, kv ...interface{}) {
	rec := map[string]interface{}{"ev": ev}
	for i := 0; i+1 < len(kv); i += 2 {
		rec[fmt.Sprint(kv[i])] = kv[i+1]
	}
	r.mu.Lock()
	defer r.mu.Unlock()
	r.seq++
	rec["seq"] = r.seq
	// for people reading the stream (how long did a step take); the validator never looks at it
	rec["wallms"] = time.Since(r.t0).Milliseconds()
	b, err := json.Marshal(rec)
	if err != nil {
		b = []byte(fmt.Sprintf(`{"ev":"error","seq":%d,"error":%q}`, r.seq, err.Error()))
	}
	r.f.Write(append(b, '\n'))
}

func (r *Recorder) Close() {
	r.mu.Lock()
	defer r.mu.Unlock()
	r.f.Close()
}
