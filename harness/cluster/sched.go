package main

import (
	"encoding/json"
	"fmt"
	"math/rand"
	"os"
	"path/filepath"
	"strings"
	"sync"
	"time"
)

// Step is one controllable step of a fault schedule. N is either a number
// (a node of the model, bound to a real node at run time) or a role:
// "leader", "follower", "follower2", "random".
type Step struct {
	Op      string                 `json:"op"`
	C       int                    `json:"c,omitempty"`
	N       interface{}            `json:"n,omitempty"`
	Ms      int                    `json:"ms,omitempty"`
	Count   int                    `json:"count,omitempty"`
	Point   string                 `json:"point,omitempty"`
	Filter  map[string]interface{} `json:"filter,omitempty"`
	FilterC int                    `json:"filterc,omitempty"` // gate only events of this client's session
	Cmid    string                 `json:"cmid,omitempty"`    // "next": gate only the client's next ClientMessageId
	Forced  bool                   `json:"forced,omitempty"`
	To      string                 `json:"to,omitempty"` // bind: role the number N is bound to
	// membership steps
	Via     interface{} `json:"via,omitempty"`     // join/part: the node the request is sent to (default: some member)
	NoWait  bool        `json:"nowait,omitempty"`  // join/part: do not wait until the leader reports the new configuration
	Expect  string      `json:"expect,omitempty"`  // join: "snapshot" = the node must get its state by InstallSnapshot
	Members []int       `json:"members,omitempty"` // bindmembers: the model's initial configuration
}

type Schedule struct {
	Name      string `json:"name"`
	Nodes     int    `json:"nodes"`
	Clients   int    `json:"clients"`
	Seed      int64  `json:"seed"`
	Safeguard bool   `json:"safeguard"` // leave the time safeguard on for the joins (healthy clocks)
	// FoldAfterMs > 0: entries committed earlier than this many ms after the start of
	// the orchestrator are folded into the server state by every snapshot
	// (-canary_compaction_start); the schedule must contain a "foldpoint" step.
	FoldAfterMs int `json:"fold_after_ms"`
	// Initial > 0: only nodes 1..Initial form the network at first; the others are
	// started later by "join" steps (with -join, on an empty -raftdir).
	Initial int `json:"initial"`
	// TrailingLogs >= 0: raft.Config.TrailingLogs of every node (VERIF_TRAILING_LOGS), so
	// that a snapshot compacts the raft log and late joiners / laggards need InstallSnapshot.
	TrailingLogs *int   `json:"trailing_logs"`
	Steps        []Step `json:"steps"`
}

type Runner struct {
	c       *Cluster
	sch     *Schedule
	rng     *rand.Rand
	clients []*Client
	readers []*Reader
	bind    map[int]int // model node -> real node
	bg      chan struct{}
	bgN     int
	notes   []string
	t0      time.Time
	fold    map[int][2]uint64 // session -> id of the last message before the fold point
	stuckAt string            // a member stood still behind the others (see stuck)
	// expectations of the schedule about what it exercised that were not met (e.g. a
	// late joiner that was expected to need InstallSnapshot replayed the log instead)
	unmet            []string
	snapshotInstalls int
	lastJoined       int
	stateRound       int
}

func (r *Runner) note(format string, a ...interface{}) {
	s := fmt.Sprintf(format, a...)
	r.notes = append(r.notes, s)
	r.c.rec.Log("note", "text", s)
}

// Setup starts the network, creates the sessions and the readers.
func (r *Runner) Setup() error {
	c := r.c
	if err := c.Start(1); err != nil {
		return err
	}
	if err := c.WaitServing(1, 40*time.Second); err != nil {
		return err
	}
	if _, err := c.WaitLeader(40*time.Second, 0); err != nil {
		return err
	}
	c.setMembers([]int{1})
	for id := 2; id <= c.initial; id++ {
		c.rec.Log("cfgreq", "kind", "join", "n", id, "via", 1, "setup", true)
		if err := c.Start(id); err != nil {
			return err
		}
		if err := c.WaitServing(id, 60*time.Second); err != nil {
			return err
		}
		if !r.awaitCfg("join", id, 40*time.Second) {
			return inconclusive("setup: node %d did not become a member", id)
		}
	}
	// every node knows the same leader
	end := time.Now().Add(40 * time.Second)
	for {
		l := c.Leader()
		ok := l != 0
		for _, n := range c.nodes[:c.initial] {
			if c.leaderView(n.id) != l {
				ok = false
			}
		}
		if ok {
			break
		}
		if time.Now().After(end) {
			return inconclusive("network did not agree on a leader")
		}
		time.Sleep(100 * time.Millisecond)
	}
	for i := 1; i <= r.sch.Clients; i++ {
		cl, err := c.createSession(i, (i-1)%c.initial+1)
		if err != nil {
			return err
		}
		cl.rot = i // different rotation per client
		r.clients = append(r.clients, cl)
	}
	for _, cl := range r.clients {
		for _, n := range c.nodes {
			r.readers = append(r.readers, c.StartReader(cl, n.id))
		}
	}
	c.rec.Log("setupdone", "nodes", len(c.nodes), "clients", len(r.clients))
	return nil
}

// resolve maps a step's node designation to a real node id (0: nobody fits).
func (r *Runner) resolve(n interface{}) int {
	c := r.c
	pickOther := func(skip map[int]bool, needUp bool) int {
		var cands []int
		for _, nd := range c.nodes {
			up, _, _ := nd.state()
			if skip[nd.id] || (needUp && (!up || !nd.isMember())) {
				continue
			}
			cands = append(cands, nd.id)
		}
		if len(cands) == 0 {
			return 0
		}
		return cands[0]
	}
	switch v := n.(type) {
	case nil:
		return 0
	case float64:
		m := int(v)
		if real, ok := r.bind[m]; ok {
			return real
		}
		used := map[int]bool{}
		for _, real := range r.bind {
			used[real] = true
		}
		real := pickOther(used, false)
		if real == 0 {
			real = (m-1)%len(c.nodes) + 1
		}
		r.bind[m] = real
		return real
	case string:
		l := c.Leader()
		switch v {
		case "leader":
			return l
		case "follower":
			return pickOther(map[int]bool{l: true}, true)
		case "follower2":
			f := pickOther(map[int]bool{l: true}, true)
			return pickOther(map[int]bool{l: true, f: true}, true)
		case "new", "nonmember":
			// a node that is not part of the network and not running: never started first
			for _, nd := range c.nodes {
				nd.mu.Lock()
				fits := !nd.up && !nd.member && nd.inc == 0
				nd.mu.Unlock()
				if fits {
					return nd.id
				}
			}
			for _, nd := range c.nodes {
				if up, _, _ := nd.state(); !up && !nd.isMember() {
					return nd.id
				}
			}
			return 0
		case "removed":
			for _, nd := range c.nodes {
				nd.mu.Lock()
				fits := !nd.member && nd.inc > 0
				nd.mu.Unlock()
				if fits {
					return nd.id
				}
			}
			return 0
		case "joined":
			// the node that joined last (late joiner)
			if r.lastJoined != 0 {
				if up, _, _ := c.node(r.lastJoined).state(); up {
					return r.lastJoined
				}
			}
			return 0
		case "member":
			var ups []int
			for _, nd := range c.nodes {
				if up, _, _ := nd.state(); up && nd.isMember() {
					ups = append(ups, nd.id)
				}
			}
			if len(ups) == 0 {
				return 0
			}
			return ups[r.rng.Intn(len(ups))]
		case "random":
			var ups []int
			for _, nd := range c.nodes {
				if up, _, _ := nd.state(); up && nd.isMember() {
					ups = append(ups, nd.id)
				}
			}
			if len(ups) == 0 {
				return 0
			}
			return ups[r.rng.Intn(len(ups))]
		case "randomdown":
			for _, nd := range c.nodes {
				if up, _, _ := nd.state(); !up && nd.isMember() {
					return nd.id
				}
			}
			return 0
		}
	}
	return 0
}

// bindLeader makes the model node m designate the real node `real` (model and
// reality elect whom they like; followers in the same condition are
// interchangeable).
func (r *Runner) bindLeader(m, real int) {
	for k, v := range r.bind {
		if v == real && k != m {
			if old, ok := r.bind[m]; ok {
				r.bind[k] = old
			} else {
				delete(r.bind, k)
			}
		}
	}
	r.bind[m] = real
}

func (r *Runner) client(no int) *Client {
	if no < 1 || no > len(r.clients) {
		return nil
	}
	return r.clients[no-1]
}

func (r *Runner) gateFile(n int, point string) string {
	return filepath.Join(r.c.node(n).gateDir, point)
}

func (r *Runner) arm(n int, st Step) {
	filter := map[string]interface{}{}
	for k, v := range st.Filter {
		filter[k] = v
	}
	if cl := r.client(st.FilterC); cl != nil {
		filter["session"] = cl.sidNum
		if st.Cmid == "next" || st.Cmid == "cur" {
			cl.mu.Lock()
			filter["cmid"] = cl.cmid
			if st.Cmid == "next" {
				filter["cmid"] = cl.cmid + 1
			}
			cl.mu.Unlock()
		}
	}
	b, _ := json.Marshal(filter)
	if len(filter) == 0 {
		b = nil
	}
	os.Remove(r.gateFile(n, st.Point) + ".reached")
	tmp := r.gateFile(n, st.Point) + ".arming"
	os.WriteFile(tmp, b, 0644)
	os.Rename(tmp, r.gateFile(n, st.Point))
	r.c.rec.Log("arm", "n", n, "point", st.Point, "filter", string(b))
}

func (r *Runner) waitGate(n int, point string, d time.Duration) bool {
	end := time.Now().Add(d)
	for time.Now().Before(end) {
		if _, err := os.Stat(r.gateFile(n, point) + ".reached"); err == nil {
			return true
		}
		time.Sleep(5 * time.Millisecond)
	}
	return false
}

func (r *Runner) disarm(n int, point string) {
	os.Remove(r.gateFile(n, point))
	r.c.rec.Log("disarm", "n", n, "point", point)
}

func (r *Runner) disarmAll() {
	for _, nd := range r.c.nodes {
		ents, _ := os.ReadDir(nd.gateDir)
		for _, e := range ents {
			os.Remove(filepath.Join(nd.gateDir, e.Name()))
		}
	}
}

// background posting: every client posts `count` further lines on its own.
func (r *Runner) startBackground(count int) {
	done := make(chan struct{}, len(r.clients))
	r.bg = done
	r.bgN = len(r.clients)
	for _, cl := range r.clients {
		cl := cl
		seed := r.rng.Int63()
		go func() {
			rng := rand.New(rand.NewSource(seed))
			for i := 0; i < count; i++ {
				if !cl.WaitIdle(10 * time.Minute) {
					break
				}
				cl.mu.Lock()
				stopped := cl.stopped
				cl.mu.Unlock()
				if stopped {
					break
				}
				cl.PostNext(0)
				cl.WaitIdle(10 * time.Minute)
				time.Sleep(time.Duration(rng.Intn(120)) * time.Millisecond)
			}
			done <- struct{}{}
		}()
	}
}

func (r *Runner) waitBackground(d time.Duration) bool {
	if r.bg == nil {
		return true
	}
	timeout := time.After(d)
	for r.bgN > 0 {
		select {
		case <-r.bg:
			r.bgN--
		case <-timeout:
			return false
		}
	}
	r.bg = nil
	return true
}

func (r *Runner) barrier(d time.Duration) bool {
	ok := r.waitBackground(d)
	for _, cl := range r.clients {
		if !cl.WaitIdle(d) {
			ok = false
		}
	}
	return ok
}

func (r *Runner) Exec(st Step) error {
	c := r.c
	switch st.Op {
	case "sleep":
		time.Sleep(time.Duration(st.Ms) * time.Millisecond)
	case "post":
		cl := r.client(st.C)
		if cl == nil {
			return nil
		}
		if !cl.WaitIdle(45 * time.Second) {
			r.note("post: client %d still busy after 45s, step skipped", st.C)
			return nil
		}
		cl.PostNext(r.resolve(st.N))
	case "retryat":
		if cl := r.client(st.C); cl != nil {
			cl.Hint(r.resolve(st.N))
		}
	case "timeout":
		if cl := r.client(st.C); cl != nil {
			cl.Abandon()
		}
	case "clienttimeout":
		// how long the client waits for an answer before it retries (default 4 s)
		if cl := r.client(st.C); cl != nil {
			cl.mu.Lock()
			cl.timeout = time.Duration(max(st.Ms, 100)) * time.Millisecond
			cl.mu.Unlock()
		}
	case "await":
		if cl := r.client(st.C); cl != nil {
			if !cl.WaitIdle(time.Duration(max(st.Ms, 30000)) * time.Millisecond) {
				r.note("await: client %d not acknowledged in time", st.C)
			}
		}
	case "bg":
		r.startBackground(st.Count)
	case "barrier":
		if !r.barrier(time.Duration(max(st.Ms, 60000)) * time.Millisecond) {
			return inconclusive("barrier: posts not acknowledged within the deadline (faults not healed?)")
		}
	case "waitdelivered":
		// until every other session's reader on every live node got the client's last line
		cl := r.client(st.C)
		if cl == nil || !cl.WaitIdle(45*time.Second) {
			return nil
		}
		cl.mu.Lock()
		cmid := int(cl.cmid)
		cl.mu.Unlock()
		end := time.Now().Add(time.Duration(max(st.Ms, 20000)) * time.Millisecond)
		for {
			all := true
			for _, rd := range r.readers {
				if rd.cl.no != cl.no && c.node(rd.n).live() && !rd.Saw(cl.no, cmid) {
					all = false
				}
			}
			if all {
				break
			}
			if time.Now().After(end) {
				r.note("waitdelivered: line %d of client %d not seen everywhere in time", cmid, cl.no)
				break
			}
			time.Sleep(50 * time.Millisecond)
		}
	case "repost":
		if cl := r.client(st.C); cl != nil {
			for _, nd := range c.nodes {
				if nd.live() {
					cl.Repost(nd.id)
				}
			}
		}
	case "foldpoint":
		if err := r.foldPoint(); err != nil {
			return err
		}
	case "kill":
		if n := r.resolve(st.N); n != 0 {
			c.Kill(n, "schedule")
		}
	case "restart":
		n := r.resolve(st.N)
		if n == 0 {
			return nil
		}
		if err := c.Start(n); err != nil {
			return err
		}
	case "waitserving":
		if n := r.resolve(st.N); n != 0 {
			if err := c.WaitServing(n, 60*time.Second); err != nil {
				return err
			}
		}
	case "pause":
		if n := r.resolve(st.N); n != 0 {
			c.Pause(n)
		}
	case "resume":
		if n := r.resolve(st.N); n != 0 {
			c.Resume(n)
		}
	case "pausefollowers":
		l := c.Leader()
		for _, nd := range c.nodes {
			if nd.id != l && nd.live() {
				c.Pause(nd.id)
			}
		}
	case "resumeexcept":
		keep := r.resolve(st.N)
		for _, nd := range c.nodes {
			if nd.id != keep {
				c.Resume(nd.id)
			}
		}
	case "resumeall":
		for _, nd := range c.nodes {
			c.Resume(nd.id)
		}
	case "snapshot":
		if n := r.resolve(st.N); n != 0 && c.node(n).live() {
			code, _, err := c.privateGet(n, "/snapshot", 5*time.Second)
			c.rec.Log("snapreq", "n", n, "code", code, "err", fmt.Sprint(err))
		}
	case "arm":
		if n := r.resolve(st.N); n != 0 {
			r.arm(n, st)
		}
	case "armfollowers":
		l := c.Leader()
		for _, nd := range c.nodes {
			if nd.id != l && nd.live() {
				r.arm(nd.id, st)
			}
		}
	case "waitgate":
		if n := r.resolve(st.N); n != 0 {
			if !r.waitGate(n, st.Point, time.Duration(max(st.Ms, 5000))*time.Millisecond) {
				r.note("gate %s on node %d not reached", st.Point, n)
			}
		}
	case "waitgatefollowers":
		for _, nd := range c.nodes {
			if _, err := os.Stat(r.gateFile(nd.id, st.Point)); err == nil {
				if !r.waitGate(nd.id, st.Point, time.Duration(max(st.Ms, 8000))*time.Millisecond) {
					r.note("gate %s on node %d not reached", st.Point, nd.id)
				}
			}
		}
	case "disarm":
		if n := r.resolve(st.N); n != 0 {
			r.disarm(n, st.Point)
		}
	case "disarmall":
		r.disarmAll()
		c.rec.Log("disarmall")
	case "killgate":
		// SIGKILL the node while it is parked at the hook point
		n := r.resolve(st.N)
		if n == 0 {
			return nil
		}
		reached := r.waitGate(n, st.Point, time.Duration(max(st.Ms, 6000))*time.Millisecond)
		if !reached {
			r.note("killgate: %s on node %d not reached, killing anyway", st.Point, n)
		}
		c.rec.Log("atgate", "n", n, "point", st.Point, "reached", reached)
		c.Kill(n, "gate:"+st.Point)
		os.Remove(r.gateFile(n, st.Point))
		os.Remove(r.gateFile(n, st.Point) + ".reached")
	case "leaderchange":
		// model: Elect(n). Forced: the leader is healthy, so it is paused until
		// somebody else took over.
		old := c.Leader()
		live, total := 0, 0
		for _, nd := range c.nodes {
			if !nd.isMember() {
				continue
			}
			total++
			if nd.live() {
				live++
			}
		}
		if st.Forced && old != 0 {
			if 2*(live-1) <= total {
				// the model lets the deposed leader vote; pausing it cannot realise that
				r.note("leaderchange: forced change skipped, only %d live nodes", live)
				return nil
			}
			c.Pause(old)
			nl, err := c.WaitLeader(15*time.Second, old)
			c.Resume(old)
			if err != nil {
				r.note("leaderchange: nobody took over within 15s")
				return nil
			}
			if m, ok := st.N.(float64); ok {
				r.bindLeader(int(m), nl)
			}
		} else {
			if 2*live <= total {
				r.note("leaderchange: no majority alive, nothing to wait for")
				return nil
			}
			nl, err := c.WaitLeader(12*time.Second, 0)
			if err != nil {
				r.note("leaderchange: no leader within 12s")
				return nil
			}
			if m, ok := st.N.(float64); ok {
				r.bindLeader(int(m), nl)
			}
		}
	case "waitleader":
		if _, err := c.WaitLeader(time.Duration(max(st.Ms, 30000))*time.Millisecond, 0); err != nil {
			return err
		}
	case "bind":
		// give the node that currently plays role To the number N for the rest of the schedule
		if m, ok := st.N.(float64); ok {
			if real := r.resolve(st.To); real != 0 {
				r.bind[int(m)] = real
			}
		}
	case "bindleader":
		if m, ok := st.N.(float64); ok {
			if l := c.Leader(); l != 0 {
				r.bindLeader(int(m), l)
			}
		}
	case "bindmembers":
		// the model's initial configuration: its leader is the real leader, its other
		// members are the other running nodes, everybody else a node not yet started
		l := c.Leader()
		var others, outside []int
		for _, nd := range c.nodes {
			if nd.id == l {
				continue
			}
			if nd.isMember() {
				others = append(others, nd.id)
			} else {
				outside = append(outside, nd.id)
			}
		}
		lm := 0
		if m, ok := st.N.(float64); ok {
			lm = int(m)
			r.bind[lm] = l
		}
		inModel := map[int]bool{}
		for _, m := range st.Members {
			inModel[m] = true
			if m != lm && len(others) > 0 {
				r.bind[m] = others[0]
				others = others[1:]
			}
		}
		for m := 1; m <= len(c.nodes); m++ {
			if !inModel[m] && len(outside) > 0 {
				r.bind[m] = outside[0]
				outside = outside[1:]
			}
		}
	case "join", "rejoin":
		return r.join(st)
	case "part":
		return r.part(st)
	case "retire":
		if n := r.resolve(st.N); n != 0 && !c.node(n).isMember() {
			c.Kill(n, "retired")
			c.Wipe(n)
		}
	case "checkstates":
		// mid-run: everything acknowledged and applied everywhere, then every live member's
		// serialised state is recorded (a late joiner's state came out of InstallSnapshot,
		// the others applied every entry themselves)
		if !r.barrier(time.Duration(max(st.Ms, 60000)) * time.Millisecond) {
			return inconclusive("checkstates: posts not acknowledged")
		}
		if _, err := r.converge(60 * time.Second); err != nil {
			return err
		}
		if err := r.recordStates(); err != nil {
			return err
		}
	case "waitcfg":
		// until the leader reports a configuration and no request is in flight
		r.observeCfg(time.Duration(max(st.Ms, 20000)) * time.Millisecond)
	default:
		return inconclusive("unknown schedule step %q", st.Op)
	}
	return nil
}

// awaitCfg waits until the leader's latest configuration contains (join) / does not
// contain (part) node n, records the configuration it reports ("cfg") and adopts it.
func (r *Runner) awaitCfg(kind string, n int, d time.Duration) bool {
	c := r.c
	end := time.Now().Add(d)
	for {
		l, peers, ok := c.Peers()
		if ok && contains(peers, n) == (kind == "join") {
			serving := true
			if kind == "join" {
				// the joining process carries on only after its POST /join was answered
				up, _, _ := c.node(n).state()
				serving = up && c.leaderView(n) != 0
			}
			if serving {
				c.setMembers(peers)
				c.rec.Log("cfg", "kind", kind, "n", n, "leader", l, "peers", peers, "ok", true)
				return true
			}
		}
		if up, _, _ := c.node(n).state(); kind == "join" && !up {
			break // the joining process gave up (robustirc.go joinMaster: log.Fatal)
		}
		if time.Now().After(end) {
			break
		}
		time.Sleep(100 * time.Millisecond)
	}
	// not confirmed: the change may or may not have happened; say what can be seen
	if l, peers, ok := c.Peers(); ok {
		c.setMembers(peers)
		c.rec.Log("cfg", "kind", kind, "n", n, "leader", l, "peers", peers, "ok", false)
	} else {
		c.rec.Log("cfgunknown", "kind", kind, "n", n)
	}
	r.note("%s of node %d not confirmed within %v", kind, n, d)
	return false
}

// observeCfg records the configuration the leader reports (after faults healed).
func (r *Runner) observeCfg(d time.Duration) ([]int, bool) {
	c := r.c
	end := time.Now().Add(d)
	for {
		if l, peers, ok := c.Peers(); ok {
			c.setMembers(peers)
			c.rec.Log("cfg", "kind", "observe", "n", 0, "leader", l, "peers", peers, "ok", true)
			return peers, true
		}
		if time.Now().After(end) {
			return nil, false
		}
		time.Sleep(150 * time.Millisecond)
	}
}

// join starts a node that is not part of the network on an empty -raftdir with
// -join=<via>: the new process POSTs /join to that peer, which proxies it to the
// leader (api.handleJoin -> raft AddPeer). "rejoin" first retires the node.
func (r *Runner) join(st Step) error {
	c := r.c
	n := 0
	if st.N == nil {
		n = r.resolve("new")
	} else {
		n = r.resolve(st.N)
	}
	if n == 0 {
		r.note("join: no node left to join")
		return nil
	}
	nd := c.node(n)
	if nd.isMember() {
		r.note("join: node %d is a member of the network already, step skipped", n)
		return nil
	}
	if up, _, _ := nd.state(); up {
		if st.Op != "rejoin" {
			r.note("join: node %d is still running, step skipped", n)
			return nil
		}
		c.Kill(n, "retired")
	}
	c.Wipe(n)
	via := 0
	if st.Via != nil {
		via = r.resolve(st.Via)
	}
	if via == 0 || via == n {
		via = r.resolve("member")
	}
	if via == 0 {
		r.note("join: no running member to join through")
		return nil
	}
	nd.mu.Lock()
	nd.removed = true // a process whose join request fails exits on its own (joinMaster: log.Fatal)
	nd.mu.Unlock()
	c.rec.Log("cfgreq", "kind", "join", "n", n, "via", via)
	if err := c.StartVia(n, via); err != nil {
		return err
	}
	if st.NoWait {
		return nil
	}
	ok := r.awaitCfg("join", n, time.Duration(max(st.Ms, 40000))*time.Millisecond)
	nd.mu.Lock()
	nd.removed = !ok
	nd.mu.Unlock()
	if ok {
		r.lastJoined = n
	}
	if ok && st.Expect == "snapshot" {
		r.expectSnapshot(n)
	} else if !ok && st.Expect != "" {
		r.unmet = append(r.unmet, fmt.Sprintf("node %d did not become a member", n))
	}
	return nil
}

// expectSnapshot waits until the new node has caught up with the leader and checks in
// ITS OWN hook trace that FSM.Restore ran: it started on an empty -raftdir, so that can
// only have been an InstallSnapshot.
func (r *Runner) expectSnapshot(n int) {
	c := r.c
	end := time.Now().Add(30 * time.Second)
	for time.Now().Before(end) {
		l := c.Leader()
		if l != 0 && c.node(n).live() {
			if a := c.lastApplied(l); a > 0 && c.lastApplied(n) >= a {
				break
			}
		}
		time.Sleep(100 * time.Millisecond)
	}
	k := c.restoredCount(n)
	c.rec.Log("snapinstall", "n", n, "restored", k)
	if k == 0 {
		r.unmet = append(r.unmet, fmt.Sprintf("node %d joined without InstallSnapshot (no fsm.restored in its trace)", n))
	} else {
		r.snapshotInstalls += k
	}
}

// part removes a node from the network the way cmd/robustirc-removepeer does: POST
// /part {"Addr": <peer_addr>} with the network password to some node, which proxies
// it to the leader (api.handlePart -> raft RemovePeer).
func (r *Runner) part(st Step) error {
	c := r.c
	n := r.resolve(st.N)
	if n == 0 || !c.node(n).isMember() {
		r.note("part: nobody to remove")
		return nil
	}
	members := 0
	for _, nd := range c.nodes {
		if nd.isMember() {
			members++
		}
	}
	if members < 3 {
		// robustirc-removepeer: "cannot remove any more nodes or the network will freeze"
		// (and main() refuses to start a node whose configuration is just itself)
		r.note("part: only %d members, step skipped as robustirc-removepeer would refuse", members)
		return nil
	}
	via := 0
	if st.Via != nil {
		via = r.resolve(st.Via)
	}
	if via == 0 {
		via = r.resolve("member")
	}
	if via == 0 {
		r.note("part: no running member to send the request to")
		return nil
	}
	nd := c.node(n)
	nd.mu.Lock()
	nd.removed = true // a leader that removes itself terminates once the change is committed
	nd.mu.Unlock()
	body, _ := json.Marshal(map[string]string{"Addr": nd.addr})
	c.rec.Log("cfgreq", "kind", "part", "n", n, "via", via)
	code, txt, err := c.postPrivate(via, "/part", body, 20*time.Second)
	c.rec.Log("partreply", "n", n, "via", via, "code", code, "err", fmt.Sprint(err), "body", txt)
	if st.NoWait {
		return nil
	}
	d := 20 * time.Second
	if err != nil || code != 200 {
		d = 3 * time.Second // the request failed; the change can have happened all the same
	}
	ok := r.awaitCfg("part", n, d)
	if !ok {
		nd.mu.Lock()
		nd.removed = !nd.member
		nd.mu.Unlock()
	}
	return nil
}

// recordStates reads /status/state of every live member; the records of one call form
// one round (only states of the same round are compared).
func (r *Runner) recordStates() error {
	c := r.c
	r.stateRound++
	for _, nd := range c.nodes {
		if !nd.live() || !nd.isMember() {
			continue
		}
		text, err := c.serverState(nd.id)
		if err != nil {
			return inconclusive("cannot read /status/state of node %d: %v", nd.id, err)
		}
		_, _, inc := nd.state()
		c.rec.Log("state", "n", nd.id, "k", inc, "round", r.stateRound, "text", text)
	}
	return nil
}

var errStuck = fmt.Errorf("a member stands still behind the others")

// stuck watches the applied indexes of the live members for d: if any of them moves the network is merely
// slow (false).  If none moves, every member that is behind hi answers /status as a follower that knows its
// leader, it is reported as standing still.
func (r *Runner) stuck(d time.Duration, hi uint64) (string, bool) {
	c := r.c
	at := map[int]uint64{}
	for _, nd := range c.nodes {
		if nd.live() && nd.isMember() {
			at[nd.id] = c.lastApplied(nd.id)
		}
	}
	end := time.Now().Add(d)
	for time.Now().Before(end) {
		time.Sleep(time.Second)
		for id, a := range at {
			if c.lastApplied(id) != a || !c.node(id).live() {
				return "", false
			}
		}
	}
	var parts []string
	for _, nd := range c.nodes {
		a, ok := at[nd.id]
		if !ok || a >= hi {
			continue
		}
		st, err := c.status(nd.id, 3*time.Second)
		if err != nil || st.State != "Follower" || st.Leader == "" {
			return "", false
		}
		parts = append(parts, fmt.Sprintf("node %d is a follower of %s and has stood at applied index %d for %v while the others are at %d",
			nd.id, st.Leader, a, d, hi))
	}
	return strings.Join(parts, "; "), len(parts) > 0
}

// converge waits until all live members applied the same highest index, stable
// for a moment.
func (r *Runner) converge(d time.Duration) (uint64, error) {
	c := r.c
	end := time.Now().Add(d)
	stable := 0
	var last uint64
	for {
		var lo, hi uint64
		first := true
		for _, nd := range c.nodes {
			if !nd.live() || !nd.isMember() {
				continue
			}
			a := c.lastApplied(nd.id)
			if first || a < lo {
				lo = a
			}
			if a > hi {
				hi = a
			}
			first = false
		}
		if r.stuckAt != "" && hi > 0 && lo < hi {
			return hi, errStuck // established earlier in this run
		}
		if lo == hi && hi == last && hi > 0 {
			stable++
		} else {
			stable = 0
		}
		last = hi
		if stable >= 5 {
			return last, nil
		}
		if time.Now().After(end) {
			if desc, ok := r.stuck(45*time.Second, hi); ok {
				// not slow: standing still.  The members that lag answer as followers in contact with a
				// leader, i.e. they serve clients, and nothing has been applied anywhere for a minute.  The
				// run goes on to the final reads, which record what such a node delivers.
				c.rec.Log("stuck", "applied", hi, "what", desc)
				r.stuckAt = desc
				return hi, errStuck
			}
			return 0, inconclusive("nodes did not converge on one applied index (lo=%d hi=%d)", lo, hi)
		}
		time.Sleep(100 * time.Millisecond)
	}
}

// foldPoint ends phase 1 of a folding schedule: everything acknowledged,
// applied and delivered everywhere; remembers where every session's stream
// stands; then waits until the fold horizon has passed.
func (r *Runner) foldPoint() error {
	c := r.c
	if !r.barrier(60 * time.Second) {
		return inconclusive("foldpoint: posts not acknowledged")
	}
	if _, err := r.converge(60 * time.Second); err != nil {
		return err
	}
	end := time.Now().Add(15 * time.Second)
	for {
		ok := true
		pos := map[int][2]uint64{}
		for _, rd := range r.readers {
			if !c.node(rd.n).live() {
				continue
			}
			l := rd.Last()
			if p, seen := pos[rd.cl.no]; seen && p != l {
				ok = false
			}
			pos[rd.cl.no] = l
		}
		if ok {
			time.Sleep(300 * time.Millisecond)
			same := true
			for _, rd := range r.readers {
				if c.node(rd.n).live() && rd.Last() != pos[rd.cl.no] {
					same = false
				}
			}
			if same {
				r.fold = pos
				break
			}
		}
		if time.Now().After(end) {
			return inconclusive("foldpoint: readers did not reach a common position")
		}
		time.Sleep(100 * time.Millisecond)
	}
	for _, cl := range r.clients {
		p := r.fold[cl.no]
		idx := uint64(0)
		if p[0] != 0 {
			idx = p[0] - messageOffset
		}
		cl.mu.Lock()
		cmid := cl.cmid
		cl.mu.Unlock()
		c.rec.Log("foldpoint", "s", cl.no, "idx", idx, "reply", p[1], "cmid", cmid)
	}
	horizon := r.t0.Add(time.Duration(r.sch.FoldAfterMs)*time.Millisecond + 400*time.Millisecond)
	if d := time.Until(horizon); d > 0 {
		time.Sleep(d)
	} else if d < -300*time.Millisecond {
		// phase 1 took longer than planned: some phase-1 entries will not be folded,
		// which is harmless (less is exercised, nothing is wrong)
		r.note("foldpoint: reached %v after the fold horizon", -d)
	}
	return nil
}

// Quiesce heals every fault, waits until all posts are acknowledged and all
// nodes applied the same prefix, then reads every session's full stream from
// every node.
func (r *Runner) Quiesce() error {
	c := r.c
	r.disarmAll()
	for _, nd := range c.nodes {
		c.Resume(nd.id)
	}
	startDown := func(wait bool) error {
		for _, nd := range c.nodes {
			if up, _, _ := nd.state(); !up && nd.isMember() {
				if err := c.Start(nd.id); err != nil {
					return err
				}
			}
		}
		for _, nd := range c.nodes {
			if !wait || !nd.isMember() {
				continue
			}
			if err := c.WaitServing(nd.id, 90*time.Second); err != nil {
				return err
			}
		}
		return nil
	}
	// the nodes the orchestrator believes to be members (a request whose outcome it could
	// not see may have changed that) ...
	if err := startDown(false); err != nil {
		return err
	}
	if _, err := c.WaitLeader(90*time.Second, 0); err != nil {
		return err
	}
	// ... but the configuration in force is what the leader says it is; a member the
	// orchestrator did not know of (a join whose reply got lost) is started as well
	if _, ok := r.observeCfg(30 * time.Second); !ok {
		return inconclusive("quiesce: the leader does not report a configuration")
	}
	if err := startDown(true); err != nil {
		return err
	}
	c.rec.Log("healed")
	if !r.barrier(120 * time.Second) {
		return inconclusive("quiesce: posts not acknowledged within 120s on a healed network")
	}
	last, err := r.converge(90 * time.Second)
	if err != nil && err != errStuck {
		return err
	}
	// give the resuming readers a moment to drain, then stop them
	time.Sleep(700 * time.Millisecond)
	for _, rd := range r.readers {
		rd.Stop()
	}
	peers, ok := r.observeCfg(20 * time.Second)
	if !ok {
		return inconclusive("quiesce: the leader does not report a configuration")
	}
	c.rec.Log("quiescent", "applied", last, "members", peers)
	// the replicated state itself, as every member serialises it
	if err := r.recordStates(); err != nil {
		return err
	}
	// members: the complete stream (all reads run concurrently, the results are recorded
	// in a fixed order). A node that was removed from the network and still runs serves
	// what it had when it was cut off (stale) - or refuses ("raft: LastContact too long ago").
	type finalRes struct {
		n, inc, s int
		stale     bool
		msgs      []map[string]interface{}
		err       error
	}
	var jobs []*finalRes
	for pass := 0; pass < 2; pass++ {
		for _, cl := range r.clients {
			for _, nd := range c.nodes {
				up, _, inc := nd.state()
				if !up || nd.isMember() != (pass == 0) {
					continue
				}
				jobs = append(jobs, &finalRes{n: nd.id, inc: inc, s: cl.no, stale: pass == 1})
			}
		}
	}
	var wg sync.WaitGroup
	for _, j := range jobs {
		j := j
		wg.Add(1)
		go func() {
			defer wg.Done()
			deadline := 40 * time.Second
			if j.stale {
				deadline = 2500 * time.Millisecond
			}
			j.msgs, j.err = c.FinalRead(r.client(j.s), j.n, r.fold[j.s], 1200*time.Millisecond, deadline)
		}()
	}
	wg.Wait()
	for _, j := range jobs {
		if j.err != nil {
			if j.stale {
				c.rec.Log("stalerefused", "n", j.n, "s", j.s, "err", j.err.Error())
				continue
			}
			return j.err
		}
		c.rec.Log("final", "n", j.n, "k", j.inc, "s", j.s, "msgs", j.msgs, "stale", j.stale)
	}
	return nil
}
