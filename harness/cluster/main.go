// verif-cluster executes one fault schedule against real robustirc binaries (one
// node or three nodes on loopback) with concurrent retrying clients, and records
// what happened: the orchestrator's own event stream (orch.ndjson) and one hook
// trace per node incarnation (node<N>.inc<K>.ndjson, written by the nodes
// themselves). It judges nothing; /verif/checks/c05.py merges the streams per
// process and validates them against ClusterTrace.tla.
//
// It builds nothing: the robustirc binary (built with -tags verif from the
// current tree) is passed with -bin. Standard library only.
package main

import (
	"encoding/json"
	"flag"
	"fmt"
	"math/rand"
	"os"
	"os/signal"
	"path/filepath"
	"syscall"
	"time"
)

type Result struct {
	Status          string   `json:"status"` // "ok" | "inconclusive"
	Why             string   `json:"why,omitempty"`
	Schedule        string   `json:"schedule"`
	Notes           []string `json:"notes,omitempty"`
	UnexpectedExits []string `json:"unexpected_exits,omitempty"`
	WallS           float64  `json:"wall_s"`
	Ports           []int    `json:"ports"`
	// what the schedule was meant to exercise and did not (e.g. InstallSnapshot)
	Unmet            []string `json:"unmet,omitempty"`
	SnapshotInstalls int      `json:"snapshot_installs"`
}

func main() {
	bin := flag.String("bin", "", "robustirc binary built with -tags verif")
	work := flag.String("work", "", "scratch directory (raftdirs, certificates, node logs)")
	out := flag.String("out", "", "directory for the recorded streams and result.json")
	schedPath := flag.String("schedule", "", "schedule JSON")
	keep := flag.Bool("keep", false, "keep raftdirs")
	deadline := flag.Int("deadline", 300, "overall deadline in seconds")
	portBase := flag.Int("portbase", 0, "first TCP port to use (0: ports the kernel hands out)")
	flag.Parse()
	if *bin == "" || *work == "" || *out == "" || *schedPath == "" {
		flag.Usage()
		os.Exit(2)
	}
	start := time.Now()
	res := Result{Status: "ok"}
	writeResult := func() {
		res.WallS = time.Since(start).Seconds()
		b, _ := json.MarshalIndent(res, "", " ")
		os.WriteFile(filepath.Join(*out, "result.json"), b, 0644)
	}
	fail := func(err error) {
		res.Status = "inconclusive"
		res.Why = err.Error()
	}

	var sch Schedule
	b, err := os.ReadFile(*schedPath)
	if err == nil {
		err = json.Unmarshal(b, &sch)
	}
	if err != nil {
		fmt.Fprintln(os.Stderr, "schedule:", err)
		os.Exit(2)
	}
	res.Schedule = sch.Name
	if sch.Nodes < 1 || sch.Nodes > 5 {
		sch.Nodes = 3
	}
	if sch.Initial < 1 || sch.Initial > sch.Nodes {
		sch.Initial = sch.Nodes
	}
	if sch.Clients < 1 {
		sch.Clients = 2
	}
	os.MkdirAll(*work, 0755)
	os.MkdirAll(*out, 0755)
	rec, err := NewRecorder(filepath.Join(*out, "orch.ndjson"))
	if err != nil {
		fmt.Fprintln(os.Stderr, err)
		os.Exit(2)
	}
	c, err := NewCluster(*bin, *work, *out, rec, sch.Nodes, *portBase)
	if err != nil {
		fmt.Fprintln(os.Stderr, err)
		os.Exit(2)
	}
	c.safeguardOnce = sch.Safeguard
	c.initial = sch.Initial
	if sch.TrailingLogs != nil {
		c.trailingLogs = *sch.TrailingLogs
	}
	for _, n := range c.nodes {
		res.Ports = append(res.Ports, n.port)
	}
	if sch.FoldAfterMs > 0 {
		// sessionExpiration default (10m) + expireSessionsInterval (10s), see FSM.Snapshot
		c.foldNs = start.Add(time.Duration(sch.FoldAfterMs)*time.Millisecond + 610*time.Second).UnixNano()
	}
	r := &Runner{c: c, sch: &sch, rng: rand.New(rand.NewSource(sch.Seed)), bind: map[int]int{}, t0: start, fold: map[int][2]uint64{}}

	// never leave processes behind
	finished := make(chan struct{})
	sig := make(chan os.Signal, 1)
	signal.Notify(sig, syscall.SIGINT, syscall.SIGTERM)
	go func() {
		select {
		case <-sig:
			fail(inconclusive("interrupted"))
		case <-time.After(time.Duration(*deadline) * time.Second):
			fail(inconclusive("orchestrator deadline of %ds exceeded", *deadline))
		case <-finished:
			return
		}
		for _, cl := range r.clients {
			cl.Stop()
		}
		c.Shutdown(*keep)
		writeResult()
		os.Exit(3)
	}()

	func() {
		defer func() {
			if p := recover(); p != nil {
				fail(inconclusive("orchestrator panic: %v", p))
			}
		}()
		rec.Log("schedule", "name", sch.Name, "nodes", sch.Nodes, "clients", sch.Clients, "seed", sch.Seed, "initial", sch.Initial)
		if err := r.Setup(); err != nil {
			fail(err)
			return
		}
		for i, st := range sch.Steps {
			sb, _ := json.Marshal(st)
			rec.Log("step", "i", i, "step", string(sb))
			if err := r.Exec(st); err != nil {
				if err == errStuck {
					break // straight to the final reads
				}
				fail(err)
				return
			}
		}
		if err := r.Quiesce(); err != nil {
			fail(err)
			return
		}
	}()
	close(finished)
	for _, cl := range r.clients {
		cl.Stop()
	}
	for _, rd := range r.readers {
		select {
		case <-rd.stop:
		default:
			rd.Stop()
		}
	}
	c.Shutdown(*keep)
	rec.Log("end", "status", res.Status)
	rec.Close()
	res.Notes = r.notes
	res.Unmet = r.unmet
	res.SnapshotInstalls = r.snapshotInstalls
	c.unexpectedMu.Lock()
	res.UnexpectedExits = c.unexpectedExits
	c.unexpectedMu.Unlock()
	writeResult()
	if res.Status != "ok" {
		fmt.Fprintln(os.Stderr, "INCONCLUSIVE:", res.Why)
		os.Exit(3)
	}
}
