package main

import (
	"bytes"
	"context"
	"encoding/json"
	"fmt"
	"io"
	"net/http"
	"regexp"
	"strconv"
	"strings"
	"sync"
	"time"
)

const messageOffset = 4648398125000000000 // default of -robustirc_message_offset

// Client is one RobustIRC session driven by the bridge protocol: every line is
// POSTed with a ClientMessageId (1, 2, 3, ...) and retried with the SAME id on
// timeout / 5xx / connection error, possibly at another node, until it is
// answered with success.
type Client struct {
	c       *Cluster
	no      int    // client number 1..
	sid     string // as returned by the server ("0x...")
	sidNum  uint64
	auth    string
	timeout time.Duration

	mu       sync.Mutex
	cmid     uint64        // last ClientMessageId used
	busy     bool          // a post is outstanding
	done     chan struct{} // closed when the outstanding post was acknowledged
	hints    []int         // preferred targets of the next attempts
	cancel   context.CancelFunc
	rot      int
	stopped  bool
	attempts int
}

type postBody struct {
	Data            string
	ClientMessageId uint64
}

// createSession is not idempotent, so it is only used while the network is calm.
func (c *Cluster) createSession(no int, at int) (*Client, error) {
	var lastErr error
	for try := 0; try < 40; try++ {
		ctx, cancel := context.WithTimeout(context.Background(), 5*time.Second)
		req, _ := http.NewRequestWithContext(ctx, "POST", "https://"+c.node(at).addr+"/robustirc/v1/session", nil)
		resp, err := c.client.Do(req)
		if err == nil {
			var reply struct {
				Sessionid   string
				Sessionauth string
			}
			b, _ := io.ReadAll(resp.Body)
			resp.Body.Close()
			if resp.StatusCode == 200 && json.Unmarshal(b, &reply) == nil && reply.Sessionid != "" {
				cancel()
				num, perr := strconv.ParseUint(reply.Sessionid, 0, 64)
				if perr != nil {
					return nil, inconclusive("unparsable session id %q", reply.Sessionid)
				}
				cl := &Client{c: c, no: no, sid: reply.Sessionid, sidNum: num, auth: reply.Sessionauth, timeout: 4 * time.Second}
				c.rec.Log("session", "c", no, "sid", num, "idx", num-messageOffset, "n", at)
				return cl, nil
			}
			lastErr = fmt.Errorf("HTTP %d: %s", resp.StatusCode, strings.TrimSpace(string(b)))
		} else {
			lastErr = err
		}
		cancel()
		time.Sleep(250 * time.Millisecond)
	}
	return nil, inconclusive("cannot create session %d: %v", no, lastErr)
}

func (cl *Client) lineFor(cmid uint64) string {
	switch cmid {
	case 1:
		return fmt.Sprintf("NICK c%d", cl.no)
	case 2:
		return fmt.Sprintf("USER c%d 0 * :client %d", cl.no, cl.no)
	case 3:
		return "JOIN #verif"
	}
	return fmt.Sprintf("PRIVMSG #verif :m %d %d", cl.no, cmid)
}

// Hint makes the next attempt(s) of the outstanding/next post go to node n.
func (cl *Client) Hint(n int) {
	cl.mu.Lock()
	defer cl.mu.Unlock()
	cl.hints = append(cl.hints, n)
}

// Abandon makes the client give up on its current attempt right now (a client
// side timeout) and retry.
func (cl *Client) Abandon() {
	cl.mu.Lock()
	defer cl.mu.Unlock()
	if cl.cancel != nil {
		cl.cancel()
	}
}

func (cl *Client) Stop() {
	cl.mu.Lock()
	defer cl.mu.Unlock()
	cl.stopped = true
	if cl.cancel != nil {
		cl.cancel()
	}
}

func (cl *Client) target() int {
	cl.mu.Lock()
	defer cl.mu.Unlock()
	for len(cl.hints) > 0 {
		h := cl.hints[0]
		cl.hints = cl.hints[1:]
		if h >= 1 && h <= len(cl.c.nodes) {
			if up, _, _ := cl.c.node(h).state(); up {
				return h
			}
		}
	}
	// rotate over the nodes that exist as processes (a paused node is tried: the
	// client cannot know)
	for i := 0; i < len(cl.c.nodes); i++ {
		cl.rot++
		id := (cl.rot-1)%len(cl.c.nodes) + 1
		if up, _, _ := cl.c.node(id).state(); up {
			return id
		}
	}
	cl.rot++
	return (cl.rot-1)%len(cl.c.nodes) + 1
}

// WaitIdle waits until no post is outstanding.
func (cl *Client) WaitIdle(deadline time.Duration) bool {
	cl.mu.Lock()
	busy, done := cl.busy, cl.done
	cl.mu.Unlock()
	if !busy {
		return true
	}
	select {
	case <-done:
		return true
	case <-time.After(deadline):
		return false
	}
}

// PostNext starts posting the client's next line in the background. The caller
// must have waited for the previous one.
func (cl *Client) PostNext(first int) {
	cl.mu.Lock()
	cl.cmid++
	cmid := cl.cmid
	cl.busy = true
	done := make(chan struct{})
	cl.done = done
	if first != 0 {
		cl.hints = append([]int{first}, cl.hints...)
	}
	cl.mu.Unlock()
	go func() {
		cl.postLoop(cmid)
		cl.mu.Lock()
		cl.busy = false
		cl.mu.Unlock()
		close(done)
	}()
}

func (cl *Client) postLoop(cmid uint64) {
	body, _ := json.Marshal(postBody{Data: cl.lineFor(cmid), ClientMessageId: cmid})
	for attempt := 1; ; attempt++ {
		cl.mu.Lock()
		if cl.stopped {
			cl.mu.Unlock()
			cl.c.rec.Log("giveup", "c", cl.no, "cmid", cmid)
			return
		}
		ctx, cancel := context.WithTimeout(context.Background(), cl.timeout)
		cl.cancel = cancel
		cl.attempts++
		cl.mu.Unlock()
		n := cl.target()
		_, _, inc := cl.c.node(n).state()
		cl.c.rec.Log("post", "c", cl.no, "cmid", cmid, "n", n, "k", inc, "attempt", attempt)
		req, _ := http.NewRequestWithContext(ctx, "POST",
			"https://"+cl.c.node(n).addr+"/robustirc/v1/"+cl.sid+"/message", bytes.NewReader(body))
		req.Header.Set("X-Session-Auth", cl.auth)
		req.Header.Set("Content-Type", "application/json")
		resp, err := cl.c.client.Do(req)
		var why string
		if err != nil {
			why = err.Error()
		} else {
			b, _ := io.ReadAll(io.LimitReader(resp.Body, 4096))
			resp.Body.Close()
			if resp.StatusCode == 200 {
				cancel()
				cl.c.rec.Log("ack", "c", cl.no, "cmid", cmid, "n", n, "k", inc, "attempt", attempt)
				return
			}
			why = fmt.Sprintf("HTTP %d: %s", resp.StatusCode, strings.TrimSpace(string(b)))
		}
		cancel()
		if len(why) > 160 {
			why = why[:160]
		}
		cl.c.rec.Log("fail", "c", cl.no, "cmid", cmid, "n", n, "attempt", attempt, "why", why)
		time.Sleep(60 * time.Millisecond)
	}
}

// Repost sends the client's last ACKNOWLEDGED post once more to node n, as a
// client does whose acknowledgement got lost. Every node has to answer with
// success without applying it again.
func (cl *Client) Repost(n int) {
	cl.mu.Lock()
	cmid := cl.cmid
	busy := cl.busy
	cl.mu.Unlock()
	if busy || cmid == 0 {
		return
	}
	body, _ := json.Marshal(postBody{Data: cl.lineFor(cmid), ClientMessageId: cmid})
	_, _, inc := cl.c.node(n).state()
	for attempt := 1; attempt <= 3; attempt++ {
		ctx, cancel := context.WithTimeout(context.Background(), cl.timeout)
		cl.c.rec.Log("post", "c", cl.no, "cmid", cmid, "n", n, "k", inc, "attempt", 100+attempt, "again", true)
		req, _ := http.NewRequestWithContext(ctx, "POST",
			"https://"+cl.c.node(n).addr+"/robustirc/v1/"+cl.sid+"/message", bytes.NewReader(body))
		req.Header.Set("X-Session-Auth", cl.auth)
		req.Header.Set("Content-Type", "application/json")
		resp, err := cl.c.client.Do(req)
		if err == nil {
			io.Copy(io.Discard, io.LimitReader(resp.Body, 4096))
			resp.Body.Close()
			if resp.StatusCode == 200 {
				cancel()
				cl.c.rec.Log("ack", "c", cl.no, "cmid", cmid, "n", n, "k", inc, "attempt", 100+attempt, "again", true)
				return
			}
		}
		cancel()
		cl.c.rec.Log("fail", "c", cl.no, "cmid", cmid, "n", n, "attempt", 100+attempt, "why", fmt.Sprint(err))
		time.Sleep(200 * time.Millisecond)
	}
}

// ---------------------------------------------------------------- readers

var numbered = regexp.MustCompile(`^:(\S+) PRIVMSG #verif :m (\d+) (\d+)$`)

type outMsg struct {
	Id struct {
		Id    uint64
		Reply uint64
	}
	Type int
	Data string
}

// Reader long-polls GetMessages of one session on one node and resumes with
// lastseen after every interruption, as the bridge does.
type Reader struct {
	c    *Cluster
	cl   *Client
	n    int
	stop chan struct{}
	wg   sync.WaitGroup

	mu       sync.Mutex
	lastId   uint64
	lastRep  uint64
	received int
	seen     map[[2]int]bool // numbered lines (from, cmid) received so far
	cancel   context.CancelFunc
}

// Last returns the id of the last message received.
func (r *Reader) Last() [2]uint64 {
	r.mu.Lock()
	defer r.mu.Unlock()
	return [2]uint64{r.lastId, r.lastRep}
}

// Saw reports whether the reader has received the numbered line (from, cmid).
func (r *Reader) Saw(from, cmid int) bool {
	r.mu.Lock()
	defer r.mu.Unlock()
	return r.seen[[2]int{from, cmid}]
}

func (c *Cluster) StartReader(cl *Client, n int) *Reader {
	r := &Reader{c: c, cl: cl, n: n, stop: make(chan struct{}), seen: map[[2]int]bool{}}
	r.wg.Add(1)
	go r.loop()
	return r
}

func (r *Reader) Stop() {
	close(r.stop)
	r.mu.Lock()
	if r.cancel != nil {
		r.cancel()
	}
	r.mu.Unlock()
	r.wg.Wait()
}

func (r *Reader) stopped() bool {
	select {
	case <-r.stop:
		return true
	default:
		return false
	}
}

func (r *Reader) loop() {
	defer r.wg.Done()
	conn := 0
	for !r.stopped() {
		up, _, inc := r.c.node(r.n).state()
		if !up {
			time.Sleep(100 * time.Millisecond)
			continue
		}
		conn++
		r.readOnce(conn, inc)
		time.Sleep(150 * time.Millisecond)
	}
}

// describe classifies a delivered line: numbered PRIVMSG lines carry the
// sender's client number and ClientMessageId.
func describe(data string) (from int, cmid int) {
	if m := numbered.FindStringSubmatch(strings.TrimRight(data, "\r\n")); m != nil {
		from, _ = strconv.Atoi(m[2])
		cmid, _ = strconv.Atoi(m[3])
	}
	return
}

func (r *Reader) readOnce(conn, inc int) {
	r.mu.Lock()
	lastId, lastRep := r.lastId, r.lastRep
	ctx, cancel := context.WithCancel(context.Background())
	r.cancel = cancel
	r.mu.Unlock()
	defer cancel()
	url := fmt.Sprintf("https://%s/robustirc/v1/%s/messages?lastseen=%d.%d", r.c.node(r.n).addr, r.cl.sid, lastId, lastRep)
	req, _ := http.NewRequestWithContext(ctx, "GET", url, nil)
	req.Header.Set("X-Session-Auth", r.cl.auth)
	resp, err := r.c.stream.Do(req)
	if err != nil {
		return
	}
	defer resp.Body.Close()
	if resp.StatusCode != 200 {
		io.Copy(io.Discard, io.LimitReader(resp.Body, 4096))
		return
	}
	resumeIdx := uint64(0)
	if lastId != 0 {
		resumeIdx = lastId - messageOffset
	}
	r.c.rec.Log("connected", "n", r.n, "k", inc, "s", r.cl.no, "conn", conn, "resume", resumeIdx, "resumereply", lastRep)
	dec := json.NewDecoder(resp.Body)
	for {
		var m outMsg
		if err := dec.Decode(&m); err != nil {
			return
		}
		if m.Type != 3 { // robust.IRCToClient; pings are ignored
			continue
		}
		from, cmid := describe(m.Data)
		r.c.rec.Log("recv", "n", r.n, "k", inc, "s", r.cl.no, "conn", conn,
			"idx", m.Id.Id-messageOffset, "reply", m.Id.Reply, "from", from, "cmid", cmid, "data", m.Data)
		r.mu.Lock()
		r.lastId, r.lastRep = m.Id.Id, m.Id.Reply
		r.received++
		if from != 0 {
			r.seen[[2]int{from, cmid}] = true
		}
		r.mu.Unlock()
	}
}

// FinalRead fetches the complete stream of a session from a node, starting at
// the beginning, until nothing new arrives for `idle` (the network is quiescent
// when this is called).
func (c *Cluster) FinalRead(cl *Client, n int, from [2]uint64, idle, deadline time.Duration) ([]map[string]interface{}, error) {
	ctx, cancel := context.WithTimeout(context.Background(), deadline)
	defer cancel()
	url := fmt.Sprintf("https://%s/robustirc/v1/%s/messages?lastseen=%d.%d", c.node(n).addr, cl.sid, from[0], from[1])
	var lastErr error
	for try := 0; try < 30 && ctx.Err() == nil; try++ {
		req, _ := http.NewRequestWithContext(ctx, "GET", url, nil)
		req.Header.Set("X-Session-Auth", cl.auth)
		resp, err := c.stream.Do(req)
		if err != nil {
			lastErr = err
			time.Sleep(300 * time.Millisecond)
			continue
		}
		if resp.StatusCode != 200 {
			b, _ := io.ReadAll(io.LimitReader(resp.Body, 4096))
			resp.Body.Close()
			lastErr = fmt.Errorf("HTTP %d: %s", resp.StatusCode, strings.TrimSpace(string(b)))
			time.Sleep(300 * time.Millisecond)
			continue
		}
		type item struct {
			m   outMsg
			err error
		}
		ch := make(chan item, 64)
		go func() {
			dec := json.NewDecoder(resp.Body)
			for {
				var m outMsg
				err := dec.Decode(&m)
				ch <- item{m, err}
				if err != nil {
					return
				}
			}
		}()
		var msgs []map[string]interface{}
		timer := time.NewTimer(idle)
		for {
			select {
			case it := <-ch:
				if it.err != nil {
					resp.Body.Close()
					return msgs, nil
				}
				if it.m.Type != 3 {
					continue
				}
				from, cmid := describe(it.m.Data)
				msgs = append(msgs, map[string]interface{}{"idx": it.m.Id.Id - messageOffset, "reply": it.m.Id.Reply,
					"from": from, "cmid": cmid, "data": it.m.Data})
				if !timer.Stop() {
					select {
					case <-timer.C:
					default:
					}
				}
				timer.Reset(idle)
			case <-timer.C:
				cancel()
				resp.Body.Close()
				return msgs, nil
			}
		}
	}
	return nil, inconclusive("final read of session %d on node %d failed: %v", cl.no, n, lastErr)
}
