package main

import (
	"bufio"
	"bytes"
	"context"
	"crypto/rand"
	"crypto/rsa"
	"crypto/tls"
	"crypto/x509"
	"crypto/x509/pkix"
	"encoding/json"
	"encoding/pem"
	"fmt"
	"html"
	"io"
	"math/big"
	"net"
	"net/http"
	"os"
	"os/exec"
	"path/filepath"
	"regexp"
	"runtime"
	"sort"
	"strings"
	"sync"
	"syscall"
	"time"
)

const networkPassword = "verif-c05-secret"

// Inconclusive is the error class for every machinery problem (node does not
// come up, no leader within the deadline, ...): never a violation.
type Inconclusive struct{ why string }

func (e *Inconclusive) Error() string { return e.why }

func inconclusive(format string, a ...interface{}) error {
	return &Inconclusive{fmt.Sprintf(format, a...)}
}

type Node struct {
	id      int
	port    int
	addr    string // localhost:port
	dir     string // raftdir
	gateDir string

	mu      sync.Mutex
	cmd     *exec.Cmd
	inc     int // incarnation, 0 = never started
	up      bool
	paused  bool
	exited  chan struct{} // closed when the current incarnation's process is gone
	started bool          // was started at least once on its current -raftdir (so -singlenode/-join are not passed again)
	// membership as the orchestrator knows it from the leader's /status (never used for a verdict)
	member  bool
	removed bool // POST /part for this node succeeded: raft may shut it down, its exit is expected
}

func (n *Node) state() (up, paused bool, inc int) {
	n.mu.Lock()
	defer n.mu.Unlock()
	return n.up, n.paused, n.inc
}

func (n *Node) live() bool {
	up, paused, _ := n.state()
	return up && !paused
}

type Cluster struct {
	bin           string
	work          string
	out           string
	rec           *Recorder
	nodes         []*Node // index 0 = node 1
	certPath      string
	keyPath       string
	client        *http.Client // short requests
	stream        *http.Client // long polls (no overall timeout)
	single        bool
	bootstrapped  bool
	safeguardOnce bool // leave the time safeguard on for the first start of joining nodes
	// foldNs, when set, is passed as -canary_compaction_start: every snapshot then
	// folds exactly the entries older than (foldNs - session expiration - 10s)
	// into the serialized server state and deletes them from the stores.
	foldNs int64
	// trailingLogs >= 0 is passed as VERIF_TRAILING_LOGS (raft.Config.TrailingLogs, see
	// checks/c05.py build()): a snapshot then really compacts the raft log, and a node
	// that needs the compacted entries gets the snapshot by InstallSnapshot.
	trailingLogs int
	initial      int // nodes started by Setup; the others join later (schedule steps)

	spawn chan func()

	unexpectedMu    sync.Mutex
	unexpectedExits []string
}

// freePorts finds n free TCP ports on loopback by binding :0.
func freePorts(n int) ([]int, error) {
	var ports []int
	var ls []net.Listener
	defer func() {
		for _, l := range ls {
			l.Close()
		}
	}()
	for i := 0; i < n; i++ {
		l, err := net.Listen("tcp", "127.0.0.1:0")
		if err != nil {
			return nil, err
		}
		ls = append(ls, l)
		ports = append(ports, l.Addr().(*net.TCPAddr).Port)
	}
	return ports, nil
}

// generateCert writes a self-signed certificate for "localhost" (the approach
// of internal/localnet/gencert.go).
func generateCert(dir string) (certPath, keyPath string, err error) {
	priv, err := rsa.GenerateKey(rand.Reader, 2048)
	if err != nil {
		return "", "", err
	}
	serial, err := rand.Int(rand.Reader, new(big.Int).Lsh(big.NewInt(1), 128))
	if err != nil {
		return "", "", err
	}
	template := x509.Certificate{
		SerialNumber:          serial,
		Subject:               pkix.Name{Organization: []string{"verif C05"}},
		DNSNames:              []string{"localhost"},
		IPAddresses:           []net.IP{net.ParseIP("127.0.0.1")},
		NotBefore:             time.Now().Add(-time.Hour),
		NotAfter:              time.Now().Add(365 * 24 * time.Hour),
		KeyUsage:              x509.KeyUsageKeyEncipherment | x509.KeyUsageDigitalSignature | x509.KeyUsageCertSign,
		IsCA:                  true,
		BasicConstraintsValid: true,
	}
	der, err := x509.CreateCertificate(rand.Reader, &template, &template, &priv.PublicKey, priv)
	if err != nil {
		return "", "", err
	}
	certPath = filepath.Join(dir, "cert.pem")
	keyPath = filepath.Join(dir, "key.pem")
	cf, err := os.Create(certPath)
	if err != nil {
		return "", "", err
	}
	pem.Encode(cf, &pem.Block{Type: "CERTIFICATE", Bytes: der})
	cf.Close()
	kf, err := os.OpenFile(keyPath, os.O_WRONLY|os.O_CREATE|os.O_TRUNC, 0600)
	if err != nil {
		return "", "", err
	}
	pem.Encode(kf, &pem.Block{Type: "RSA PRIVATE KEY", Bytes: x509.MarshalPKCS1PrivateKey(priv)})
	kf.Close()
	return certPath, keyPath, nil
}

func NewCluster(bin, work, out string, rec *Recorder, nnodes int, portBase int) (*Cluster, error) {
	c := &Cluster{bin: bin, work: work, out: out, rec: rec, single: nnodes == 1, spawn: make(chan func()), trailingLogs: -1, initial: nnodes}
	var err error
	c.certPath, c.keyPath, err = generateCert(work)
	if err != nil {
		return nil, err
	}
	pemBytes, err := os.ReadFile(c.certPath)
	if err != nil {
		return nil, err
	}
	pool := x509.NewCertPool()
	pool.AppendCertsFromPEM(pemBytes)
	mk := func() *http.Transport {
		return &http.Transport{
			TLSClientConfig:     &tls.Config{RootCAs: pool},
			MaxIdleConnsPerHost: 4,
			IdleConnTimeout:     5 * time.Second,
			DialContext:         (&net.Dialer{Timeout: 2 * time.Second}).DialContext,
			TLSHandshakeTimeout: 3 * time.Second,
		}
	}
	c.client = &http.Client{Transport: mk()}
	c.stream = &http.Client{Transport: mk()}
	var ports []int
	if portBase > 0 {
		// fixed ports (VERIF_C05_PORT_BASE): for running next to other instances of the check
		for i := 0; i < nnodes; i++ {
			ports = append(ports, portBase+i)
		}
	} else {
		ports, err = freePorts(nnodes)
		if err != nil {
			return nil, err
		}
	}
	for i := 0; i < nnodes; i++ {
		n := &Node{id: i + 1, port: ports[i]}
		n.addr = fmt.Sprintf("localhost:%d", n.port)
		n.dir = filepath.Join(work, fmt.Sprintf("raftdir%d", n.id))
		n.gateDir = filepath.Join(work, fmt.Sprintf("gate%d", n.id))
		if err := os.MkdirAll(n.gateDir, 0755); err != nil {
			return nil, err
		}
		c.nodes = append(c.nodes, n)
	}
	// All children are started from one goroutine that owns its OS thread for
	// ever, so that Pdeathsig (tied to the creating thread) only fires when
	// the orchestrator itself dies.
	go func() {
		runtime.LockOSThread()
		for f := range c.spawn {
			f()
		}
	}()
	return c, nil
}

func (c *Cluster) node(id int) *Node { return c.nodes[id-1] }

// Start starts (or restarts) node id. The "start" event is logged BEFORE the
// process exists, so it precedes every event of the new incarnation.
func (c *Cluster) Start(id int) error { return c.StartVia(id, 0) }

// StartVia starts node id; when its -raftdir is fresh, node 1 of a new network is
// started with -singlenode and every other node with -join=<address of node via>
// (0: node 1).
func (c *Cluster) StartVia(id int, via int) error {
	n := c.node(id)
	n.mu.Lock()
	if n.up {
		n.mu.Unlock()
		return nil
	}
	n.inc++
	inc := n.inc
	first := !n.started
	n.started = true
	n.mu.Unlock()

	args := []string{
		"-network_name=verif.localhost",
		"-listen=" + n.addr,
		"-peer_addr=" + n.addr,
		"-raftdir=" + n.dir,
		"-log_dir=" + n.dir,
		"-tls_cert_path=" + c.certPath,
		"-tls_key_path=" + c.keyPath,
		"-tls_ca_file=" + c.certPath,
	}
	if !(c.safeguardOnce && first && id != 1) {
		args = append(args, "-disable_timesafeguard")
	}
	if c.foldNs != 0 {
		args = append(args, fmt.Sprintf("-canary_compaction_start=%d", c.foldNs))
	}
	if first {
		if id == 1 && !c.bootstrapped {
			args = append(args, "-singlenode")
			c.bootstrapped = true
		} else {
			if via == 0 || via == id {
				via = 1
			}
			args = append(args, "-join="+c.node(via).addr)
		}
	}
	trace := filepath.Join(c.out, fmt.Sprintf("node%d.inc%d.ndjson", id, inc))
	env := append(os.Environ(),
		"ROBUSTIRC_NETWORK_PASSWORD="+networkPassword,
		"VERIF_TRACE="+trace,
		"VERIF_GATE_DIR="+n.gateDir,
		"GOMAXPROCS=4")
	if c.single || c.initial == 1 {
		env = append(env, "VERIF_ALLOW_SINGLE_RESTART=1")
	}
	if c.trailingLogs >= 0 {
		env = append(env, fmt.Sprintf("VERIF_TRAILING_LOGS=%d", c.trailingLogs))
	}
	if err := os.MkdirAll(n.dir, 0700); err != nil {
		return err
	}
	logf, err := os.OpenFile(filepath.Join(c.work, fmt.Sprintf("node%d.stderr", id)), os.O_CREATE|os.O_WRONLY|os.O_APPEND, 0644)
	if err != nil {
		return err
	}
	fmt.Fprintf(logf, "\n===== incarnation %d: %s\n", inc, strings.Join(args, " "))
	cmd := exec.Command(c.bin, args...)
	cmd.Env = env
	cmd.Stdout = logf
	cmd.Stderr = logf
	cmd.SysProcAttr = &syscall.SysProcAttr{Setpgid: true, Pdeathsig: syscall.SIGKILL}

	c.rec.Log("start", "n", id, "k", inc)
	errc := make(chan error, 1)
	c.spawn <- func() { errc <- cmd.Start() }
	if err := <-errc; err != nil {
		logf.Close()
		return inconclusive("cannot start node %d: %v", id, err)
	}
	exited := make(chan struct{})
	n.mu.Lock()
	n.cmd = cmd
	n.up = true
	n.paused = false
	n.exited = exited
	n.mu.Unlock()
	go func() {
		err := cmd.Wait()
		logf.Close()
		n.mu.Lock()
		wasUp := n.up && n.inc == inc
		removed := n.removed
		if wasUp {
			n.up = false
			n.paused = false
		}
		n.mu.Unlock()
		if wasUp {
			// nobody asked for this: the process exited on its own
			words := c.lastWords(id)
			c.rec.Log("exited", "n", id, "k", inc, "err", fmt.Sprint(err), "removed", removed, "why", words)
			// a node that was removed from the network terminates itself (raft shuts down,
			// main() logs "Node removed from the network" and exits): expected
			if !removed || strings.Contains(words, "panic:") || strings.Contains(words, "fatal error:") {
				c.unexpectedMu.Lock()
				c.unexpectedExits = append(c.unexpectedExits, fmt.Sprintf("node %d incarnation %d: %v: %s", id, inc, err, words))
				c.unexpectedMu.Unlock()
			}
		}
		close(exited)
	}()
	return nil
}

// lastWords extracts why a node died on its own from its stderr (panic message
// and the first frames, or the last lines).
func (c *Cluster) lastWords(id int) string {
	b, err := os.ReadFile(filepath.Join(c.work, fmt.Sprintf("node%d.stderr", id)))
	if err != nil {
		return ""
	}
	if len(b) > 1<<16 {
		b = b[len(b)-(1<<16):]
	}
	text := string(b)
	for _, marker := range []string{"panic:", "fatal error:"} {
		if i := strings.LastIndex(text, marker); i >= 0 {
			text = text[i:]
			lines := strings.Split(text, "\n")
			if len(lines) > 14 {
				lines = lines[:14]
			}
			return strings.Join(lines, " | ")
		}
	}
	lines := strings.Split(strings.TrimSpace(text), "\n")
	if len(lines) > 4 {
		lines = lines[len(lines)-4:]
	}
	return strings.Join(lines, " | ")
}

// Kill sends SIGKILL and waits until the process is gone; the "killed" event is
// logged afterwards, so it follows every event of that incarnation.
func (c *Cluster) Kill(id int, why string) {
	n := c.node(id)
	n.mu.Lock()
	if !n.up {
		n.mu.Unlock()
		return
	}
	cmd, inc, exited := n.cmd, n.inc, n.exited
	n.up = false
	n.paused = false
	n.mu.Unlock()
	c.rec.Log("kill", "n", id, "k", inc, "why", why)
	syscall.Kill(-cmd.Process.Pid, syscall.SIGKILL)
	cmd.Process.Kill()
	select {
	case <-exited:
	case <-time.After(20 * time.Second):
	}
	c.rec.Log("killed", "n", id, "k", inc)
}

func (c *Cluster) Pause(id int) {
	n := c.node(id)
	n.mu.Lock()
	defer n.mu.Unlock()
	if !n.up || n.paused {
		return
	}
	n.paused = true
	syscall.Kill(n.cmd.Process.Pid, syscall.SIGSTOP)
	c.rec.Log("pause", "n", id, "k", n.inc)
}

func (c *Cluster) Resume(id int) {
	n := c.node(id)
	n.mu.Lock()
	defer n.mu.Unlock()
	if !n.up || !n.paused {
		return
	}
	n.paused = false
	syscall.Kill(n.cmd.Process.Pid, syscall.SIGCONT)
	c.rec.Log("resume", "n", id, "k", n.inc)
}

// Shutdown kills everything that is left and removes the raft directories.
func (c *Cluster) Shutdown(keep bool) {
	for _, n := range c.nodes {
		n.mu.Lock()
		cmd, up, exited := n.cmd, n.up, n.exited
		n.up = false
		n.mu.Unlock()
		if cmd != nil && cmd.Process != nil {
			syscall.Kill(cmd.Process.Pid, syscall.SIGCONT)
			syscall.Kill(-cmd.Process.Pid, syscall.SIGKILL)
			cmd.Process.Kill()
			if up && exited != nil {
				select {
				case <-exited:
				case <-time.After(10 * time.Second):
				}
			}
		}
		if !keep {
			os.RemoveAll(n.dir)
			os.RemoveAll(n.gateDir)
		}
	}
}

// ---------------------------------------------------------------- HTTP helpers

func (c *Cluster) privateGet(id int, path string, timeout time.Duration) (int, string, error) {
	ctx, cancel := context.WithTimeout(context.Background(), timeout)
	defer cancel()
	req, err := http.NewRequestWithContext(ctx, "GET", "https://"+c.node(id).addr+path, nil)
	if err != nil {
		return 0, "", err
	}
	req.SetBasicAuth("robustirc", networkPassword)
	resp, err := c.client.Do(req)
	if err != nil {
		return 0, "", err
	}
	defer resp.Body.Close()
	b, _ := io.ReadAll(io.LimitReader(resp.Body, 1<<20))
	return resp.StatusCode, string(b), nil
}

// leaderView returns the node id that node `id` believes to be the leader (0: none/unknown).
func (c *Cluster) leaderView(id int) int {
	code, body, err := c.privateGet(id, "/leader", 1500*time.Millisecond)
	if err != nil || code != 200 {
		return 0
	}
	body = strings.TrimSpace(body)
	for _, n := range c.nodes {
		if n.addr == body {
			return n.id
		}
	}
	return 0
}

// Leader returns a live node that considers itself the leader (0: none).
func (c *Cluster) Leader() int {
	for _, n := range c.nodes {
		if !n.live() {
			continue
		}
		if c.leaderView(n.id) == n.id {
			return n.id
		}
	}
	return 0
}

// WaitLeader polls until some live node is the leader, optionally one that is
// not `not`.
func (c *Cluster) WaitLeader(deadline time.Duration, not int) (int, error) {
	end := time.Now().Add(deadline)
	for time.Now().Before(end) {
		if l := c.Leader(); l != 0 && l != not {
			return l, nil
		}
		time.Sleep(100 * time.Millisecond)
	}
	return 0, inconclusive("no leader within %v", deadline)
}

// WaitServing polls until node id answers private requests and knows a leader.
func (c *Cluster) WaitServing(id int, deadline time.Duration) error {
	end := time.Now().Add(deadline)
	for time.Now().Before(end) {
		if up, _, _ := c.node(id).state(); !up {
			return inconclusive("node %d exited while starting (see node%d.stderr)", id, id)
		}
		if c.leaderView(id) != 0 {
			return nil
		}
		time.Sleep(100 * time.Millisecond)
	}
	return inconclusive("node %d did not come up within %v", id, deadline)
}

// lastApplied reads the hook trace of node id's current incarnation and returns
// the highest applied raft index (0 if none). The orchestrator only uses this
// to decide when the network is quiescent.
func (c *Cluster) lastApplied(id int) uint64 {
	_, _, inc := c.node(id).state()
	f, err := os.Open(filepath.Join(c.out, fmt.Sprintf("node%d.inc%d.ndjson", id, inc)))
	if err != nil {
		return 0
	}
	defer f.Close()
	var max uint64
	sc := bufio.NewScanner(f)
	sc.Buffer(make([]byte, 1<<20), 1<<20)
	for sc.Scan() {
		var rec struct {
			Point string `json:"point"`
			Index uint64 `json:"index"`
			Last  uint64 `json:"last"`
		}
		if json.Unmarshal(sc.Bytes(), &rec) != nil {
			continue
		}
		switch rec.Point {
		case "fsm.apply":
			if rec.Index > max {
				max = rec.Index
			}
		case "fsm.restored":
			if rec.Last > max {
				max = rec.Last
			}
		}
	}
	return max
}

// ---------------------------------------------------------------- membership

// Wipe removes node id's data ("kill the robustirc process on that node and remove
// the data", cmd/robustirc-removepeer); the node must be down. Its next start joins.
func (c *Cluster) Wipe(id int) {
	n := c.node(id)
	os.RemoveAll(n.dir)
	n.mu.Lock()
	n.started = false
	n.removed = false
	n.mu.Unlock()
	c.rec.Log("wiped", "n", id)
}

type nodeStatus struct {
	State        string
	Leader       string
	Peers        []string
	AppliedIndex uint64
	CommitIndex  uint64
}

// status reads the machine-readable /status of node id (what robustirc-removepeer and
// robustirc-rollingrestart read): raft state, leader, latest configuration, indexes.
func (c *Cluster) status(id int, timeout time.Duration) (*nodeStatus, error) {
	ctx, cancel := context.WithTimeout(context.Background(), timeout)
	defer cancel()
	req, err := http.NewRequestWithContext(ctx, "GET", "https://"+c.node(id).addr+"/status", nil)
	if err != nil {
		return nil, err
	}
	req.SetBasicAuth("robustirc", networkPassword)
	req.Header.Set("Accept", "application/json")
	resp, err := c.client.Do(req)
	if err != nil {
		return nil, err
	}
	defer resp.Body.Close()
	b, _ := io.ReadAll(io.LimitReader(resp.Body, 1<<20))
	if resp.StatusCode != 200 {
		return nil, fmt.Errorf("HTTP %d: %s", resp.StatusCode, strings.TrimSpace(string(b)))
	}
	var st nodeStatus
	if err := json.Unmarshal(b, &st); err != nil {
		return nil, err
	}
	return &st, nil
}

// peerIds maps the addresses of a configuration to node numbers (sorted; an unknown
// address becomes 0).
func (c *Cluster) peerIds(addrs []string) []int {
	var ids []int
	for _, a := range addrs {
		id := 0
		for _, n := range c.nodes {
			if n.addr == a {
				id = n.id
			}
		}
		ids = append(ids, id)
	}
	sort.Ints(ids)
	return ids
}

// Peers returns the latest configuration as the current leader reports it.
func (c *Cluster) Peers() (leader int, peers []int, ok bool) {
	l := c.Leader()
	if l == 0 {
		return 0, nil, false
	}
	st, err := c.status(l, 2*time.Second)
	if err != nil || st.State != "Leader" {
		return 0, nil, false
	}
	return l, c.peerIds(st.Peers), true
}

func contains(xs []int, x int) bool {
	for _, v := range xs {
		if v == x {
			return true
		}
	}
	return false
}

// setMembers records the orchestrator's knowledge of the configuration.
func (c *Cluster) setMembers(peers []int) {
	for _, n := range c.nodes {
		n.mu.Lock()
		n.member = contains(peers, n.id)
		n.mu.Unlock()
	}
}

func (n *Node) isMember() bool {
	n.mu.Lock()
	defer n.mu.Unlock()
	return n.member
}

// postPrivate sends a POST with the network password (what robustirc -join and
// robustirc-removepeer do).
func (c *Cluster) postPrivate(id int, path string, body []byte, timeout time.Duration) (int, string, error) {
	ctx, cancel := context.WithTimeout(context.Background(), timeout)
	defer cancel()
	req, err := http.NewRequestWithContext(ctx, "POST", "https://"+c.node(id).addr+path, bytes.NewReader(body))
	if err != nil {
		return 0, "", err
	}
	req.SetBasicAuth("robustirc", networkPassword)
	req.Header.Set("Content-Type", "application/json")
	resp, err := c.client.Do(req)
	if err != nil {
		return 0, "", err
	}
	defer resp.Body.Close()
	b, _ := io.ReadAll(io.LimitReader(resp.Body, 1<<16))
	return resp.StatusCode, strings.TrimSpace(string(b)), nil
}

var preRe = regexp.MustCompile(`(?s)<pre>(.*?)</pre>`)

// serverState reads /status/state of node id: the text form of IRCServer.Marshal(),
// i.e. the node's complete replicated state as the code itself serialises it.
func (c *Cluster) serverState(id int) (string, error) {
	code, body, err := c.privateGet(id, "/status/state", 10*time.Second)
	if err != nil {
		return "", err
	}
	if code != 200 {
		return "", fmt.Errorf("HTTP %d", code)
	}
	m := preRe.FindStringSubmatch(body)
	if m == nil {
		return "", fmt.Errorf("no <pre> in /status/state")
	}
	return html.UnescapeString(strings.TrimSpace(m[1])), nil
}

// restoredCount counts the fsm.restored records in the hook trace of node id's current
// incarnation (FSM.Restore returned): for a node that started on an empty -raftdir
// every one of them is an InstallSnapshot.
func (c *Cluster) restoredCount(id int) int {
	_, _, inc := c.node(id).state()
	b, err := os.ReadFile(filepath.Join(c.out, fmt.Sprintf("node%d.inc%d.ndjson", id, inc)))
	if err != nil {
		return 0
	}
	return strings.Count(string(b), `"point":"fsm.restored"`)
}
