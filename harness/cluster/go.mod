module verifcluster

go 1.21
