"""C20 -- concurrent API use while entries are applied is free of data races.

Specification: spec/Locks.tla -- sync.RWMutex semantics, a concurrency relation
over thread classes, and the invariant NoConflictingUnorderedAccess over step
lists acquire / release / section(reads, writes).  The step lists are NOT
hand-written: tools/lockextract (go/packages + go/ssa from the module cache,
loaded from vlib.REPO's working tree) computes, for every operation the
running system executes (HTTP handlers and the template code they run,
FSM.Apply/Snapshot/Restore, robustSnapshot.Persist, main()'s expiry loop, the
/metrics gauge closures, the text-log dumper, the raft library's use of the
log store, every exported method of IRCServer / OutputStream / LevelDBStore and
every method of api.HTTP), the shared storage classes it reads and writes
under a must-held lockset (forward data-flow, deferred unlocks, callee
inherits the caller's lockset) and writes them as the root module
LocksOps.tla into the scratch directory at check time.

Stages of run(ctx)
  1. build + run lockextract on the current tree  -> LocksOps.tla, ops.json
  2. TLC, all overlapping pairs (thorough: also triples that share a written
     class): every state with two operations inside conflicting sections is a
     CANDIDATE (op pair, sections, classes); for a few candidates a second TLC
     run yields the counterexample interleaving (stored in the replay file).
  3. harness/race (package main of the tree under test, `go test -race`,
     real single-node raft + FSM + api.HTTP):
       (a) every candidate pair is run with many iterations,
       (b) all overlapping pairs (quick: a seeded sample) briefly.
       (c) pairs whose two operations are methods of one LevelDBStore / one
           OutputStream run in harness/race/raftstore and
           harness/race/outputstream (in-package, -race) on ONE standalone
           object incl. Close + re-open -- the full node cannot run them
           because FSM.Restore x store users crashes this tree.
     Every driver uses existing AND non-existing arguments (ended, never
     created, not yet created sessions; unknown channels, nicknames, indexes,
     keys).  Exclusions are per PAIR: GLINE (in-place Config.Banned writes) is
     applied only in jobs whose other operation does not take ConfigMu before
     sessionsMu (decided from the extracted locksets).
  4. verdict: ONLY race-detector reports whose two access stacks lie in
     repository code.  signature = sorted pair of file:function of the two
     stacks.  Predicted by a TLC candidate -> VIOLATION (confirmed candidate);
     not predicted -> VIOLATION plus a MODEL-GAP note.  Candidates the detector
     did not reproduce -> UNCONFIRMED-CANDIDATE lines (exit 0).
  5. binding self-test (cheap half in every run, full with --selftest): the
     F14 defect is re-introduced through an overlay (ThrottleUntil under
     RLock); the extractor + TLC must then report the candidate and (full) the
     harness must obtain the detector report.

Defects of the tree this check found and confirmed with the race detector
(repairs in proposed_fixes/F20a..F20f-*.diff; with all six applied the model has
no candidate and the harness no report):
  F20a  /status/sessions ranges over Session.Channels of GetSessions' copies
        (maps shared with the live sessions) while Apply JOIN/PARTs
  F20b  GetMessagesStats.NickWithFallback reads session.Nick after RUnlock
  F20c  IRCServer.Marshal reads lastProcessed without lastProcessedMu
  F20d  IRCServer.Unmarshal takes no lock although FSM.Restore calls it after
        ReplaceState published the server
  F20e  package variable ircServer: FSM.Restore writes, /metrics gauge closures
        and main()'s expiry loop read, no synchronisation
  F20f  handleGetMessages' captured wasSuperseded flag: own goroutine vs the
        superseding request's goroutine
Not data races, but hazards of the tree the harness has to steer around (see
unsafe_pair and the driver comments): handlers / Persist using a store or
output stream that Restore closed panic (nil db, "Unexpected outputstream
LevelDB error"), and the ConfigMu/sessionsMu lock-order inversion (GLINE,
Marshal vs ThrottleUntil/ExpireSessions/handleStatus) can deadlock.

Nothing here depends on timing: every job is bounded by iteration counts; a
timeout, a dead harness or a TLC problem is exit 2.
"""
import concurrent.futures
import json
import os
import random
import re
import shutil

import vlib

LEVEL = "model_checking"

TOOL = os.path.join(vlib.VERIF, "tools", "lockextract")
MOD = "github.com/robustirc/robustirc"

# Operation pairs the sweep must not run together: not a data-race matter but
# a crash hazard of the tree itself (a handler goroutine that uses the irclog
# store / the output stream Restore has just closed panics, and the handlers'
# exitOnRecover / an unrecovered goroutine ends the process).
LONGPOLL = {"HTTP.handleGetMessages", "HTTP.getMessages", "HTTP.pingTicker", "HTTP.setGetMessagesRequests",
            "HTTP.deleteGetMessagesRequests", "HTTP.pingMessage", "HTTP.partitioned", "OutputStream.InterruptGetNext",
            "HTTP.handleStatusGetMessage", "GetMessagesStats.NickWithFallback", "GetMessagesStats.StartedAndRelative",
            "HTTP.copyGetMessagesRequests", "OutputStream.GetNext"}
STOREUSERS = {"HTTP.handleStatusIrclog", "HTTP.handleIrclog"}
RESTORERS = {"FSM.Restore", "IRCServer.Unmarshal", "HTTP.ReplaceState", "LevelDBStore.Close", "OutputStream.Close",
             "LevelDBStore.WriteBatch", "LevelDBStore.ConvertToProto"}
# robustSnapshot.Persist iterates over the store FSM.Restore closes (nil db): the
# snapshot goroutine panics; the Snapshot driver always includes Persist.
SNAPSHOTTERS = {"FSM.Snapshot", "robustSnapshot.Persist", "OutputStream.Delete", "LevelDBStore.DeleteRange",
                "LevelDBStore@log.DeleteRange"}
# operations without a driver on purpose
NODRIVER = {"HTTP.handleQuit": "calls log.Fatalf", "HTTP.handleJoin": "changes the raft membership",
            "HTTP.handlePart": "changes the raft membership", "HTTP.handleKill": "needs an IRC operator session id form",
            "HTTP.handleSnapshot": "fire-and-forget raft snapshot", "HTTP.maybeProxyToLeader": "needs a second node",
            "main.dumpLogToDisk1": "writes text logs (flag off by default)"}


# Driver aliases of harness/race/race_test.go (operation -> operation whose driver runs it);
# used to decide pair-level exclusions on what is really executed.  Keep in sync.
ALIAS = {}
for _t, _names in {
    "FSM.Apply": ["IRCServer.ProcessMessage", "IRCServer.UpdateLastClientMessageID", "IRCServer.SetLastProcessed",
                  "IRCServer.MaybeDeleteSession", "IRCServer.Banned", "IRCServer.CreateSession", "OutputStream.Add",
                  "LevelDBStore.StoreLogProto", "LevelDBStore.StoreLog", "LevelDBStore.StoreLogs",
                  "LevelDBStore@log.StoreLog", "LevelDBStore@log.StoreLogs", "HTTP.ApplyMessageWait", "HTTP.applyMessageWait"],
    "FSM.Snapshot": ["robustSnapshot.Persist", "OutputStream.Delete", "LevelDBStore.DeleteRange", "LevelDBStore@log.DeleteRange"],
    "FSM.Restore": ["IRCServer.Unmarshal", "HTTP.ReplaceState", "LevelDBStore.Close", "OutputStream.Close",
                    "LevelDBStore.WriteBatch", "LevelDBStore.ConvertToProto"],
    "HTTP.handleStatusGetMessage": ["GetMessagesStats.NickWithFallback", "GetMessagesStats.StartedAndRelative", "HTTP.copyGetMessagesRequests"],
    "HTTP.handlePostConfig": ["HTTP.applyConfig", "HTTP.configRevision"],
    "HTTP.handlePostMessage": ["HTTP.DispatchPublic", "HTTP.session", "HTTP.sessionOrProxy", "HTTP.ircServer", "HTTP.output", "HTTP.ircStore"],
    "HTTP.handleCreateSession": ["HTTP.handleDeleteSession"],
    "HTTP.handleGetMessages": ["HTTP.getMessages", "HTTP.pingTicker", "HTTP.setGetMessagesRequests", "HTTP.deleteGetMessagesRequests",
                               "HTTP.pingMessage", "HTTP.partitioned", "OutputStream.InterruptGetNext"],
    "main.mainLoop": ["IRCServer.ExpireSessions"],
}.items():
    for _n in _names:
        ALIAS[_n] = _t


def route(a, b):
    """Which harness runs the pair: both operations on ONE standalone store / stream
    object (no FSM.Restore involved, so Close x everything can run), or the full node."""
    for pre, r in (("LevelDBStore.", "store"), ("LevelDBStore@log.", "store"), ("OutputStream.", "stream")):
        if a.startswith(pre) and b.startswith(pre):
            return r
    return "main"


def unsafe_pair(a, b):
    # GetNext locks and unlocks messagesMu by hand: the panic of a lookup in a closed
    # database (recovered by the harness, fatal in the real process) leaves the read
    # lock held and everything after it blocks.
    if {a, b} == {"OutputStream.Close", "OutputStream.GetNext"}:
        return True
    if route(a, b) != "main":
        return False
    for x, y in ((a, b), (b, a)):
        if x in RESTORERS and (y in LONGPOLL or y in STOREUSERS or y in SNAPSHOTTERS):
            return True
    return False


# --------------------------------------------------------------------------- extractor

def build_extractor(ctx):
    work = ctx.sub("lockextract")
    for f in os.listdir(TOOL):
        if f.endswith(".go") or f in ("go.mod", "go.sum"):
            shutil.copy(os.path.join(TOOL, f), work)
    binp = os.path.join(work, "lockextract.bin")
    rc, out, to = vlib.run(["go", "build", "-o", binp, "."], cwd=work, env=vlib._env(), timeout=600)
    if rc != 0 or to:
        raise vlib.Inconclusive("lockextract does not build:\n" + out[-4000:])
    return binp


def extract(ctx, binp, name, overlay=None):
    out_dir = ctx.sub("extract-" + name)
    tla = os.path.join(out_dir, "LocksOps.tla")
    js = os.path.join(out_dir, "ops.json")
    cmd = [binp, "-repo", vlib.REPO, "-tla", tla, "-json", js]
    if overlay:
        cmd += ["-overlay", overlay]
    rc, out, to = vlib.run(cmd, cwd=out_dir, env=vlib._env(), timeout=600)
    if rc != 0 or to or not os.path.exists(js):
        raise vlib.Inconclusive("lockextract failed on %s:\n%s" % (vlib.REPO, out[-4000:]))
    with open(js) as fh:
        ops = json.load(fh)
    with open(tla) as fh:
        text = fh.read()
    return ops, text, out.strip()


def root_module(text, nslots=2, only=(), report=True, prune=False):
    text = text.replace("NSlotsDef == 2", "NSlotsDef == %d" % nslots)
    text = text.replace("OnlyOpsDef == {}", "OnlyOpsDef == {%s}" % ", ".join(str(i) for i in only))
    text = text.replace("ReportDef == TRUE", "ReportDef == %s" % ("TRUE" if report else "FALSE"))
    text = text.replace("PruneDef == FALSE", "PruneDef == %s" % ("TRUE" if prune else "FALSE"))
    return text


CAND_RE = re.compile(r'<<\s*"CANDIDATE",\s*"([^"]+)",\s*(\d+),\s*"([^"]+)",\s*(\d+),\s*\{([^}]*)\}\s*>>')


def tlc_candidates(ctx, text, name, nslots=2, prune=False, timeout=600, workers=4, only=()):
    r = ctx.tlc("LocksOps", cfg="Locks.cfg", workers=workers, timeout=timeout, deadlock=False, name=name,
                files={"LocksOps.tla": root_module(text, nslots=nslots, report=True, prune=prune, only=only)},
                jvm=["-Djava.io.tmpdir=" + ctx.sub("jtmp")])
    if not r.ok:
        raise vlib.Inconclusive("TLC failed on the lock model (%s): rc=%s violated=%s\n%s" % (
            name, r.rc, r.invariant_violated, "\n".join(r.out.splitlines()[-30:])))
    ctx.add("states", r.distinct)
    ctx.add("transitions", r.generated)
    ctx.add("tlc_runs")
    cands = []
    for m in CAND_RE.finditer(r.out):
        a, sa, b, sb, cl = m.groups()
        cands.append({"a": a, "sa": int(sa), "b": b, "sb": int(sb), "classes": sorted(re.findall(r'"([^"]+)"', cl))})
    m = re.search(r"(\d+) states generated, with (\d+) of them distinct", r.out)
    init = int(m.group(2)) if m else 0
    return cands, r, init


def tlc_trace(ctx, text, ia, ib, name):
    """Counterexample interleaving for one candidate pair (plain invariant)."""
    r = ctx.tlc("LocksOps", cfg="Locks.cfg", workers=1, timeout=120, deadlock=False, name=name,
                files={"LocksOps.tla": root_module(text, only=sorted({ia, ib}), report=False)},
                jvm=["-Djava.io.tmpdir=" + ctx.sub("jtmp")])
    ctx.add("tlc_runs")
    if r.invariant_violated != "Inv":
        return None
    states = re.findall(r"State \d+: <([^>]*)>\n((?:/\\ .*\n)+)", r.out)
    trace = []
    for act, body in states:
        pcs = re.search(r"pc = ([^\n]*)", body)
        trace.append({"action": act.split(" line")[0].strip(), "pc": pcs.group(1).strip() if pcs else ""})
    return trace


# --------------------------------------------------------------------------- race reports

def _short_fn(fn):
    fn = fn.strip()
    if fn.endswith("()"):
        fn = fn[:-2]
    return fn


def _model_fn(fn):
    """race-report function name -> lockextract function name."""
    fn = _short_fn(fn)
    pkg, rest = None, None
    if fn.startswith(MOD + "/"):
        tail = fn[len(MOD) + 1:]            # internal/ircserver.(*IRCServer).cmdJoin
        path, rest = tail.split(".", 1)
        pkg = path.rsplit("/", 1)[-1]
    elif fn.startswith(MOD + "."):
        pkg, rest = "main", fn[len(MOD) + 1:]
    elif fn.startswith("main."):
        pkg, rest = "main", fn[5:]
    else:
        return fn
    rest = re.sub(r"\.func(\d+)", r"$\1", rest)
    rest = re.sub(r"\.gowrap\d+", "", rest)
    m = re.match(r"\((\*?)([A-Za-z0-9_]+)\)\.(.*)$", rest)
    if m:
        return "(%s%s.%s).%s" % (m.group(1), pkg, m.group(2), m.group(3))
    m = re.match(r"([A-Z][A-Za-z0-9_]*)\.([A-Za-z0-9_$.]+)$", rest)
    if m and not rest.startswith("init"):
        # value receiver method: api.GetMessagesStats.NickWithFallback
        return "(%s.%s).%s" % (pkg, m.group(1), m.group(2))
    return pkg + "." + rest


def parse_races(stderr):
    """-> list of {job, stacks:[{kind, frames:[(fn, file, line)]}], text}"""
    res = []
    job = None
    lines = stderr.splitlines()
    i = 0
    while i < len(lines):
        ln = lines[i]
        m = re.match(r"VERIF-JOB-BEGIN (\d+) ", ln)
        if m:
            job = int(m.group(1))
        if ln.startswith("WARNING: DATA RACE"):
            j = i + 1
            block = [ln]
            while j < len(lines) and not lines[j].startswith("=================="):
                block.append(lines[j])
                j += 1
            stacks = []
            cur = None
            k = 1
            while k < len(block):
                b = block[k]
                if re.match(r"(Read|Write|Previous read|Previous write|Atomic|Previous atomic)", b):
                    cur = {"kind": b.split(" at ")[0], "frames": []}
                    stacks.append(cur)
                elif b.startswith("Goroutine ") or b.strip() == "":
                    if b.startswith("Goroutine "):
                        cur = None
                elif cur is not None and b.startswith("  ") and k + 1 < len(block) and block[k + 1].startswith("      "):
                    loc = block[k + 1].strip().split(" ")[0]
                    f, _, l = loc.rpartition(":")
                    cur["frames"].append((b.strip(), f, l))
                    k += 1
                k += 1
            res.append({"job": job, "stacks": stacks[:2], "text": "\n".join(block[:60])})
            i = j
        i += 1
    return res


def repo_frame(frames):
    """first frame inside the tree under test that is not harness code"""
    root = vlib.REPO.rstrip("/") + "/"
    for fn, f, l in frames:
        if "zz_verif" in f or "/harness/race/" in f:
            continue
        if f.startswith(root):
            return fn, f[len(root):], l
    return None


# --------------------------------------------------------------------------- harness

HARNESSES = {"main": ("", "race", "."), "store": ("internal/raftstore", "race/raftstore", "./internal/raftstore"),
             "stream": ("internal/outputstream", "race/outputstream", "./internal/outputstream")}


def build_harness(ctx, name, extra=None, which="main"):
    pkgrel, hdir, pkg = HARNESSES[which]
    ov = ctx.harness_overlay(pkgrel, hdir, extra=extra)
    binp = os.path.join(ctx.sub("bin"), "race-%s-%s.test" % (which, name))
    ctx.go_build_test(pkg, ov, binp, tags=None, race=True, timeout=1500)
    return binp


def build_harnesses(ctx, name):
    # the overlay files are written one after the other (vlib numbers them), the builds run in parallel
    ovs = {w: ctx.harness_overlay(HARNESSES[w][0], HARNESSES[w][1]) for w in HARNESSES}

    def build(w):
        binp = os.path.join(ctx.sub("bin"), "race-%s-%s.test" % (w, name))
        ctx.go_build_test(HARNESSES[w][2], ovs[w], binp, tags=None, race=True, timeout=1500)
        return binp
    with concurrent.futures.ThreadPoolExecutor(max_workers=3) as ex:
        futs = {w: ex.submit(build, w) for w in HARNESSES}
        return {w: f.result() for w, f in futs.items()}


def run_plan(ctx, binp, jobs, tag, timeout):
    d = ctx.sub("plan-" + tag)
    plan = os.path.join(d, "plan.json")
    with open(plan, "w") as fh:
        json.dump({"seed": ctx.seed, "jobs": jobs}, fh)
    rc, out = ctx.run_bin([binp, "-test.run", "^TestVerifRace", "-test.timeout", "%ds" % timeout],
                          env={"VERIF_RACE_PLAN": plan, "VERIF_SCRATCH": d, "GORACE": "halt_on_error=0 history_size=3",
                               "GOMAXPROCS": "4"},
                          timeout=timeout + 60, cwd=d)
    if "VERIF-RACE-DONE" not in out:
        last = re.findall(r"VERIF-JOB-BEGIN [^\n]*", out)
        fatal = re.findall(r"(?m)^(?:panic:|fatal error:|VERIF-RACE-FATAL)[^\n]*", out)
        if re.search(r"(?m)^fatal error: concurrent map ", out):
            # the Go runtime itself caught unsynchronised access to a map (it aborts the process before the
            # race detector prints its report): that IS a data race; classified by the caller
            shutil.rmtree(d, ignore_errors=True)
            return out + "\nVERIF-RUNTIME-MAPRACE %s\n" % tag
        raise vlib.Inconclusive("race harness did not finish (%s, rc=%s; last job: %s; %s):\n%s" % (
            tag, rc, last[-1] if last else "none", "; ".join(fatal[:3]) or "no panic line", out[-1500:]))
    shutil.rmtree(d, ignore_errors=True)
    return out


def run_jobs(ctx, binp, jobs, tag, nproc, timeout):
    """Split the jobs over nproc harness processes (each boots its own node)."""
    if not jobs:
        return ""
    chunks = [jobs[i::nproc] for i in range(nproc)]
    chunks = [c for c in chunks if c]
    outs = []
    with concurrent.futures.ThreadPoolExecutor(max_workers=len(chunks)) as ex:
        futs = [ex.submit(run_plan, ctx, binp, c, "%s-%d" % (tag, k), timeout) for k, c in enumerate(chunks)]
        for f in futs:
            outs.append(f.result())
    return "\n".join(outs)


# --------------------------------------------------------------------------- model <-> report matching

class Model:
    def __init__(self, ops):
        self.ops = ops["ops"]
        self.by_name = {o["name"]: o for o in self.ops}
        self.multi = set(ops["multi_threads"])
        self.serial = {frozenset(p) for p in ops["serial_pairs"]}

    def may_overlap(self, a, b):
        if frozenset((a["name"], b["name"])) in self.serial:
            return False
        for t1 in a["threads"]:
            for t2 in b["threads"]:
                if t1 != t2 or t1 in self.multi:
                    return True
        return False

    def pairs(self):
        res = []
        for i, a in enumerate(self.ops):
            for b in self.ops[i:]:
                if self.may_overlap(a, b):
                    res.append((a["name"], b["name"]))
        return res

    def fns(self, op, seg, cls):
        o = self.by_name[op]
        res = set()
        for s in o["segs"]:
            if s["id"] == seg:
                for a in s["acc"]:
                    if a["class"] == cls:
                        res.update(a["fns"])
        return res

    def nests_config_before_sessions(self, op):
        """the operation acquires sessionsMu while holding ConfigMu (deadlocks against
        cmdGline, which takes them the other way round)"""
        for name in (op, ALIAS.get(op, op)):
            o = self.by_name.get(name)
            for sg in (o["segs"] if o else []):
                ls = [l[0] for l in (sg["locks"] or [])]
                if "IRCServer.ConfigMu" in ls and "IRCServer.sessionsMu" in ls and \
                        ls.index("IRCServer.ConfigMu") < ls.index("IRCServer.sessionsMu"):
                    return True
        return False

    def locks(self, op, seg):
        for s in self.by_name[op]["segs"]:
            if s["id"] == seg:
                return ["%s:%s" % (l[0], l[1]) for l in (s["locks"] or [])]
        return []


def matches(model, cand, fa, fb):
    for c in cand["classes"]:
        A = model.fns(cand["a"], cand["sa"], c)
        B = model.fns(cand["b"], cand["sb"], c)
        if (fa in A and fb in B) or (fb in A and fa in B):
            return c
    return None


# --------------------------------------------------------------------------- self-test mutation (F14 re-introduced)

def f14_overlay(ctx):
    """ircserver.go with ThrottleUntil's write lock turned back into the read lock."""
    src = os.path.join(vlib.REPO, "internal/ircserver/ircserver.go")
    with open(src) as fh:
        text = fh.read()
    m = re.search(r"func \(i \*IRCServer\) ThrottleUntil\(.*?\n}\n", text, re.S)
    if not m:
        return None, None
    body = m.group(0)
    mut = body.replace("i.sessionsMu.Lock()", "i.sessionsMu.RLock()").replace("i.sessionsMu.Unlock()", "i.sessionsMu.RUnlock()")
    if mut == body:
        return None, None
    d = ctx.sub("selftest")
    dst = os.path.join(d, "ircserver_f14.go")
    with open(dst, "w") as fh:
        fh.write(text.replace(body, mut))
    ovj = os.path.join(d, "extract-overlay.json")
    with open(ovj, "w") as fh:
        json.dump({src: dst}, fh)
    return ovj, dst


def selftest_model(ctx, binp):
    ovj, dst = f14_overlay(ctx)
    if ovj is None:
        ctx.cov["binding_selftest"] = "skipped: ThrottleUntil no longer has the expected shape"
        return None
    ops, text, _ = extract(ctx, binp, "selftest", overlay=ovj)
    cands, _, _ = tlc_candidates(ctx, text, "tlc-selftest", prune=True, timeout=300)
    hit = [c for c in cands if "Session.throttlingExponent" in c["classes"] and
           c["a"] == "IRCServer.ThrottleUntil" and c["b"] == "IRCServer.ThrottleUntil"]
    if not hit:
        raise vlib.Inconclusive("binding self-test failed: with ThrottleUntil under RLock (overlay) the extractor + TLC "
                                "do not report a Session.throttlingExponent candidate -- the model is not bound to the code")
    ctx.cov["binding_selftest"] = "F14 re-introduced by overlay: extractor+TLC report ThrottleUntil x ThrottleUntil on Session.throttlingExponent"
    return dst


# --------------------------------------------------------------------------- run

def run(ctx):
    quick = ctx.quick
    ctx.assumptions += [
        "the Go race detector has no false positives and reports a race it observes (happens-before based)",
        "lockextract's storage classes are per struct type / package variable (all instances of a type share a class; "
        "objects allocated inside an operation and not yet published are ignored)",
        "code outside internal/{ircserver,outputstream,raftstore,api} and package main (raft, goleveldb, prometheus, "
        "html/template internals) is assumed thread-safe; html/template's reflective reads are modelled from the template text",
        "the FSM goroutine serialises Apply/Snapshot/Restore (hashicorp/raft contract); Persist overlaps later Applies",
    ]
    binp = build_extractor(ctx)
    ops, text, summary = extract(ctx, binp, "tree")
    ctx.log(summary)
    model = Model(ops)
    ctx.cov["operations"] = len(model.ops)
    ctx.cov["extractor"] = summary
    ctx.cov["extractor_loader"] = ops.get("loader")
    if ops.get("warnings"):
        ctx.note("lockextract warnings: " + "; ".join(ops["warnings"][:8]))
    if any("unresolved lock receiver" in w for w in ops.get("warnings", [])):
        raise vlib.Inconclusive("lockextract could not resolve a lock receiver: " + "; ".join(ops["warnings"]))
    if len(model.ops) < 60:
        raise vlib.Inconclusive("lockextract found only %d operations: the tree no longer has the expected shape" % len(model.ops))

    # ---- TLC: all overlapping pairs
    cands, r, npairs = tlc_candidates(ctx, text, "tlc-pairs")
    ctx.cov["overlapping_pairs_model_checked"] = npairs
    ctx.log("TLC pairs: %d initial pairs, %d distinct states, %d candidate section pairs" % (npairs, r.distinct, len(cands)))
    if not quick:
        # Triples.  A third goroutine can only block the other two, so triples cannot
        # add a conflicting section pair; they are run as a cross-check of the lock
        # semantics on a seeded subset of the operations (all triples of all 100
        # operations are 23 million states / 17 minutes).
        rng3 = random.Random(ctx.seed)
        core = [n for n in ("FSM.Apply", "FSM.Restore", "FSM.Snapshot", "robustSnapshot.Persist") if n in model.by_name]
        rest = [o["name"] for o in model.ops if o["name"] not in core and o["steps"]]
        rng3.shuffle(rest)
        sub = core + rest[:12]
        only = sorted(model.by_name[n]["index"] for n in sub)
        c3, r3, n3 = tlc_candidates(ctx, text, "tlc-triples", nslots=3, prune=True, timeout=1200, workers=8, only=only)
        ctx.cov["triples_model_checked"] = n3
        ctx.cov["triples_operations"] = sub
        ctx.log("TLC triples over %d operations: %d initial triples, %d distinct states, %d candidate lines" % (len(sub), n3, r3.distinct, len(c3)))
        known = {(c["a"], c["sa"], c["b"], c["sb"]) for c in cands} | {(c["b"], c["sb"], c["a"], c["sa"]) for c in cands}
        extra = [c for c in c3 if (c["a"], c["sa"], c["b"], c["sb"]) not in known]
        if extra:
            # cannot happen; if it does the model is broken
            raise vlib.Inconclusive("triples produced a section pair the pairs run did not: %r" % extra[:3])
    ctx.cov["candidates"] = len(cands)
    cand_pairs = sorted({(c["a"], c["b"]) for c in cands})
    ctx.cov["candidate_pairs"] = len(cand_pairs)
    cand_classes = sorted({cl for c in cands for cl in c["classes"]})
    ctx.cov["candidate_classes"] = cand_classes

    # counterexample interleavings for a few candidates (one per class)
    traces = {}
    seen_cls = set()
    for c in cands:
        cl = c["classes"][0]
        if cl in seen_cls or len(traces) >= (3 if quick else 8):
            continue
        seen_cls.add(cl)
        ia, ib = model.by_name[c["a"]]["index"], model.by_name[c["b"]]["index"]
        tr = tlc_trace(ctx, text, ia, ib, "tlc-trace-%d" % len(traces))
        if tr:
            traces[(c["a"], c["b"])] = tr

    # ---- binding self-test, model half
    mut_src = selftest_model(ctx, binp)

    # ---- harness
    ctx.log("building the race harnesses")
    hbins = build_harnesses(ctx, "tree")
    hbin = hbins["main"]
    jobs = []
    jid = 0
    skipped_nodriver = set()

    def add(a, b, iters, kind, fill=0, focus=False):
        nonlocal jid
        rt = route(a, b)
        if rt == "main":
            for x in (a, b):
                if x in NODRIVER:
                    skipped_nodriver.add(x)
                    return
        if unsafe_pair(a, b):
            return
        jid += 1
        # GLINE (in-place writes of Config.Banned) only when neither side nests ConfigMu -> sessionsMu
        gl = rt == "main" and not model.nests_config_before_sessions(a) and not model.nests_config_before_sessions(b)
        jobs.append({"id": jid, "a": a, "b": b, "iters": iters, "kind": kind, "route": rt, "gline": gl and not focus, "fill": fill, "focus": focus})

    if ctx.replay:
        with open(ctx.replay) as fh:
            rp = json.load(fh)["replay"]
        add(rp["job"]["a"], rp["job"]["b"], 3000, "replay", rp["job"].get("fill", 0), rp["job"].get("focus", False))
    else:
        for a, b in cand_pairs:
            add(a, b, 400 if quick else 2000, "candidate")
        rest = [p for p in model.pairs() if p not in set(cand_pairs)]
        # all pairs on one store / one stream object always run (few and cheap)
        for a, b in rest:
            if route(a, b) != "main":
                add(a, b, 60 if quick else 200, "sweep")
        # the readers of one stream again on a stream that holds far more batches than its cache: the cache
        # is filled, shrunk and refilled while both sides run
        for a, b in model.pairs():
            if route(a, b) == "stream" and any(x.endswith((".Get", ".GetNext")) for x in (a, b)):
                add(a, b, 1500 if quick else 3000, "sweep", fill=2500)
        # every operation that can overlap with FSM.Apply again, with the state machine walking ONE session
        # through its whole life (client and services link) while the other side uses that very session
        for a, b in model.pairs():
            if "FSM.Apply" in (a, b) and route(a, b) == "main":
                add(a, b, 150 if quick else 250, "sweep", focus=True)
        allp = [p for p in rest if route(*p) == "main"]
        rng = random.Random(ctx.seed)
        rng.shuffle(allp)
        if quick:
            allp = allp[:700]
        for a, b in allp:
            add(a, b, 30 if quick else 60, "sweep")
    ctx.cov["jobs_candidate"] = sum(1 for j in jobs if j["kind"] == "candidate")
    ctx.cov["jobs_sweep"] = sum(1 for j in jobs if j["kind"] == "sweep")
    ctx.cov["jobs_store_level"] = sum(1 for j in jobs if j["route"] == "store")
    ctx.cov["jobs_stream_level"] = sum(1 for j in jobs if j["route"] == "stream")
    ctx.cov["jobs_with_gline"] = sum(1 for j in jobs if j["gline"])
    ctx.log("running %d jobs under the race detector (%d on a standalone store, %d on a standalone stream)" % (
        len(jobs), ctx.cov["jobs_store_level"], ctx.cov["jobs_stream_level"]))
    with concurrent.futures.ThreadPoolExecutor(max_workers=3) as ex:
        futs = [ex.submit(run_jobs, ctx, hbins[w], [j for j in jobs if j["route"] == w], w,
                          (4 if quick else 6) if w == "main" else 1, (900 if quick else 2400) if w == "main" else 400) for w in HARNESSES]
        out = "\n".join(f.result() for f in futs)
    ran = len(re.findall(r"VERIF-JOB-END ", out))
    if os.environ.get("VERIF_C20_KEEP"):
        with open(os.environ["VERIF_C20_KEEP"], "w") as fh:
            fh.write(out)
    nodrv = sorted(set(re.findall(r"VERIF-JOB-NODRIVER \d+ (\S+ \S+)", out)))
    ctx.cov["traces_validated_against_impl"] = ran
    ctx.cov["pairs_executed_with_race_detector"] = ran
    m = re.findall(r"VERIF-RACE-DONE panics=(\d+) errs=(\d+)", out)
    ctx.cov["harness_recovered_panics"] = sum(int(x[0]) for x in m)
    if nodrv or skipped_nodriver:
        ctx.cov["operations_without_driver"] = sorted(skipped_nodriver)
        ctx.cov["pairs_without_driver"] = nodrv[:40]
    jobmap = {j["id"]: j for j in jobs}

    # ---- classify the detector's reports
    races = parse_races(out)
    ctx.cov["race_reports"] = len(races)
    confirmed = set()
    seen_sig = set()
    harness_only = 0
    for rc in races:
        if len(rc["stacks"]) < 2:
            continue
        fa, fb = repo_frame(rc["stacks"][0]["frames"]), repo_frame(rc["stacks"][1]["frames"])
        if fa is None or fb is None:
            harness_only += 1
            continue
        sig = " | ".join(sorted("%s:%s" % (f[1], _short_fn(f[0]).rsplit("/", 1)[-1]) for f in (fa, fb)))
        ma, mb = _model_fn(fa[0]), _model_fn(fb[0])
        pred = None
        for k, c in enumerate(cands):
            cl = matches(model, c, ma, mb)
            if cl:
                confirmed.add(k)
                pred = pred or (c, cl)
        if sig in seen_sig:
            continue
        seen_sig.add(sig)
        job = jobmap.get(rc["job"], {})
        if pred:
            c, cl = pred
            what = ("data race on %s: %s (%s:%s, holding %s) vs %s (%s:%s, holding %s); predicted by the lock model "
                    "(%s x %s) and reported by the race detector while running %s x %s" % (
                        cl, _short_fn(fa[0]).rsplit("/", 1)[-1], fa[1], fa[2], "?", _short_fn(fb[0]).rsplit("/", 1)[-1],
                        fb[1], fb[2], "?", c["a"], c["b"], job.get("a"), job.get("b")))
            what = what.replace("holding ?", "locks per model: %s / %s" % (
                ",".join(model.locks(c["a"], c["sa"])) or "none", ",".join(model.locks(c["b"], c["sb"])) or "none"), 1)
            what = what.replace(", holding ?", "")
        else:
            what = ("data race reported by the race detector between %s (%s:%s) and %s (%s:%s) while running %s x %s; "
                    "MODEL-GAP: no TLC candidate covers this pair of functions" % (
                        _short_fn(fa[0]).rsplit("/", 1)[-1], fa[1], fa[2], _short_fn(fb[0]).rsplit("/", 1)[-1], fb[1], fb[2],
                        job.get("a"), job.get("b")))
            ctx.note("MODEL-GAP: " + sig)
        replay = {"job": {"a": job.get("a"), "b": job.get("b"), "iters": job.get("iters")}, "seed": ctx.seed,
                  "race_report": rc["text"], "predicted": bool(pred)}
        if pred:
            replay["candidate"] = pred[0]
            tr = traces.get((pred[0]["a"], pred[0]["b"]))
            if tr:
                replay["tlc_interleaving"] = tr
        ctx.violation(sig, what, replay)
        ctx.sample({"signature": sig, "predicted": bool(pred), "job": [job.get("a"), job.get("b")]})
    # ---- processes the Go runtime aborted with "concurrent map ..." (unsynchronised map access)
    root = vlib.REPO.rstrip("/") + "/"
    for m in re.finditer(r"(?m)^fatal error: (concurrent map [^\n]*)\n", out):
        before = re.findall(r"VERIF-JOB-BEGIN (\d+) ", out[:m.start()])
        job = jobmap.get(int(before[-1]), {}) if before else {}
        blk = out[m.end():m.end() + 6000]
        g = re.search(r"goroutine \d+ \[running\]:\n((?:.+\n)+)", blk)
        frame = None
        if g:
            ls = g.group(1).splitlines()
            for k in range(0, len(ls) - 1):
                loc = ls[k + 1].strip().split(" ")[0]
                if ls[k + 1].startswith("\t") and loc.startswith(root) and "zz_verif" not in loc:
                    f, _, l = loc.rpartition(":")
                    frame = (re.sub(r"\(.*$", "", ls[k].strip()), f[len(root):], l)
                    break
        if frame is None:
            ctx.note("runtime map-race abort without a frame inside the repository (ignored)")
            continue
        sig = "runtime-map-race | %s:%s" % (frame[1], _short_fn(frame[0]).rsplit("/", 1)[-1])
        if sig in seen_sig:
            continue
        seen_sig.add(sig)
        ctx.violation(sig, "the Go runtime aborted the node with '%s' (unsynchronised access to a map, i.e. a data race) in %s "
                           "(%s:%s) while running %s x %s" % (m.group(1), _short_fn(frame[0]).rsplit("/", 1)[-1], frame[1], frame[2],
                                                               job.get("a"), job.get("b")),
                      {"job": {"a": job.get("a"), "b": job.get("b"), "iters": job.get("iters")}, "seed": ctx.seed,
                       "race_report": "fatal error: " + m.group(1) + "\n" + blk[:3000], "predicted": False})
        ctx.sample({"signature": sig, "predicted": False, "job": [job.get("a"), job.get("b")]})
    if harness_only:
        ctx.note("%d race reports with a stack entirely outside the repository (ignored)" % harness_only)
        ctx.cov["race_reports_outside_repository"] = harness_only

    # ---- candidates the detector did not reproduce
    unconf = [c for k, c in enumerate(cands) if k not in confirmed]
    ctx.cov["candidates_confirmed"] = len(cands) - len(unconf)
    ctx.cov["candidates_unconfirmed"] = len(unconf)
    shown = set()
    for c in unconf:
        key = (c["a"], c["b"], tuple(c["classes"]))
        if key in shown:
            continue
        shown.add(key)
        if len(shown) <= 40:
            print("UNCONFIRMED-CANDIDATE property=C20 %s[%s] x %s[%s] on %s (model: conflicting sections without a common "
                  "lock; the race detector did not report it)" % (
                      c["a"], ",".join(model.locks(c["a"], c["sa"])) or "no lock",
                      c["b"], ",".join(model.locks(c["b"], c["sb"])) or "no lock", ",".join(c["classes"])), flush=True)
    if not cands and not races:
        ctx.sample({"result": "no candidate in %d overlapping pairs; %d pairs executed under the race detector without a report" % (npairs, ran)})

    # ---- binding self-test, code half
    if ctx.selftest and mut_src:
        hb2 = build_harness(ctx, "f14", extra={"internal/ircserver/ircserver.go": mut_src})
        o2 = run_jobs(ctx, hb2, [{"id": 1, "a": "IRCServer.ThrottleUntil", "b": "IRCServer.ThrottleUntil", "iters": 3000}],
                      "selftest", nproc=1, timeout=400)
        hit = [x for x in parse_races(o2) if len(x["stacks"]) >= 2 and
               all("ThrottleUntil" in (repo_frame(s["frames"]) or ("",))[0] for s in x["stacks"])]
        if not hit:
            raise vlib.Inconclusive("binding self-test failed: the harness does not obtain a race report for ThrottleUntil under RLock")
        ctx.cov["binding_selftest"] += "; harness: race detector reports ThrottleUntil x ThrottleUntil (%d reports)" % len(hit)
        print("SELFTEST ok: " + ctx.cov["binding_selftest"], flush=True)
