"""C09 -- the LevelDB store honours raft's LogStore and StableStore contracts.

Technique (DESIGN.md 3.7 / 6 "C09"):

  spec/RaftStore.tla       the reference "plain in-memory map" (+ the value
                           encoding state that drives the JSON->proto migration)
  spec/RaftStoreMC.tla     finite choice sets for the configurations
  spec/RaftStoreTrace.tla  trace validation: the property predicates P_* are
                           INVARIANTS evaluated on every recorded state of the
                           real store
  harness/raftstore/       in-package harness (overlay) driving the REAL
                           LevelDBStore in a scratch directory; records ALL
                           observations after EVERY operation

  model -> code   TLC explores the complete graph of the exhaustive config and
                  prints every transition; an edge-covering tour is executed on
                  the real store.  TLC -simulate behaviours of the larger config
                  are executed as well.
  code -> model   a random driver (big indexes, all log types, all payload
                  classes, Close/Open and SIGKILL/Open in either encoding at
                  random positions) is executed on the real store.
  Every execution is validated by TLC against RaftStoreTrace; verdicts come only
  from P_* invariants failing on observations of the real code.
"""
import concurrent.futures
import json
import os
import random
import re
import shutil
import tempfile
import threading
import time

import vlib

LEVEL = "model_checking"

PKG = "internal/raftstore"
BND = 0x737461626c657374      # "stablest": the largest index whose key sorts before the "stablestore-" keys
TOP = 2**64 - 2               # largest index / DeleteRange bound of the domain (max+1 overflows for 2^64-1)
ALLKEYS = [1, 2, 3, 4, 5, 6, 7, 8, 9, 10]

# rank -> real uint64 for the model's index ranks.  "" = no integer exists at
# that gap rank (the executor rounds a bound inwards, which selects the same
# index ranks).  The first and the last rank always have a value.  The harness
# derives from the values which index ranks lie above the stable-store keys.
CONC_135 = [  # exhaustive configs: index ranks 1,3,5; bounds 0..6
    # (values, index ranks above the "stablestore-" keys)
    (["0", "1", "", "2", "", "3", "4"], []),
    (["0", "3", "5", "7", "1048576", str(2**40), str(2**40 + 1)], []),
    ([str(2**40 - 1), str(2**40), "", str(2**40 + 1), str(2**50), str(2**62), str(2**62 + 1)], []),
    (["0", "1", "255", "256", "65535", str(BND), str(BND + 1)], []),          # top index = "stablest"
    ([str(2**63 - 1), str(2**63), "", str(2**63 + 1), str(2**63 + 2**40), str(TOP - 1), str(TOP)], [1, 3, 5]),
    (["0", "1", "7", str(BND), "", str(BND + 1), str(2**63)], [5]),            # mixed, adjacent to the boundary
    (["0", "5", str(2**62), str(BND + 1), str(2**63), str(2**63 + 1), str(TOP)], [3, 5]),   # mixed
]
CONC_SIM = [  # simulation config: index ranks 1,2,4,6,7; bounds 0..8
    ["0", "1", "2", "", "3", "", "4", "5", "6"],
    ["0", "1", "2", "5", "7", "1000", str(2**40), str(2**40 + 1), str(2**40 + 2)],
    ["6", "7", "8", "100", str(2**62), str(2**62 + 1), str(BND - 1), str(BND), str(BND + 1)],
    [str(2**63 - 1), str(2**63), str(2**63 + 1), str(2**63 + 5), str(2**63 + 6), str(TOP - 8), str(TOP - 2),
     str(TOP - 1), str(TOP)],                                                                  # all above
    ["0", "1", "2", str(2**40), str(BND), "", str(BND + 1), str(BND + 2), str(2**63)],           # 1,2,4 below; 6,7 above
    ["0", "3", "4", "9", str(BND + 1), str(2**63), str(2**63 + 1), str(2**63 + 2), str(TOP)],    # 1,2 below; 4,6,7 above
]

PROP_TEXT = {
    "P_OpOk": "a store operation returned an error or panicked on an in-domain input",
    "P_FirstIndex": "FirstIndex is not the least stored index (0 for the empty log)",
    "P_LastIndex": "LastIndex is not the greatest stored index (0 for the empty log)",
    "P_GetLogHole": "GetLog of a missing entry did not return raft.ErrLogNotFound",
    "P_GetLogEntry": "GetLog did not return the stored entry intact (index/term/type/data/extensions/append time)",
    "P_ConvOnlyAfterConversion": "entry data changed bytes although no JSON->proto conversion applies to it",
    "P_StableGet": "stable-store Get did not return the last value written",
    "P_StableGetUint64": "stable-store GetUint64 did not return the last value written",
    "P_NoShadow": "a stable-store write changed a log observation or a log write changed a stable-store observation",
}

ASSUMPTIONS = [
    "indexes and DeleteRange bounds range over 1 .. 2^64-2, including indexes whose 8-byte key sorts after the "
    "'stablestore-' keys (> 0x737461626c657374: all index ranks above, and mixed below/above, with and without stable "
    "keys, DeleteRange across the boundary); only index 0 (never stored by raft) and the value 2^64-1 are outside the "
    "domain: DeleteRange computes max+1, which overflows and silently deletes nothing for max = 2^64-1",
    "the data of a LogCommand entry is a robust.Message (JSON or 'p'-prefixed protobuf); ConvertToProto log.Panicf()s "
    "on anything else by design",
    "fewer than 100 entries are in the store when ConvertToProto runs (the intermediate batch flush is not modelled)",
    "GetUint64 is only judged on keys last written by SetUint64 or never written (a shorter value panics in "
    "binary.BigEndian.Uint64, as in raft-boltdb); an empty value written by Set is indistinguishable from a missing key",
    "crash = SIGKILL of the process after the call returned (page cache survives); power loss is out of scope "
    "(the store writes without opt.Sync)",
    "append time is compared as an instant (time.Time.Equal): the protobuf encoding does not keep the zone; "
    "StoreLogProto with AppendedAt unset reads back as the Unix epoch (pb semantics)",
    "store directories live on a tmpfs when /dev/shm is writable (speed); sequential use only (C20 covers races)",
    "the harness tables (harness/raftstore/tables_test.go) and the order-preserving rank->index mapping are trusted; "
    "TLC itself, the Json module and Go's reflect.DeepEqual are trusted",
]


def jvm_tmp(ctx):
    """TLC unpacks its standard modules into java.io.tmpdir and leaves them there:
    keep that inside the scratch directory."""
    return ["-Djava.io.tmpdir=" + ctx.sub("jtmp")]


# --------------------------------------------------------------------------- TLC output parsing

def _tla_strings(line):
    """Strings of a printed TLA+ tuple of strings: <<"a", "b\\"c", ...>>."""
    res, i, n = [], 0, len(line)
    while i < n:
        if line[i] == '"':
            i += 1
            buf = []
            while i < n and line[i] != '"':
                if line[i] == "\\" and i + 1 < n:
                    buf.append(line[i + 1])
                    i += 2
                else:
                    buf.append(line[i])
                    i += 1
            res.append("".join(buf))
        i += 1
    return res


def parse_edges(out):
    edges = set()
    for line in out.splitlines():
        if line.startswith('<<"E", '):
            s = _tla_strings(line)
            if len(s) != 4:
                raise vlib.Inconclusive("unparsable edge line: " + line[:300])
            edges.add((s[1], s[2], s[3]))
    return sorted(edges)


def parse_behaviours(out):
    """Behaviours printed by SimPrint.  The simulator evaluates the invariant on
    every candidate successor of the last step, so behaviours come in groups
    that differ only in the last operation: one per group is kept."""
    res, seen = [], set()
    for line in sorted(l for l in out.splitlines() if l.startswith('<<"B", ')):
        s = _tla_strings(line)
        if len(s) != 2:
            raise vlib.Inconclusive("unparsable behaviour line: " + line[:300])
        b = json.loads(s[1])
        key = json.dumps(b[:-1])
        if key in seen:
            continue
        seen.add(key)
        res.append(b)
    return res


def _sccs(nodes, succ):
    """Tarjan, iterative.  -> {node: component id}"""
    index, low, comp, onstack, stack = {}, {}, {}, set(), []
    counter = [0]
    ncomp = [0]
    for root in nodes:
        if root in index:
            continue
        work = [(root, 0)]
        while work:
            v, i = work.pop()
            if i == 0:
                index[v] = low[v] = counter[0]
                counter[0] += 1
                stack.append(v)
                onstack.add(v)
            recurse = False
            out = succ.get(v, ())
            while i < len(out):
                w = out[i][1]
                i += 1
                if w not in index:
                    work.append((v, i))
                    work.append((w, 0))
                    recurse = True
                    break
                if w in onstack:
                    low[v] = min(low[v], index[w])
            if recurse:
                continue
            if low[v] == index[v]:
                while True:
                    w = stack.pop()
                    onstack.discard(w)
                    comp[w] = ncomp[0]
                    if w == v:
                        break
                ncomp[0] += 1
            if work:
                u = work[-1][0]
                low[u] = min(low[u], low[v])
    return comp


def edge_tour(edges, init, cap, rnd):
    """Walks from `init` that together cover every edge at least once.  Greedy:
    take an uncovered edge of the current node (edges that stay inside the
    current strongly connected component first -- a stable-store key can never
    be unset, so leaving a component is final), else walk to the nearest node
    that still has one -- searching first without Close/Kill (a reopen costs
    milliseconds, a Kill a child process), then inside the component, then
    anywhere -- else start a new walk."""
    ids = {}

    def nid(x):
        if x not in ids:
            ids[x] = len(ids)
        return ids[x]

    nid(init)
    raw = [(nid(a), op, nid(b)) for (a, op, b) in edges]
    n = len(ids)
    succ = [[] for _ in range(n)]
    for a, op, b in raw:
        succ[a].append((op, b))
    comp = _sccs(list(range(n)), {a: succ[a] for a in range(n)})
    closing = {op for _, op, _ in raw if '"op":"Close"' in op or '"op":"Kill"' in op}
    for a in range(n):
        rnd.shuffle(succ[a])
        # BFS order: Close before Kill (same target, no child process needed)
        succ[a].sort(key=lambda e: '"op":"Kill"' in e[0])
    todo = []
    for a in range(n):
        lst = list(succ[a])
        # popped from the end: intra-component edges first, component-leaving edges last
        lst.sort(key=lambda e: comp[e[1]] == comp[a])
        todo.append(lst)
    remaining = len(raw)
    walks, cur, walk = [], 0, []

    def nearest(start, mode):
        c = comp[start]
        seen = bytearray(n)
        seen[start] = 1
        frontier, back = [start], {}
        while frontier:
            nxt = []
            for v in frontier:
                if todo[v]:
                    path = []
                    while v != start:
                        p, op = back[v]
                        path.append((op, v))
                        v = p
                    path.reverse()
                    return path
                for op, b in succ[v]:
                    if seen[b]:
                        continue
                    if mode == 0 and op in closing:
                        continue
                    if mode <= 1 and comp[b] != c:
                        continue
                    seen[b] = 1
                    back[b] = (v, op)
                    nxt.append(b)
            frontier = nxt
        return None

    while remaining:
        if len(walk) >= cap:
            walks.append(walk)
            cur, walk = 0, []
        if todo[cur]:
            op, b = todo[cur].pop()
            walk.append(op)
            cur = b
            remaining -= 1
            continue
        path = nearest(cur, 0)
        if path is None:
            path = nearest(cur, 1)
        if path is None:
            path = nearest(cur, 2)
        if path is None:
            if cur == 0 and not walk:
                raise vlib.Inconclusive("edge tour: uncovered edges unreachable from the initial state")
            walks.append(walk)
            cur, walk = 0, []
            continue
        for op, v in path:
            walk.append(op)
            cur = v
    if walk:
        walks.append(walk)
    return walks


def mk_program(pid, ops, vals, dom):
    return {"id": pid, "vals": vals, "dom": dom, "kdom": ALLKEYS, "ops": ops}


# --------------------------------------------------------------------------- running the real store

class Rig:
    def __init__(self, ctx):
        self.ctx = ctx
        t0 = time.time()
        ov = ctx.harness_overlay(PKG, "raftstore")
        self.bin = os.path.join(ctx.scratch, "raftstore.test")
        ctx.go_build_test("./" + PKG, ov, self.bin)
        ctx.log("harness built from %s in %.1fs" % (vlib.REPO, time.time() - t0))
        self.storebase = None
        if os.path.isdir("/dev/shm") and os.access("/dev/shm", os.W_OK):
            try:
                self.storebase = tempfile.mkdtemp(prefix="verif-c09-", dir="/dev/shm")
            except OSError:
                self.storebase = None
        if self.storebase is None:
            self.storebase = ctx.sub("stores")
        self.n = 0

    def close(self):
        shutil.rmtree(self.storebase, ignore_errors=True)

    def gen_random(self, nprog, nops, seed, killpct):
        self.n += 1
        path = os.path.join(self.ctx.scratch, "random-%d.ndjson" % self.n)
        rc, out = self.ctx.run_bin([self.bin, "-test.run", "^TestVerifGen$"],
                                   env={"VERIF_NPROG": nprog, "VERIF_NOPS": nops, "VERIF_SEED": seed,
                                        "VERIF_PROGRAMS": path, "VERIF_KILLPCT": killpct}, timeout=300)
        if rc != 0 or "VERIF-GEN" not in out or not os.path.exists(path):
            raise vlib.Inconclusive("random generator failed:\n" + out[-3000:])
        return vlib.read_ndjson(path)

    def _exec_one(self, programs, tag):
        pin = os.path.join(self.ctx.scratch, "prog-%s.ndjson" % tag)
        pout = os.path.join(self.ctx.scratch, "trace-%s.ndjson" % tag)
        vlib.write_ndjson(pin, programs)
        rc, out = self.ctx.run_bin([self.bin, "-test.run", "^TestVerifExec$"],
                                   env={"VERIF_PROGRAMS": pin, "VERIF_TRACE": pout,
                                        "VERIF_STOREBASE": self.storebase, "GOGC": "400"}, timeout=3000)
        if rc != 0 or "VERIF-EXEC" not in out or not os.path.exists(pout):
            raise vlib.Inconclusive("executor failed (rc=%s):\n%s" % (rc, out[-3000:]))
        return pout

    def execute(self, programs, tag, procs=4):
        """Run programs on the real store; returns list of trace files."""
        if not programs:
            return []
        procs = max(1, min(procs, len(programs)))
        buckets = [[] for _ in range(procs)]
        load = [0] * procs
        for p in sorted(programs, key=lambda p: -len(p["ops"])):
            j = load.index(min(load))
            buckets[j].append(p)
            load[j] += len(p["ops"]) + 20
        with concurrent.futures.ThreadPoolExecutor(max_workers=procs) as ex:
            futs = [ex.submit(self._exec_one, b, "%s-%d" % (tag, j)) for j, b in enumerate(buckets) if b]
            return [f.result() for f in futs]


def load_trace(path):
    """-> list of programs' record lists [[reset, ev, ev, ...], ...]; raises on Machinery records."""
    progs = []
    with open(path) as fh:
        for line in fh:
            line = line.rstrip("\n")
            if not line:
                continue
            if '"ev":"Machinery"' in line:
                raise vlib.Inconclusive("harness machinery failure: " + line[:3000])
            if '"ev":"Reset"' in line:
                progs.append([line])
            else:
                if not progs:
                    raise vlib.Inconclusive("trace does not start with a Reset record")
                progs[-1].append(line)
    return progs


# --------------------------------------------------------------------------- trace validation

class Validator:
    def __init__(self, ctx, programs_by_id):
        self.ctx = ctx
        self.programs = programs_by_id
        self.n = 0
        self.accepted_traces = 0
        self.accepted_events = 0
        self.tlc_runs = 0
        self.drift_seen = set()
        self.lock = threading.Lock()

    def _tlc(self, lines, cfg):
        with self.lock:  # called from several threads: the run number names the TLC work directory
            self.n += 1
            self.tlc_runs += 1
            n = self.n
        return self.ctx.tlc("RaftStoreTrace", cfg=cfg, workers=1, timeout=1200, heap="4g", jvm=jvm_tmp(self.ctx),
                            files={"trace.ndjson": "\n".join(lines) + "\n"}, name="tv-%d" % n)

    def validate_chunk(self, progs):
        """progs: list of record-line lists.  Returns list of findings
        (kind, invariant, program-id, record-no, record, tlc-tail)."""
        findings = []
        cfg = "RaftStoreTrace.cfg"
        guard = 0
        while progs:
            guard += 1
            if guard > 12:
                break
            lines = [l for p in progs for l in p]
            r = self._tlc(lines, cfg)
            if r.ok and '"ACCEPTED"' in r.out:
                with self.lock:
                    self.accepted_traces += len(progs)
                    self.accepted_events += len(lines) - len(progs)
                break
            if r.invariant_violated and re.match(r"^[PD]_", r.invariant_violated):
                inv = r.invariant_violated
                m = None
                for m in re.finditer(r"^/\\ l = (\d+)", r.out, re.M):
                    pass
                if not m:
                    raise vlib.Inconclusive("TLC reported %s without a state:\n%s" % (inv, r.out[-3000:]))
                pos = int(m.group(1)) - 1  # 1-based record number of the offending record
                k, off = 0, 0
                while off + len(progs[k]) < pos:
                    off += len(progs[k])
                    k += 1
                rec = json.loads(lines[pos - 1])
                hdr = json.loads(progs[k][0])
                tail = r.out[r.out.rfind("State "):][-2500:] if "State " in r.out else r.out[-2500:]
                if inv.startswith("D_"):
                    findings.append(("drift", inv, hdr.get("prog"), pos - off - 1, rec, tail))
                    # programs before k were fully accepted at both levels
                    with self.lock:
                        self.accepted_traces += k
                        self.accepted_events += sum(len(p) - 1 for p in progs[:k])
                    progs = progs[k:]
                    cfg = "RaftStoreTrace_prop.cfg"
                    continue
                findings.append(("violation", inv, hdr.get("prog"), pos - off - 1, rec, tail))
                with self.lock:
                    self.accepted_traces += k
                    self.accepted_events += sum(len(p) - 1 for p in progs[:k])
                progs = progs[k + 1:]
                continue
            raise vlib.Inconclusive("trace validation failed for a reason that is not a property predicate "
                                    "(violated=%s deadlock=%s rc=%s timed_out=%s):\n%s" % (
                                        r.invariant_violated, r.deadlock, r.rc, r.timed_out, r.out[-3000:]))
        return findings

    def validate_files(self, files, chunk_events, par=4):
        chunks, cur, cnt = [], [], 0
        for f in files:
            for p in load_trace(f):
                if cur and cnt + len(p) > chunk_events:
                    chunks.append(cur)
                    cur, cnt = [], 0
                cur.append(p)
                cnt += len(p)
        if cur:
            chunks.append(cur)
        findings = []
        with concurrent.futures.ThreadPoolExecutor(max_workers=par) as ex:
            for res in ex.map(self.validate_chunk, chunks):
                findings.extend(res)
        return findings

    def report(self, findings):
        """One VIOLATION per signature (the first instance is the replay; the
        number of further instances is recorded in the evidence)."""
        ctx = self.ctx
        counts = {}
        for kind, inv, pid, recno, rec, tail in findings:
            obs = rec.get("obs", {})
            args = {k: v for k, v in rec.items() if k not in ("obs",)}
            if kind == "drift":
                key = (inv, rec.get("ev"))
                if key not in self.drift_seen:
                    self.drift_seen.add(key)
                    ctx.drift("%s after %s in program %s (record %d): the implementation-level model of the "
                              "JSON->proto migration differs from the code; property predicates are still judged. "
                              "obs.gl=%s" % (inv, rec.get("ev"), pid, recno, obs.get("gl")))
                continue
            sig = "%s@%s" % (inv, rec.get("ev"))
            if rec.get("ev") == "DeleteRange" and rec.get("lo", 0) > rec.get("hi", 0):
                sig += "(min>max)"
            elif rec.get("ev") == "DeleteRange" and rec.get("across") == 1:
                sig += "(across-boundary)"
            if rec.get("res") == 3:
                sig += ":panic"
            elif rec.get("res") == 2:
                sig += ":error"
            counts[sig] = counts.get(sig, 0) + 1
            if counts[sig] > 1:
                continue
            what = "%s -- after %s %s on the real LevelDBStore; observed: %s%s" % (
                PROP_TEXT.get(inv, inv), rec.get("ev"), json.dumps(args, sort_keys=True),
                json.dumps({k: obs.get(k) for k in ("first", "last", "fr", "lr", "gl", "get", "getu")}, sort_keys=True),
                ("; harness note: " + obs["note"]) if obs.get("note") else "")
            prog = self.programs.get(pid)
            ctx.violation(sig, what, {"program": prog, "failing_record": recno, "record": rec, "invariant": inv,
                                      "model_state_at_failure": tail,
                                      "how": "./check C09 --replay <this file> re-executes the program on the real store "
                                             "and validates it against spec/RaftStoreTrace.tla"})
        if counts:
            ctx.cov["violating_traces_by_signature"] = counts


# --------------------------------------------------------------------------- binding self-test

def selftest(ctx, rig):
    """The binding binds: an accepted trace must be rejected after (a) one
    observed field is corrupted, (b) one state-changing record is dropped,
    (c) the FirstIndex observation is corrupted."""
    progs = rig.gen_random(1, 60, 1000 + ctx.seed, 0)
    files = rig.execute(progs, "selftest", procs=1)
    recs = load_trace(files[0])[0]
    out = {}

    def run(lines, cfg="RaftStoreTrace.cfg"):
        return ctx.tlc("RaftStoreTrace", cfg=cfg, workers=1, timeout=300, heap="2g", jvm=jvm_tmp(ctx),
                       files={"trace.ndjson": "\n".join(lines) + "\n"}, name="st-%d" % len(os.listdir(ctx.scratch)))

    base = run(recs)
    out["accepts_real_trace"] = bool(base.ok and '"ACCEPTED"' in base.out)
    # (a) corrupt the term of the first successfully read entry
    a = list(recs)
    done = False
    for i, l in enumerate(a):
        ev = json.loads(l)
        for g in ev.get("obs", {}).get("gl", []):
            if g[0] == 0:
                g[2] = g[2] % 4 + 1
                a[i] = json.dumps(ev, sort_keys=True, separators=(",", ":"))
                done = True
                break
        if done:
            break
    ra = run(a)
    out["rejects_corrupted_term"] = done and ra.invariant_violated == "P_GetLogEntry"
    # (b) drop the first log write that changed the observations
    b = list(recs)
    dropped = False
    for i in range(2, len(b)):
        ev, pv = json.loads(b[i]), json.loads(b[i - 1])
        if ev["ev"] in ("StoreLog", "StoreLogs", "StoreLogProto") and pv.get("o") == 1 and \
                ev["obs"]["gl"] != pv["obs"]["gl"]:
            del b[i]
            dropped = True
            break
    rb = run(b)
    out["rejects_dropped_record"] = dropped and bool(rb.invariant_violated) and not rb.ok
    # (c) corrupt FirstIndex
    c = list(recs)
    for i, l in enumerate(c):
        ev = json.loads(l)
        if ev.get("o") == 1 and ev["obs"]["first"] > 0:
            ev["obs"]["first"] = 0
            c[i] = json.dumps(ev, sort_keys=True, separators=(",", ":"))
            break
    rc = run(c)
    out["rejects_corrupted_firstindex"] = rc.invariant_violated == "P_FirstIndex"
    ok = all(out.values())
    out["ok"] = ok
    ctx.cov["binding_selftest"] = out
    if not ok:
        raise vlib.Inconclusive("binding self-test failed: %s" % out)
    return out


# --------------------------------------------------------------------------- main

def tlc_design(ctx, cfg, workers, timeout, coverage=False, simulate=None, depth=None, module="RaftStoreMC",
               deadlock=True, files=None):
    r = ctx.tlc(module, cfg=cfg, workers=workers, timeout=timeout, coverage=coverage, deadlock=deadlock,
                simulate=simulate, depth=depth, heap="6g", jvm=jvm_tmp(ctx), files=files,
                name="design-" + cfg.replace(".cfg", ""))
    if not r.ok:
        # a counterexample on the design spec alone is never a violation
        raise vlib.Inconclusive("TLC on the design spec (%s) did not pass: violated=%s rc=%s timed_out=%s\n%s" % (
            cfg, r.invariant_violated, r.rc, r.timed_out,
            "\n".join(l for l in r.out.splitlines() if not l.startswith("<<"))[-3000:]))
    ctx.add("tlc_runs")
    return r


def exhaustive_programs(ctx, cfg, tag, rnd, keys, coverage=False, timeout=900, above=None):
    """above=None: the graph of the committed cfg (Above = {}); its tour is
    executed under ALL concretisations in turn (the trace validation uses the
    `above` the harness derives from the values, so the verdict is exact; only the
    edge-cover claim is relative to the Above = {} graph).  above=[ranks]: the
    graph for that Above (cfg generated at run time), executed under the matching
    concretisations."""
    files = None
    concs = [c for c, _ in CONC_135]
    if above is not None:
        with open(os.path.join(vlib.SPEC, cfg)) as fh:
            text = fh.read()
        if "    Above = {}\n" not in text:
            raise vlib.Inconclusive("cannot derive an Above variant of " + cfg)
        cfg2 = cfg.replace(".cfg", "_above%s.cfg" % "".join(map(str, above)))
        files = {cfg2: text.replace("    Above = {}\n", "    Above = {%s}\n" % ", ".join(map(str, above)))}
        cfg = cfg2
        concs = [c for c, a in CONC_135 if a == list(above)]
    r = tlc_design(ctx, cfg, workers=4, timeout=timeout, coverage=coverage, files=files)
    edges = parse_edges(r.out)
    if len(edges) == 0 or r.generated - 1 < len(edges):
        raise vlib.Inconclusive("edge print of %s inconsistent: %d edges, %d generated" % (cfg, len(edges), r.generated))
    # Canon() of the initial state (empty log, empty stable store, closed)
    init = '<<<<%s>>, <<%s>>, "none", FALSE>>' % (", ".join("<<%d>>" % i for i in (1, 3, 5)),
                                                 ", ".join("<<%d>>" % k for k in keys))
    if not any(e[0] == init for e in edges):
        raise vlib.Inconclusive("initial state not found in the edge print of " + cfg)
    walks = edge_tour(edges, init, cap=1500, rnd=rnd)
    progs = []
    for i, w in enumerate(walks):
        vals = concs[(i + ctx.seed) % len(concs)]
        progs.append(mk_program("%s-%d" % (tag, i), [json.loads(o) for o in w], vals, [1, 3, 5]))
    ctx.add("states", r.distinct)
    ctx.add("transitions", r.generated)
    ctx.cov.setdefault("exhaustive_tlc", {})[cfg] = {
        "distinct_states": r.distinct, "transitions": len(edges), "depth": r.depth,
        "tour_programs": len(progs), "tour_operations": sum(len(p["ops"]) for p in progs)}
    if coverage:
        # "<Action line ..>: distinct:generated" lines of -coverage 1 (vacuity check)
        acts = {}
        for m in re.finditer(r"^<(\w+) line \d+, col \d+ to line \d+, col \d+ of module RaftStore>: (\d+):(\d+)$",
                             r.out, re.M):
            if m.group(1) not in ("Init", "EdgePrint"):
                acts[m.group(1)] = int(m.group(3))
        ctx.cov["exhaustive_tlc"][cfg]["transitions_by_action"] = acts
        ctx.cov["exhaustive_tlc"][cfg]["actions_never_taken"] = sorted(a for a, g in acts.items() if g == 0)
        if len(acts) < 10 or any(g == 0 for g in acts.values()):
            raise vlib.Inconclusive("vacuity: actions never taken in %s: %s" % (cfg, acts))
    ctx.log("%s: %d states, %d transitions -> tour of %d programs / %d operations" % (
        cfg, r.distinct, len(edges), len(progs), sum(len(p["ops"]) for p in progs)))
    return progs


def sim_programs(ctx, num, tag):
    r = tlc_design(ctx, "RaftStore_sim.cfg", workers=1, timeout=600, simulate="num=%d" % num, depth=41,
                   module="RaftStoreSim", deadlock=False)
    behs = parse_behaviours(r.out)
    if not behs:
        raise vlib.Inconclusive("simulation printed no behaviour:\n" + r.out[-2000:])
    progs = []
    for i, b in enumerate(behs):
        progs.append(mk_program("%s-%d" % (tag, i), b, CONC_SIM[(i + ctx.seed) % len(CONC_SIM)], [1, 2, 4, 6, 7]))
    ctx.add("states", r.distinct)
    ctx.add("transitions", r.generated)
    ctx.cov["simulation"] = {"behaviours": len(progs), "operations": sum(len(p["ops"]) for p in progs)}
    ctx.log("simulation: %d behaviours of %d operations" % (len(progs), len(behs[0])))
    return progs


def run(ctx):
    ctx.assumptions.extend(ASSUMPTIONS)
    rig = Rig(ctx)
    try:
        _run(ctx, rig)
    finally:
        rig.close()


def _run(ctx, rig):
    rnd = random.Random(ctx.seed)

    if getattr(ctx, "replay", None):
        with open(ctx.replay) as fh:
            rep = json.load(fh)
        prog = rep.get("replay", rep).get("program")
        if not prog:
            raise vlib.Inconclusive("replay file has no program")
        files = rig.execute([prog], "replay", procs=1)
        v = Validator(ctx, {prog["id"]: prog})
        f = v.validate_files(files, 10 ** 9, par=1)
        v.report(f)
        ctx.cov["traces_validated_against_impl"] = v.accepted_traces
        ctx.log("replay: %d finding(s)" % len(f))
        return

    if getattr(ctx, "selftest", False):
        out = selftest(ctx, rig)
        ctx.log("binding self-test: %s" % out)
        return

    quick = ctx.quick
    programs = []

    with concurrent.futures.ThreadPoolExecutor(max_workers=3) as ex:
        f_ex = [ex.submit(exhaustive_programs, ctx, "RaftStore_tiny.cfg", "tiny", random.Random(ctx.seed), [1],
                          not quick)]
        if not quick:
            f_ex.append(ex.submit(exhaustive_programs, ctx, "RaftStore_small.cfg", "small", random.Random(ctx.seed + 1),
                                  [4], True, 1500))
            # the graphs whose ConvertToProto walk differs: ranks above the stable-store keys
            for ab in ([1, 3, 5], [5], [3, 5]):
                f_ex.append(ex.submit(exhaustive_programs, ctx, "RaftStore_tiny.cfg", "tiny-above%s" % "".join(map(str, ab)),
                                      random.Random(ctx.seed + 2), [1], False, 900, ab))
        f_sim = ex.submit(sim_programs, ctx, 150 if quick else 3000, "sim")
        # random driver: 10^3 operations quick, 10^5 thorough
        if quick:
            rprogs = rig.gen_random(20, 50, ctx.seed, 5)
        else:
            rprogs = rig.gen_random(500, 200, ctx.seed, 3)
        for f in f_ex:
            programs.extend(f.result())
        programs.extend(f_sim.result())
    programs.extend(rprogs)
    ctx.cov["random_driver"] = {"programs": len(rprogs), "operations": sum(len(p["ops"]) for p in rprogs)}
    byid = {p["id"]: p for p in programs}
    nops = sum(len(p["ops"]) for p in programs)
    ctx.log("executing %d programs / %d operations on the real LevelDBStore" % (len(programs), nops))

    t0 = time.time()
    files = rig.execute(programs, "all", procs=8)
    ctx.log("executed in %.1fs" % (time.time() - t0))
    kills = sum(1 for p in programs for o in p["ops"] if o["op"] == "Kill")
    reopens = sum(1 for p in programs for o in p["ops"] if o["op"] == "Open")

    t0 = time.time()
    v = Validator(ctx, byid)
    findings = v.validate_files(files, 20000, par=6)
    ctx.log("validated in %.1fs (%d TLC runs): %d traces / %d records accepted, %d finding(s)" % (
        time.time() - t0, v.tlc_runs, v.accepted_traces, v.accepted_events, len(findings)))
    v.report(findings)

    ctx.cov["traces_validated_against_impl"] = v.accepted_traces
    ctx.cov["events_validated"] = v.accepted_events
    ctx.cov["operations_executed_on_real_store"] = nops
    ctx.cov["sigkill_reopen_points"] = kills
    ctx.cov["open_points"] = reopens
    ctx.add("tlc_runs", v.tlc_runs)
    for p in (programs[0], rprogs[0]):
        ctx.sample({"id": p["id"], "vals": p["vals"], "dom": p["dom"], "ops": p["ops"][:12]})
    if v.accepted_traces + sum(1 for f in findings if f[0] == "violation") < len(programs) and not findings:
        raise vlib.Inconclusive("only %d of %d executions were validated" % (v.accepted_traces, len(programs)))

    if ctx.violations or ctx.known_hits:
        # the self-test needs a trace of a property-abiding store
        ctx.cov["binding_selftest"] = "skipped: the real store violates the property in this run"
    else:
        selftest(ctx, rig)
