"""C08 -- output stream: next-message lookup correct and live under every interleaving.

Engine (DESIGN.md 3.4, 4.1, 6 "C08"):

 1. TLC exhaustively checks spec/OutStream.tla (PlusCal; one action per critical
    section of messagesMu) for all bounded in-scope programs and interleavings.
 2. model -> code: TLC-generated behaviours (simulation with a history variable
    carrying the projected post state of every step; plus the counterexample
    behaviours of the pinned-tree model Fixed = FALSE) are replayed on the REAL
    function bodies of outputstream.go under harness/vsync (copy of the file from
    the current tree, only `"sync"` rewritten, injected by -overlay) and compared
    step by step.
 3. code -> model: the harness's own DFS over vsync schedules of seeded random
    bounded programs and a long sequential random driver on the UNMODIFIED package
    record ND-JSON traces; spec/OutStreamTrace.tla evaluates the property
    predicates on every recorded real-code step (monitor, sorted-map view) and
    checks conformance with the design actions.

A VIOLATION is reported only when a property predicate fails on a recorded
real-code step (monitor).  Model/real disagreement with all predicates holding
is DRIFT; everything else that goes wrong is Inconclusive.
"""
import concurrent.futures as cf
import json
import os
import random
import re
import shutil
import tempfile
import threading

import vlib

LEVEL = "model_checking"
_LOCK = threading.Lock()
_REPORTED = set()      # signatures already reported in this run (one replay file each)


def add(ctx, key, n=1):
    with _LOCK:
        ctx.add(key, n)

PKG = "internal/outputstream"
GOPKG = "./internal/outputstream"
VSYNC_IMPORT = 'sync "github.com/robustirc/robustirc/internal/outputstream/vsync"'
VSYNC_SUPPORTED = {"RWMutex", "Mutex", "Cond", "NewCond", "Locker"}
SCHED_TEST = "^TestVerifC08Sched$"
SEQ_TEST = "^TestVerifC08Seq$"

TIERS = {
    "quick": dict(workers=8, sim_num=150, sim_depth=24, max_beh=260, max_cand=40,
                  dfs_random=8, dfs_limit=250, core_limit=400, edge_sample=600,
                  seq_short=40, seq_shortops=40, seq_long=2, seq_longops=4000,
                  par=4, small_timeout=240),
    "thorough": dict(workers=8, sim_num=2500, sim_depth=30, max_beh=5000, max_cand=400,
                     dfs_random=120, dfs_limit=800, core_limit=3000, edge_sample=0,
                     seq_short=600, seq_shortops=60, seq_long=40, seq_longops=10000,
                     par=6, small_timeout=900),
}

SIG = {
    "getnext-wrong-batch": "GetNext returned a batch that was not the smallest id > x at any instant of the call",
    "getnext-content-differs": "GetNext returned messages that differ from what was added under that id",
    "getnext-empty-without-cancel": "GetNext returned empty although its context was not cancelled",
    "getnext-empty-though-successor-throughout": "GetNext returned empty although a successor existed during the whole call",
    "getnext-parked-though-successor-exists": "GetNext stays parked in Wait (not woken) although a batch with id > x exists",
    "getnext-parked-though-cancelled-and-woken": "GetNext parked again although its context is cancelled and it was woken",
    "getnext-no-result": "GetNext finished without a result",
    "get-live-batch-not-found": "Get(id) did not find a batch that was added and not deleted",
    "get-content-differs": "Get(id) returned messages that differ from what was added under id",
    "harness-not-quiescent": None,
    "unknown-record": None,
}


# --------------------------------------------------------------------------- build
def prepare(ctx):
    """Overlays + test binaries. Returns (bin_vsync, bin_plain)."""
    src_path = os.path.join(vlib.REPO, PKG, "outputstream.go")
    if not os.path.exists(src_path):
        raise vlib.Inconclusive("missing %s" % src_path)
    with open(src_path) as fh:
        src = fh.read()
    new, n = re.subn(r'(?m)^(\s*)"sync"[ \t]*$', lambda m: m.group(1) + VSYNC_IMPORT, src)
    if n != 1:
        raise vlib.Inconclusive('rewrite of import "sync" in outputstream.go applies %d times (need exactly 1)' % n)
    used = set(re.findall(r"\bsync\.(\w+)", src))
    if not used <= VSYNC_SUPPORTED:
        raise vlib.Inconclusive("outputstream.go uses sync.%s which vsync does not provide" %
                                ", sync.".join(sorted(used - VSYNC_SUPPORTED)))
    ov_v = ctx.harness_overlay(PKG, "outputstream", extra={
        PKG + "/outputstream.go": new,
        PKG + "/vsync/vsync.go": os.path.join(vlib.HARNESS, "vsync", "vsync.go"),
    })
    ov_p = ctx.harness_overlay(PKG, "outputstream")
    bdir = ctx.sub("bin")
    with cf.ThreadPoolExecutor(2) as ex:
        f1 = ex.submit(ctx.go_build_test, GOPKG, ov_v, os.path.join(bdir, "sched.test"), "verif,vsync")
        f2 = ex.submit(ctx.go_build_test, GOPKG, ov_p, os.path.join(bdir, "seq.test"), "verif")
        return f1.result(), f2.result()


def fast_tmp(ctx):
    """Directory for the many short-lived LevelDB instances (tmpfs if available)."""
    for base in ("/dev/shm",):
        try:
            if os.path.isdir(base) and os.access(base, os.W_OK):
                return tempfile.mkdtemp(prefix="verif-c08-", dir=base)
        except OSError:
            pass
    return ctx.sub("ldb")


# --------------------------------------------------------------------------- harness runs
def split_traces(path):
    """ND-JSON output of a harness -> (list of traces (lists of dicts), summaries)."""
    traces, summaries, done = [], [], False
    for e in vlib.read_ndjson(path):
        ev = e.get("ev")
        if ev == "Done":
            done = True
        elif ev == "Summary":
            summaries.append(e)
        elif ev == "Reset":
            traces.append([e])
        elif traces:
            traces[-1].append(e)
    if not done:
        raise vlib.Inconclusive("harness output %s has no Done record (harness died)" % path)
    return traces, summaries


def run_sched(ctx, binv, programs, tmpd, par, tag):
    """Run programs (list of dicts) on the vsync harness, par processes. -> traces, summaries"""
    if not programs:
        return [], []
    chunks = [programs[i::par] for i in range(par)]
    chunks = [c for c in chunks if c]
    d = ctx.sub("sched-" + tag)

    def one(i, progs):
        pin = os.path.join(d, "in-%d.ndjson" % i)
        pout = os.path.join(d, "out-%d.ndjson" % i)
        vlib.write_ndjson(pin, progs)
        rc, out = ctx.run_bin([binv, "-test.run", SCHED_TEST, "-test.timeout", "1500s"],
                              env={"VERIF_C08_IN": pin, "VERIF_C08_OUT": pout, "VERIF_C08_TMP": tmpd},
                              timeout=1600)
        if rc != 0 or "PASS" not in out:
            raise vlib.Inconclusive("schedule harness failed (rc=%s):\n%s\n...\n%s" % (rc, out[:1500], out[-1200:]))
        return split_traces(pout)

    traces, sums = [], []
    with cf.ThreadPoolExecutor(len(chunks)) as ex:
        for tr, sm in ex.map(lambda a: one(*a), list(enumerate(chunks))):
            traces += tr
            sums += sm
    return traces, sums


def run_seq(ctx, binp, tmpd, cfg):
    d = ctx.sub("seq")
    pout = os.path.join(d, "seq.ndjson")
    rc, out = ctx.run_bin([binp, "-test.run", SEQ_TEST, "-test.timeout", "1500s"],
                          env={"VERIF_C08_SEQ_OUT": pout, "VERIF_C08_TMP": tmpd,
                               "VERIF_C08_SEQ_SHORT": cfg["seq_short"], "VERIF_C08_SEQ_SHORTOPS": cfg["seq_shortops"],
                               "VERIF_C08_SEQ_LONG": cfg["seq_long"], "VERIF_C08_SEQ_LONGOPS": cfg["seq_longops"]},
                          timeout=1600)
    if rc != 0 or "PASS" not in out:
        raise vlib.Inconclusive("sequential driver failed (rc=%s):\n%s" % (rc, out[-3000:]))
    traces, _ = split_traces(pout)
    return traces


# --------------------------------------------------------------------------- TLC on traces
def dumps(e):
    return json.dumps(e, sort_keys=True, separators=(",", ":"))


def tlc_trace(ctx, traces, conform, name):
    """One TLC run of OutStreamTrace on the concatenation of traces.
    -> dict(viol=[(trace_idx, line_in_trace, kind)], matched, total, reject=(trace_idx, line_in_trace)|None, r)"""
    lines, owner = [], []
    for ti, tr in enumerate(traces):
        for li, e in enumerate(tr):
            lines.append(dumps(e))
            owner.append((ti, li))
    text = "\n".join(lines) + "\n"
    files = {"trace.ndjson": text}
    cfgname = "OutStreamTrace.cfg" if conform else "OutStreamTrace_mon.cfg"
    if conform and traces and not traces[0][0].get("intlock", True):
        # the code under test broadcasts in InterruptGetNext without taking messagesMu
        # (probed by the harness): conformance is checked against that shape of the model
        with open(os.path.join(vlib.SPEC, "OutStreamTrace.cfg")) as fh:
            files["OutStreamTrace_nolock.cfg"] = fh.read().replace("LockedInterrupt = TRUE", "LockedInterrupt = FALSE")
        cfgname = "OutStreamTrace_nolock.cfg"
    r = ctx.tlc("OutStreamTrace", cfg=cfgname,
                workers=1, deadlock=False, files=files, name=name,
                timeout=1200, heap="3g")
    m = re.search(r'<<"MATCHED", (\d+), "OF", (\d+)>>', r.out)
    if r.timed_out or not m:
        raise vlib.Inconclusive("TLC trace validation (%s) gave no result: rc=%s\n%s" % (
            name, r.rc, "\n".join(r.out.splitlines()[-25:])))
    matched, total = int(m.group(1)), int(m.group(2))
    if total != len(lines):
        raise vlib.Inconclusive("TLC read %d records, %d were written" % (total, len(lines)))
    res = dict(viol=[], matched=matched, total=total, reject=None, r=r)
    if matched < total:
        res["reject"] = owner[matched]
        if r.invariant_violated:
            res["design_inv"] = r.invariant_violated
    else:
        vm = re.search(r'<<"VIOLSET", "(.*)">>', r.out)
        if not vm:
            raise vlib.Inconclusive("TLC trace validation (%s) printed no VIOLSET\n%s" % (
                name, "\n".join(r.out.splitlines()[-25:])))
        vs = json.loads(vm.group(1).replace('\\"', '"'))
        for v in vs:
            ti, li = owner[v["l"] - 1]
            res["viol"].append((ti, li, v["k"]))
    return res


def monitor(ctx, traces, par, tag):
    """Property predicates on every recorded step. -> list of (trace_idx, line, kind)."""
    if not traces:
        return []
    n = max(1, min(par, len(traces) // 50 + 1))
    idx = [list(range(i, len(traces), n)) for i in range(n)]
    out = []

    def one(k):
        sub = [traces[i] for i in idx[k]]
        res = tlc_trace(ctx, sub, False, "mon-%s-%d" % (tag, k))
        if res["reject"] is not None:
            raise vlib.Inconclusive("monitor-only trace validation stopped at %s" % (res["reject"],))
        return [(idx[k][ti], li, kind) for ti, li, kind in res["viol"]], res["total"]

    with cf.ThreadPoolExecutor(n) as ex:
        for v, total in ex.map(one, range(n)):
            out += v
            add(ctx, "events_validated", total)
            add(ctx, "tlc_runs")
    return out


def conform(ctx, traces, par, tag, max_reject=4):
    """Conformance with the design actions. -> list of (trace_idx, line, event, why) rejections."""
    if not traces:
        return [], 0
    n = max(1, min(par, len(traces) // 50 + 1))
    idx = [list(range(i, len(traces), n)) for i in range(n)]

    def one(k):
        rej, accepted = [], 0
        todo = list(idx[k])
        rounds = 0
        while todo:
            sub = [traces[i] for i in todo]
            res = tlc_trace(ctx, sub, True, "conf-%s-%d-%d" % (tag, k, rounds))
            add(ctx, "tlc_runs")
            if res["reject"] is None:
                accepted += len(todo)
                break
            ti, li = res["reject"]
            accepted += ti
            rej.append((todo[ti], li, traces[todo[ti]][li], res.get("design_inv")))
            todo = todo[ti + 1:]
            rounds += 1
            if rounds >= max_reject and todo:
                rej.append((todo[0], -1, {"note": "%d more traces not examined after %d rejections" % (len(todo), rounds)}, None))
                break
        return rej, accepted

    rej, acc = [], 0
    with cf.ThreadPoolExecutor(n) as ex:
        for r_, a_ in ex.map(one, range(n)):
            rej += r_
            acc += a_
    return rej, acc


# --------------------------------------------------------------------------- programs
def id_map(rng, maxid):
    """Order-preserving map model id -> real uint64 id (0 -> 0)."""
    base = rng.choice([0, 0, 1000, 2 ** 32 - 2, 2 ** 40 + 12345, 2 ** 62])
    step = rng.choice([1, 1, 3, 2 ** 20, 2 ** 33])
    return {i: (0 if i == 0 else base + i * step) for i in range(maxid + 2)}


def hist_to_program(hist, name, f):
    """TLC history -> harness replay program (per-thread op lists + schedule)."""
    nthreads = max(max(h["t"] for h in hist), max([h["arg"] for h in hist if h["a"] == "Cancel"] or [0]))
    threads = [[] for _ in range(nthreads)]
    for h in hist:
        a, t, arg = h["a"], h["t"], h["arg"]
        if a in ("W", "Wreg"):
            continue
        if a == "Add":
            op = {"op": "Add", "id": f[arg], "n": 1 + (arg * 7 + t) % 5}
        elif a in ("Delete", "Get", "GetNext"):
            op = {"op": a, "id": f[arg]}
        elif a == "Interrupt":
            op = {"op": "Interrupt"}
        elif a == "Cancel":
            op = {"op": "Cancel", "t": arg}
        else:
            raise vlib.Inconclusive("unknown action %r in TLC history" % a)
        threads[t - 1].append(op)
    return {"name": name, "threads": threads, "sched": [h["t"] for h in hist], "mode": "replay"}


def ranks_of(prog):
    ids = {0}
    for ops in prog["threads"]:
        for op in ops:
            if op["op"] in ("Add", "Delete", "Get", "GetNext"):
                ids.add(op["id"])
    return {v: i for i, v in enumerate(sorted(ids))}


def compare_replay(hist, f, prog, trace, tamper=None):
    """Step-by-step comparison of a TLC behaviour (with projected post states)
    with the harness trace. -> None or (step, field, expected, got)."""
    rk = ranks_of(prog)
    m2r = lambda i: (-1 if i == -1 else rk.get(f.get(i, -5), -7))
    steps = [e for e in trace[1:] if e["ev"] == "Step"]
    for k, h in enumerate(hist):
        if k >= len(steps):
            return (k, "missing-step", h["a"], trace[-1].get("note", ""))
        e = steps[k]
        post = h["post"]
        exp = {
            "t": h["t"], "a": h["a"], "pos": h["pos"],
            "arg": (h["arg"] if h["a"] in ("Cancel", "Interrupt", "W", "Wreg") else m2r(h["arg"])),
            "ret.k": h["ret"]["k"],
            "ret.id": (m2r(h["ret"]["id"]) if h["ret"]["k"] in ("next", "got", "miss") else None),
            "db": sorted([m2r(a), m2r(b)] for a, b in post["db"]),
            "tail": m2r(post["tail"]),
            "cache": sorted([m2r(a), m2r(b)] for a, b in post["cache"]),
            "parked": sorted(post["waiting"]),
            "holder": post["holder"],
        }
        if tamper:
            tamper(k, exp)
        got = {
            "t": e["t"], "a": e["a"], "pos": e["pos"], "arg": e["arg"],
            "ret.k": e["ret"]["k"],
            "ret.id": (e["ret"]["id"] if e["ret"]["k"] in ("next", "got", "miss") else None),
            "db": sorted([a, b] for a, b in zip(e["keys"], e["next"])),
            "tail": e["tail"],
            "cache": sorted([a, b] for a, b in zip(e["ckeys"], e["cnext"])),
            "parked": sorted(e["parked"]),
            "holder": e["holder"],
        }
        for fld in ("t", "a", "arg", "pos", "ret.k", "ret.id", "db", "tail", "cache", "parked", "holder"):
            if exp[fld] != got[fld]:
                return (k, fld, exp[fld], got[fld])
        if e["panic"] or e["bad"] or e["tailnext"] != -1:
            return (k, "panic/bad/tailnext", "", [e["panic"], e["bad"], e["tailnext"]])
    return None


def core_programs(limit):
    """Hand-written programs around the deletion races; always part of the DFS set."""
    A, D, G, N = (lambda i, n=2: {"op": "Add", "id": i, "n": n}), (lambda i: {"op": "Delete", "id": i}), \
        (lambda i: {"op": "Get", "id": i}), (lambda x: {"op": "GetNext", "id": x})
    I, C = {"op": "Interrupt"}, (lambda t: {"op": "Cancel", "t": t})
    a, b, c = 2 ** 40 + 5, 2 ** 40 + 9, 2 ** 40 + 12
    progs = [
        # reader behind the tail, tail (the only batch = oldest) deleted, next Add
        [[A(a), D(a), A(b)], [N(a)], [I]],
        # reader behind the sentinel, first batch compacted before it looks
        [[A(a), A(b), D(a)], [N(0)], [N(a)]],
        # reader behind an existing batch that is compacted after the next Add
        [[A(a), A(b), D(a), D(b)], [N(a), N(b)], [I, G(b)]],
        # cancellation and interruption
        [[A(a), D(a)], [N(a), N(0)], [C(2), I, C(2), I]],
        # x deleted before the call (tail deletion between reads), then Adds
        [[A(a), A(b), D(b), A(c), D(a)], [N(b)], [G(a), N(a)]],
        # two readers, compaction of everything
        [[A(a), A(b), D(a), D(b), A(c)], [N(0), N(a)], [N(b), I]],
        # cancellation + InterruptGetNext at every scheduling point of the reader's
        # critical sections (inner mode, see with_inner)
        [[A(a)], [N(a)], [C(2), I]],
        [[I], [N(0)], [C(2), I]],
        [[A(a)], [N(0), N(a)], [C(2), I, C(2), I]],
        [[C(3), I], [N(0)], [N(0)]],
    ]
    return [with_inner({"name": "core-%d" % i, "threads": t, "mode": "dfs", "limit": limit, "seed": 1000 + i})
            for i, t in enumerate(progs)]


def with_inner(prog):
    """Programs that cancel a context are run with the scheduling points inside the
    critical sections switched on (before every cacheMu acquisition; the entry of
    Cond.Wait always is one): a cancellation -- and InterruptGetNext if the code under
    test broadcasts lock-free -- can then land between the reader's lookups, its
    context check and its registration as a waiter."""
    if any(op["op"] == "Cancel" for ops in prog["threads"] for op in ops):
        prog["inner"] = True
    return prog


def random_program(rng, k, limit):
    """3 threads x <= 4 ops: a writer (Adds increasing, Deletes mostly oldest-first),
    a reader, and a mixed thread."""
    f = id_map(rng, 6)
    nadd = rng.randint(1, 3)
    adds = [f[i] for i in range(1, nadd + 1)]
    gap = adds[0] - 1 if adds[0] > 1 else adds[-1] + 1
    w, pending = [], list(adds)
    livew = []
    while len(w) < 4 and (pending or livew):
        if pending and (not livew or rng.random() < 0.6):
            i = pending.pop(0)
            w.append({"op": "Add", "id": i, "n": rng.randint(1, 5)})
            livew.append(i)
        else:
            r = rng.random()
            if r < 0.65:
                i = livew.pop(0)
            elif r < 0.8:
                i = livew.pop()
            elif r < 0.9:
                i = gap
            else:
                i = livew.pop(rng.randrange(len(livew)))
            w.append({"op": "Delete", "id": i})
    pos = lambda: rng.choice([0] + adds + adds + [gap])
    rd = [{"op": "GetNext", "id": pos()} for _ in range(rng.randint(1, 2))]
    if rng.random() < 0.3:
        rd.insert(rng.randrange(len(rd) + 1), {"op": "Get", "id": pos()})
    mx = []
    for _ in range(rng.randint(1, 3)):
        r = rng.random()
        if r < 0.3:
            mx.append({"op": "GetNext", "id": pos()})
        elif r < 0.5:
            mx.append({"op": "Interrupt"})
        elif r < 0.7:
            mx.append({"op": "Cancel", "t": rng.choice([2, 3])})
        elif r < 0.85:
            mx.append({"op": "Delete", "id": rng.choice(adds + [gap])})
        else:
            mx.append({"op": "Get", "id": pos()})
    if any(o["op"] == "Cancel" for o in mx) and rng.random() < 0.7:
        mx.append({"op": "Interrupt"})
    return with_inner({"name": "rnd-%d" % k, "threads": [w, rd, mx], "mode": "dfs", "limit": limit,
                       "seed": rng.randrange(1 << 30)})


# --------------------------------------------------------------------------- verdicts
def signature_of(kind, trace, li):
    e = trace[li]
    if kind == "panic":
        p = e.get("panic", "")
        if "nil pointer" in p and e.get("a") in ("W", "GetNext"):
            return "getnext-nil-deref-current-deleted", "GetNext dereferences nil in the wait loop after the batch it waits behind was deleted: %s" % p
        return "%s-panics" % e.get("a", "op").lower(), "%s panicked: %s" % (e.get("a"), p)
    what = SIG.get(kind)
    if what is None:
        return None, kind
    if kind == "getnext-parked-though-successor-exists" and \
            any(n != -1 and n not in e.get("keys", []) for n in e.get("next", [])):
        # the shape of finding F10b: some batch's NextID points to a deleted batch
        return "getnext-parked-behind-dangling-nextid", what + " (a NextID in the store points to a deleted batch)"
    return kind, what


def replay_object(trace, programs, li, kind):
    name = trace[0].get("prog", "")
    last = trace[-1]
    obj = {"kind": kind, "program": programs.get(name), "prog_name": name,
           "sched": last.get("sched"), "ids": trace[0].get("ids"), "failing_record": li,
           "events": [{k: e[k] for k in ("ev", "t", "a", "arg", "pos", "ret", "panic", "keys", "next", "parked") if k in e}
                      for e in trace[:li + 1]][-14:]}
    if obj["program"] is not None and obj["sched"]:
        p = dict(obj["program"])
        p.update(mode="replay", sched=obj["sched"])
        obj["program"] = p
    return obj


def judge(ctx, traces, viols, programs, source):
    """Monitor findings -> violations (one per signature and source) / machinery problems."""
    bad_traces = set()
    seen = {}
    for ti, li, kind in sorted(viols):
        bad_traces.add(ti)
        sig, what = signature_of(kind, traces[ti], li)
        if sig is None:
            raise vlib.Inconclusive("harness problem in a recorded trace (%s): %s" % (what, dumps(traces[ti][li])[:400]))
        ctx.add("predicate_failures")
        if sig in seen:
            seen[sig] += 1
            continue
        seen[sig] = 1
        if sig in _REPORTED:
            continue
        _REPORTED.add(sig)
        ctx.violation(sig, "%s [%s]" % (what, source), replay_object(traces[ti], programs, li, kind))
    for sig, n in seen.items():
        ctx.note("%s: %s in %d recorded step(s)" % (source, sig, n))
    return bad_traces


def report_rejections(ctx, rej, traces, source):
    for ti, li, ev, dinv in rej:
        if li < 0:
            ctx.drift("%s: %s" % (source, ev.get("note")))
            continue
        ctx.drift("%s: real code leaves the design model at record %d of trace %s (%s): %s" % (
            source, li, traces[ti][0].get("prog"),
            ("design invariant %s" % dinv) if dinv else "no design action explains it",
            dumps({k: ev.get(k) for k in ("t", "a", "arg", "pos", "ret", "keys", "next", "tail", "ckeys", "cnext", "parked", "runnable", "bad")})[:500]))


def validate(ctx, traces, source, par, do_conform=True):
    """(thread safe, no verdicts) monitor on everything, conformance on the traces
    without predicate failures."""
    viols = monitor(ctx, traces, par, source)
    bad = {ti for ti, _, _ in viols}
    good = [traces[i] for i in range(len(traces)) if i not in bad and traces[i][0].get("note") != "seq"]
    rej, nconf = conform(ctx, good, par, source) if do_conform else ([], 0)
    return dict(traces=traces, viols=viols, bad=bad, good=good, rej=rej, nconf=nconf)


def apply_validation(ctx, res, programs, source):
    """(main thread) verdicts of a validated stage."""
    judge(ctx, res["traces"], res["viols"], programs, source)
    report_rejections(ctx, res["rej"], res["good"], source)
    ctx.add("traces_conforming", res["nconf"])
    ctx.add("traces_validated_against_impl", len(res["traces"]))
    return res["bad"]


# --------------------------------------------------------------------------- TLC design runs
def parse_printed(r, tag):
    out = []
    for m in re.finditer(r'<<"%s", "(.*)">>' % tag, r.out):
        out.append(json.loads(m.group(1).replace('\\"', '"')))
    return out


def design_small(ctx, cfg, coverage=False):
    r = ctx.tlc("OutStream", cfg="OutStream_small.cfg", workers=cfg["workers"], timeout=cfg["small_timeout"],
                deadlock=True, coverage=coverage, name="design-small", heap="6g")
    if not r.ok:
        raise vlib.Inconclusive("TLC on OutStream_small.cfg did not pass: rc=%s timed_out=%s violated=%s\n%s" % (
            r.rc, r.timed_out, r.invariant_violated, "\n".join(r.out.splitlines()[-30:])))
    return r


# --------------------------------------------------------------------------- self test
def selftest(ctx, binv, tmpd, full):
    """The binding binds: corrupted traces must be rejected / flagged.
    On a tree that violates the property the baseline trace may already be
    unusable; that is reported in the result, not raised."""
    try:
        return _selftest(ctx, binv, tmpd, full)
    except (StopIteration, KeyError, IndexError) as ex:
        return {"baseline_accepted": False, "error": "baseline trace unusable on this tree: %r" % (ex,)}


def _selftest(ctx, binv, tmpd, full):
    res = {}
    prog = {"name": "selftest", "mode": "replay",
            "threads": [[{"op": "Add", "id": 7, "n": 2}, {"op": "Add", "id": 9, "n": 1}, {"op": "Delete", "id": 7}],
                        [{"op": "GetNext", "id": 7}, {"op": "Get", "id": 9}],
                        [{"op": "Cancel", "t": 2}]],
            "sched": [1, 2, 2, 2, 1, 2, 1, 2, 3]}
    traces, _ = run_sched(ctx, binv, [prog], tmpd, 1, "selftest")
    base = traces[0]
    r0m = tlc_trace(ctx, [base], False, "st-base-mon")
    r0c = tlc_trace(ctx, [base], True, "st-base-conf")
    res["baseline_accepted"] = (not r0m["viol"]) and r0c["reject"] is None
    cp = lambda: json.loads(json.dumps(base))
    # (a) corrupt one NextID link of a recorded state
    t = cp()
    k = next(i for i, e in enumerate(t) if e["ev"] == "Step" and e["a"] == "Add" and len(e["next"]) >= 2)
    t[k]["next"][0] = -1
    res["corrupt_link_rejected"] = tlc_trace(ctx, [t], True, "st-a")["reject"] is not None
    # (b) drop one event
    t = cp()
    k = next(i for i, e in enumerate(t) if e["ev"] == "Step" and e["a"] == "Add")
    del t[k]
    res["dropped_event_rejected"] = tlc_trace(ctx, [t], True, "st-b")["reject"] is not None
    # (c) wrong batch returned by GetNext
    t = cp()
    k = next(i for i, e in enumerate(t) if e["ev"] == "Step" and e["ret"]["k"] == "next")
    t[k]["ret"]["id"] = 0
    kinds = {v[2] for v in tlc_trace(ctx, [t], False, "st-c")["viol"]}
    res["wrong_batch_flagged"] = "getnext-wrong-batch" in kinds
    # (d) reader reported parked although a successor exists
    t = cp()
    k = next(i for i, e in enumerate(t) if e["ev"] == "Step" and e["ret"]["k"] == "next")
    t[k]["ret"] = {"k": "none", "id": 0, "exact": False}
    t[k]["pos"] = "parked"
    for e in t[k:]:
        e["parked"] = [2]
        e["runnable"] = []
    t = t[:k + 1] + [x for x in t[k + 1:] if x["ev"] == "Quiescent"]
    kinds = {v[2] for v in tlc_trace(ctx, [t], False, "st-d")["viol"]}
    res["parked_with_successor_flagged"] = "getnext-parked-though-successor-exists" in kinds
    # (e) Get content mismatch / panic
    t = cp()
    k = next(i for i, e in enumerate(t) if e["ev"] == "Step" and e["ret"]["k"] == "got")
    t[k]["ret"]["exact"] = False
    t[1]["panic"] = "boom"
    kinds = {v[2] for v in tlc_trace(ctx, [t], False, "st-e")["viol"]}
    res["content_and_panic_flagged"] = {"get-content-differs", "panic"} <= kinds
    # (h) cancelled, then InterruptGetNext, but the reader is reported parked again
    prog2 = {"name": "selftest-h", "mode": "replay",
             "threads": [[{"op": "Interrupt"}], [{"op": "GetNext", "id": 0}], [{"op": "Cancel", "t": 2}]],
             "sched": [2, 2, 2, 3, 1, 2]}
    tr2, _ = run_sched(ctx, binv, [prog2], tmpd, 1, "selftest-h")
    t = json.loads(json.dumps(tr2[0]))
    ok_base = not tlc_trace(ctx, [t], False, "st-h0")["viol"] and t[-2]["ret"]["k"] == "empty"
    t[-2]["ret"] = {"k": "none", "id": 0, "exact": False}
    t[-2]["pos"] = "parked"
    t[-2]["parked"], t[-1]["parked"] = [2], [2]
    kinds = {v[2] for v in tlc_trace(ctx, [t], False, "st-h")["viol"]}
    res["cancelled_and_woken_but_parked_flagged"] = ok_base and "getnext-parked-though-cancelled-and-woken" in kinds
    # (f) replay comparison against a deliberately wrong projection
    r = ctx.tlc("OutStream", cfg="OutStream_sim.cfg", workers=1, simulate="num=3", depth=12,
                deadlock=False, name="st-sim", timeout=120, seed=7)
    behs = parse_printed(r, "BEHAVIOUR")
    if not behs:
        raise vlib.Inconclusive("selftest: TLC simulation printed no behaviour")
    hist = behs[0]
    f = {i: i * 3 for i in range(8)}
    p = hist_to_program(hist, "st-f", f)
    tr, _ = run_sched(ctx, binv, [p], tmpd, 1, "selftest-f")
    honest = compare_replay(hist, f, p, tr[0])

    def tamper(k, exp):
        if k == len(hist) - 1:
            exp["tail"] = exp["tail"] + 1
    res["wrong_projection_detected"] = compare_replay(hist, f, p, tr[0], tamper) is not None
    res["replay_compare_baseline"] = "agree" if honest is None else "differs at step %d field %s" % honest[:2]
    if full:
        # (g) the pinned-tree model must violate liveness (the liveness check is not vacuous)
        txt = open(os.path.join(vlib.SPEC, "OutStream_live.cfg")).read().replace("Fixed = TRUE", "Fixed = FALSE")
        r = ctx.tlc("OutStream", cfg="st_live_unfixed.cfg", workers=4, timeout=600, deadlock=False,
                    files={"st_live_unfixed.cfg": txt}, name="st-live")
        res["unfixed_model_violates_liveness"] = bool(re.search(r"Temporal propert\w+ .*violated", r.out))
    return res


# --------------------------------------------------------------------------- replay mode
def replay_mode(ctx, binv, tmpd):
    with open(ctx.replay) as fh:
        obj = json.load(fh)
    rp = obj.get("replay", obj)
    prog = rp.get("program")
    if not prog:
        raise vlib.Inconclusive("replay file has no program (sequential driver findings are re-run with the same VERIF_SEED)")
    traces, _ = run_sched(ctx, binv, [prog], tmpd, 1, "replay")
    for e in traces[0]:
        ctx.log(dumps({k: e.get(k) for k in ("ev", "t", "a", "arg", "pos", "ret", "panic", "keys", "next", "parked")}))
    apply_validation(ctx, validate(ctx, traces, "replay", 1), {prog["name"]: prog}, "replay")


# --------------------------------------------------------------------------- main
def run(ctx):
    cfg = TIERS["quick" if ctx.quick else "thorough"]
    rng = random.Random(ctx.seed * 1000003 + 8)
    ctx.assumptions += [
        "TLC, SANY, pcal, the Go toolchain with -overlay, goleveldb",
        "harness/vsync: running goroutines one at a time and yielding before every acquisition of messagesMu, on entry to "
        "Cond.Wait (lock held, not yet a waiter) and after registration explores all behaviours of the real RWMutex/Cond at "
        "critical-section granularity; lock-free events (context cancellation; Broadcast without messagesMu if the code "
        "under test does that, observed at run time) are additionally interleaved before every cacheMu acquisition "
        "inside the critical sections in the programs that cancel",
        "the projection in harness/outputstream (LevelDB iterator, lastseen, messagesCache, vsync positions) and the Go "
        "comparison of returned messages with the added ones",
        "bounded: TLC exhaustive for ids 1..3, 2 readers, 1 adder, 1 deleter, 1 getter/interrupter/canceller; larger programs by "
        "simulation, DFS over schedules of 3-thread programs, and random sequential programs",
        "scope: GetNext(x) only for x <= newest id ever added (a position ahead of the stream is answered with older "
        "batches by design, api.getMessages guards it); Add with >= 1 message",
    ]
    tmpd = fast_tmp(ctx)
    try:
        binv, binp = prepare(ctx)
        ctx.log("harness built")
        if ctx.replay:
            return replay_mode(ctx, binv, tmpd)
        if ctx.selftest:
            res = selftest(ctx, binv, tmpd, True)
            ctx.cov["binding_selftest"] = res
            for k, v in res.items():
                ctx.log("selftest %-36s %s" % (k, v))
            if not all(v is True or v == "agree" for v in res.values()):
                raise vlib.Inconclusive("binding self-test failed: %s" % res)
            return
        _run(ctx, cfg, rng, binv, binp, tmpd)
    finally:
        if tmpd.startswith("/dev/shm"):
            shutil.rmtree(tmpd, ignore_errors=True)


def stage_tlc_replay(ctx, cfg, rng, binv, tmpd):
    """Behaviours out of TLC (simulation of the repaired model with projected post
    states; counterexamples of the pinned-tree model), replayed on the real code."""
    r_uf = ctx.tlc("OutStream", cfg="OutStream_unfixed.cfg", workers=1, timeout=300, deadlock=False, name="design-unfixed")
    if not r_uf.finished or r_uf.invariant_violated or r_uf.error:
        raise vlib.Inconclusive("TLC on OutStream_unfixed.cfg failed:\n" + "\n".join(r_uf.out.splitlines()[-20:]))
    cands = parse_printed(r_uf, "CANDIDATE")
    cands.sort(key=lambda h: (len(h), json.dumps(h)))
    cands = cands[:cfg["max_cand"]]
    # ... and of the model whose InterruptGetNext broadcasts lock-free (lost wake-up)
    r_nl = ctx.tlc("OutStream", cfg="OutStream_nolock.cfg", workers=1, timeout=300, deadlock=False, name="design-nolock")
    if not r_nl.finished or r_nl.invariant_violated or r_nl.error:
        raise vlib.Inconclusive("TLC on OutStream_nolock.cfg failed:\n" + "\n".join(r_nl.out.splitlines()[-20:]))
    cands_nl = parse_printed(r_nl, "CANDIDATE")
    cands_nl.sort(key=lambda h: (len(h), json.dumps(h)))
    if not cands_nl:
        raise vlib.Inconclusive("OutStream_nolock.cfg printed no candidate")
    cands += cands_nl[:cfg["max_cand"]]
    r_sim = ctx.tlc("OutStream", cfg="OutStream_sim.cfg", workers=1, simulate="num=%d" % cfg["sim_num"],
                    depth=cfg["sim_depth"], deadlock=False, name="design-sim", timeout=600)
    if not r_sim.ok:
        raise vlib.Inconclusive("TLC simulation failed: violated=%s\n%s" % (
            r_sim.invariant_violated, "\n".join(r_sim.out.splitlines()[-20:])))
    behs, seenp = [], set()
    for h in parse_printed(r_sim, "BEHAVIOUR"):
        key = json.dumps([[e["t"], e["a"], e["arg"]] for e in h[:-1]])
        if key in seenp:
            continue
        seenp.add(key)
        behs.append(h)
    behs.sort(key=json.dumps)
    rng.shuffle(behs)
    behs = behs[:cfg["max_beh"]]
    if not behs or not cands:
        raise vlib.Inconclusive("TLC produced no behaviours (%d) / candidates (%d)" % (len(behs), len(cands)))
    programs, expect, plist = {}, {}, []
    for i, h in enumerate(behs):
        f = id_map(rng, 6)
        p = hist_to_program(h, "beh-%d" % i, f)
        programs[p["name"]] = p
        expect[p["name"]] = (h, f)
        plist.append(p)
    for i, h in enumerate(cands):
        f = id_map(rng, 6)
        p = hist_to_program(h, "cand-%d" % i, f)
        programs[p["name"]] = p
        plist.append(p)
    traces, _ = run_sched(ctx, binv, plist, tmpd, cfg["par"], "replay")
    if len(traces) != len(plist):
        raise vlib.Inconclusive("replayed %d programs, got %d traces" % (len(plist), len(traces)))
    ctx.log("replayed %d TLC behaviours + %d defect-model candidates (pinned tree, lock-free Interrupt) on the real code" % (
        len(behs), len(cands)))
    res = validate(ctx, traces, "tlc-replay", cfg["par"])
    res.update(programs=programs, expect=expect, nbeh=len(behs), ncand=len(cands), r_uf=r_uf)
    return res


def stage_edges(ctx, cfg, rng, binv, tmpd):
    """One behaviour per transition of the complete state graph of the tiny instance
    OutStream_edges.cfg (all of them in the thorough tier, a seeded sample in the
    quick tier), replayed on the real code and compared step by step."""
    r = ctx.tlc("OutStream", cfg="OutStream_edges.cfg", workers=1, timeout=600, deadlock=False, name="design-edges", heap="4g")
    if not r.ok:
        raise vlib.Inconclusive("TLC on OutStream_edges.cfg failed:\n" + "\n".join(r.out.splitlines()[-20:]))
    edges = parse_printed(r, "EDGE")
    if len(edges) < 1000:
        raise vlib.Inconclusive("edge cover: only %d behaviours printed" % len(edges))
    total = len(edges)
    edges.sort(key=json.dumps)
    if cfg["edge_sample"] and cfg["edge_sample"] < total:
        edges = rng.sample(edges, cfg["edge_sample"])
    programs, expect, plist = {}, {}, []
    for i, h in enumerate(edges):
        f = id_map(rng, 4)
        p = hist_to_program(h, "edge-%d" % i, f)
        programs[p["name"]] = p
        expect[p["name"]] = (h, f)
        plist.append(p)
    traces, _ = run_sched(ctx, binv, plist, tmpd, cfg["par"], "edges")
    if len(traces) != len(plist):
        raise vlib.Inconclusive("edge cover: replayed %d programs, got %d traces" % (len(plist), len(traces)))
    ctx.log("edge cover: %d of %d transitions of the tiny instance replayed on the real code" % (len(plist), total))
    res = validate(ctx, traces, "edge-cover", cfg["par"], do_conform=False)
    res.update(programs=programs, expect=expect, total=total, r=r)
    return res


def compare_stage(ctx, res, bad, source):
    """(main thread) model post states vs real-code projection, step by step."""
    ndiv = 0
    for ti, tr in enumerate(res["traces"]):
        name = tr[0]["prog"]
        if name not in res["expect"] or ti in bad:
            continue
        h, f = res["expect"][name]
        d = compare_replay(h, f, res["programs"][name], tr)
        ctx.add("model_steps_compared", len(h))
        if d is not None:
            ndiv += 1
            ctx.drift("%s %s: step %d field %s: model %s, real code %s" % (source, name, d[0], d[1], d[2], d[3]))
    return ndiv


def stage_dfs(ctx, cfg, rng, binv, tmpd):
    dprogs = core_programs(cfg["core_limit"]) + [random_program(rng, k, cfg["dfs_limit"]) for k in range(cfg["dfs_random"])]
    traces, sums = run_sched(ctx, binv, dprogs, tmpd, cfg["par"], "dfs")
    ctx.log("DFS/random walks: %d programs, %d schedules (%d programs exhaustively)" % (
        len(dprogs), len(traces), sum(1 for s in sums if s.get("exhaustive"))))
    res = validate(ctx, traces, "dfs", cfg["par"])
    res.update(programs={p["name"]: p for p in dprogs}, sums=sums)
    return res


def stage_seq(ctx, cfg, binp, tmpd):
    traces = run_seq(ctx, binp, tmpd, cfg)
    nops = sum(1 for tr in traces for e in tr if e["ev"] == "Step" and e["a"] != "Cancel")
    ctx.log("sequential driver on the unmodified package: %d programs, %d operations" % (len(traces), nops))
    res = validate(ctx, traces, "seq", cfg["par"])
    res.update(nops=nops)
    return res


def _run(ctx, cfg, rng, binv, binp, tmpd):
    pool = cf.ThreadPoolExecutor(9)
    rng1, rng2, rng3 = random.Random(rng.random()), random.Random(rng.random()), random.Random(rng.random())
    # design runs and the stages exercising the real code run side by side
    f_small = pool.submit(design_small, ctx, cfg, not ctx.quick)
    f_live = f_big = None
    if not ctx.quick:
        f_big = pool.submit(ctx.tlc, "OutStream", cfg="OutStream_thorough.cfg", workers=8, timeout=1500,
                            deadlock=False, name="design-thorough", heap="8g")
        f_live = pool.submit(ctx.tlc, "OutStream", cfg="OutStream_live.cfg", workers=4, timeout=1500,
                             deadlock=False, name="design-live", heap="6g")
    f_rep = pool.submit(stage_tlc_replay, ctx, cfg, rng1, binv, tmpd)
    f_dfs = pool.submit(stage_dfs, ctx, cfg, rng2, binv, tmpd)
    f_edge = pool.submit(stage_edges, ctx, cfg, rng3, binv, tmpd)
    f_seq = pool.submit(stage_seq, ctx, cfg, binp, tmpd)
    f_self = pool.submit(selftest, ctx, binv, tmpd, False)
    futures = [f_small, f_rep, f_dfs, f_edge, f_seq, f_self] + ([f_live, f_big] if f_live else [])
    try:
        cf.wait(futures)
        for f in futures:
            f.result()      # re-raise machinery failures
    finally:
        pool.shutdown()

    # ---- verdicts, in a fixed order (main thread)
    # model -> code
    res = f_rep.result()
    ctx.cov["tlc_behaviours"] = res["nbeh"]
    ctx.cov["tlc_unfixed_candidates"] = res["ncand"]
    ctx.add("states", res["r_uf"].distinct)
    ctx.add("transitions", res["r_uf"].generated)
    ctx.add("tlc_runs", 3)
    traces, programs = res["traces"], res["programs"]
    ctx.cov["interrupt_takes_lock_probed"] = bool(traces[0][0].get("intlock", True))
    ctx.cov["schedules_replayed"] = len(traces)
    bad = apply_validation(ctx, res, programs, "tlc-replay")
    ctx.cov["replay_divergences"] = compare_stage(ctx, res, bad, "tlc-replay")
    for tr in traces[:2]:
        ctx.sample({"prog": programs[tr[0]["prog"]]["threads"], "sched": programs[tr[0]["prog"]]["sched"],
                    "steps": ["%s:%s(%s)->%s/%s" % (e["t"], e["a"], e["arg"], e["pos"], e["ret"]["k"]) for e in tr if e["ev"] == "Step"]})

    # model -> code: edge cover of the tiny instance
    res = f_edge.result()
    ctx.add("states", res["r"].distinct)
    ctx.add("transitions", res["r"].generated)
    ctx.add("tlc_runs")
    ctx.add("schedules_replayed", len(res["traces"]))
    bad = apply_validation(ctx, res, res["programs"], "edge-cover")
    ctx.cov["edge_cover"] = {"transitions_in_graph": res["total"], "states_in_graph": res["r"].distinct,
                             "transitions_replayed": len(res["traces"]),
                             "divergences": compare_stage(ctx, res, bad, "edge-cover")}

    # code -> model: DFS over schedules
    res = f_dfs.result()
    ctx.cov["dfs_programs"] = len(res["programs"])
    ctx.cov["dfs_programs_exhaustive"] = sum(1 for s_ in res["sums"] if s_.get("exhaustive"))
    ctx.cov["dfs_schedules"] = len(res["traces"])
    ctx.add("schedules_replayed", len(res["traces"]))
    apply_validation(ctx, res, res["programs"], "dfs")
    if res["traces"]:
        tr = res["traces"][-1]
        ctx.sample({"dfs_prog": res["programs"][tr[0]["prog"]]["threads"], "sched": tr[-1].get("sched")})

    # code -> model: sequential driver on the unmodified package
    res = f_seq.result()
    ctx.cov["seq_programs"] = len(res["traces"])
    ctx.cov["seq_ops"] = res["nops"]
    apply_validation(ctx, res, {}, "seq")

    # binding self-test
    st = f_self.result()
    ctx.cov["binding_selftest"] = st
    if not all(v is True or v == "agree" for v in st.values()):
        if not ctx.violations:
            raise vlib.Inconclusive("binding self-test failed: %s" % st)
        ctx.note("binding self-test not clean on this tree (it violates the property): %s" % st)

    # design runs
    r = f_small.result()
    ctx.add("states", r.distinct)
    ctx.add("transitions", r.generated)
    ctx.add("tlc_runs")
    ctx.cov["design_small"] = {"distinct": r.distinct, "generated": r.generated, "depth": r.depth}
    ctx.log("OutStream_small.cfg: %d distinct states, %d generated, depth %d: all invariants hold" % (
        r.distinct, r.generated, r.depth))
    if not ctx.quick:
        # expected zero-hit lines: the Crash branch of W (pinned-tree defect, excluded by
        # Fixed = TRUE, exercised by OutStream_unfixed.cfg) and PlusCal's Terminating
        ctx.cov["coverage_zero"] = [z for z in r.coverage_zero()][:20]
        rb = f_big.result()
        if not rb.ok:
            raise vlib.Inconclusive("TLC on OutStream_thorough.cfg did not pass: violated=%s timed_out=%s\n%s" % (
                rb.invariant_violated, rb.timed_out, "\n".join(rb.out.splitlines()[-20:])))
        ctx.add("states", rb.distinct)
        ctx.add("transitions", rb.generated)
        ctx.add("tlc_runs")
        ctx.cov["design_thorough"] = {"distinct": rb.distinct, "generated": rb.generated, "depth": rb.depth}
        ctx.log("OutStream_thorough.cfg: %d distinct states, depth %d: all invariants hold" % (rb.distinct, rb.depth))
        rl = f_live.result()
        if not rl.ok:
            raise vlib.Inconclusive("TLC on OutStream_live.cfg did not pass: violated=%s timed_out=%s\n%s" % (
                rl.invariant_violated, rl.timed_out, "\n".join(rl.out.splitlines()[-20:])))
        ctx.add("states", rl.distinct)
        ctx.add("transitions", rl.generated)
        ctx.add("tlc_runs")
        ctx.cov["design_live"] = {"distinct": rl.distinct, "properties": ["Live", "CancelReturns"]}
        ctx.log("OutStream_live.cfg: Live, CancelReturns hold under FairSpec (%d distinct states)" % rl.distinct)
