"""C02 -- compaction, snapshot and restore never change the replicated state.

FSM.tla (exhaustive + simulation) -> every transition of the small graphs and
seeded simulated behaviours are executed on the REAL FSM (LevelDB raftlog and
irclog, OutputStream, raft.FileSnapshotStore) -> after every step the property
predicates P1-P4 (DESIGN 6) are judged against a reference instance that never
snapshots, and the recorded projections are validated by TLC (FSMTrace.tla)
with the property invariants evaluated on every recorded state.
"""
import concurrent.futures
import json
import os
import random
import time

import vlib
from checks import fsm_common as F

LEVEL = "model_checking"


def H(a, i=0, e=None, now=0):
    return {"a": a, "i": i, "now": now, "e": e or F._e("none", "none", 0, 0, 0, 0)}


def known_shapes():
    """Schedules of the shapes DESIGN 7 lists (F2, F3) and the crash points the task names.
    They are ordinary behaviours of FSM.tla; kept explicit so that they are replayed with every seed."""
    pre = F.PRELUDES["PreludeSess"]
    line = lambda ts, i: F._e("cmd", "line", ts, 1, i, 0)
    cfg = lambda ts, x: F._e("cmd", "config", ts, 0, 0, x)
    raft = F._e("raft", "none", 0, 0, 0, 0)
    A = lambda i, e: H("Apply", i, e)
    shapes = {}
    # F2: a snapshot folds every stored entry; more entries; next snapshot; restart
    shapes["fold-all-then-snapshot-restart"] = [
        A(1, pre[0]), A(2, line(0, 2)), A(3, line(0, 3)), H("SnapshotTake", now=70), H("PersistOK"),
        A(4, line(0, 4)), A(5, line(0, 5)), H("SnapshotTake", now=70), H("PersistOK"), H("Restart")]
    # F2 with a raft-internal entry between the folded prefix and the next command
    shapes["fold-all-gap-then-snapshot-restart"] = [
        A(1, pre[0]), A(2, line(0, 2)), H("SnapshotTake", now=70), H("PersistOK"),
        A(3, raft), A(4, line(0, 4)), A(5, line(6, 5)), H("SnapshotTake", now=64), H("PersistOK"), H("Restart")]
    # F2 after a restore whose snapshot retained no entries
    shapes["restore-empty-retained-then-snapshot"] = [
        A(1, pre[0]), A(2, line(0, 2)), H("SnapshotTake", now=70), H("PersistOK"), H("Restart"),
        A(3, raft), A(4, line(0, 4)), H("SnapshotTake", now=70), H("PersistOK"), H("Restore"), H("Restart")]
    # leading raft-internal entry: first command index is 2
    shapes["leading-gap"] = [
        A(1, pre[0]), A(2, raft), A(3, line(0, 3)), A(4, line(6, 4)), H("SnapshotTake", now=64), H("PersistOK"),
        H("SnapshotTake", now=70), H("PersistOK"), H("Restart")]
    # persist failure, repeated snapshot, crash between Snapshot()'s deletions and Persist
    shapes["persist-fail-then-repeat"] = [
        A(1, pre[0]), A(2, line(0, 2)), A(3, line(6, 3)), H("SnapshotTake", now=64), H("PersistFail"),
        H("SnapshotTake", now=64), H("PersistOK"), A(4, line(6, 4)), H("SnapshotTake", now=70), H("Restart")]
    shapes["crash-after-deletions-no-snapshot"] = [
        A(1, pre[0]), A(2, line(0, 2)), A(3, line(6, 3)), H("SnapshotTake", now=64), H("Restart"),
        H("SnapshotTake", now=64), H("PersistOK"), H("Restart")]
    # F3: configured expiration 900 s folded into the snapshot; restart; next snapshot
    shapes["expiration-after-restart"] = [
        A(1, pre[0]), A(2, cfg(0, 90)), A(3, line(30, 3)), A(4, line(30, 4)), H("SnapshotTake", now=95), H("PersistOK"),
        H("Restart"), H("SnapshotTake", now=95), H("PersistOK"), H("Restart")]
    # F3: Snapshot() folds an old config entry while a newer one is in force
    shapes["expiration-after-folding-old-config"] = [
        A(1, pre[0]), A(2, cfg(0, 1)), A(3, cfg(30, 90)), A(4, line(30, 4)), H("SnapshotTake", now=95), H("PersistOK"),
        H("SnapshotTake", now=95), H("PersistOK"), H("Restart")]
    # F3: live restore keeps whatever expiration the FSM had
    shapes["expiration-after-live-restore"] = [
        A(1, pre[0]), A(2, cfg(0, 90)), A(3, line(30, 3)), H("SnapshotTake", now=95), H("PersistOK"),
        A(4, cfg(30, 1)), H("Restore"), H("SnapshotTake", now=95), H("PersistOK"), H("Restart")]
    # CreateSession refused at MaxSessions inside the folded range: two snapshots on the same
    # irclog (the second starts from the state the first filed), then live restore and restart
    lim = lambda ts, n: F._e("cmd", "config", ts, 0, 0, 0, n)
    create = lambda ts: F._e("cmd", "create", ts, 0, 0, 0)
    shapes["refused-create-folded-then-second-snapshot"] = [
        A(1, pre[0]), A(2, lim(0, 1)), A(3, create(0)), A(4, line(4, 4)), H("SnapshotTake", now=64), H("PersistOK"),
        A(5, create(4)), A(6, line(4, 6)), H("SnapshotTake", now=70), H("PersistOK"), H("Restore"), H("Restart")]
    shapes["refused-create-at-the-cut"] = [
        A(1, pre[0]), A(2, lim(0, 1)), A(3, line(0, 3)), A(4, create(4)), A(5, line(4, 5)), H("SnapshotTake", now=64),
        H("PersistOK"), H("SnapshotTake", now=70), H("PersistOK"), H("Restart"), A(6, create(4)), H("Restore")]
    shapes["refused-create-last-folded"] = [
        A(1, pre[0]), A(2, lim(0, 1)), A(3, create(0)), H("SnapshotTake", now=64), H("PersistFail"),
        A(4, line(4, 4)), H("SnapshotTake", now=64), H("PersistOK"), A(5, create(0)), H("SnapshotTake", now=70), H("PersistOK"),
        H("Restart")]
    shapes["limit-raised-after-refusal"] = [
        A(1, pre[0]), A(2, lim(0, 1)), A(3, create(0)), A(4, lim(0, 2)), A(5, create(0)), A(6, F._e("cmd", "line", 4, 5, 6, 0)),
        H("SnapshotTake", now=64), H("PersistOK"), H("SnapshotTake", now=70), H("PersistOK"), H("Restore"), H("Restart")]
    return shapes


def migration_shapes():
    """The encoding migration of a node (JSON life -> restart as a protobuf node), as behaviours of FSM.tla
    with InitEnc = "json"; replayed with every seed."""
    pre = F.PRELUDES["PreludeSess"]
    line = lambda ts, i: F._e("cmd", "line", ts, 1, i, 0)
    cfg = lambda ts, x: F._e("cmd", "config", ts, 0, 0, x)
    raft = F._e("raft", "none", 0, 0, 0, 0)
    A = lambda i, e: H("Apply", i, e)
    M = dict(H("RestartEnc"), enc="proto")
    shapes = {}
    # no snapshot: both stores converted, the whole converted log replayed; then snapshot + restore as protobuf
    shapes["convert-replay-snapshot-restore"] = [
        A(1, pre[0]), A(2, line(0, 2)), A(3, raft), A(4, line(6, 4)), M, H("SnapshotTake", now=64), H("PersistOK"),
        H("Restore"), A(5, line(6, 5)), H("Restart")]
    # JSON snapshot restored by the protobuf node at its start (decodeJson, conversion of the refilled irclog),
    # the protobuf snapshot starts from the base the JSON snapshot left, live restore, restart
    shapes["json-snapshot-restored-by-protobuf-node"] = [
        A(1, pre[0]), A(2, line(0, 2)), A(3, line(6, 3)), H("SnapshotTake", now=64), H("PersistOK"), A(4, line(6, 4)), M,
        A(5, line(6, 5)), H("SnapshotTake", now=70), H("PersistOK"), H("Restore"), H("Restart")]
    # live restore of the JSON snapshot in the protobuf life, entries re-applied from the converted raft log
    shapes["json-snapshot-live-restore-after-migration"] = [
        A(1, pre[0]), A(2, line(0, 2)), A(3, raft), A(4, line(6, 4)), H("SnapshotTake", now=64), H("PersistOK"), A(5, line(6, 5)), M,
        H("Restore"), A(5, line(6, 5)), H("SnapshotTake", now=64), H("PersistOK"), H("Restart")]
    # the JSON snapshot folded everything (no retained record), migration, next snapshot
    shapes["json-fold-all-then-migration"] = [
        A(1, pre[0]), A(2, line(0, 2)), A(3, line(0, 3)), H("SnapshotTake", now=70), H("PersistOK"), M, A(4, line(6, 4)),
        H("SnapshotTake", now=64), H("PersistOK"), H("Restart")]
    # crash between Snapshot()'s deletions and Persist in the JSON life, start as a protobuf node
    shapes["json-crash-after-deletions-then-migration"] = [
        A(1, pre[0]), A(2, line(0, 2)), A(3, line(6, 3)), H("SnapshotTake", now=64), M, H("SnapshotTake", now=64), H("PersistOK"),
        H("Restart")]
    # the expiration configured in the JSON life is in force after the migration (decodeJson re-establishes it)
    shapes["expiration-across-migration"] = [
        A(1, pre[0]), A(2, cfg(0, 90)), A(3, line(30, 3)), A(4, line(30, 4)), H("SnapshotTake", now=95), H("PersistOK"), M,
        H("SnapshotTake", now=95), H("PersistOK"), H("Restart")]
    return shapes


def has_refused_create(b, prelude):
    """Does the behaviour's log contain a CreateSession that the state machine refuses?"""
    st = F.Abs()
    log = list(prelude)
    for h in b:
        if h["a"] == "Apply" and h["i"] > len(log):
            log.append(h["e"])
    for i, e in enumerate(log, 1):
        if e["cls"] == "create" and st.maxs > 0 and len(st.sess) >= st.maxs:
            return True
        st.apply(i, e)
    return False


def replay_file(ctx, eng, path):
    with open(path) as fh:
        rep = json.load(fh)
    sched = rep["replay"]["schedule"]
    events = eng.run([sched], nproc=1)
    for ev in events:
        ctx.log(json.dumps({k: ev.get(k) for k in ("n", "ev", "err", "panic", "chk")})[:600])
    steps, nviol = F.judge_all(ctx, [sched], events)
    ctx.log("replay: %d steps, %d violations" % (steps, nviol))


def real_raft(ctx, eng, num):
    t = time.time()
    d = ctx.sub("realraft")
    outp = os.path.join(d, "raft.ndjson")
    rd = eng.scratch("realraft-rd")
    env = {"VERIF_FSM_RAFT_N": num, "VERIF_FSM_OUT": outp, "VERIF_FSM_DIR": rd, "TMPDIR": eng.scratch("realraft-tmp")}
    rc, out = ctx.run_bin([eng.binary, "-test.run", "^TestVerifFSMRealRaft$", "-test.count=1", "-test.timeout", "1500s"],
                          env=env, timeout=1600, cwd=d)
    if rc != 0 or not os.path.exists(outp):
        raise vlib.Inconclusive("real-raft driver died (rc=%s):\n%s" % (rc, out[-2000:]))
    res = vlib.read_ndjson(outp)
    if len(res) != num:
        raise vlib.Inconclusive("real-raft driver: %d of %d scenarios" % (len(res), num))
    bad = 0
    for r in res:
        if r.get("err"):
            raise vlib.Inconclusive("real-raft scenario %d: %s" % (r["scenario"], r["err"]))
        if not r["ok"]:
            bad += 1
            F.judge_all.sigs["raft"] = F.judge_all.sigs.get("raft", 0) + 1
            if F.judge_all.sigs["raft"] <= 2:
                ctx.violation("P4-real-raft-state-differs-after-" + r["where"],
                              "single-node hashicorp/raft over the real FSM: after %s the state differs from the replay of the applied "
                              "commands: %s [scenario %d, steps %s]" % (r["where"], (r.get("diff") or "")[:300], r["scenario"], " ".join(r["steps"])),
                              {"real_raft_scenario": r["scenario"], "seed": r["seed"], "steps": r["steps"], "offset": r.get("offset")})
            else:
                ctx.add("violating_schedules_not_listed", 1)
    ctx.cov["real_raft"] = {"scenarios": num, "ok": num - bad, "snapshots": sum(r["snaps"] for r in res),
                            "snapshot_errors": sum(r["snap_errs"] for r in res), "restarts": sum(r["restarts"] for r in res),
                            "migrations": sum(r.get("migrated", 0) for r in res)}
    ctx.add("traces_validated_against_impl", num)
    ctx.log("real raft: %d scenarios, %d differ, %d snapshots, %d restarts, %.1fs" % (num, bad, ctx.cov["real_raft"]["snapshots"],
                                                                                   ctx.cov["real_raft"]["restarts"], time.time() - t))


def selftest(ctx, eng, scheds, events, mig=None):
    """The binding binds: a corrupted record / a dropped event must be noticed by the trace
    validation; a reference that is fed a different log must be noticed by the differential.
    mig = (schedules, events) of replayed migration behaviours: a recorded encoding that is not
    the model's and a tampered conversion record must be noticed."""
    res = {}
    byname = {s["name"]: s for s in scheds}
    items = [(byname[n], eng.alogs[n], evs) for n, evs in F.split_events(events)]
    # pick a schedule with a SnapshotTake that deleted something
    pick = None
    for it in items:
        for k, ev in enumerate(it[2]):
            if ev["ev"] == "SnapshotTake" and not ev.get("err") and k > 0 and it[2][k - 1].get("post") and \
                    len(ev["post"]["store"]) < len(it[2][k - 1]["post"]["store"]) and ev["post"]["store"]:
                pick = (it, k)
                break
        if pick:
            break
    if not pick:
        raise vlib.Inconclusive("selftest: no suitable recorded trace")
    if pick[0][0]["name"] in F.judge_all.flagged:
        ctx.note("binding selftest skipped: the tree under test violates the property on the sample trace")
        return
    (sched, alog, evs), k = pick
    saved_v, saved_d = ctx.violation, ctx.drift
    hits = []
    ctx.violation = lambda sig, what, replay: hits.append(sig)
    ctx.drift = lambda what: None
    try:
        # (a) corrupt one recorded field: an entry vanishes from the recorded irclog; (b) drop one event;
        # (m) migration: the irclog copy of an entry "stayed JSON" in the record of the RestartWithEncoding step
        bad = json.loads(json.dumps(evs))
        bad[k]["post"]["store"] = bad[k]["post"]["store"][1:]
        dropped = evs[:k] + evs[k + 1:]
        runs = {"clean": (sched, alog, evs), "corrupt": (sched, alog, bad), "drop": (sched, alog, dropped)}
        if mig:
            mnames = {s_["name"]: s_ for s_ in mig[0]}
            for n_, evs_ in F.split_events(mig[1]):
                hit = [j for j, e in enumerate(evs_) if e["ev"] == "RestartEnc" and e.get("post") and e["post"]["ienc"] and e.get("conv")]
                if hit and n_ not in F.judge_all.flagged:
                    badm = json.loads(json.dumps(evs_))
                    badm[hit[0]]["post"]["ienc"][0][1] = "json"
                    runs["mig"] = (mnames[n_], eng.alogs[n_], badm)
                    conv = evs_[hit[0]]["conv"]
                    res["clean_conversion_accepted"] = not F.check_conversion(conv)[0]
                    tam = json.loads(json.dumps(conv))
                    vict = [r_ for r_ in tam["raft_post"] if r_.get("msg")]
                    vict[-1]["msg"]["UnixNano"] += 1
                    res["tampered_conversion_detected"] = bool(F.check_conversion(tam)[0])
                    break
        with concurrent.futures.ThreadPoolExecutor(max_workers=4) as ex:
            futs = {key: ex.submit(F.validate_traces, ctx, [item], "st-" + key) for key, item in runs.items()}
            out = {key: f.result() for key, f in futs.items()}
        res["clean_trace_accepted"] = (not out["clean"]["resyncs"] and not out["clean"]["violated"])
        res["corrupted_field_rejected"] = bool(out["corrupt"]["resyncs"] or out["corrupt"]["violated"])
        res["corrupted_field_invariant"] = [v[0] for v in out["corrupt"]["violated"]]
        res["dropped_event_rejected"] = bool(out["drop"]["resyncs"] or out["drop"]["violated"])
        if mig:
            res["wrong_recorded_encoding_rejected"] = bool("mig" in out and (out["mig"]["resyncs"] or out["mig"]["violated"]))
        # (c) the differential oracle: the reference is told to skip an entry the node applied
        wrong = json.loads(json.dumps(sched))
        wrong["name"] = "selftest-wrong-reference"
        victim = [e["idx"] for e in wrong["log"] if e["kind"] == "cmd" and e.get("type") == F.T_LINE]
        wrong["mod"] = victim[:1]
        ev2 = eng.run([wrong], nproc=1)
        F.judge_all(ctx, [wrong], ev2)
        res["wrong_reference_detected"] = any(h.startswith("P1") for h in hits)
    finally:
        ctx.violation, ctx.drift = saved_v, saved_d
    ok = res["clean_trace_accepted"] and res["corrupted_field_rejected"] and res["dropped_event_rejected"] and res["wrong_reference_detected"]
    if mig:
        ok = ok and res["wrong_recorded_encoding_rejected"] and res.get("clean_conversion_accepted") and res.get("tampered_conversion_detected")
    ctx.cov["binding_selftest"] = res
    ctx.log("binding selftest: %s" % res)
    if not ok:
        raise vlib.Inconclusive("binding selftest failed: %s" % res)


def run(ctx):
    try:
        _run(ctx)
    except vlib.Inconclusive as ex:
        # a machinery problem after a property violation was observed on the real code must not hide it
        if not ctx.violations:
            raise
        ctx.note("inconclusive after a violation had been found: %s" % str(ex)[:500])
        ctx.log("(later stage inconclusive: %s)" % str(ex)[:300])


def _run(ctx):
    t0 = time.time()
    eng = F.Engine(ctx)
    ctx.log("harness built in %.1fs (repo %s)" % (time.time() - t0, vlib.REPO))
    if getattr(ctx, "replay", None):
        replay_file(ctx, eng, ctx.replay)
        return
    quick = ctx.quick
    ctx.assumptions += [
        "the harness imitates raft's calling discipline (hashicorp/raft v1.7.3): Snapshot() serial with Apply/Restore, "
        "Persist may overlap later Applies, one snapshot at a time, start = Restore(newest) twice (GetConfiguration + NewRaft) "
        "then Apply of the raft log after the snapshot index up to the end of the log",
        "no Snapshot() between process start and the end of the start-up replay; no live Restore while a snapshot is being persisted",
        "in-process restart (stores closed and reopened from disk, fresh FSM{} and globals) stands for a process restart; "
        "c07 runs real child processes over the same harness",
        "reference instance = FSM.applyRobustMessage on a fresh IRCServer for log[1..applied], never snapshotted; comparison is on "
        "decoded Marshal output, probe commands, LastPostMessage, config revision, outputstream.Get",
        "the state-changing probes (JOIN/PRIVMSG/TOPIC from every session) run once, when a schedule is over; during a schedule "
        "per-session state is exercised by the follow-up commands of the logs themselves",
        "TLC, the Go toolchain and goleveldb are trusted",
    ]

    # 1. the design: exhaustive TLC on the repaired model (in the background)
    def exhaustive():
        r = eng.exhaustive("FSM_small.cfg", workers=4 if quick else 8, coverage=not quick)
        ctx.log("FSM_small: %d distinct states, depth %d" % (r.distinct, r.depth))
        if not quick:
            ctx.cov["coverage_zero"] = [l for l in r.coverage_zero() if "FSM.tla" in l or "module FSM" in l][:20]
            r = eng.exhaustive("FSM_exp.cfg", workers=8)
            ctx.log("FSM_exp: %d distinct states" % r.distinct)
            r = eng.exhaustive("FSM_big.cfg", workers=8, timeout=1500)
            ctx.log("FSM_big: %d distinct states" % r.distinct)
    eng.background("exhaustive", exhaustive)

    # 2. what TLC says about the pinned behaviour (candidates only; the replay decides) and
    #    seeded simulation over the full alphabet -- both produced in the background
    def asis():
        cex = {}
        for cfg in ("FSM_asis_f2.cfg", "FSM_asis_f3.cfg"):
            inv, hist = eng.counterexample(cfg)
            if hist:
                cex[cfg] = hist
        ctx.cov["asis_counterexamples"] = {k: [h["a"] for h in v] for k, v in cex.items()}
        return cex
    pool = concurrent.futures.ThreadPoolExecutor(max_workers=4)
    f_mig = pool.submit(eng.edges, "FSM_migbook.cfg", 1500)
    f_cex = pool.submit(asis)
    f_sim = pool.submit(eng.simulate, "FSM_sim.cfg", 40 if quick else 600, 36, 300 if quick else 2400)
    f_simmig = pool.submit(eng.simulate, "FSM_simmig.cfg", 24 if quick else 400, 36, 300 if quick else 2400)

    # 3. replay on the real FSM: known shapes, both encodings
    behs = list(known_shapes().values())
    eng.replay_behaviours(behs + behs, "PreludeSess", "shape", proto_of=lambda k: k < len(behs))
    # 3b. the encoding migration of the node: a JSON node restarted as a protobuf node
    #     (with the production message offset: ids written by the conversion must carry it)
    eng.replay_behaviours(list(migration_shapes().values()), "PreludeSess", "migshape", proto_of=lambda k: False,
                          offset_of=lambda k: F.PROD_OFFSET)

    # 4. replay every transition of the small graphs
    behs, nedges = eng.edges("FSM_edges.cfg" if quick else "FSM_edges4.cfg")
    ctx.cov["edges_bookkeeping"] = nedges
    scheds2, ev2 = eng.replay_behaviours(behs, "PreludeSess", "edge", nproc=4 if quick else 6)
    behs, nedges = eng.edges("FSM_expedges.cfg")
    ctx.cov["edges_expiration"] = nedges
    eng.replay_behaviours(behs, "PreludeSess", "expedge", limit=500 if quick else None, nproc=4 if quick else 6)

    # 4b. entries the state machine refuses (CreateSession at MaxSessions) inside the folded range
    behs, nedges = eng.edges("FSM_limedges.cfg")
    ctx.cov["edges_limit"] = nedges
    if quick:
        rng0 = random.Random(ctx.seed + 17)
        refused = [b for b in behs if has_refused_create(b, F.PRELUDES["PreludeSess"])]
        others = [b for b in behs if not has_refused_create(b, F.PRELUDES["PreludeSess"])]
        behs = rng0.sample(refused, min(len(refused), 450)) + rng0.sample(others, min(len(others), 100))
    eng.replay_behaviours(behs, "PreludeSess", "limedge", nproc=4 if quick else 6)
    if not quick:
        eng.background("exhaustive-lim", lambda: eng.exhaustive("FSM_lim.cfg", workers=4))

        def exhaustive_mig():
            r = eng.exhaustive("FSM_migbig.cfg", workers=4, coverage=True)
            taken = [l.strip() for l in r.out.splitlines() if l.startswith("<RestartWithEncoding ")]
            ctx.cov["coverage_RestartWithEncoding"] = taken[-1:] if taken else []
            ctx.log("FSM_migbig: %d distinct states, depth %d" % (r.distinct, r.depth))
        eng.background("exhaustive-mig", exhaustive_mig)

    # 4c. every transition of the migration graph (JSON life, RestartWithEncoding("proto"), protobuf life):
    #     the behaviours that contain the migration
    behs, nedges = f_mig.result()
    ctx.cov["edges_migration"] = nedges
    behs = [b for b in behs if any(h["a"] == "RestartEnc" for h in b)]
    ctx.cov["migration_behaviours"] = len(behs)
    scheds_m, ev_m = eng.replay_behaviours(behs, "PreludeSess", "migedge", proto_of=lambda k: False, limit=300 if quick else None,
                                           nproc=4 if quick else 6, offset_of=lambda k: F.PROD_OFFSET if k % 3 else 0)

    # 5. TLC's counterexamples for the pinned behaviour and the simulated behaviours
    behs = list(f_cex.result().values())
    eng.replay_behaviours(behs + behs, "PreludeSess", "asis", proto_of=lambda k: k < len(behs))
    eng.replay_behaviours(f_sim.result(), "PreludeSess", "sim", nproc=4 if quick else 6)
    eng.replay_behaviours(f_simmig.result(), "PreludeSess", "simmig", proto_of=lambda k: False, nproc=4 if quick else 6,
                          offset_of=lambda k: F.PROD_OFFSET if k % 2 == 0 else 0)
    pool.shutdown()

    # 6. seeded random schedules over longer realistic logs (differential oracle only)
    rng = random.Random(ctx.seed)
    nr = 150 if quick else 4000
    rs = [F.gen_random(rng, "rand-%d" % k) for k in range(nr)]
    # ... and logs with half-registered sessions folded into a snapshot and used again afterwards
    rs += [F.gen_halfreg(rng, "half-%d" % k) for k in range(nr // 3)]
    t = time.time()
    evr = eng.run(rs, nproc=4 if quick else 6)
    steps, nviol = F.judge_all(ctx, rs, evr)
    ctx.cov["steps_replayed"] += steps
    ctx.cov["random_schedules"] = len(rs)
    ctx.add("traces_validated_against_impl", len(rs))
    ctx.log("random: %d schedules, %d steps in %.1fs, %d violating" % (len(rs), steps, time.time() - t, nviol))
    ctx.sample({"kind": "random", "log": [e.get("data", "raft-internal") for e in rs[0]["log"]],
                "steps": [st["a"] for st in rs[0]["steps"]]})

    # 6b. the same through a REAL single-node hashicorp/raft (raft assigns the indices, calls Snapshot()/Restore())
    real_raft(ctx, eng, 10 if quick else 300)

    # 7. the binding binds
    selftest(ctx, eng, scheds2, ev2, mig=(scheds_m, ev_m))
    eng.finish()
