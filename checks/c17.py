"""C17 — four stages: the shared IRC-layer engine (checks/irc_common.py: lookups on every lagging prefix,
ExpireSessions around the threshold, ended sessions gone), the HTTP-level stage (checks/irc_http.py: lookups,
DELETE and "receives nothing further" on the real long polls of a complete node), the expiry stage
(checks/c17_expiry.py: the timer loop of main() on 1 and 3 real nodes, validated against Expiry.tla) and the
lag stage (checks/c17_lag.py: what a really lagging node of a 3-node network answers, validated against Lag.tla)."""
import json

from checks import irc_common, irc_http, c17_expiry, c17_lag

LEVEL = "model_checking"


def run(ctx):
    rp = {}
    if getattr(ctx, "replay", None):
        with open(ctx.replay) as fh:
            rp = json.load(fh).get("replay") or {}
    if rp.get("rig_program"):
        irc_http.report(ctx, "C17", replay_program=rp["rig_program"])
        return
    if rp.get("scenario"):
        c17_expiry.report(ctx, replay=rp["scenario"])
        return
    if rp.get("lag_scenario"):
        c17_lag.report(ctx, replay=rp["lag_scenario"])
        return
    irc_common.report(ctx, "C17")
    if not getattr(ctx, "replay", None):
        irc_http.report(ctx, "C17")
        if not getattr(ctx, "selftest", False):
            c17_expiry.report(ctx)
            c17_lag.report(ctx)
