"""C17 — decided by the shared IRC-layer engine (checks/irc_common.py); the HTTP-level stage
(checks/irc_http.py) adds what a complete node does: lookups, DELETE and "receives nothing further"
observed on the real long polls of ended sessions."""
import json

from checks import irc_common, irc_http

LEVEL = "model_checking"


def run(ctx):
    rp = None
    if getattr(ctx, "replay", None):
        with open(ctx.replay) as fh:
            rp = (json.load(fh).get("replay") or {}).get("rig_program")
    if rp:
        irc_http.report(ctx, "C17", replay_program=rp)
        return
    irc_common.report(ctx, "C17")
    if not getattr(ctx, "replay", None):
        irc_http.report(ctx, "C17")
