"""C11 -- Session routes need the session secret; admin routes the network password.

Technique: explicit TLA+ specification (spec/ApiAuth.tla = the decision procedure
of DispatchPublic / session() / DispatchPrivate, written like the code) checked
exhaustively by TLC over the finite request domain x victim life cycle; TLC
exports the whole decision table. Every row is REPLAYED against the real
dispatchers on the single-node rig (real raft, real handlers, the mux as main()
registers it), the recorded responses are validated back against the spec
(spec/ApiAuthTrace.tla, invariants evaluated on the observations), and -- so
that a route added later is seen -- every path literal of internal/api/*.go is
extracted with go/ast, must be classified in the spec's route table (else exit 2
"model incomplete") and is requested, together with seeded random paths and
well-known default-mux registrations, with every wrong credential variant.

Verdict (VIOLATION) only from the property predicates on real outcomes:
  S  a request on the public prefix whose X-Session-Auth is not the correct
     secret of exactly the addressed live session has no effect (raft last index,
     irclog, output store, canonical server state digest, session set unchanged)
     and reveals no message line (GET .../messages: status >= 400 and no line
     within 300 ms); POST .../session is public by design;
     and it is REFUSED: never answered 2xx. Session states: fresh, logged in,
     ended with lookups still answering "not yet seen" (own QUIT was the last
     processed entry), ended with lookups answering "no such session" (DELETE,
     or QUIT + a later entry), never existed, not yet seen, and DYNAMIC: the
     request names the next (predictable) session id, is sent while that session
     does not exist and is answered after it was created and got traffic;
  P  every request that reaches anything but the public prefix without
     basic auth robustirc:<network password> is answered 401 (and has no effect).
"""
import json
import os
import random
import re

import vlib
from checks import rig_common

LEVEL = "model_checking"

PREFIX = "/robustirc/v1/"
WRONG_CREDS = ["wrongFlip", "wrongPrefix", "wrongSuper", "wrongUpper", "wrongRandom", "wrongSpace"]
BASIC_SUB = {
    "none": ["none", "bearer", "malformed"],
    "wrongUser": ["wrongUser", "wrongUserCase", "emptyUser"],
    "wrongPw": ["wrongPw", "wrongPwPrefix", "wrongPwSuper", "wrongPwUpper", "emptyPw"],
    "correct": ["correct"],
}
GARBAGE = ["abc", "0x", "-1", "18446744073709551616", "1e3", "0x1g", "session"]
OTHER_SUFFIX = ["foo", "message2", "msgs", "messages2", "session", "messages.json"]
# registrations that well-known packages put on http.DefaultServeMux in init()
DEFAULT_MUX = ["/debug/pprof/", "/debug/pprof/cmdline", "/debug/pprof/heap", "/debug/pprof/goroutine",
               "/debug/pprof/symbol", "/debug/pprof/allocs", "/debug/vars", "/debug/requests", "/debug/events"]
# the raft transport's RPC names (rafthttp): only ever requested without the password
RAFT_RPCS = ["/raft/RequestVote", "/raft/InstallSnapshot", "/raft/InstallSnapshotStreaming", "/raft/AppendEntries/x"]
DESTRUCTIVE = ("/quit", "/join", "/part", "/kill", "/config", "/snapshot")


class Gen:
    def __init__(self, ctx):
        self.rnd = random.Random(ctx.seed)
        self.n = 0
        self.thorough = not ctx.quick

    def cyc(self, lst):
        self.n += 1
        return lst[(self.n + self.rnd.randrange(len(lst))) % len(lst)] if self.thorough else lst[self.n % len(lst)]


# ------------------------------------------------------------ request -> step
def public_step(req, victim, k, g, meta, force_auth=None):
    sid = {"V": "{sid:%s}" % victim, "never": "{never}", "notyet": "{notyet}"}.get(req["target"])
    if sid is None:
        sid = g.cyc(GARBAGE[:-1]) if req["shape"] != "sid" or req["method"] != "DELETE" else g.cyc(GARBAGE)
    shape = req["shape"]
    if shape == "session":
        path = PREFIX + "session"
    elif shape == "sid":
        path = PREFIX + sid
    elif shape == "sid/message":
        path = PREFIX + sid + "/message"
    elif shape == "sid/messages":
        path = PREFIX + sid + "/messages"
    elif shape == "sid/other":
        path = PREFIX + sid + "/" + g.cyc(OTHER_SUFFIX)
    elif shape == "sid/x/message":
        path = PREFIX + sid + "/x/message"
    else:
        raise vlib.Inconclusive("unknown shape %r" % shape)
    return raw_public_step(req, victim, k, g, meta, path, force_auth)


def raw_public_step(req, victim, k, g, meta, path, force_auth=None):
    st = {"op": "http", "method": req["method"], "path": path, "session": victim,
          "basic": req.get("basic", "none"), "tag": meta}
    cred = req["cred"]
    st["auth"] = force_auth or {"none": "none", "empty": "empty", "correct": "correct", "otherLive": "other:O"}.get(cred) or g.cyc(WRONG_CREDS)
    meta["auth"] = st["auth"]
    if req["method"] in ("POST", "PUT"):
        st["body"] = json.dumps({"Data": "PING :row%d" % k, "ClientMessageId": 50000 + k})
        st["headers"] = {"Content-Type": "application/json"}
    elif req["method"] == "DELETE":
        st["body"] = json.dumps({"Quitmessage": "row%d" % k})
        st["headers"] = {"Content-Type": "application/json"}
    if req["method"] == "GET":
        st["ms"] = 300
        st["until"] = 1
    return st


def private_step(req, k, g, meta, path=None, force_basic=None):
    st = {"op": "private", "method": req["method"], "path": path or req["path"],
          "basic": force_basic or g.cyc(BASIC_SUB[req["basic"]]), "tag": meta}
    meta["basicVariant"] = st["basic"]
    if req["cred"] == "correct":
        st["auth"] = "correct"
        st["session"] = "O"
    if req["method"] in ("POST", "PUT"):
        st["body"] = ""
    return st


def setup(vs, alias, nick, ended_by="delete"):
    """Steps that bring a new victim into state vs, with the abstract requests
    they correspond to (they are part of the trace).

    quitLast: ended by its own QUIT line, nothing newer processed since
              (lookups answer ErrSessionNotYetSeen);
    deleted:  ended by DELETE (a DeleteSession entry, newer than the victim), or
              ended by QUIT and then a session created later posted a line
              (ended_by="quit+later"): lookups answer ErrNoSuchSession."""
    post = {"disp": "public", "method": "POST", "shape": "sid/message", "target": "V", "cred": "correct", "basic": "none"}
    dele = {"disp": "public", "method": "DELETE", "shape": "sid", "target": "V", "cred": "correct", "basic": "none"}
    steps = [{"op": "create_session", "as": alias, "tag": {"victim": alias}}]

    def add(st, req, kind):
        st["tag"] = {"victim": alias, "setup": True, "req": req, "kind": kind}
        steps.append(st)

    if vs == "fresh":
        add({"op": "post", "session": alias, "data": "PING :fresh"}, post, "plain")
        return steps
    add({"op": "post", "session": alias, "data": "NICK " + nick}, post, "plain")
    add({"op": "post", "session": alias, "data": "USER %s 0 * :%s" % (nick, nick)}, post, "login")
    if vs == "quitLast" or (vs == "deleted" and ended_by == "quit+later"):
        add({"op": "post", "session": alias, "data": "QUIT :gone"}, post, "quit")
        if vs == "deleted":
            w = "W" + alias
            steps.append({"op": "create_session", "as": w})
            steps.append({"op": "post", "session": w, "data": "PING :later", "tag": {"victim": alias, "later": True}})
    elif vs == "deleted":
        add({"op": "delete", "session": alias, "quitmessage": "gone"}, dele, "plain")
    return steps


# ------------------------------------------------------------------ programs
def public_programs(ctx, table, g, shards):
    progs = []
    rows = [r for r in table if r["req"]["disp"] == "public" and r["req"]["target"] != "next" and r["phase"] == "static"]
    for vs in ("fresh", "loggedIn", "quitLast", "deleted"):
        grp = [r for r in rows if r["vs"] == vs]
        g.rnd.shuffle(grp)
        for sh in range(shards):
            part = grp[sh::shards]
            name = "pub-%s-%d" % (vs, sh)
            steps = [{"op": "create_session", "as": "O"}, {"op": "login", "session": "O", "nick": "oth%s%d" % (vs[0], sh)}]
            nv = [0]

            def victim():
                nv[0] += 1
                a = "V%d" % nv[0]
                steps.extend(setup(vs, a, "v%s%d%d" % (vs[0], sh, nv[0]),
                                   ended_by=("delete", "quit+later")[(sh + nv[0]) % 2]))
                return a

            v = victim()
            order = {"none": 0, "post": 2, "create": 3, "delete": 4}
            part.sort(key=lambda r: (order[r["resp"]["effect"]] if not r["resp"]["discloses"] else 1))
            for r in part:
                if r["resp"]["effect"] == "delete":
                    v = victim()
                variants = WRONG_CREDS if (g.thorough and r["req"]["cred"] == "wrong") else [None]
                for fa in variants:
                    k = len(steps)
                    steps.append(public_step(r["req"], v, k, g, {"victim": v, "req": r["req"], "row": True, "expect": r["resp"],
                                                                "sessState": r["sessState"]}, fa))
            # one shard per victim state runs with the DEFAULT configuration (PostMessageCooloff 500 ms): the
            # throttling state of a session is state too, and a refused request must not touch it
            progs.append({"name": name, "opts": {"no_cooloff_config": True} if sh == 0 else {}, "steps": steps})
    return progs


def private_rows(table):
    seen = set()
    out = []
    for r in table:
        if r["req"]["disp"] != "private":
            continue
        key = json.dumps(r["req"], sort_keys=True)
        if key not in seen:
            seen.add(key)
            out.append(r)
    return out


def private_programs(ctx, table, g, shards, fuzz):
    rows = private_rows(table)
    g.rnd.shuffle(rows)
    quit_rows = [r for r in rows if r["resp"]["status"] == "exit"]
    rows = [r for r in rows if r["resp"]["status"] != "exit"]
    items = [("row", r) for r in rows] + [("fuzz", f) for f in fuzz]
    # wrong-password requests sleep (exponential back-off): spread them evenly
    slow = [x for x in items if x[1]["req"]["basic"] != "correct"]
    fast = [x for x in items if x[1]["req"]["basic"] == "correct"]
    progs = []
    for sh in range(shards):
        steps = [{"op": "create_session", "as": "O"}, {"op": "login", "session": "O", "nick": "adm%d" % sh}]
        for kind, r in slow[sh::shards] + fast[sh::shards]:
            # thorough: table rows with every spelling of the wrong credentials
            variants = BASIC_SUB[r["req"]["basic"]] if (g.thorough and kind == "row") else [None]
            for fb in variants:
                k = len(steps)
                meta = {"req": r["req"], "private": True}
                if kind == "row":
                    meta["row"] = True
                    meta["expect"] = r["resp"]
                else:
                    meta["fuzz"] = True
                steps.append(private_step(r["req"], k, g, meta, force_basic=fb))
        progs.append({"name": "priv-%d" % sh, "opts": {}, "steps": steps})
    # destructive with correct auth: last, in its own process
    steps = [{"op": "create_session", "as": "O"}, {"op": "login", "session": "O", "nick": "admq"}]
    for r in quit_rows:
        steps.append(private_step(r["req"], len(steps), g, {"req": r["req"], "private": True, "row": True, "expect": r["resp"]}))
    steps.append({"op": "probe"})
    progs.append({"name": "priv-quit", "opts": {}, "steps": steps})
    return progs


def random_paths(g, n, words):
    out = []
    alnum = "abcdefghijklmnopqrstuvwxyzABCDEFGHIJKLMNOPQRSTUVWXYZ0123456789_-.~"
    for _ in range(n):
        segs = []
        for _ in range(g.rnd.choice([1, 1, 2, 2, 3])):
            c = g.rnd.random()
            if c < 0.6:
                w = g.rnd.choice(words)
                if g.rnd.random() < 0.2:
                    w = w.upper() if g.rnd.random() < 0.5 else w.capitalize()
                if g.rnd.random() < 0.15:
                    w += g.rnd.choice(["s", "2", ".json", "%20", "x"])
            else:
                w = "".join(g.rnd.choice(alnum) for _ in range(g.rnd.randrange(1, 9)))
            if w in (".", ".."):
                w = "dot"
            segs.append(w)
        p = "/" + "/".join(segs)
        if g.rnd.random() < 0.15:
            p += "/"
        out.append(p)
    return out


def fuzz_requests(ctx, lits, g, nrandom, table_paths):
    """(private fuzz, public fuzz) as lists of {"req": abstract, "path": concrete}."""
    lit_values = sorted({l["lit"] for l in lits})
    KNOWN_SLUGS.update(l if l.startswith("/") else "/" + l for l in lit_values)
    KNOWN_SLUGS.update(DEFAULT_MUX + RAFT_RPCS)
    KNOWN_SLUGS.update(table_paths)
    words = sorted({w for l in lit_values for w in l.strip("/").split("/") if w} |
                   {"debug", "pprof", "cmdline", "heap", "vars", "admin", "api", "v2", "robustirc", "v1", "raft",
                    "AppendEntries", "RequestVote", "InstallSnapshot", "status", "sessions"})
    paths = []
    for l in lit_values:
        p = l if l.startswith("/") else "/" + l
        paths.append(p)
        if not p.endswith("/"):
            paths.append(p + "/")
        else:
            paths.append(p + "x")
    paths += DEFAULT_MUX + RAFT_RPCS
    paths += random_paths(g, nrandom, words)
    seen = set()
    priv = []
    for p in paths:
        if p in seen or "//" in p or p in table_paths:
            continue
        seen.add(p)
        if p.startswith(PREFIX) or p == PREFIX.rstrip("/"):
            continue   # routed to the public dispatcher by the mux; covered by the public fuzz
        methods = ["GET", "POST"] if p in DEFAULT_MUX or p in RAFT_RPCS or any(p == l or p.rstrip("/") == l for l in lit_values) else [g.cyc(["GET", "POST", "DELETE", "PUT", "GET"])]
        for m in methods:
            for basic in ("none", "wrongUser", "wrongPw"):
                priv.append({"req": {"disp": "private", "method": m, "path": p, "cred": "none", "basic": basic}})
            harmless = m == "GET" or not (p.startswith("/raft/") or p.startswith("/debug/") or p.rstrip("/") in DESTRUCTIVE)
            # with the password only what cannot hurt and what the model predicts
            # (the spec models /debug/ by three representatives, which are table rows)
            if harmless and not p.startswith("/debug/") and p != "/snapshot":
                priv.append({"req": {"disp": "private", "method": m, "path": p, "cred": "none", "basic": "correct"}})
    pub = []
    suffixes = []
    for l in lit_values:
        suffixes.append(("sid", l if l.startswith("/") else "/" + l))
        if l.strip("/"):
            suffixes.append(("bare", l.strip("/")))
    for p in random_paths(g, nrandom, words):
        suffixes.append(("sid", p))
    seenp = set()
    for kind, suf in suffixes:
        if (kind, suf) in seenp or "//" in suf:
            continue
        seenp.add((kind, suf))
        literal = any(suf.strip("/") == l.strip("/") for l in lit_values)
        methods = ["GET", "POST", "DELETE", "PUT"] if literal else [g.cyc(["GET", "POST", "DELETE", "PUT"])]
        for m in methods:
            for cred in ("none", "empty", "wrong", "otherLive"):
                pub.append({"kind": kind, "suffix": suf, "method": m, "cred": cred})
    return priv, pub


def abstract_public(kind, suffix):
    """shape of a fuzzed public path, in the vocabulary of ApiAuth.tla."""
    if kind == "bare":
        return "session" if suffix == "session" else "fuzz"
    return {"": "sid", "/message": "sid/message", "/messages": "sid/messages"}.get(suffix, "fuzz")


def public_fuzz_programs(ctx, pub, g, shards):
    progs = []
    for sh in range(shards):
        steps = [{"op": "create_session", "as": "O"}, {"op": "login", "session": "O", "nick": "fz%d" % sh}]
        steps.extend(setup("loggedIn", "V1", "fzv%d" % sh))
        for f in pub[sh::shards]:
            k = len(steps)
            path = PREFIX + ("{sid:V1}" + f["suffix"] if f["kind"] == "sid" else f["suffix"])
            req = {"disp": "public", "method": f["method"], "shape": abstract_public(f["kind"], f["suffix"]),
                   "target": "V", "cred": f["cred"], "basic": "none"}
            steps.append(raw_public_step(req, "V1", k, g, {"victim": "V1", "req": req, "fuzz": True, "path": path}, path))
        progs.append({"name": "pubfuzz-%d" % sh, "opts": {}, "steps": steps})
    return progs


# ------------------------------------------------- the session that appears
TRAFFIC_CMID = 77


def dynamic_programs(ctx, table, g, shards):
    """Requests that name the NEXT session id (predictable: raft last index + 1):
    while it does not exist (static), kept in flight while the session is created
    and gets traffic (inflight), and once it lives (static, N live)."""
    rows = [r for r in table if r["req"]["disp"] == "public" and r["req"]["target"] == "next"]
    absent = [r for r in rows if r["phase"] == "static" and r["ns"] == "absent"]
    live = [r for r in rows if r["phase"] == "static" and r["ns"] == "live"]
    infl = [r for r in rows if r["phase"] == "inflight"]
    for l in (absent, live, infl):
        l.sort(key=lambda r: json.dumps(r["req"], sort_keys=True))
        g.rnd.shuffle(l)
    absent_creds = ["wrongRandom", "raw:0", "raw:" + "f" * 256, "raw:deadbeef"]
    infl = [(r, fa) for r in infl
            for fa in (absent_creds if g.thorough and r["req"]["cred"] == "wrong" else [None])]
    progs = []
    for sh in range(shards):
        steps = [{"op": "create_session", "as": "O"}, {"op": "login", "session": "O", "nick": "dyn%d" % sh}]
        A, L, I = absent[sh::shards], live[sh::shards], infl[sh::shards]
        for n in range(max(len(A), len(L), len(I))):
            nalias = "N%d" % n
            steps.append({"op": "probe", "tag": {"dyn": "reset"}})
            if n < len(A):
                steps += dyn_steps(A[n], None, g, "static", "absent")
            appear = [{"op": "create_session", "as": nalias, "tag": {"dyn": "appear", "n": nalias}},
                      {"op": "post", "session": nalias, "data": "PING :traffic", "cmid": TRAFFIC_CMID,
                       "tag": {"dyn": "traffic", "n": nalias}}]
            if n < len(I):
                row, fa = I[n]
                st = dyn_steps(row, None, g, "inflight", "absent", force_auth=fa)[0]
                st.update({"bg": "bg%d" % n, "ms": 60})
                st.pop("until", None)
                st["tag"]["dyn"] = "arrive"
                steps.append(st)
                steps += appear
                steps.append({"op": "collect", "bg": "bg%d" % n, "ms": 600, "until": 1,
                              "tag": {"dyn": "complete", "n": nalias, "req": row["req"], "expect": row["resp"]}})
            else:
                steps += appear
            if n < len(L):
                steps += dyn_steps(L[n], nalias, g, "static", "live")
        progs.append({"name": "dyn-%d" % sh, "opts": {}, "steps": steps})
    return progs


def dyn_steps(row, nalias, g, phase, ns, force_auth=None):
    req = row["req"]
    sid = "{sid:%s}" % nalias if nalias else "{next}"
    shape = req["shape"]
    path = PREFIX + {"sid": sid, "sid/message": sid + "/message", "sid/messages": sid + "/messages",
                     "sid/other": sid + "/" + g.cyc(OTHER_SUFFIX), "sid/x/message": sid + "/x/message"}[shape]
    out = []
    variants = [force_auth] if force_auth or not (g.thorough and req["cred"] == "wrong" and nalias) else WRONG_CREDS
    for fa in variants:
        if fa is None and req["cred"] == "wrong" and not nalias:
            fa = g.cyc(["wrongRandom", "raw:0", "raw:" + "f" * 256, "raw:deadbeef"])
        meta = {"dyn": "req", "req": req, "row": True, "expect": row["resp"], "ns": ns, "phase": phase,
                "sessState": row["sessState"], "n": nalias}
        st = raw_public_step(req, nalias or "O", len(out), g, meta, path, fa)
        if not nalias and st["auth"] in WRONG_CREDS:
            st["auth"] = "wrongRandom"
        meta["auth"] = st["auth"]
        out.append(st)
    return out


def dynamic(ctx, prog, steps, i, st, tag, r, trace, verd, stats):
    """Evaluation of the steps of dynamic_programs()."""
    kind = tag["dyn"]
    name = prog["name"]
    if kind == "reset":
        trace.append({"ev": "Reset"})
        return
    if kind in ("appear", "traffic", "discard"):
        if kind != "discard" and r.get("status") != 200:
            raise vlib.Inconclusive("%s: step %d (%s) failed: %s" % (name, i, kind, r))
        if kind == "traffic":
            trace.append({"ev": "Appear"})
        return
    req = tag["req"]
    replay = {"program": {"name": name, "opts": {}, "steps": prog["steps"][:i + 1]}, "step": i}
    cls = "%s-%s-cred-%s-state-%s" % (req["method"], req["shape"].replace("/", "_"), req["cred"],
                                      "appearing" if kind in ("arrive", "complete") else tag.get("sessState"))
    if kind == "arrive":
        stats["inflight"] = stats.get("inflight", 0) + 1
        trace.append({"ev": "Arrive", "req": req})
        return
    nalias = tag.get("n")
    lines = r.get("lines") or []
    status = r.get("status", 0)
    what = "%s %s with credential %s (%s)" % (st.get("method", req["method"]), st.get("path", ""), req["cred"], tag.get("auth"))
    stats["requests"] = stats.get("requests", 0) + 1
    stats["public_unauthorized"] = stats.get("public_unauthorized", 0) + 1
    if kind == "complete":
        # the window: request sent -> N created -> N's traffic -> answer read
        j = i - 3
        first = steps[j][-1]
        what = "%s %s with credential %s (%s), sent before the session existed and answered after it appeared" % (
            req["method"], prog["steps"][j]["path"], req["cred"], prog["steps"][j]["tag"].get("auth"))
        pre, post = first.get("pre"), r.get("post")
        n = rig_common.sess(post, nalias)
        window = {"raft": post["raftLast"] - pre["raftLast"], "out": post["outCount"] - pre["outCount"],
                  "sessions": post["nSessions"] - pre["nSessions"]}
        effect = "none"
        if n is None or n["exists"] != "ok":
            effect = "delete"
        elif window != {"raft": 2, "out": 1, "sessions": 1} or n["lastCmid"] != TRAFFIC_CMID:
            effect = "post"
        changed = ["window %s, N marker %s" % (window, n and n["lastCmid"])]
        pending = bool((r.get("extra") or {}).get("pending"))
        obs = {"status": "pending" if pending else str(status), "effect": effect, "discloses": len(lines) > 0}
        trace.append({"ev": "Complete", "req": req, "vs": "fresh", "obs": obs})
        if pending:
            ctx.drift("%s was still unanswered 1 s after the session appeared" % what)
    else:
        obs, changed, lines = observe(r, nalias, False, req["method"])
        trace.append({"ev": "Req", "req": req, "vs": "fresh", "vsAfter": "fresh", "ns": tag["ns"], "kind": "plain", "obs": obs})
        effect = obs["effect"]
        stats["rows"] = stats.get("rows", 0) + 1
    if r.get("died"):
        verd.bad("unauthorized-request-killed-node-" + cls, what + " killed the node", replay)
    elif effect != "none":
        verd.bad("session-effect-without-secret-" + cls, "%s had an effect: %s (status %s)" % (what, changed, status), replay)
    elif lines:
        verd.bad("messages-revealed-without-secret-" + cls,
                 "%s revealed %d message line(s), e.g. %r" % (what, len(lines), lines[0]["data"][:60]), replay)
    elif 200 <= status < 300:
        verd.bad("refused-request-answered-2xx-" + cls, "%s was answered %s: not refused" % (what, status), replay)


# ---------------------------------------------------------------- evaluation
ENDED = ("quitLast", "deleted")


def vstate(probe, alias):
    """the victim's state as the real server's lookups see it"""
    s = rig_common.sess(probe, alias)
    if s is None or s["exists"] == "nosuch":
        return "deleted"          # ErrNoSuchSession
    if s["exists"] != "ok":
        return "quitLast"         # ended, but lookups still answer ErrSessionNotYetSeen
    return "loggedIn" if s["loggedIn"] else "fresh"


def status_class(r):
    if r.get("died"):
        return "exit"
    s = r.get("status", 0)
    return str(s)


def observe(r, victim, private, method="GET"):
    d = r.get("delta") or {}
    pre, post = r.get("pre"), r.get("post")
    effect = "none"
    changed = []
    if not r.get("died"):
        for key in ("raft", "irc", "out", "sessions", "digest", "outLastChanged"):
            if d.get(key, 0) != 0:
                changed.append("%s%+d" % (key, d[key]))
        if d.get("sessions", 0) > 0:
            effect = "create"
        elif victim and vstate(pre, victim) not in ENDED and vstate(post, victim) in ENDED:
            effect = "delete" if method == "DELETE" else "post"   # ended by DELETE / by its own QUIT line
        elif changed:
            effect = "post"
    lines = r.get("lines") or []
    if private:
        discloses = r.get("status") == 200 and len(r.get("body") or "") > 0
    else:
        discloses = len(lines) > 0
    return {"status": status_class(r), "effect": effect, "discloses": bool(discloses)}, changed, lines


class Verdicts:
    def __init__(self, ctx):
        self.ctx = ctx
        self.classes = {}

    def bad(self, sig, what, replay):
        c = self.classes.setdefault(sig, {"n": 0, "what": what, "replay": replay})
        c["n"] += 1

    def flush(self):
        for sig, c in sorted(self.classes.items()):
            self.ctx.violation(sig, "%s (%d request(s) of this class)" % (c["what"], c["n"]), c["replay"])
        return len(self.classes)


KNOWN_SLUGS = set()


def slug(path):
    if path.rstrip("/") not in KNOWN_SLUGS and path not in KNOWN_SLUGS:
        return "random-path"
    segs = [re.sub(r"[^A-Za-z0-9]+", "", s) for s in path.strip("/").split("/")[:2]]
    return "-".join([s for s in segs if s]) or "root"


def evaluate(ctx, prog, recs, trace, verd, stats):
    steps = rig_common.by_step(recs)
    trace.append({"ev": "Reset"})
    cur_victim = None
    for i, st in enumerate(prog["steps"]):
        tag = st.get("tag") or {}
        r = steps[i][-1]
        if tag.get("later"):
            # an entry newer than the ended victim has been processed
            if r.get("status") != 200:
                raise vlib.Inconclusive("%s: later-entry step %d failed: %s" % (prog["name"], i, r))
            trace.append({"ev": "Later", "vsAfter": vstate(r.get("post"), tag["victim"])})
            continue
        if tag.get("dyn"):
            dynamic(ctx, prog, steps, i, st, tag, r, trace, verd, stats)
            continue
        if "req" not in tag:
            if r.get("died"):
                raise vlib.Inconclusive("%s: node died in setup step %d: %s" % (prog["name"], i, r.get("log", "")[-300:]))
            if st["op"] in ("create_session", "login") and (r.get("status") != 200 or r.get("err")):
                raise vlib.Inconclusive("%s: setup step %d failed: %s" % (prog["name"], i, r))
            if tag.get("victim") and st["op"] == "create_session":
                trace.append({"ev": "Reset"})
                cur_victim = tag["victim"]
            continue
        req = tag["req"]
        private = req["disp"] == "private"
        victim = None if private else tag.get("victim")
        replay = {"program": {"name": prog["name"], "opts": prog.get("opts", {}), "steps": prog["steps"][:i + 1]}, "step": i}
        if r.get("err") and not r.get("status"):
            raise vlib.Inconclusive("%s step %d: request failed: %s" % (prog["name"], i, r["err"]))
        obs, changed, lines = observe(r, victim, private, req["method"])
        vs = vstate(r.get("pre"), victim) if victim else "fresh"
        vs_after = vstate(r.get("post") or r.get("pre"), victim) if victim else "fresh"
        # a 301 of net/http's ServeMux (path cleaning, subtree redirect) is not an endpoint
        if r.get("status") == 301 and (r.get("hdr") or {}).get("Location"):
            stats["mux_redirects"] = stats.get("mux_redirects", 0) + 1
            continue
        stats["requests"] = stats.get("requests", 0) + 1
        if tag.get("setup"):
            if obs["status"] != "200":
                raise vlib.Inconclusive("%s: victim setup step %d refused: %s" % (prog["name"], i, r))
        elif private:
            # ---- predicate P
            if req["basic"] != "correct":
                stats["private_unauthenticated"] = stats.get("private_unauthenticated", 0) + 1
                if obs["status"] != "401":
                    verd.bad("private-unauthenticated-%s" % slug(st["path"]),
                             "%s %s with basic auth variant %s answered %s instead of 401: %r" % (
                                 st["method"], st["path"], tag.get("basicVariant"), obs["status"], (r.get("body") or "")[:80]),
                             replay)
                elif changed:
                    verd.bad("private-unauthenticated-effect-%s" % slug(st["path"]),
                             "%s %s without the network password changed state: %s" % (st["method"], st["path"], changed), replay)
        else:
            # ---- predicate S
            authorized = req["cred"] == "correct" and req["target"] == "V" and vs in ("fresh", "loggedIn")
            exempt = req["method"] == "POST" and st["path"] == PREFIX + "session"
            if not authorized and not exempt:
                stats["public_unauthorized"] = stats.get("public_unauthorized", 0) + 1
                cls = "%s-%s-cred-%s-state-%s" % (req["method"], req["shape"].replace("/", "_"), req["cred"], tag.get("sessState", vs))
                if r.get("died"):
                    verd.bad("unauthorized-request-killed-node-" + cls, "%s %s killed the node" % (st["method"], st["path"]), replay)
                elif obs["effect"] != "none":
                    verd.bad("session-effect-without-secret-" + cls,
                             "%s %s with credential %s (%s) on a %s session had an effect: %s (status %s)" % (
                                 st["method"], st["path"], req["cred"], tag.get("auth"), tag.get("sessState", vs), changed, obs["status"]),
                             replay)
                elif lines:
                    verd.bad("messages-revealed-without-secret-" + cls,
                             "%s %s with credential %s (%s) revealed %d message line(s), e.g. %r" % (
                                 st["method"], st["path"], req["cred"], tag.get("auth"), len(lines), lines[0]["data"][:60]), replay)
                elif req["method"] == "GET" and req["shape"] == "sid/messages" and r.get("status", 0) < 400:
                    verd.bad("messages-stream-opened-without-secret-" + cls,
                             "GET %s with credential %s (%s) was answered %s" % (st["path"], req["cred"], tag.get("auth"), r.get("status")), replay)
                elif 200 <= r.get("status", 0) < 300:
                    verd.bad("refused-request-answered-2xx-" + cls,
                             "%s %s with credential %s (%s) on a %s session was answered %s: not refused" % (
                                 st["method"], st["path"], req["cred"], tag.get("auth"), tag.get("sessState", vs), r.get("status")), replay)
        trace.append({"ev": "Req", "req": req, "vs": vs, "vsAfter": vs_after, "ns": tag.get("ns", "absent"),
                      "kind": tag.get("kind", "plain"), "obs": obs})
        if tag.get("row"):
            stats["rows"] = stats.get("rows", 0) + 1


# ----------------------------------------------------------------------- run
def classify_literals(ctx, lits, spec):
    known = set(spec["known"])
    route_methods = {(a, b) for a, b in spec["routeMethods"]}
    unknown = []
    for l in lits["literals"]:
        if l["lit"] not in known:
            unknown.append("%s:%d %r (%s)" % (l["file"], l["line"], l["lit"], l["ctx"]))
        elif l["ctx"] in ("case", "compare") or l["ctx"].startswith("strings."):
            if l["file"].startswith("internal/api/") and (l["lit"], l["under"]) not in route_methods:
                unknown.append("%s:%d %r under %r is not in the route table (%s)" % (l["file"], l["line"], l["lit"], l["under"], l["ctx"]))
    found = {l["lit"] for l in lits["literals"]}
    gone = sorted(known - found)
    if gone:
        ctx.note("route literals of ApiAuth.tla not present in the code: %s" % gone)
    ctx.cov["route_literals_extracted"] = len(lits["literals"])
    ctx.cov["route_literals_distinct"] = len(found)
    if unknown:
        # decided after the replay: a violation seen on the real code stands on
        # its own, otherwise an incomplete model is exit 2, never a pass
        return "model incomplete: path literal(s) of the code are not classified in ApiAuth.tla: " + "; ".join(unknown[:8])
    return None


def validate(ctx, trace, name):
    txt = "".join(json.dumps(e, sort_keys=True) + "\n" for e in trace)
    r = ctx.tlc("ApiAuthTrace", cfg="ApiAuthTrace.cfg", workers=1, timeout=600, files={"ApiAuth_trace.ndjson": txt},
                name=name, heap="4g")
    ctx.add("tlc_runs")
    return r


def run(ctx):
    g = Gen(ctx)
    binary = rig_common.build(ctx)
    ctx.log("rig built (mux: %s)" % ctx.cov["rig_mux"]["receiver"])
    verd = Verdicts(ctx)
    stats = {}

    if getattr(ctx, "replay", None):
        with open(ctx.replay) as fh:
            rep = json.load(fh)["replay"]
        res = rig_common.run(ctx, binary, [rep["program"]], par=1)
        evaluate(ctx, rep["program"], res[rep["program"]["name"]], [], verd, stats)
        verd.flush()
        ctx.cov["traces_validated_against_impl"] = 1
        return

    # model: exhaustive decision table
    r = ctx.tlc_must_pass("ApiAuth", cfg="ApiAuth.cfg", workers=2, timeout=300, coverage=not ctx.quick)
    ctx.add("states", r.distinct)
    ctx.add("transitions", r.generated)
    ctx.add("tlc_runs")
    if not ctx.quick:
        ctx.cov["coverage_zero"] = r.coverage_zero()[:20]
    table = vlib.read_ndjson(os.path.join(r.workdir, "ApiAuth_table.ndjson"))
    with open(os.path.join(r.workdir, "ApiAuth_literals.json")) as fh:
        spec = json.load(fh)
    ctx.cov["table_rows"] = len(table)

    # the code's route literals must all be classified
    lits = rig_common.extract_literals(ctx, binary)
    incomplete = classify_literals(ctx, lits, spec)
    if incomplete:
        ctx.log(incomplete)

    nrandom = 100 if ctx.quick else 400
    table_paths = {r["req"]["path"] for r in table if r["req"]["disp"] == "private"}
    priv_fuzz, pub_fuzz = fuzz_requests(ctx, lits["literals"], g, nrandom, table_paths)
    shards = 8 if ctx.quick else 12
    progs = public_programs(ctx, table, g, 2)
    progs += private_programs(ctx, table, g, shards, priv_fuzz)
    progs += public_fuzz_programs(ctx, pub_fuzz, g, 2)
    progs += dynamic_programs(ctx, table, g, 2)
    nreq = sum(1 for p in progs for s in p["steps"] if "req" in (s.get("tag") or {}))
    ctx.cov["victim_states"] = ["fresh", "loggedIn", "quitLast (ended, ErrSessionNotYetSeen)", "deleted (ended, ErrNoSuchSession: by DELETE / by QUIT + later entry)"]
    ctx.log("replaying %d requests in %d programs" % (nreq, len(progs)))
    res = rig_common.run(ctx, binary, progs, par=8 if ctx.quick else 12, timeout=3000)
    trace = []
    for p in progs:
        evaluate(ctx, p, res[p["name"]], trace, verd, stats)
    sm = smuggle_program()
    judge_smuggle(ctx, sm, rig_common.run(ctx, binary, [sm], par=1, name="smuggle")["smuggle"], verd)
    nviol = verd.flush()
    ctx.cov.update({"requests_replayed": stats.get("requests", 0), "table_rows_replayed": stats.get("rows", 0),
                    "private_requests_without_password": stats.get("private_unauthenticated", 0),
                    "public_requests_without_correct_secret": stats.get("public_unauthorized", 0),
                    "mux_redirects_skipped": stats.get("mux_redirects", 0),
                    "fuzz_private": len(priv_fuzz), "fuzz_public": len(pub_fuzz),
                    "traces_validated_against_impl": len(progs), "events_validated": len(trace)})
    ctx.sample({"table_row": table[0]})
    ctx.sample({"trace_excerpt": trace[1:5]})
    ctx.log("rig done: %s" % stats)

    # code -> model
    rt = validate(ctx, trace, "tlc-trace")
    acc = rig_common.trace_accepted(rt.out)
    if rt.invariant_violated:
        if not nviol and not ctx.known_hits:
            ctx.violation("trace-invariant-" + rt.invariant_violated,
                          "TLC: invariant %s is false on the recorded responses" % rt.invariant_violated,
                          {"tlc_tail": rt.out[-3000:]})
        else:
            ctx.note("TLC confirms: invariant %s false on the recorded responses" % rt.invariant_violated)
    elif not rt.ok or acc is None:
        raise vlib.Inconclusive("trace validation did not finish:\n" + rt.out[-3000:])
    else:
        ctx.add("states", rt.distinct)
        ctx.add("transitions", rt.generated)
        if nviol and not ctx.known_hits:
            ctx.note("python predicates failed but TLC accepted the trace")
    if acc is not None:
        rig_common.report_drift(ctx, rt.out, trace)
    if incomplete and not nviol:
        raise vlib.Inconclusive(incomplete)
    if incomplete:
        ctx.note(incomplete)

    if not nviol and not rt.invariant_violated and not incomplete:
        selftest(ctx, trace)
    ctx.assumptions += [
        "single node (leader): the proxy-to-leader branches of sessionOrProxy are not exercised",
        "the rig serves the handlers main() registers, on the same kind of mux, over plain HTTP (TLS termination is not modelled)",
        "X-Session-Auth secrets are unguessable (crypto/rand, 128 bytes); the check tests comparison logic, not entropy",
        "default-mux side registrations are probed from a fixed list of well-known paths plus random ones, not enumerated",
    ]


# ------------------------------------------------- bodies that name another session
SMUGGLE = [
    ("session-id", '{"Data": "NICK pwned$N", "ClientMessageId": $C, "Session": {"Id": @sid10:V@, "Reply": 0}}'),
    ("session-id-and-type-delete", '{"Data": "bye", "ClientMessageId": $C, "Type": 1, "Session": {"Id": @sid10:V@}}'),
    ("type-delete", '{"Data": "bye$N", "ClientMessageId": $C, "Type": 1}'),
    ("type-config", '{"Data": "MaxSessions = 1\\nPostMessageCooloff = \\"0s\\"\\n# $N", "ClientMessageId": $C, "Type": 6, "Revision": 2}'),
    ("type-create", '{"Data": "NICK made$N", "ClientMessageId": $C, "Type": 0}'),
    ("lowercase-keys", '{"data": "NICK lower$N", "clientmessageid": $C, "session": {"id": @sid10:V@}, "type": 1}'),
    ("id-and-times", '{"Data": "PING :x$N", "ClientMessageId": $C, "Id": {"Id": 3, "Reply": 7}, "UnixNano": 1, "RemoteAddr": "203.0.113.9", "Servers": ["x"]}'),
]


def smuggle_program():
    """An authenticated client (its own id, its own secret) posts bodies with additional members naming another
    session, another entry type, a revision ...: whatever is applied must still be a client line of the POSTING
    session - the other sessions, the session set and the configuration stay as they were."""
    steps = [{"op": "create_session", "as": "M"}, {"op": "login", "session": "M", "nick": "mallory"},
             {"op": "create_session", "as": "V"}, {"op": "login", "session": "V", "nick": "victim"},
             {"op": "post", "session": "V", "data": "JOIN #v"},
             {"op": "create_session", "as": "W"}, {"op": "login", "session": "W", "nick": "witness"}]
    for n, (name, body) in enumerate(SMUGGLE):
        steps.append({"op": "probe", "tag": {"smuggle": "before", "name": name}})
        steps.append({"op": "http", "method": "POST", "path": PREFIX + "{sid:M}/message", "session": "M", "auth": "correct",
                      "body": body.replace("$N", str(n)).replace("$C", str(70000 + n)), "expand_body": True, "headers": {"Content-Type": "application/json"},
                      "tag": {"smuggle": "post", "name": name}})
        steps.append({"op": "probe", "tag": {"smuggle": "after", "name": name}})
    return {"name": "smuggle", "opts": {}, "steps": steps}


def judge_smuggle(ctx, prog, recs, verd):
    by = rig_common.by_step(recs)
    before = None
    n = 0
    for i, st in enumerate(prog["steps"]):
        tag = st.get("tag") or {}
        if "smuggle" not in tag:
            continue
        r = by[i][-1]
        if r.get("died"):
            raise vlib.Inconclusive("smuggle program: node died at step %d: %s" % (i, r.get("log", "")[-300:]))
        pr = r.get("post") or r.get("pre")
        if tag["smuggle"] == "before":
            before = pr
        elif tag["smuggle"] == "post":
            status = r.get("status")
        elif tag["smuggle"] == "after":
            n += 1
            changed = []
            for alias in ("V", "W"):
                a, b = rig_common.sess(before, alias), rig_common.sess(pr, alias)
                for k in ("exists", "nick", "loggedIn", "lastCmid", "channels", "operator", "server"):
                    if (a or {}).get(k) != (b or {}).get(k):
                        changed.append("%s.%s: %r -> %r" % (alias, k, (a or {}).get(k), (b or {}).get(k)))
            if len(before.get("sessions") or []) != len(pr.get("sessions") or []):
                changed.append("number of sessions %d -> %d" % (len(before.get("sessions") or []), len(pr.get("sessions") or [])))
            m0, m1 = rig_common.sess(before, "M"), rig_common.sess(pr, "M")
            if (m0 or {}).get("exists") != (m1 or {}).get("exists"):
                changed.append("M.exists: %r -> %r" % ((m0 or {}).get("exists"), (m1 or {}).get("exists")))
            if changed:
                verd.bad("body-names-another-session-or-type-" + tag["name"],
                         "POST .../message by a session with its own secret and a body carrying extra members (%s) answered %s "
                         "and changed what only other credentials may change: %s" % (tag["name"], status, "; ".join(changed)[:400]),
                         {"program": prog, "variant": tag["name"]})
    ctx.cov["smuggled_bodies"] = n


def selftest(ctx, trace):
    out = {}
    # (a) an unauthorised request that is recorded as accepted must break an invariant
    t = [dict(e) for e in trace]
    for e in t:
        if e["ev"] == "Req" and e["req"]["disp"] == "public" and e["req"]["cred"] == "otherLive" \
                and e["req"].get("shape") == "sid/message" and e["req"]["method"] == "POST" and e["obs"]["status"] == "404":
            e["obs"] = {"status": "200", "effect": "post", "discloses": False}
            r = validate(ctx, t, "tlc-selftest-a")
            out["forged_effect_rejected"] = r.invariant_violated == "EffectNeedsSecret"
            break
    # (b) a private 401 turned into 200
    t = [dict(e) for e in trace]
    for e in t:
        if e["ev"] == "Req" and e["req"]["disp"] == "private" and e["req"]["basic"] == "wrongPw" and e["obs"]["status"] == "401":
            e["obs"] = dict(e["obs"], status="200")
            r = validate(ctx, t, "tlc-selftest-b")
            out["forged_private_200_rejected"] = r.invariant_violated == "PrivateNeedsPassword"
            break
    # (c) dropping the DELETE that ends a victim's life must show up as drift
    t = [dict(e) for e in trace]
    for n, e in enumerate(t):
        if e["ev"] == "Req" and e["obs"]["effect"] == "delete" and n + 1 < len(t) and t[n + 1]["ev"] == "Req":
            del t[n]
            r = validate(ctx, t, "tlc-selftest-c")
            acc = rig_common.trace_accepted(r.out)
            base = rig_common.trace_accepted  # noqa
            out["dropped_event_detected"] = bool(r.invariant_violated) or bool(acc and acc[1] > 0)
            break
    ctx.cov["binding_selftest"] = out
    if len(out) < 3 or not all(out.values()):
        raise vlib.Inconclusive("binding self-test failed: %s" % out)
    if getattr(ctx, "selftest", False):
        ctx.log("selftest: %s" % out)
