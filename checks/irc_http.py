"""HTTP-level stage of the IRC-layer properties (C12; attached to C04).

The IRC engine (irc_common) judges the bare state machine.  This stage runs the same state-aware random
histories through a COMPLETE single-node network (harness/rig: real HTTP API, real raft, FSM, LevelDB,
output stream) and lets TLC validate, with the same IRCTrace.tla,

  * every step as it was really applied (entry read back from the irclog, projected state of the live
    server, replies read from the live output stream): all IRCProps predicates + conformance with Step;
  * what every session's real long poll(s) delivered (cancelled and resumed with lastseen in between):
    StreamIsEntitledReplies - exactly the messages addressed to the session, in order, once.

Result cached per (tree, harness, spec, tier, seed) like the engine's.
"""
import fcntl
import hashlib
import json
import os
import re
import subprocess
import time

import vlib
from checks import irc_common, rig_common

PARAMS = {"quick": (60, 45), "thorough": (600, 60)}     # histories, entries per history


def _key(tier, seed):
    h = hashlib.sha256()
    for cmd in (["git", "-C", vlib.REPO, "rev-parse", "HEAD"], ["git", "-C", vlib.REPO, "diff", "HEAD"],
                ["git", "-C", vlib.REPO, "status", "--porcelain"]):
        h.update(subprocess.run(cmd, stdout=subprocess.PIPE, stderr=subprocess.DEVNULL).stdout)
    for d, pred in (("spec", lambda f: f.startswith("IRC")), ("harness/irc", None), ("harness/ircproj", None),
                    ("harness/rig", lambda f: f.startswith("rig_") or f == "steps_c12.go"),
                    ("checks", lambda f: f in ("irc_http.py", "rig_common.py")), ("tools", lambda f: f == "vlib.py")):
        base = os.path.join(vlib.VERIF, d)
        for f in sorted(os.listdir(base)):
            p = os.path.join(base, f)
            if os.path.isfile(p) and (pred is None or pred(f)):
                h.update(f.encode())
                h.update(open(p, "rb").read())
    h.update(("%s/%s/%s" % (tier, seed, vlib.REPO)).encode())
    return h.hexdigest()[:24]


def build(ctx):
    src, info = rig_common.mux_source()
    rigdir = os.path.join(vlib.HARNESS, "rig")
    mapping = {"zz_verif_rigmux_test.go": src}
    for f in sorted(os.listdir(rigdir)):
        if (f.startswith("rig_") and f.endswith("_test.go")) or f == "steps_c12.go":
            mapping["zz_verif_" + f] = os.path.join(rigdir, f)
    mapping.update(irc_common.overlay_map())
    ov = ctx.overlay(mapping)
    out = os.path.join(ctx.sub("righttp"), "rig.test")
    ctx.go_build_test(".", ov, out)
    return out


def run_programs(ctx, binary, progs, name):
    n = len([d for d in os.listdir(ctx.scratch) if d.startswith(name + "-")])
    os.environ["VERIF_RIG_OFFSET0"] = "1"
    try:
        res = rig_common.run(ctx, binary, progs, par=8, timeout=1500, name=name, probe_errors_ok=True)
    finally:
        os.environ.pop("VERIF_RIG_OFFSET0", None)
    outdir = os.path.join(ctx.scratch, "%s-%d" % (name, n), "out")
    return res, outdir


def run_stage(ctx, only=None):
    nh, length = PARAMS[ctx.tier]
    res = {"fail": [], "conf": [], "histories": 0, "steps": 0, "steps_sup": 0, "conforming": 0, "streams": 0,
           "stream_lines": 0, "polls": 0, "resumed": 0, "refused": 0, "kinds": {}, "tlc": {"generated": 0, "distinct": 0, "runs": 0},
           "samples": []}
    t0 = time.time()
    binary = build(ctx)
    if only is not None:
        progs = [only]
    else:
        progs = []
        for k in range(1, nh + 1):
            progs.append({"name": "h%d" % k, "opts": {}, "steps": [{"op": "irchist", "tag": {
                "seed": ctx.seed * 1000003 + k, "len": length, "wild": 40 if k % 5 == 4 else 0, "h": k, "resume": 7}}]})
    out, outdir = run_programs(ctx, binary, progs, "righttp")
    res["rig_wall_s"] = round(time.time() - t0, 1)
    # collect the traces, chunk them
    chunks, cur, curlen = [], None, 0
    endline = json.dumps({"k": "end", "h": 0, "i": 0, "post": {}, "out": [], "lookup": []}) + "\n"
    recs_by_h = {}
    prog_by_h = {}
    for p in progs:
        rr = [r for r in out[p["name"]] if r["op"] == "irchist"]
        if rr and rr[0].get("died"):
            # the complete node died while a history was running: if it died in the state machine's recover
            # handler (a panic while applying an entry) that is C06's subject; the history cannot be judged further
            logtxt = rr[0].get("log", "")
            pend = {}
            try:
                with open(os.path.join(outdir, p["name"], "irchist.pending")) as fh:
                    pend = json.load(fh)
            except (OSError, ValueError):
                pass
            if re.search(r"statemachine\.go:\d+\] (runtime error|.*panic)|as message of death", logtxt):
                m = re.search(r"statemachine\.go:\d+\] ([^\n]*)", logtxt)
                res["fail"].append({"prop": "C06", "pred": "NoPanic", "h": p["steps"][0]["tag"]["h"], "i": pend.get("step", 0),
                                    "data": pend.get("data", ""), "cmd": (pend.get("data", "").split() or [""])[0].upper(),
                                    "t": pend.get("t", "line"), "server": False,
                                    "detail": "the node died in FSM.Apply: %s" % (m.group(1) if m else logtxt[-200:])[:300],
                                    "lines": "", "rids": "", "program": p, "applied": []})
                res["died"] = res.get("died", 0) + 1
                continue
            raise vlib.Inconclusive("HTTP-level history %s: the node died: %s" % (p["name"], logtxt[-1500:]))
        if not rr or rr[0].get("err"):
            raise vlib.Inconclusive("HTTP-level history %s did not complete: %s" % (p["name"], json.dumps(rr)[:1500]))
        ex = rr[0].get("extra") or {}
        res["resumed"] += ex.get("resumed", 0)
        res["refused"] += ex.get("refused", 0)
        for k2, v in (ex.get("kinds") or {}).items():
            res["kinds"][k2] = res["kinds"].get(k2, 0) + v
        path = os.path.join(outdir, p["name"], "irctrace.ndjson")
        if not os.path.exists(path):
            raise vlib.Inconclusive("HTTP-level history %s left no trace" % p["name"])
        lines = [l for l in open(path) if l.strip()]
        h = p["steps"][0]["tag"]["h"]
        prog_by_h[h] = p
        recs_by_h[h] = [json.loads(l) for l in lines]
        if not recs_by_h[h] or recs_by_h[h][-1]["k"] != "streams":
            raise vlib.Inconclusive("HTTP-level history %s: trace is incomplete" % p["name"])
        if cur is None or curlen > 1200:
            if cur is not None:
                cur.write(endline)
                cur.close()
            chunks.append(os.path.join(ctx.scratch, "httpchunk-%d.ndjson" % len(chunks)))
            cur, curlen = open(chunks[-1], "w"), 0
        for l in lines:
            cur.write(l if l.endswith("\n") else l + "\n")
        curlen += len(lines)
        res["histories"] += 1
        for x in recs_by_h[h]:
            if x["k"] == "step":
                res["steps"] += 1
                if x["e"]["sup"]:
                    res["steps_sup"] += 1
            elif x["k"] == "streams":
                for s in x["streams"]:
                    res["streams"] += 1
                    res["stream_lines"] += len(s["got"])
                    res["polls"] += s["polls"]
                if len(res["samples"]) < 2:
                    res["samples"].append({"http_streams_of_history": h, "streams": [
                        {"sid": s["sid"], "live": s["live"], "polls": s["polls"], "lines": len(s["got"]), "first": s["got"][:3]}
                        for s in x["streams"][:4]]})
    if cur is not None:
        cur.write(endline)
        cur.close()

    def validate(n):
        return ctx.tlc("IRCTrace", cfg="IRCTraceRig.cfg", workers=1, timeout=1800, files={"irctrace.ndjson": chunks[n]},
                       deadlock=False, name="httptrace-%d" % n, heap="3g")
    import concurrent.futures
    with concurrent.futures.ThreadPoolExecutor(max_workers=int(os.environ.get("VERIF_TRACE_PAR", "8"))) as ex:
        results = list(ex.map(validate, range(len(chunks))))
    props, confs, streams = [], [], []
    for rt in results:
        if "CONFORMING" not in rt.out or not rt.finished or rt.rc != 0:
            raise vlib.Inconclusive("IRCTrace did not consume an HTTP-level trace chunk: rc=%s\n%s" % (rt.rc, rt.out[-3000:]))
        res["tlc"]["generated"] += rt.generated
        res["tlc"]["distinct"] += rt.distinct
        res["tlc"]["runs"] += 1
        for item in irc_common._parse_tuple_lines(rt.out):
            m = re.match(r'<<"PROP", <<"(C\d+)", "(\w+)">>, (\d+), (\d+)>>', item)
            if m:
                props.append((m.group(1), m.group(2), int(m.group(3)), int(m.group(4))))
                continue
            m = re.match(r'<<"CONF", "([\w-]+)", (\d+), (\d+)(.*)>>$', item, re.S)
            if m:
                confs.append((m.group(1), int(m.group(2)), int(m.group(3)), m.group(4)[:600]))
                continue
            m = re.match(r'<<"STREAM", (\d+), (\d+), (TRUE|FALSE), (\d+), (\d+), (\d+)>>', item)
            if m:
                streams.append(tuple(m.groups()))
                continue
            m = re.match(r'<<"CONFORMING", (\d+)>>', item)
            if m:
                res["conforming"] += int(m.group(1))
    res["wall_s"] = round(time.time() - t0, 1)
    sdetail = {}
    for h, sid, live, polls, ngot, nwant in streams:
        srec = next((s for s in recs_by_h.get(int(h), [{}])[-1].get("streams", []) if str(s["sid"]) == sid), {})
        sdetail.setdefault(int(h), []).append("session %s (%s, %s poll(s), last poll %s status %s): delivered %s lines, %s addressed to it; %s" % (
            sid, "live" if live == "TRUE" else "ended", polls, "ended by the server" if srec.get("ended") else "open",
            srec.get("status"), ngot, nwant, srec.get("note", "")))
    seen = set()
    for pid, name, h, i in props:
        if (pid, name, h) in seen and name == "StreamIsEntitledReplies":
            continue
        seen.add((pid, name, h))
        recs = recs_by_h.get(h, [])
        x = next((y for y in recs if y["k"] == "step" and y["i"] == i), None)
        e = x["e"] if x else {"t": "streams", "data": "", "cmd": ""}
        res["fail"].append({"prop": pid, "pred": name, "h": h, "i": i, "data": e.get("data", ""), "cmd": e.get("cmd", ""),
                            "t": e["t"], "server": bool(e.get("haspfx")), "detail": "; ".join(sdetail.get(h, []))[:600],
                            "lines": (x or {}).get("lines", ""), "rids": (x or {}).get("rids", ""),
                            "program": prog_by_h[h],
                            "applied": [y["e"]["data"] for y in recs if y["k"] == "step" and y["i"] <= i][-60:]})
    for kind, h, i, detail in confs[:30]:
        x = next((y for y in recs_by_h.get(h, []) if y["k"] == "step" and y["i"] == i), None)
        res["conf"].append({"kind": kind, "h": h, "i": i, "data": x["e"].get("data", "") if x else "?", "detail": detail})
    res["conf_total"] = len(confs)
    return res


def get_stage(ctx):
    os.makedirs(irc_common.CACHE, exist_ok=True)
    key = _key(ctx.tier, ctx.seed)
    path = os.path.join(irc_common.CACHE, "irchttp-%s.json" % key)
    lock = open(os.path.join(irc_common.CACHE, "irchttp-%s.lock" % key), "w")
    fcntl.flock(lock, fcntl.LOCK_EX)
    try:
        try:
            if time.time() - os.path.getmtime(path) < 3600 and not os.environ.get("VERIF_NOCACHE"):
                with open(path) as fh:
                    res = json.load(fh)
                res["cached"] = True
                return res
        except OSError:
            pass
        for f in os.listdir(irc_common.CACHE):
            try:
                if f.startswith("irchttp-") and f != os.path.basename(lock.name) and \
                        time.time() - os.path.getmtime(os.path.join(irc_common.CACHE, f)) > 7200:
                    os.unlink(os.path.join(irc_common.CACHE, f))
            except OSError:
                pass
        res = run_stage(ctx)
        res["cached"] = False
        with open(path + ".tmp", "w") as fh:
            json.dump(res, fh)
        os.rename(path + ".tmp", path)
        return res
    finally:
        fcntl.flock(lock, fcntl.LOCK_UN)
        lock.close()


def report(ctx, pid, replay_program=None):
    """Adds the HTTP-level verdicts filed under pid to the check's result."""
    res = run_stage(ctx, only=replay_program) if replay_program else get_stage(ctx)
    seen = set()
    for f in res["fail"]:
        if f["prop"] != pid:
            continue
        role = "services" if f["server"] else "client"
        sig = "http:%s:%s:%s:%s" % (f["pred"], f["t"], role, f["cmd"] or "-")
        if sig in seen:
            continue
        seen.add(sig)
        what = "%s false on a complete node (HTTP level) at entry %d of history %d: %r %s" % (
            f["pred"], f["i"], f["h"], f["data"][:80], f["detail"][:400])
        ctx.violation(sig, what, {"rig_program": f["program"], "applied_lines": f["applied"],
                                  "how": "./check %s --replay <this file> re-runs the program on the rig (harness/rig/steps_c12.go)" % pid})
    for c in res["conf"][:6]:
        ctx.drift("IRC.tla Step differs from the complete node (%s) at HTTP-level history %d entry %d: %r %s" % (
            c["kind"], c["h"], c["i"], c["data"][:60], c["detail"][:200]))
    ctx.cov["http_level"] = {
        "what": "state-aware random histories through the real HTTP API of a single-node network (real raft, FSM, "
                "LevelDB, output stream); every applied entry and every long poll validated by TLC (IRCTrace.tla)",
        "histories": res["histories"], "entries_validated": res["steps"], "entries_in_model_alphabet": res["steps_sup"],
        "entries_conforming_to_Step": res["conforming"], "session_streams_validated": res["streams"],
        "stream_lines_validated": res["stream_lines"], "long_polls": res["polls"], "polls_cancelled_and_resumed": res["resumed"],
        "requests_refused_by_the_api": res["refused"], "conformance_differences": res.get("conf_total", 0),
        "tlc": res["tlc"], "wall_s": res.get("wall_s"), "cached": res.get("cached", False), "kinds": res["kinds"]}
    for s in res["samples"]:
        ctx.sample(s)
    return res


def run_check(ctx, pid):
    """Body of the checks that are decided by the IRC-layer engine plus this stage."""
    rp = None
    if getattr(ctx, "replay", None):
        with open(ctx.replay) as fh:
            rp = (json.load(fh).get("replay") or {}).get("rig_program")
    if rp:
        report(ctx, pid, replay_program=rp)
        return
    irc_common.report(ctx, pid)
    if not getattr(ctx, "replay", None):
        report(ctx, pid)
