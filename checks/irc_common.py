"""Shared engine of the IRC-layer properties (C01 C03 C06 C12 C13 C14 C17).

One engine run =
  1. TLC exhaustive on IRCMC (design model, every property predicate on every transition)
  2. TLC simulation of IRCMC -> programs (model -> code)
  3. real code: harness/irc executes the TLC programs, the regression scenarios and
     seeded state-aware random histories on the real FSM.applyRobustMessage with K
     replicas + restored copies, recording one trace record per entry
  4. TLC IRCTrace: every property predicate on every recorded real state/step and
     conformance Step(pre, e) = (post, out)
The result is cached per (tree, harness, spec, tier, seed) so that the seven
property checks share it; each check module filters the failures of its property.
"""
import hashlib
import json
import os
import re
import subprocess
import time
import fcntl

import vlib

CACHE = os.path.join(vlib.VERIF, ".cache")
PROPS = ["C01", "C03", "C04", "C06", "C12", "C13", "C14", "C15", "C17"]


def _tree_key(tier, seed):
    h = hashlib.sha256()
    for cmd in (["git", "-C", vlib.REPO, "rev-parse", "HEAD"], ["git", "-C", vlib.REPO, "diff", "HEAD"],
                ["git", "-C", vlib.REPO, "status", "--porcelain"]):
        h.update(subprocess.run(cmd, stdout=subprocess.PIPE, stderr=subprocess.DEVNULL).stdout)
    for d in ("spec", "harness/irc", "harness/ircproj", "checks", "tools"):
        base = os.path.join(vlib.VERIF, d)
        for f in sorted(os.listdir(base)):
            if (d == "spec" and not f.startswith("IRC")) or (d == "checks" and not f.startswith("irc_")):
                continue
            p = os.path.join(base, f)
            if os.path.isfile(p):
                h.update(f.encode())
                h.update(open(p, "rb").read())
    h.update(("%s/%s/%s" % (tier, seed, vlib.REPO)).encode())
    return h.hexdigest()[:24]


def overlay_map():
    m = {}
    for f in sorted(os.listdir(os.path.join(vlib.HARNESS, "ircproj"))):
        if f.endswith(".go"):
            m["internal/ircserver/zz_verif_" + f] = os.path.join(vlib.HARNESS, "ircproj", f)
    for f in sorted(os.listdir(os.path.join(vlib.HARNESS, "irc"))):
        if f.endswith(".go"):
            m["zz_verif_" + f] = os.path.join(vlib.HARNESS, "irc", f)
    return m


PARAMS = {
    #            mc cfg            mc timeout  sim num depth   gen histories len   K
    "quick":    (["IRCMC_small.cfg"], 300,     150, 22,         90, 45,           3),
    "thorough": (["IRCMC_small.cfg", "IRCMC_deep.cfg", "IRCMC_deepall.cfg"], 1500, 1500, 30, 600, 60,  5),
}
FANOUT = {"quick": 4, "thorough": 3}     # fan-out probes from the final state of every n-th history
EDGECFG = {"quick": "IRCMC_edges1.cfg", "thorough": "IRCMC_edges2.cfg"
}


def _parse_tuple_lines(out):
    """TLC prints PrintT tuples possibly over several lines; join them."""
    items, cur, depth = [], "", 0
    for line in out.splitlines():
        if depth == 0 and not line.startswith("<<"):
            continue
        cur += line.strip() + " "
        depth += line.count("<<") - line.count(">>")
        if depth <= 0:
            items.append(cur.strip())
            cur, depth = "", 0
    return items


def run_engine(ctx):
    mccfg, mcto, simnum, simdepth, gen, glen, k = PARAMS[ctx.tier]
    res = {"tier": ctx.tier, "seed": ctx.seed, "fail": [], "conf": [], "panics": [], "tlc": {}, "samples": []}
    workers = int(os.environ.get("VERIF_TLC_WORKERS", "8"))

    # 1. design model, exhaustive
    mc_counterexample = None
    res["tlc"]["mc"] = {"cfg": [], "generated": 0, "distinct": 0, "depth": 0, "wall_s": 0, "ok": True, "violated": None}
    for cfgname in mccfg:
        t0 = time.time()
        r = ctx.tlc("IRCMC", cfg=cfgname, workers=workers, timeout=mcto, name="mc-" + cfgname, heap="8g")
        mc = res["tlc"]["mc"]
        mc["cfg"].append(cfgname)
        mc["generated"] += r.generated
        mc["distinct"] += r.distinct
        mc["depth"] = max(mc["depth"], r.depth)
        mc["wall_s"] += round(time.time() - t0, 1)
        if r.invariant_violated:
            # a failing predicate in the design model: candidate only (judged on the real code by the trace)
            m = re.findall(r'data \|-> "((?:[^"\\]|\\.)*)"', r.out)
            bad = re.findall(r"/\\ bad = (\{.*\})", r.out)
            mc["bad"] = bad[-1] if bad else "?"
            mc["trace_data"] = m[-40:]
            mc["violated"] = r.invariant_violated
            mc_counterexample = True
        elif r.timed_out and cfgname != mccfg[0]:
            mc["partial"] = "%s stopped by its time limit after %d states (no failure found so far)" % (cfgname, r.generated)
        elif not r.ok:
            raise vlib.Inconclusive("IRCMC exhaustive run failed (%s): rc=%s timeout=%s\n%s" % (cfgname, r.rc, r.timed_out, r.out[-3000:]))

    # 2. model -> code programs by simulation
    t0 = time.time()
    rs = ctx.tlc("IRCMC", cfg="IRCMC_sim.cfg", workers=1, simulate="num=%d" % simnum, depth=simdepth + 20,
                 timeout=300, name="sim")
    progs = []
    for item in _parse_tuple_lines(rs.out):
        if item.startswith('<<"PROGRAM"'):
            m = re.match(r'<<"PROGRAM", "(.*)">>$', item, re.S)
            if m:
                js = m.group(1).encode().decode("unicode_escape")
                try:
                    progs.append(json.loads(js))
                except Exception:
                    pass
    if not progs:
        raise vlib.Inconclusive("IRCMC simulation produced no program:\n" + rs.out[-2000:])
    res["tlc"]["sim"] = {"programs": len(progs), "wall_s": round(time.time() - t0, 1)}
    prog_file = os.path.join(ctx.scratch, "programs.ndjson")
    with open(prog_file, "w") as fh:
        with open(os.path.join(vlib.HARNESS, "irc", "scenarios.ndjson")) as sc:
            nscen = 0
            for line in sc:
                if line.strip():
                    fh.write(line.strip() + "\n")
                    nscen += 1
        for p in progs:
            fh.write(json.dumps({"prog": p}) + "\n")
    res["scenarios"] = nscen

    # 3. real code.  Traces can be large (thorough tier: millions of records), so they are never held in
    # memory: they are streamed line by line (statistics, chunking, comparison) and re-scanned for the few
    # records a failure report needs.
    def stream(path):
        with open(path) as fh:
            for line in fh:
                if line.strip():
                    yield json.loads(line)

    def finished(path):
        try:
            with open(path, "rb") as fh:
                fh.seek(0, 2)
                size = fh.tell()
                fh.seek(max(0, size - 4096))
                tail = fh.read().decode("utf-8", "replace").strip().splitlines()
            return bool(tail) and tail[-1].startswith('{"k":"end"')
        except OSError:
            return False

    t0 = time.time()
    trace = os.path.join(ctx.scratch, "irctrace.ndjson")
    ov = ctx.overlay(overlay_map())
    rc, out = ctx.go_test(".", ov, "^TestVerifIRC$", timeout=3000, env={
        "VERIF_IRC_OUT": trace, "VERIF_IRC_IN": prog_file, "VERIF_IRC_GEN": gen, "VERIF_IRC_LEN": glen,
        "VERIF_IRC_K": k, "VERIF_IRC_SNAP": 1, "VERIF_IRC_FANOUT": FANOUT[ctx.tier],
        "VERIF_IRC_DET": 40 if ctx.quick else 400})
    if rc != 0 or not os.path.exists(trace):
        raise vlib.Inconclusive("IRC harness failed (rc=%s):\n%s" % (rc, out[-4000:]))
    if not finished(trace):
        raise vlib.Inconclusive("IRC harness did not finish its trace:\n%s" % out[-2000:])
    res["harness_wall_s"] = round(time.time() - t0, 1)

    # 3a. wall-clock independence (C01): the same histories in a child process whose clock is shifted.
    # The standard library's time.Now is replaced (go -overlay on GOROOT/src/time/time.go) by a copy that adds
    # VERIF_TIME_OFFSET_S seconds; entries carry their own timestamps, so the recorded steps must be identical.
    t0 = time.time()
    goroot = vlib.run(["go", "env", "GOROOT"], env=vlib._env())[1].strip()
    tsrc_path = os.path.join(goroot, "src", "time", "time.go")
    anchor = "func Now() Time {\n\tsec, nsec, mono := now()"
    try:
        tsrc = open(tsrc_path).read()
    except OSError:
        tsrc = ""
    if anchor not in tsrc:
        raise vlib.Inconclusive("cannot patch time.Now of this Go toolchain (%s)" % tsrc_path)
    tsrc = tsrc.replace(anchor, """var verifOffset = func() int64 {
	v, ok := syscall.Getenv("VERIF_TIME_OFFSET_S")
	if !ok {
		return 0
	}
	var n int64
	neg := false
	for i := 0; i < len(v); i++ {
		if v[i] == '-' {
			neg = true
			continue
		}
		n = n*10 + int64(v[i]-'0')
	}
	if neg {
		n = -n
	}
	return n
}()

func Now() Time {
	sec, nsec, mono := now()
	sec += verifOffset""")
    if '"syscall"' not in tsrc:
        tsrc = tsrc.replace("package time\n", 'package time\n\nimport "syscall"\n', 1)
    tpatched = os.path.join(ctx.scratch, "time_patched.go")
    with open(tpatched, "w") as fh:
        fh.write(tsrc)
    with open(ov) as fh:
        ovj = json.load(fh)
    ovj["Replace"][tsrc_path] = tpatched
    ov_shift = os.path.join(ctx.scratch, "overlay-shift.json")
    with open(ov_shift, "w") as fh:
        json.dump(ovj, fh)
    res["clock_shift"] = {"offsets_s": [], "records_compared": 0}
    # both runs use timestamps anchored at the real time (TSBASE), so that code which wrongly reads the wall
    # clock sees small distances in the reference run and large ones in the shifted run
    tsbase = int(time.time())
    sgen = gen if ctx.tier == "quick" else max(gen // 3, 1)

    def shifted_run(off):
        strace = os.path.join(ctx.scratch, "irctrace-shift%d.ndjson" % off)
        rc, out = ctx.go_test(".", ov_shift, "^TestVerifIRC$", timeout=3000, env={
            "VERIF_IRC_OUT": strace, "VERIF_IRC_IN": prog_file, "VERIF_IRC_GEN": sgen, "VERIF_IRC_LEN": glen,
            "VERIF_IRC_K": 1, "VERIF_IRC_SNAP": 1, "VERIF_IRC_FANOUT": 0, "VERIF_TIME_OFFSET_S": off,
            "VERIF_IRC_TSBASE": tsbase})
        if rc != 0 or not os.path.exists(strace) or not finished(strace):
            raise vlib.Inconclusive("clock-shifted IRC harness failed (rc=%s):\n%s" % (rc, out[-3000:]))
        return strace

    def steps_of(path):
        for x in stream(path):
            if x["k"] in ("step", "snap"):
                yield x

    def program_of(path, h, upto):
        return [z["e"] for z in stream(path) if z["k"] == "step" and z["h"] == h and z["i"] <= upto]

    ref_path = shifted_run(0)
    for off in ([4000] if ctx.tier == "quick" else [4000, -4000, 90000]):
        spath = shifted_run(off)
        res["clock_shift"]["offsets_s"].append(off)
        seen_h = set()
        import itertools
        for x, y in itertools.zip_longest(steps_of(ref_path), steps_of(spath)):
            res["clock_shift"]["records_compared"] += 1
            if x is None or y is None:
                z = x or y
                if z["h"] not in seen_h:
                    seen_h.add(z["h"])
                    res["fail"].append({"prop": "C01", "pred": "ShiftedClockReplicaAgrees", "h": z["h"], "i": z["i"],
                                        "data": z["e"].get("data", ""), "cmd": z["e"].get("cmd", ""), "t": z["e"]["t"],
                                        "server": bool(z["e"].get("haspfx")), "det": "one of the two runs ended early", "snap": "",
                                        "snapat": 0, "lines": "", "panics": "", "view": "", "rids": "",
                                        "program": program_of(spath if y else ref_path, z["h"], z["i"])})
                break
            same = (x["k"], x["h"], x["i"]) == (y["k"], y["h"], y["i"]) and x["e"]["data"] == y["e"]["data"] and \
                x["out"] == y["out"] and x["post"] == y["post"] and x["panic"] == y["panic"]
            if not same and y["h"] not in seen_h:
                seen_h.add(y["h"])      # the first diverging step of a history
                what = "with the clock shifted by %+d s the step differs in %s" % (
                    off, [f for f in ("k", "h", "i", "out", "post", "panic") if x[f] != y[f]])
                res["fail"].append({"prop": "C01", "pred": "ShiftedClockReplicaAgrees", "h": y["h"], "i": y["i"],
                                    "data": y["e"].get("data", ""), "cmd": y["e"].get("cmd", ""), "t": y["e"]["t"],
                                    "server": bool(y["e"].get("haspfx")), "det": what, "snap": "", "snapat": 0, "lines": "",
                                    "panics": "", "view": "", "rids": "", "program": program_of(spath, y["h"], y["i"])})
                if (x["k"], x["h"], x["i"]) != (y["k"], y["h"], y["i"]):
                    break       # the two traces are no longer aligned
    res["clock_shift"]["wall_s"] = round(time.time() - t0, 1)

    # 3b. transition cover of the bounded model, replayed on the real server
    t0 = time.time()
    re_ = ctx.tlc("IRCMC", cfg=EDGECFG[ctx.tier], workers=1, timeout=3000, name="edges", heap="8g")
    if not re_.ok and not re_.invariant_violated:
        raise vlib.Inconclusive("IRCMC edge enumeration failed:\n" + re_.out[-2000:])
    prologues, nedges = {}, 0
    edge_file = os.path.join(ctx.scratch, "edges.json")
    with open(edge_file, "w") as fh:
        fh.write('{"edges":[')
        for item in _parse_tuple_lines(re_.out):
            if item.startswith('<<"EDGE"'):
                m = re.match(r'<<"EDGE", "(.*)">>$', item, re.S)
                if m:
                    fh.write(("," if nedges else "") + m.group(1).encode().decode("unicode_escape"))
                    nedges += 1
            elif item.startswith('<<"PROLOGUE"'):
                m = re.match(r'<<"PROLOGUE", (\d+), "(.*)">>$', item, re.S)
                if m:
                    prologues[m.group(1)] = json.loads(m.group(2).encode().decode("unicode_escape"))
        fh.write('],"prologues":' + json.dumps(prologues) + "}")
    re_.out = ""
    if not nedges or not prologues:
        raise vlib.Inconclusive("no transitions printed by %s" % EDGECFG[ctx.tier])
    etrace = os.path.join(ctx.scratch, "edgetrace.ndjson")
    rc, out = ctx.go_test(".", ov, "^TestVerifIRCEdges$", timeout=3000, env={"VERIF_IRC_OUT": etrace, "VERIF_IRC_EDGES": edge_file})
    if rc != 0 or not os.path.exists(etrace) or not finished(etrace):
        raise vlib.Inconclusive("IRC edge harness failed (rc=%s):\n%s" % (rc, out[-4000:]))
    res["tlc"]["edges"] = {"cfg": EDGECFG[ctx.tier], "transitions_printed": nedges, "wall_s": round(time.time() - t0, 1)}
    res["model_transitions_replayed"] = nedges

    # 4. trace validation: both traces are cut at history boundaries into chunk files (one streaming pass that
    # also gathers the statistics) which are validated by parallel TLC runs
    t0 = time.time()
    total_lines = 0
    for path in (trace, etrace):
        with open(path, "rb") as fh:
            total_lines += sum(1 for _ in fh)
    per_chunk = max(400, total_lines // (12 if ctx.tier == "quick" else 48))
    endline = json.dumps({"k": "end", "h": 0, "i": 0, "post": {}, "out": [], "lookup": []}, separators=(",", ":")) + "\n"
    chunk_paths, chunk_of_h, bases = [], {}, {}
    res.update({"snapshot_round_trips_of_traced_replica": 0, "histories": 0, "steps": 0, "steps_sup": 0, "cmds": {},
                "fanout_probes": 0})
    cur, curlen = None, 0
    nsteps_seen = 0
    for path in (trace, etrace):
        with open(path) as fh:
            for line in fh:
                if not line.strip():
                    continue
                x = json.loads(line)
                kx = x["k"]
                if kx == "end":
                    continue
                if kx == "reset":
                    res["histories"] += 1
                    if x.get("base"):
                        res["fanout_probes"] += 1
                        bases[x["h"]] = x["base"]
                    if cur is None or curlen >= per_chunk:
                        if cur is not None:
                            cur.write(endline)
                            cur.close()
                        chunk_paths.append(os.path.join(ctx.scratch, "chunk-%d.ndjson" % len(chunk_paths)))
                        cur, curlen = open(chunk_paths[-1], "w"), 0
                    chunk_of_h[x["h"]] = len(chunk_paths) - 1
                elif kx == "det":
                    res["det_steps"] = res.get("det_steps", 0) + 1
                elif kx in ("step", "snap"):
                    res["steps"] += 1
                    nsteps_seen += 1
                    if kx == "snap":
                        res["snapshot_round_trips_of_traced_replica"] += 1
                    e = x["e"]
                    if e["sup"]:
                        res["steps_sup"] += 1
                    key = e["t"] if e["t"] != "line" else ("S:" if e.get("haspfx") else "") + e.get("cmd", "")
                    res["cmds"][key] = res["cmds"].get(key, 0) + 1
                    if nsteps_seen in (1, 2, 3, 400, 401) and kx == "step":
                        res["samples"].append({"entry": {k2: e[k2] for k2 in ("t", "id", "sess", "ts", "data")},
                                               "out": [{"cmd": o["cmd"], "to": o["to"], "p": o["p"]} for o in x["out"][:3]],
                                               "post_nicks": x["post"]["nk"]})
                cur.write(line if line.endswith("\n") else line + "\n")
                curlen += 1
    if cur is not None:
        cur.write(endline)
        cur.close()

    def validate(n):
        return ctx.tlc("IRCTrace", cfg="IRCTrace.cfg", workers=1, timeout=3000, files={"irctrace.ndjson": chunk_paths[n]},
                       deadlock=False, name="trace-%d" % n, heap="3g")

    import concurrent.futures
    with concurrent.futures.ThreadPoolExecutor(max_workers=int(os.environ.get("VERIF_TRACE_PAR", "8"))) as ex:
        results = list(ex.map(validate, range(len(chunk_paths))))
    res["tlc"]["trace"] = {"generated": 0, "distinct": 0, "wall_s": 0, "parallel_runs": len(chunk_paths)}
    res["conforming"] = 0
    props, confs = [], []
    for rt in results:
        if "CONFORMING" not in rt.out or not rt.finished or rt.rc != 0:
            raise vlib.Inconclusive("IRCTrace did not consume its trace chunk: rc=%s\n%s" % (rt.rc, rt.out[-3000:]))
        res["tlc"]["trace"]["generated"] += rt.generated
        res["tlc"]["trace"]["distinct"] += rt.distinct
        for item in _parse_tuple_lines(rt.out):
            m = re.match(r'<<"PROP", <<"(C\d+)", "(\w+)">>, (\d+), (\d+)>>', item)
            if m:
                props.append((m.group(1), m.group(2), int(m.group(3)), int(m.group(4))))
                continue
            m = re.match(r'<<"CONF", "([\w-]+)", (\d+), (\d+)(.*)>>$', item, re.S)
            if m:
                confs.append((m.group(1), int(m.group(2)), int(m.group(3)), m.group(4)[:600]))
                continue
            m = re.match(r'<<"CONFORMING", (\d+)>>', item)
            if m:
                res["conforming"] += int(m.group(1))
        rt.out = ""
    res["tlc"]["trace"]["wall_s"] = round(time.time() - t0, 1)

    # fetch the records the failure reports need: one scan per chunk that contains a reported history (or the
    # base history of a reported fan-out probe); at most a few hundred distinct reports are kept
    MAXREP = 400
    props = props[:20000]
    wanted_h = set()
    kept, seen_sig = [], {}
    for pr in props:
        # cap per (property, predicate): the report deduplicates by signature anyway
        kk = (pr[0], pr[1])
        seen_sig[kk] = seen_sig.get(kk, 0) + 1
        if seen_sig[kk] <= MAXREP:
            kept.append(pr)
            wanted_h.add(pr[2])
    for cf in confs[:50]:
        wanted_h.add(cf[1])
    for h in list(wanted_h):
        if h in bases:
            wanted_h.add(bases[h])
    got = {}          # h -> list of records of that history
    for ci in sorted({chunk_of_h[h] for h in wanted_h if h in chunk_of_h}):
        for x in stream(chunk_paths[ci]):
            if x.get("h") in wanted_h and x["k"] != "end":
                got.setdefault(x["h"], []).append(x)

    def history_upto(h, i):
        pre = history_upto(bases[h], 10 ** 9) if h in bases else []
        return pre + [y["e"] for y in got.get(h, []) if y["k"] in ("step", "det") and y["i"] <= i]

    def rec_of(h, i, kind):
        for y in got.get(h, []):
            if y["k"] == kind and y["i"] == i:
                return y
        return None

    for pid, name, h, i in kept:
        if name == "ExpireExact":
            x = [y for y in got.get(h, []) if y["k"] == "expire"][0]
            n = len([y for y in got.get(h, []) if y["k"] == "step"])
            res["fail"].append({"prop": pid, "pred": name, "h": h, "i": n, "data": "ExpireSessions probe", "cmd": "", "t": "expire",
                                "server": False, "det": "", "snap": "", "snapat": 0, "lines": "",
                                "panics": "ages (id, rid, age-expiration s) %s proposed %s" % (x["ages"], x["expire"]),
                                "program": history_upto(h, n)})
            continue
        x = (rec_of(h, i, "snap") if name.startswith("RoundTrip") else None) or rec_of(h, i, "step") or rec_of(h, i, "det")
        if x is None:
            raise vlib.Inconclusive("cannot find record %s/%s of a reported failure" % (h, i))
        res["fail"].append({"prop": pid, "pred": name, "h": h, "i": i, "data": x["e"].get("data", ""),
                            "cmd": x["e"].get("cmd", ""), "t": x["e"]["t"], "server": bool(x["e"].get("haspfx")),
                            "det": x.get("det", ""), "snap": x.get("snap", ""), "snapat": x.get("snapat", 0),
                            "lines": x.get("lines", ""), "panics": x.get("panics", ""), "view": x.get("view", ""), "rids": x.get("rids", ""),
                            "program": history_upto(h, i)})
    res["failures_reported_by_tlc"] = len(props)
    for kind, h, i, detail in confs[:50]:
        x = rec_of(h, i, "step")
        res["conf"].append({"kind": kind, "h": h, "i": i, "data": x["e"].get("data", "") if x else "?",
                            "detail": detail, "real_out": x["out"][:6] if x else []})
    res["conf_total"] = len(confs)
    res["mc_counterexample"] = bool(mc_counterexample)
    return res


def get_engine(ctx):
    """Cached engine result for this tree/tier/seed (computed under a file lock)."""
    os.makedirs(CACHE, exist_ok=True)
    key = _tree_key(ctx.tier, ctx.seed)
    path = os.path.join(CACHE, "irc-%s.json" % key)
    lock = open(os.path.join(CACHE, "irc-%s.lock" % key), "w")
    fcntl.flock(lock, fcntl.LOCK_EX)
    try:
        fresh = False
        try:
            fresh = time.time() - os.path.getmtime(path) < 3600
        except OSError:
            pass
        if fresh and not os.environ.get("VERIF_NOCACHE"):
            with open(path) as fh:
                res = json.load(fh)
            res["cached"] = True
            return res
        for f in os.listdir(CACHE):
            try:    # other check processes clean up concurrently
                if f.startswith("irc-") and f != os.path.basename(lock.name) and \
                        time.time() - os.path.getmtime(os.path.join(CACHE, f)) > 7200:
                    os.unlink(os.path.join(CACHE, f))
            except OSError:
                pass
        res = run_engine(ctx)
        res["cached"] = False
        with open(path + ".tmp", "w") as fh:
            json.dump(res, fh)
        os.rename(path + ".tmp", path)
        return res
    finally:
        fcntl.flock(lock, fcntl.LOCK_UN)
        lock.close()


def signature(f):
    """Stable class of a failing step: predicate + role + command (+ compared field paths for snapshots)."""
    role = "services" if f["server"] else "client"
    sig = "%s:%s:%s:%s" % (f["pred"], f["t"], role, f["cmd"] or "-")
    if f["pred"] == "SaveLoadInvisible":
        m = re.search(r"state differs at (\S+)", f["snap"])
        sig = "SaveLoadInvisible:" + (m.group(1) if m else f["snap"][:60])
    if f["pred"] == "ReplicasAgree":
        sig = "ReplicasAgree:%s:%s" % (role, f["cmd"] or f["t"])
    return sig


def run_replay(ctx, path):
    """Re-run one recorded failing program on the real code and validate it."""
    with open(path) as fh:
        v = json.load(fh)
    prog = v["replay"]["program"]
    prog_file = os.path.join(ctx.scratch, "programs.ndjson")
    with open(prog_file, "w") as fh:
        fh.write(json.dumps({"prog": prog}) + "\n")
    trace = os.path.join(ctx.scratch, "irctrace.ndjson")
    ov = ctx.overlay(overlay_map())
    rc, out = ctx.go_test(".", ov, "^TestVerifIRC$", timeout=600, env={
        "VERIF_IRC_OUT": trace, "VERIF_IRC_IN": prog_file, "VERIF_IRC_GEN": 0, "VERIF_IRC_K": 4, "VERIF_IRC_SNAP": 1})
    if rc != 0 or not os.path.exists(trace):
        raise vlib.Inconclusive("IRC harness failed (rc=%s):\n%s" % (rc, out[-4000:]))
    rt = ctx.tlc("IRCTrace", cfg="IRCTrace.cfg", workers=1, timeout=600, files={"irctrace.ndjson": trace},
                 deadlock=False, name="trace")
    recs = vlib.read_ndjson(trace)
    steps = [x for x in recs if x["k"] == "step"]
    res = {"fail": [], "conf": [], "tlc": {"mc": {"distinct": 0, "generated": 0}, "sim": {"programs": 1},
                                           "trace": {"distinct": rt.distinct, "generated": rt.generated}},
           "histories": 1, "steps": len(steps), "steps_sup": len(steps), "scenarios": 0, "cmds": {}, "samples": [],
           "cached": False}
    byhi = {(x["h"], x["i"]): x for x in steps}
    for item in _parse_tuple_lines(rt.out):
        m = re.match(r'<<"PROP", <<"(C\d+)", "(\w+)">>, (\d+), (\d+)>>', item)
        if m:
            x = byhi[(int(m.group(3)), int(m.group(4)))]
            print("REPLAY: %s %s false after entry %s: %r %s" % (m.group(1), m.group(2), m.group(4), x["e"].get("data", "")[:80],
                                                                 (x.get("det") or x.get("snap") or x.get("panics") or "")[:200]))
            res["fail"].append({"prop": m.group(1), "pred": m.group(2), "h": 1, "i": int(m.group(4)), "data": x["e"].get("data", ""),
                                "cmd": x["e"].get("cmd", ""), "t": x["e"]["t"], "server": bool(x["e"].get("haspfx")),
                                "det": x.get("det", ""), "snap": x.get("snap", ""), "snapat": 0, "lines": x.get("lines", ""),
                                "panics": x.get("panics", ""), "program": prog[:int(m.group(4))]})
    return res


def report(ctx, pid, extra_note=None):
    """Common tail of every IRC-layer check."""
    res = run_replay(ctx, ctx.replay) if getattr(ctx, "replay", None) else get_engine(ctx)
    mine = [f for f in res["fail"] if f["prop"] == pid]
    seen = set()
    diverged = set()
    for f in mine:
        if f["pred"] in ("ReplicasAgree", "SaveLoadInvisible"):
            # once two instances have diverged every later step differs too: report the first step per history
            if (f["pred"], f["h"]) in diverged:
                continue
            diverged.add((f["pred"], f["h"]))
        sig = signature(f)
        if sig in seen:
            continue
        seen.add(sig)
        detail = {"ShiftedClockReplicaAgrees": f["det"], "ReplyIdsArePositions": f.get("rids", ""), "ExpireExact": f["panics"], "PublicViewMatchesState": f.get("view", ""), "ReplicasAgree": f["det"], "SaveLoadInvisible": "cut after entry %s: %s" % (f["snapat"], f["snap"]),
                  "OneLine": f["lines"], "NoPanic": f["panics"]}.get(f["pred"], "")
        what = "%s false after entry %d of history %d: %r %s" % (f["pred"], f["i"], f["h"], f["data"][:80], detail[:300])
        ctx.violation(sig, what, {"program": f["program"], "how": "VERIF_IRC_IN=<file with {\"prog\": program}> go test -run TestVerifIRC (see checks/irc_common.py)"})
    for c in res["conf"][:10]:
        ctx.drift("IRC.tla Step differs from the code (%s) at history %d entry %d: %r %s" % (
            c["kind"], c["h"], c["i"], c["data"][:60], c["detail"][:200]))
    if res.get("conf_total", len(res["conf"])) > 10:
        ctx.drift("... %d more conformance differences" % (res.get("conf_total", len(res["conf"])) - 10))
    mc = res["tlc"]["mc"]
    if res.get("mc_counterexample"):
        ctx.note("IRCMC design model reports %s (candidate; judged only by the real-code trace)" % mc.get("bad"))
    ctx.cov["states"] = mc["distinct"] + res["tlc"]["trace"]["distinct"]
    ctx.cov["transitions"] = mc["generated"] + res["tlc"]["trace"]["generated"]
    ctx.cov["traces_validated_against_impl"] = res["histories"]
    ctx.cov["events_validated"] = res["steps"]
    ctx.cov["events_in_model_alphabet"] = res["steps_sup"]
    ctx.cov["events_conforming_to_Step"] = res.get("conforming", 0)
    ctx.cov["model_programs_replayed"] = res["tlc"]["sim"]["programs"] + res["scenarios"]
    ctx.cov["model_transitions_replayed"] = res.get("model_transitions_replayed", 0)
    ctx.cov["fanout_probes_from_reached_states"] = res.get("fanout_probes", 0)
    ctx.cov["clock_shifted_replica"] = res.get("clock_shift", {})
    ctx.cov["tlc_runs"] = res["tlc"]
    ctx.cov["commands_exercised"] = res["cmds"]
    ctx.cov["engine_cached"] = res["cached"]
    ctx.cov["predicate_failures_all_properties"] = res.get("failures_reported_by_tlc", len(res["fail"]))
    for s in res["samples"]:
        ctx.sample(s)
    ctx.assumptions += [
        "gopkg.in/sorcix/irc.v2 ParseMessage/Bytes are trusted (entries reach the model in parsed form)",
        "timestamps are whole seconds; ids are small raft-index-like integers",
        "TLC evaluates IRCProps predicates on projected real states (harness/ircproj); the projection is "
        "cross-checked by the reflection-based canonical form used for replica/snapshot comparison",
    ]
    return res


def attach(ctx, pid):
    """For checks of other engines whose property also depends on the state machine (C04: reply numbering):
    evaluate the IRC-layer predicates filed under pid and add the engine's numbers under an irc_layer key."""
    saved = dict(ctx.cov)
    saved_samples = list(ctx.cov.get("samples", []))
    res = report(ctx, pid)
    mine = {k: ctx.cov[k] for k in ("events_validated", "traces_validated_against_impl", "model_transitions_replayed",
                                    "fanout_probes_from_reached_states", "engine_cached") if k in ctx.cov}
    ctx.cov.clear()
    ctx.cov.update(saved)
    ctx.cov["samples"] = saved_samples
    ctx.cov["irc_layer"] = mine
    return res
