"""C17, lag stage - what the HTTP API of a REAL lagging node tells a client about its session.

The lookup clause of C17 ("a lagging follower never tells a client its live session is gone") is judged by the IRC
engine on the bare state machine (every prefix of every history), by the HTTP-level stage on a single node and while
a snapshot is loaded.  None of them observes internal/api's branches on a node of a 3-node network that really lags:
api.go sessionOrProxy (POST message / DELETE: ErrSessionNotYetSeen on a non-leader -> proxy to the leader, 500 "No
leader known" without one; anything else -> 404) and getmessages.go handleGetMessages (ErrSessionNotYetSeen -> 500,
else 404), in the raft states Follower (with / without leader), Candidate and Leader.  This stage does:

  * spec/Lag.tla (+ cfgs): nodes with raft role, stored and applied prefix of one log of CreateSession / line / QUIT
    line / DeleteSession entries, lastProcessed as statemachine.go maintains it, the routes with their answers as a
    function of (role, leader known, lookup over the applied prefix) branch for branch, proxying as an action;
    NeverGoneWhileAlive, GoneOnlyIfDeleted, NotYetSeenIsRetryable, ServedOnlyByKnowing, LookupSound exhaustively,
    EventuallyCaughtUp under weak fairness; Lag_asis.cfg (code as pinned) is expected to show the leader-lag 404;
  * harness/lag: real robustirc binaries (tags verif, built from vlib.REPO), three nodes; one node held back
    deterministically (FSM parked at hook point fsm.apply through VERIF_GATE_DIR, or SIGSTOP) while a session is created
    and used on the leader; the held-back node is asked on all three routes with the correct secret as Follower with a
    live leader, as Candidate after the others were killed (still held back, then released), as Follower without a
    leader after a restart, as freshly elected Leader whose FSM is behind, and after catching up; the same for a session
    deleted before the lag, an id that never was a session, an id from the future, a session that QUIT itself;
  * spec/LagTrace.tla: the property predicates evaluated on the recorded answers, conformance of the exact codes.

report(ctx) adds violations / drift / coverage to the given ctx (like c17_expiry.report).
"""
import concurrent.futures
import json
import os
import re
import shutil
import subprocess
import threading
import time

import vlib

HARNESS = "lag"
PKG = "cmd/zz_verif_lag"
_LOCK = threading.Lock()

PREDICATES = {
    "NeverGoneWhileAlive": "a node answered 404 for a session that is alive in the committed log (the client drops its session)",
    "ServedOnlyByKnowing": "a node answered 2xx ITSELF (no proxy) for a session whose CreateSession entry its FSM had not applied",
}

# what must have been observed (all three routes, for a live session) before the stage says "held"
SITUATIONS = {
    "follower-with-live-leader/not-applied": "Follower that names a running leader, session not applied (POST/DELETE proxied, GET 500)",
    "candidate/not-applied": "Candidate (lost its leader, no quorum), session not applied",
    "follower-without-leader/not-applied": "Follower without a leader (restarted alone), session not applied",
    "leader/not-applied": "freshly elected Leader whose FSM has not applied the session yet",
    "caught-up/served": "after catching up: served (200)",
}
ROUTES = ("post", "delete", "get")


def scenarios(ctx):
    seed = ctx.seed
    res = [("gate", 0), ("stop", 0), ("newleader", 0)]
    if not ctx.quick:
        res += [("gate", 1), ("stop", 1), ("newleader", 1), ("gate", 2), ("newleader", 2)]
    return [{"name": n, "seed": seed * 1000 + 17 * r + k, "k": k, "round": r} for k, (n, r) in enumerate(res)]


def build(ctx):
    bindir = ctx.sub("lag-bin")
    robust = ctx.go_build(".", os.path.join(bindir, "robustirc"), tags="verif", timeout=600)
    ov = ctx.harness_overlay(PKG, HARNESS)
    orch = ctx.go_build("./" + PKG, os.path.join(bindir, "verif-lag"), overlay=ov, tags="verif", timeout=600)
    return robust, orch


def run_scenario(ctx, robust, orch, sc, attempt=0):
    tag = "lag-%d-%s-%d" % (sc["k"], sc["name"], attempt)
    work = ctx.sub(tag + "-work")
    out = ctx.sub(tag + "-out")
    cmd = [orch, "-bin", robust, "-work", work, "-out", out, "-scenario", sc["name"], "-seed", str(sc["seed"]), "-deadline", "420"]
    t0 = time.time()
    rc, txt, to = vlib.run(cmd, cwd=work, env=vlib._env(), timeout=480)
    res = {"sc": sc, "out": out, "work": work, "rc": rc, "wall": round(time.time() - t0, 1), "attempt": attempt}
    try:
        with open(os.path.join(out, "result.json")) as fh:
            res["result"] = json.load(fh)
    except (OSError, ValueError):
        res["result"] = {"status": "inconclusive", "why": "the orchestrator left no result (rc=%s timed_out=%s): %s" % (rc, to, txt[-1500:])}
    # whatever happens, no robustirc process of this scenario may survive
    subprocess.run(["pkill", "-9", "-f", work], stdout=subprocess.DEVNULL, stderr=subprocess.DEVNULL)
    shutil.rmtree(work, ignore_errors=True)
    if res["result"].get("status") != "ok" and attempt == 0:
        # a situation that could not be established (election during the set-up under machine load, ...): once more
        ctx.log("lag stage: scenario %s inconclusive (%s); one more attempt" % (sc["name"], (res["result"].get("why") or "")[:200]))
        again = run_scenario(ctx, robust, orch, sc, attempt=1)
        again["first_attempt"] = (res["result"].get("why") or "")[:400]
        return again
    return res


def _parse_pairs(text):
    return [(m.group(1), int(m.group(2))) for m in re.finditer(r'<<\s*"([^"]*)",\s*(-?\d+)\s*>>', text)]


def parse_trace_result(out):
    hwm = re.search(r'<<"HWM", (\d+), (\d+)>>', out)
    m = re.search(r'<<\s*"RESULT",\s*\[\s*viol \|->\s*(\{.*?\})\s*,\s*drift \|->\s*(\{.*?\})\s*,\s*seen \|->\s*(\d+)\s*,\s*nlog \|->\s*(\d+)\s*\]\s*>>', out, re.S)
    if not hwm or not m:
        return None
    return {"hwm": tuple(int(x) for x in hwm.groups()), "viol": sorted(set(_parse_pairs(m.group(1)))),
            "drift": sorted(set(_parse_pairs(m.group(2)))), "seen": int(m.group(3)), "nlog": int(m.group(4))}


def validate(ctx, name, trace, label):
    r = ctx.tlc("LagTrace", cfg="LagTrace.cfg", workers=1, timeout=300, deadlock=False,
                files={"trace.ndjson": trace}, name="lagtrace-" + label, heap="2g")
    res = parse_trace_result(r.out)
    if not r.ok or res is None or res["hwm"][0] != res["hwm"][1] + 1:
        raise vlib.Inconclusive("LagTrace did not consume the trace of %s: rc=%s\n%s" % (name, r.rc, r.out[-3000:]))
    res["tlc"] = r
    return res


def read_recs(path):
    with open(path) as fh:
        return [json.loads(l) for l in fh.read().splitlines() if l.strip()]


def dump(recs):
    return "\n".join(json.dumps(r, sort_keys=True, separators=(",", ":")) for r in recs) + "\n"


def situation(e):
    """Which of the SITUATIONS a probe record witnesses (None: none)."""
    if e["ev"] != "probe" or e["what"] != "live" or e["code"] == 0:
        return None
    stable = e["role0"] == e["role1"] and e["lead0"] == e["lead1"]
    if not stable:
        return None
    unapplied = e["i"] > e["a1"] and e["i"] > e["a0"]
    if not unapplied:
        return "caught-up/served" if e["code"] == 200 and e["i"] <= e["a0"] else None
    if e["role0"] == "Follower":
        if e["lead0"] != 0:
            return "follower-with-live-leader/not-applied" if e["tup"] == 1 else None
        return "follower-without-leader/not-applied"
    if e["role0"] == "Candidate":
        return "candidate/not-applied"
    if e["role0"] == "Leader":
        return "leader/not-applied"
    return None


def selftest(ctx, trace_path):
    """The binding binds: corrupted copies of an accepted recording must be rejected."""
    recs = read_recs(trace_path)
    cases = {}

    def first(pred):
        for k, r in enumerate(recs):
            if r["ev"] == "probe" and pred(r):
                return k
        return None
    k = first(lambda r: r["what"] == "live" and r["role0"] == "Candidate" and r["route"] == "post" and r["code"] >= 500 and r["i"] > r["a1"])
    if k is not None:
        c = [dict(r) for r in recs]
        c[k]["code"] = 404
        cases["a Candidate's 500 for a live, not yet applied session turned into 404"] = (dump(c), "viol", "NeverGoneWhileAlive")
    k = first(lambda r: r["what"] == "live" and r["route"] == "get" and r["code"] == 500 and r["i"] > r["a1"])
    if k is not None:
        c = [dict(r) for r in recs]
        c[k]["code"] = 200
        cases["GET for a not yet applied session answered 200 by the lagging node itself"] = (dump(c), "viol", "ServedOnlyByKnowing")
    k = first(lambda r: r["what"] == "deleted" and r["code"] == 404 and r["role0"] == r["role1"] and r["a0"] == r["a1"])
    if k is not None:
        c = [dict(r) for r in recs]
        c[k]["code"] = 500
        cases["the 404 for a deleted session recorded as 500"] = (dump(c), "drift", "code")
    lps = [k for k, r in enumerate(recs) if r["ev"] == "lp" and r["a0"] == r["a1"]]
    if lps:
        c = [dict(r) for r in recs]
        c[lps[0]]["lp"] += 1
        cases["lastProcessed off by one"] = (dump(c), "drift", "lastProcessed")
    k = first(lambda r: r["what"] == "live" and r["code"] == 200 and r["i"] <= r["a0"])
    if k is not None:
        live = recs[k]["i"]
        c = [dict(r) for r in recs]
        for r in c:
            if r["ev"] == "log" and r["i"] == live:
                r["k"] = "other"    # the CreateSession entry dropped from the log
        cases["the session's CreateSession entry dropped from the recorded log"] = (dump(c), "any", None)
    res = {}
    for n, (what, (text, where, expect)) in enumerate(cases.items()):
        try:
            v = validate(ctx, "selftest", text, "selftest-%d" % n)
            names = [x[0] for x in (v["viol"] if where == "viol" else v["drift"] if where == "drift" else v["viol"] + v["drift"])]
            ok = (expect in names) if expect else bool(names)
            res[what] = "rejected (%s)" % ", ".join(sorted(set(names))) if ok else "NOT rejected"
        except vlib.Inconclusive as ex:
            res[what] = "machinery: %s" % str(ex)[:200]
    return res


MC_QUICK = [("Lag_small.cfg", 3), ("Lag_spur.cfg", 3), ("Lag_log4.cfg", 3), ("Lag_livesmall.cfg", 2), ("Lag_asis.cfg", 1)]
MC_THOROUGH = [("Lag_big.cfg", 4), ("Lag_live.cfg", 4), ("Lag_small.cfg", 3), ("Lag_spur.cfg", 3), ("Lag_log4.cfg", 3), ("Lag_asis.cfg", 1)]


def model_check(ctx, cfg, workers):
    t0 = time.time()
    r = ctx.tlc("Lag", cfg=cfg, workers=workers, timeout=2400, deadlock=False, name="lagmc-" + cfg.replace(".cfg", ""), heap="6g")
    return cfg, r, round(time.time() - t0, 1)


def describe(e):
    return {k: e[k] for k in ("q", "ph", "n", "route", "what", "i", "code", "body", "text", "prox", "by", "eff", "dup", "role0", "role1",
                              "lead0", "lead1", "a0", "a1", "clen", "tn", "ta", "trole", "tup") if k in e}


def report(ctx, replay=None):
    """Runs the stage and files its verdicts under ctx (property C17)."""
    t0 = time.time()
    robust, orch = build(ctx)
    build_s = round(time.time() - t0, 1)
    scs = scenarios(ctx)
    only_selftest = bool(getattr(ctx, "selftest", False)) and not replay
    if replay:
        scs = [dict(replay, k=0, round=0)]
    if only_selftest:
        scs = [s for s in scs if s["name"] == "gate"][:1]
    mcs = [] if (replay or only_selftest) else (MC_QUICK if ctx.quick else MC_THOROUGH)
    ctx.log("lag stage: %d scenario(s) on real 3-node networks, %d model-checking run(s) alongside" % (len(scs), len(mcs)))
    par = 3 if ctx.quick else 4
    with concurrent.futures.ThreadPoolExecutor(max_workers=par) as ex, concurrent.futures.ThreadPoolExecutor(max_workers=3) as exm:
        fs = [ex.submit(run_scenario, ctx, robust, orch, sc) for sc in scs]
        fm = [exm.submit(model_check, ctx, cfg, w) for cfg, w in mcs]
        runs = [f.result() for f in fs]
        scen_s = round(time.time() - t0 - build_s, 1)
        # validate the recordings while TLC is still busy with the design specification
        good, bad = [], []
        for r in runs:
            if r["result"].get("status") == "ok" and os.path.exists(os.path.join(r["out"], "trace.ndjson")):
                good.append(r)
            else:
                bad.append(r)
        with concurrent.futures.ThreadPoolExecutor(max_workers=6) as exv:
            futs = [(r, exv.submit(validate, ctx, r["sc"]["name"], os.path.join(r["out"], "trace.ndjson"), "%d-%s" % (r["sc"]["k"], r["sc"]["name"])))
                    for r in good]
            st_future = None
            gates = [r for r in good if r["sc"]["name"] == "gate"]
            if gates and not replay:
                st_future = exv.submit(selftest, ctx, os.path.join(gates[0]["out"], "trace.ndjson"))
            vals = [(r, f.result()) for r, f in futs]
            st = st_future.result() if st_future else None
        mcres = [f.result() for f in fm]

    stage = {"what": "the API of a really lagging node of a 3-node network (FSM parked at fsm.apply / SIGSTOP; Follower with and without leader, "
                     "Candidate, fresh Leader, caught up), answers validated by TLC (LagTrace.tla)",
             "build_s": build_s, "scenarios_s": scen_s, "model_checking": [], "scenarios": []}

    # ---- the design specification
    for cfg, r, wall in mcres:
        if cfg == "Lag_asis.cfg":
            # the code as pinned, modelled: the leader-lag branch must show up as a counterexample (it is what
            # scenario "newleader" looks for on the real binaries); never a verdict by itself
            found = r.invariant_violated == "NeverGoneWhileAlive"
            stage["asis_model_counterexample"] = "NeverGoneWhileAlive violated by a Leader that lags (expected)" if found else "NOT found"
            if not found:
                raise vlib.Inconclusive("TLC on Lag/Lag_asis.cfg did not produce the expected counterexample: %s" % r.out[-2000:])
            continue
        if not r.ok:
            raise vlib.Inconclusive("TLC on Lag/%s did not pass (design specification, not a verdict on the code): violated=%s\n%s" % (
                cfg, r.invariant_violated, r.out[-3000:]))
        ctx.add("states", r.distinct)
        ctx.add("transitions", r.generated)
        ctx.add("lag_tlc_runs")
        stage["model_checking"].append({"cfg": cfg, "distinct": r.distinct, "generated": r.generated, "depth": r.depth, "wall_s": wall})

    if st is not None:
        stage["binding_selftest"] = st
        ctx.cov["binding_selftest_lag"] = st
        if only_selftest:
            for what, outcome in st.items():
                print("SELFTEST %s: %s" % (what, outcome), flush=True)
        if any(str(o).startswith("NOT rejected") for o in st.values()):
            raise vlib.Inconclusive("lag stage: the binding self-test accepted a corrupted recording: %s" % st)

    # ---- the real runs
    established = {k: {r: 0 for r in ROUTES} for k in SITUATIONS}
    witnesses = {"probes": 0, "gone_for_deleted_404": 0, "gone_for_never_existed_404": 0, "proxied_and_served": 0,
                 "retryable_5xx_for_unapplied_live": 0, "lastprocessed_samples": 0}
    drift_seen = set()
    for r, v in vals:
        sc, res = r["sc"], r["result"]
        recs = read_recs(os.path.join(r["out"], "trace.ndjson"))
        byq = {e["q"]: e for e in recs if e["ev"] in ("probe", "lp")}
        ctx.add("states", v["tlc"].distinct)
        ctx.add("transitions", v["tlc"].generated)
        ctx.add("lag_tlc_runs")
        ctx.add("traces_validated_against_impl")
        ctx.add("events_validated", len(recs))
        sit = {}
        for e in recs:
            if e["ev"] == "lp":
                witnesses["lastprocessed_samples"] += 1
            if e["ev"] != "probe":
                continue
            witnesses["probes"] += 1
            s = situation(e)
            if s:
                established[s][e["route"]] += 1
                sit[s] = sit.get(s, 0) + 1
            if e["code"] == 404 and e["what"] == "deleted":
                witnesses["gone_for_deleted_404"] += 1
            if e["code"] == 404 and e["what"] == "never":
                witnesses["gone_for_never_existed_404"] += 1
            if e["code"] == 200 and e["prox"] == 1 and e["what"] == "live":
                witnesses["proxied_and_served"] += 1
            if e["code"] >= 500 and e["what"] == "live" and e["i"] > e["a1"]:
                witnesses["retryable_5xx_for_unapplied_live"] += 1
        stage["scenarios"].append({"scenario": sc["name"], "seed": sc["seed"], "wall_s": r["wall"], "attempt": r["attempt"],
                                   "first_attempt": r.get("first_attempt"), "leader": res.get("leader"), "held_back": res.get("held"),
                                   "log_entries": v["nlog"], "records": len(recs), "situations": sit, "notes": res.get("notes"),
                                   "drift": len(v["drift"]), "violations": len(v["viol"])})
        replay_obj = {"lag_scenario": {"name": sc["name"], "seed": sc["seed"]},
                      "how": "./check C17L --replay <this file> runs this scenario again on real binaries (harness/lag) and validates it",
                      "orchestrator_notes": res.get("notes")}
        sigs = set()
        for name, q in v["viol"]:
            e = byq.get(q, {})
            role = (e.get("role0") or "?").lower()
            sig = "lag:%s:%s:%s" % (name, role, e.get("route"))
            if sig in sigs:
                continue
            sigs.add(sig)
            what = "%s false on real robustirc binaries (3 nodes, scenario %s, phase %s): %s - node %s in raft state %s (leader known: %s), FSM at index %s, " \
                   "answered %s %s to %s for session index %s (%s; log committed up to %s)" % (
                       name, sc["name"], e.get("ph"), PREDICATES.get(name, ""), e.get("n"), e.get("role0"), e.get("lead0") or "none", e.get("a0"),
                       e.get("code"), json.dumps(e.get("text", ""))[:80], (e.get("route") or "").upper(), e.get("i"), e.get("what"), e.get("clen"))
            with _LOCK:
                ctx.violation(sig, what, dict(replay_obj, predicate=name, record=describe(e),
                                              log=[{"i": x["i"], "k": x["k"], "s": x["s"]} for x in recs if x["ev"] == "log"]))
        for kind, q in v["drift"]:
            e = byq.get(q, {})
            key = (kind, sc["name"], e.get("ph"), e.get("route"), e.get("what"), e.get("code"))
            if key in drift_seen:
                continue
            drift_seen.add(key)
            if kind == "lastProcessed":
                ctx.drift("lag (%s, phase %s): lastProcessed of node %s at applied index %s is %s, Lag.tla computes another value" % (
                    sc["name"], e.get("ph"), e.get("n"), e.get("a0"), e.get("lp")))
            else:
                ctx.drift("lag (%s, phase %s): %s%s for a %s id (index %s) on node %s (%s, leader known: %s, FSM at %s): HTTP %s %s%s - Lag.tla predicts another %s" % (
                    sc["name"], e.get("ph"), (e.get("route") or "").upper(), " (repeated ClientMessageId)" if e.get("dup") else "", e.get("what"), e.get("i"), e.get("n"),
                    e.get("role0"), e.get("lead0") or "none", e.get("a0"), e.get("code"), json.dumps(e.get("text", ""))[:60], " (proxied)" if e.get("prox") else "",
                    "status code" if kind == "code" else "proxy decision"))
        if len(ctx.cov["samples"]) < 6:
            picks = [describe(e) for e in recs if e["ev"] == "probe" and situation(e) and e["route"] == "post"][:3]
            ctx.sample({"lag_scenario": sc["name"], "probes": picks})
    stage["situations_established"] = established
    stage["witnesses"] = witnesses
    stage["wall_s"] = round(time.time() - t0, 1)
    ctx.cov["lag_stage"] = stage
    ctx.assumptions.append("lag stage: the applied index of a node is the index of the last fsm.apply hook record of its current incarnation (the hook "
                           "fires when FSM.Apply returns); raft state and leader are what /status reports right before and right after a request (a "
                           "request between two differing samples is not compared with the model); 'alive in the committed log' is judged on the "
                           "entries applied somewhere before the request was sent (the orchestrator is sequential); hashicorp/raft elects and commits as specified")
    if bad:
        why = "; ".join("%s: %s" % (r["sc"]["name"], (r["result"].get("why") or "")[:400]) for r in bad)
        raise vlib.Inconclusive("lag stage: scenario(s) did not complete (twice): " + why)
    if not replay and not only_selftest:
        missing = ["%s [%s]" % (k, ",".join(rt for rt in ROUTES if established[k][rt] == 0)) for k in SITUATIONS
                   if any(established[k][rt] == 0 for rt in ROUTES)]
        if missing:
            raise vlib.Inconclusive("lag stage: situation(s) not established on the real nodes: " + "; ".join(missing))
    return stage
