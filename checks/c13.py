"""C13 — decided by the shared IRC-layer engine (checks/irc_common.py) on the bare state machine and by the
HTTP-level stage (checks/irc_http.py) on a complete single-node network: the privilege predicates evaluated on entries as the real HTTP API turns requests into them."""
from checks import irc_http

LEVEL = "model_checking"


def run(ctx):
    irc_http.run_check(ctx, "C13")
