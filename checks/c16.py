"""C16 -- Config: only valid current-revision updates take effect, same on all nodes.

Technique: explicit TLA+ specification (spec/Config.tla: handlePostConfig/applyConfig,
the FSM's Config case as part of the pure transition function every node runs,
GLINE, Snapshot fold / Marshal, Restore, client traffic whose outcome depends on
the configuration) checked by TLC (exhaustive small configuration; invariants
ReplicasSameConfig, ExpirationFollowsConfig, GlineIsConfig, action properties
ConfigRevisionStep, RejectedChangesNothing).  TLC's simulator generates
behaviours (hist/ToJson); a greedy cover of them is REPLAYED on the single-node
rig: POST/GET /config through the real DispatchPrivate, client requests through
the real DispatchPublic (trusted bridge headers, Origin), GLINE, snapshots
(node.Snapshot() and GET /snapshot), restarts (new process, Restore + replay),
FSM-level injection of Config entries, and two observer replicas (log replay,
snapshot restore) that run a behaviour battery (OPER, session/channel limit,
bans, services password, captcha, origins, trusted bridge, compaction horizon).
The recorded observations are validated back in TLC (spec/ConfigTrace.tla:
the T_* property predicates are invariants over observations only).

Verdict (VIOLATION) only from property predicates on real observations
(Python predicates below give the signature, the ConfigTrace invariants are the
same predicates inside TLC); model/implementation differences that keep the
predicates true are DRIFT.
"""
import base64
import concurrent.futures
import hashlib
import hmac
import json
import os
import random
import re
import tomllib

import vlib
from checks import rig_common

LEVEL = "model_checking"
RIG_FILES = ("steps_c15c16.go",)

# ------------------------------------------------------------ concrete values
CREDS = {"o1": ("alice", "pw-one"), "o2": ("bob", "pw-two"), "ox": ("mallory", "nope")}
SVC = {"s1": "svc-secret-1", "s2": "svc-secret-2"}
ADDR = {"l": "127.0.0.1", "a1": "203.0.113.1", "a2": "203.0.113.2"}
ORIGIN = {"g1": "https://web1.example", "g2": "https://web2.example", "gx": "https://evil.example"}
BRIDGE = {"b1": "bridge-secret-1", "bx": "bridge-secret-x"}
CAPURL = {"u1": "https://captcha.example/", "u2": "https://captcha.example.net:44e3/"}   # u2: valid TOML, rejected by net/url
CAPKEY = {"k1": "00112233445566778899aabbccddeeff00112233445566778899aabbccddeeff"}
EXP = {30: "30m0s", 45: "45m0s", 60: "1h0m0s"}

CAND = {"ops": [list(CREDS[k]) for k in ("o1", "o2", "ox")], "svc": [SVC["s1"], SVC["s2"]],
        "addrs": [ADDR["l"], ADDR["a1"], ADDR["a2"]], "origins": [ORIGIN[k] for k in ("g1", "g2", "gx")],
        "bridges": [BRIDGE["b1"], BRIDGE["bx"]]}


def inv(d):
    return {v: k for k, v in d.items()}


def _ops(*ids):
    return "".join('[[IRC.Operators]]\nName = "%s"\nPassword = "%s"\n' % CREDS[i] for i in ids)


def _svc(*ids):
    return "".join('[[IRC.Services]]\nPassword = "%s"\n' % SVC[i] for i in ids)


def _tbl(name, pairs):
    return "[%s]\n%s" % (name, "".join('"%s" = %s\n' % (k, v) for k, v in pairs)) if pairs else ""


HEAD = 'PostMessageCooloff = "0s"\n'
TOML = {
    "P": 'SessionExpiration = "30m0s"\nPostMessageCooloff = "0s"\n',
    "A": HEAD + 'SessionExpiration = "30m0s"\nMaxSessions = 2\nMaxChannels = 1\nSomeUnknownKey = "ignored"\n[IRC]\n' + _ops("o1") + _svc("s1")
         + _tbl("TrustedBridges", [(BRIDGE["b1"], '"bridge one"')]) + _tbl("WhitelistedOrigins", [(ORIGIN["g1"], "true")]),
    "B": HEAD + 'SessionExpiration = "1h0m0s"\nMaxChannels = 2\nCaptchaURL = "%s"\nCaptchaHMACSecret = "%s"\n[IRC]\n' % (CAPURL["u1"], CAPKEY["k1"])
         + _ops("o1", "o2") + _svc("s2") + _tbl("TrustedBridges", [(BRIDGE["b1"], '"bridge one"')])
         + _tbl("WhitelistedOrigins", [(ORIGIN["g1"], "true"), (ORIGIN["g2"], "true")]) + _tbl("Banned", [(ADDR["a2"], '"listed"')]),
    "C": HEAD + 'SessionExpiration = "1h0m0s"\nMaxSessions = 1\n[IRC]\n' + _ops("o2")
         + _tbl("WhitelistedOrigins", [(ORIGIN["g2"], "true")]) + _tbl("Banned", [(ADDR["a1"], '"listed"')]),
    "D": HEAD + 'SessionExpiration = "30m0s"\nCaptchaURL = "%s"\n[IRC]\n' % CAPURL["u1"] + _ops("o1") + _svc("s1", "s2")
         + _tbl("TrustedBridges", [(BRIDGE["b1"], '"bridge one"')]) + _tbl("Banned", [(ADDR["l"], '"local ban"')]),
    "E": HEAD + 'SessionExpiration = "45m0s"\nCaptchaURL = "%s"\nCaptchaHMACSecret = "%s"\nCaptchaRequiredForLogin = true\n[IRC]\n' % (CAPURL["u1"], CAPKEY["k1"])
         + _ops("o1") + _tbl("WhitelistedOrigins", [(ORIGIN["g1"], "true")]),
    "Z": "",
}
# the [Banned] table as a dimension of its own: otherwise identical bodies with the
# table absent / present but empty / listing an address
TOML.update({
    "Ae": TOML["A"] + "[Banned]\n",
    "Ab": TOML["A"] + _tbl("Banned", [(ADDR["a1"], '"listed"')]),
    "Cn": TOML["C"].replace(_tbl("Banned", [(ADDR["a1"], '"listed"')]), ""),
    "Ce": TOML["C"].replace(_tbl("Banned", [(ADDR["a1"], '"listed"')]), "[Banned]\n"),
})
# a document larger than 1 MiB whose tables come LAST (a reader that stops early loses them), a value that
# only a stricter validator than the TOML decoder would refuse, and a syntax error behind 1 MiB of valid text
_PAD = "".join("# padding line %06d ......................................................................\n" % i for i in range(13000))
_a_head, _a_tail = TOML["A"].split("[IRC]\n", 1)
TOML["Ah"] = _a_head + _PAD + "[IRC]\n" + _a_tail
TOML["Bu"] = TOML["B"].replace(CAPURL["u1"], CAPURL["u2"])
# an origin that is listed but switched off: only entries with the value true are allowed origins
TOML["Af"] = TOML["A"].replace('"%s" = true\n' % ORIGIN["g1"], '"%s" = true\n"%s" = false\n' % (ORIGIN["g1"], ORIGIN["g2"]))
TOML.update({
    "Xbig": HEAD + 'SessionExpiration = "5m0s"\nMaxChannels = 7\n' + _PAD + "MaxSessions = = 3\n",
})
TOML.update({
    # invalid: the valid-looking lines before the error make a half-parsed install visible
    "Xsyn": HEAD + 'SessionExpiration = "5m0s"\nMaxChannels = 7\nMaxSessions = = 3\n',
    "Xtype": HEAD + 'SessionExpiration = "5m0s"\nMaxChannels = 7\nMaxSessions = "many"\n',
    "Xdur": HEAD + 'MaxChannels = 7\nSessionExpiration = "soon"\n',
    "Xhex": HEAD + 'SessionExpiration = "5m0s"\nMaxChannels = 7\nCaptchaHMACSecret = "zz"\n',
})
VALID = ("P", "A", "Ae", "Ab", "Ah", "Af", "B", "Bu", "C", "Cn", "Ce", "D", "E", "Z", "R")
BANNED_KIND = {}


# ------------------------------------------------------------- small helpers
def go_parse_uint(s):
    """strconv.ParseUint(s, 0, 64) as the handler sees the header (net/http trims
    optional white space around a header value). -1 = error."""
    s = s.strip(" \t")
    m = re.fullmatch(r"0[xX]([0-9a-fA-F]+)|0[bB]([01]+)|0[oO]?([0-7]*)|([1-9][0-9]*)", s)
    if not s or not m:
        return -1
    if m.group(1):
        v = int(m.group(1), 16)
    elif m.group(2):
        v = int(m.group(2), 2)
    elif m.group(4):
        v = int(m.group(4), 10)
    else:
        if s in ("0o", "0O"):
            return -1
        v = int(m.group(3) or "0", 8)
    return v if v < 2 ** 64 else -1


def dur_minutes(s):
    """Go duration string -> whole minutes (-1 when it is not a whole number)."""
    if s in ("0s", "0", ""):
        return 0
    tot = 0.0
    pos = 0
    for m in re.finditer(r"([0-9.]+)(ns|us|µs|ms|s|m|h)", s):
        if m.start() != pos:
            return -1
        pos = m.end()
        tot += float(m.group(1)) * {"ns": 1e-9, "us": 1e-6, "µs": 1e-6, "ms": 1e-3, "s": 1, "m": 60, "h": 3600}[m.group(2)]
    if pos != len(s) or tot % 60:
        return -1
    return int(tot // 60)


def ident(table, value, what):
    return inv(table).get(value, "?%s:%s" % (what, value))


def project(doc):
    """abstract projection (vocabulary of Config.tla) of a config.Network TOML document."""
    irc = doc.get("IRC") or {}
    ops = sorted(ident(CREDS, (o.get("Name", ""), o.get("Password", "")), "op") for o in irc.get("Operators") or [])
    svc = sorted(ident(SVC, s.get("Password", ""), "svc") for s in irc.get("Services") or [])
    url = doc.get("CaptchaURL", "")
    key = doc.get("CaptchaHMACSecret", "")
    return {
        "ops": ops, "svc": svc,
        "maxS": int(doc.get("MaxSessions", 0)), "maxC": int(doc.get("MaxChannels", 0)),
        "exp": dur_minutes(doc.get("SessionExpiration", "0s")),
        "capUrl": "" if url == "" else ident(CAPURL, url, "url"),
        "capKey": "" if key == "" else ident(CAPKEY, key, "key"),
        "capLogin": bool(doc.get("CaptchaRequiredForLogin", False)),
        "bridges": sorted(ident(BRIDGE, k, "bridge") for k in (doc.get("TrustedBridges") or {})),
        "origins": sorted(ident(ORIGIN, k, "origin") for k, v in (doc.get("WhitelistedOrigins") or {}).items() if v),
        "banned": sorted(ident(ADDR, k, "addr") for k, v in (doc.get("Banned") or {}).items() if v != ""),
        "cooloff": doc.get("PostMessageCooloff", "0s"),
    }


CFG_KEYS = ("ops", "svc", "maxS", "maxC", "exp", "capUrl", "capKey", "capLogin", "bridges", "origins", "banned")


def cfg_diff(a, b, keys=CFG_KEYS):
    return [k for k in keys if a.get(k) != b.get(k)]


def check_table(ctx, workdir):
    """the spec's body table against the TOML texts of this check (tomllib as an
    independent reader)."""
    with open(os.path.join(workdir, "Config_bodies.json")) as fh:
        tab = json.load(fh)
    for b, p in tab["valid"].items():
        mine = project(tomllib.loads(TOML[b]))
        spec = dict(p)
        for k in ("ops", "svc", "bridges", "origins", "banned"):
            spec[k] = sorted(spec[k])
        d = cfg_diff(mine, spec)
        if d:
            raise vlib.Inconclusive("body %s: Config.tla Proj and the TOML text of c16.py differ in %s" % (b, d))
    for b in tab["invalid"]:
        if b not in TOML:
            raise vlib.Inconclusive("invalid body %s has no TOML text" % b)
    for b, kind in tab["bannedKind"].items():
        doc = tomllib.loads(TOML[b])
        mine = "absent" if "Banned" not in doc else ("listed" if doc["Banned"] else "empty")
        if mine != kind:
            raise vlib.Inconclusive("body %s: [Banned] table is %s in the TOML text, Config.tla says %s" % (b, mine, kind))
        BANNED_KIND[b] = kind
    BANNED_KIND["R"] = "same"
    return tab


# ------------------------------------------------------- behaviour -> program
def tag(battery=False):
    c = dict(CAND)
    c["battery"] = battery
    return {"cfgprobe": c}


def header_for(kind, rev):
    return {"cur": "%d" % rev, "curHex": "0x%x" % rev, "curOct": "0%o" % rev, "lead": "  %d" % rev,
            "stale": "%d" % (rev - 1), "future": "%d" % (rev + 1), "far": "%d" % (rev + 7),
            "missing": None, "garbage": "abc", "neg": "-1", "float": "%d.0" % rev, "space": "%d 0" % rev,
            "plus": "+%d" % rev, "huge": "18446744073709551616"}[kind]


def via_headers(via):
    if via == "d":
        return {}
    br, ad = via.split(":")
    return {"X-Bridge-Auth": BRIDGE[br], "X-Forwarded-For": ADDR[ad]}


def compile_behaviour(name, beh):
    """-> rig program; every step's tag says which model action (k) it belongs to."""
    steps = [{"op": "cfgobs", "tag": dict(tag(), k=-1, obs=True)}]

    def add(k, st):
        st["tag"] = dict(st.get("tag") or {}, k=k)
        steps.append(st)

    for k, e in enumerate(beh):
        a = e["a"]
        if a == "PostConfig":
            h = header_for(e["hdr"], e["prerev"])
            e["sent"] = "" if h is None else h
            if e["body"] == "R":
                add(k, {"op": "cfgrepost", "headers": {"X-RobustIRC-Config-Revision": "<omit>" if h is None else h}})
            else:
                add(k, {"op": "private", "method": "POST", "path": "/config", "body": TOML[e["body"]],
                        "headers": {} if h is None else {"X-RobustIRC-Config-Revision": h}})
        elif a == "Inject":
            add(k, {"op": "apply", "type": "config", "revision": e["rev"], "data": TOML[e["body"]]})
        elif a == "Create":
            add(k, {"op": "create_session", "as": e["s"]})
        elif a == "Delete":
            add(k, {"op": "delete", "session": e["s"], "quitmessage": "bye"})
        elif a == "Msg":
            hd = via_headers(e["via"])
            u = e["s"]
            lines = {"login": ["NICK " + u, "USER %s 0 * :%s" % (u, u)],
                     "oper": ["OPER %s %s" % CREDS.get(e["arg"], ("x", "y"))],
                     "join": ["JOIN #" + e["arg"]],
                     "gline": ["GLINE %s :model ban" % e["arg"]],
                     "ping": ["PING :model"]}[e["cmd"]]
            for ln in lines:
                add(k, {"op": "post", "session": u, "data": ln, "headers": hd})
        elif a == "Snapshot":
            st = {"op": "snapshot", "fold": e["mode"]}
            if e["via"] == "http":
                st["via"] = "http"
            add(k, st)
        elif a == "Restart":
            if e["observe"]:
                add(k, {"op": "replica", "mode": "replay_log", "tag": tag(True)})
                add(k, {"op": "replica", "mode": "restore_snapshot", "tag": tag(True)})
            else:
                add(k, {"op": "restart"})
        elif a == "Battery":
            add(k, {"op": "cfgbattery", "tag": tag(True)})
        else:
            raise vlib.Inconclusive("unknown model action %r" % a)
        add(k, {"op": "cfgobs", "tag": dict(tag(), obs=True)})
    k = len(beh)
    add(k, {"op": "cfgbattery", "tag": tag(True)})
    add(k, {"op": "cfgobs", "tag": dict(tag(), obs=True)})
    return {"name": name, "opts": {}, "steps": steps}


# ---------------------------------------------------------------- rig runner
def run_rig(ctx, binary, programs, par, timeout=1500):
    """like rig_common.run, but a program whose real behaviour leaves the model's
    path (a later step then addresses a session that does not exist) is evaluated
    up to that point instead of aborting the whole check."""
    n = len([d for d in os.listdir(ctx.scratch) if d.startswith("c16rig-")])
    work = ctx.sub("c16rig-%d" % n)
    progfile = os.path.join(work, "programs.ndjson")
    vlib.write_ndjson(progfile, programs)
    outdir = os.path.join(work, "out")
    rc, out = ctx.run_bin([binary, "-test.run", "^TestVerifRig$", "-test.timeout", "%ds" % timeout],
                          env={"VERIF_RIG_PROGRAMS": progfile, "VERIF_RIG_OUTDIR": outdir,
                               "VERIF_RIG_PAR": str(par), "TMPDIR": ctx.sub("tmp")}, timeout=timeout + 30)
    res = {}
    for p in programs:
        path = os.path.join(outdir, p["name"] + ".ndjson")
        if not os.path.exists(path):
            raise vlib.Inconclusive("rig produced no results for program %s (rc=%d)\n%s" % (p["name"], rc, out[-3000:]))
        res[p["name"]] = vlib.read_ndjson(path)
    return res, rc, out


# ------------------------------------------------------------- observations
def view_of(r, users):
    """projection of the real live node from a cfgobs record."""
    ex = r.get("extra") or {}
    if r.get("err") or "cfg" not in ex:
        raise vlib.Inconclusive("cfgobs failed: %s" % (r.get("err") or r))
    if ex.get("getStatus") != 200:
        raise vlib.Inconclusive("GET /config answered %s" % ex.get("getStatus"))
    c = ex["cfg"]
    if c.get("tomlErr") or c.get("marshalErr"):
        raise vlib.Inconclusive("projection failed: %s" % (c.get("tomlErr") or c.get("marshalErr")))
    body = ex["getBody"]
    cfg = project(tomllib.loads(body))
    struct = project(tomllib.loads(c["toml"]))
    by_sid = {s["sid"]: s for s in c.get("sessions") or []}
    sess = {}
    probe = {s.get("alias"): s for s in (r.get("post") or {}).get("sessions") or [] if s.get("alias")}
    for u in users:
        p = probe.get(u)
        if p is None:
            sess[u] = {"st": "none", "oper": False, "addr": "", "chans": []}
        elif p["exists"] != "ok":
            sess[u] = {"st": "gone", "oper": False, "addr": "", "chans": []}
        else:
            m = by_sid.get(p["sid"], {})
            st = "in" if p.get("loggedIn") else ("fresh" if not p.get("nick") else "stuck")
            sess[u] = {"st": st, "oper": bool(m.get("oper")), "addr": ident(ADDR, m.get("addr", ""), "addr") if m.get("addr") else "",
                       "chans": sorted(ch.lstrip("#") for ch in (m.get("channels") or []))}
    try:
        rev = int(ex["getRev"])
    except ValueError:
        raise vlib.Inconclusive("GET /config revision header %r" % ex["getRev"])
    return {
        "rev": rev, "exp": dur_ns(c["fsmExpNs"]), "cfg": strip(cfg), "cooloff": cfg["cooloff"],
        "raw": hashlib.sha1(body.encode()).hexdigest()[:12],
        "nS": c["nSessions"], "nC": c["nChannels"], "sess": sess,
        "cors": sorted(ident(ORIGIN, o, "origin") for o, v in (ex.get("cors") or {}).items() if v == o),
        "corsOdd": sorted(o for o, v in (ex.get("cors") or {}).items() if v not in ("", o)),
        "mbanned": sorted(ident(ADDR, a, "addr") for a in c.get("marshalBanned") or []),
        "structRev": c["rev"], "structDiff": cfg_diff(cfg, struct),
        "bridgeFn": sorted(ident(BRIDGE, b, "bridge") for b, v in (c.get("trustedBridge") or {}).items() if v),
        "bannedFn": sorted(ident(ADDR, a, "addr") for a, v in (c.get("bannedFn") or {}).items() if v),
    }


def dur_ns(ns):
    return int(ns // 60000000000) if ns % 60000000000 == 0 else -1


def strip(cfg):
    return {k: cfg[k] for k in CFG_KEYS}


def lines_of(obs_rec):
    out = []
    for o in (obs_rec.get("extra") or {}).get("outs") or []:
        out.extend(o.get("lines") or [])
    return out


def has(lines, sub):
    return any(sub in ln for ln in lines)


def classify_battery(bat):
    b = {"create": "na", "login": "na", "oper": {k: "na" for k in ("o1", "o2", "ox")},
         "svc": {k: "na" for k in ("s1", "s2")}, "banned": {k: "na" for k in ("l", "a1", "a2")}, "capx": "na", "joins": -1,
         "captcha": ""}
    if bat.get("err"):
        raise vlib.Inconclusive("battery failed: %s" % bat["err"])
    joins = None
    for s in bat.get("steps") or []:
        w = s["what"]
        ln = s.get("lines") or []
        if w == "create:main":
            b["create"] = "ok" if s.get("created") else ("limit" if "limit" in (s.get("fsmError") or "") else "?" + str(s.get("fsmError")))
        elif w == "user:main":
            if has(ln, " 001 "):
                b["login"] = "in"
            elif has(ln, "To login, please go to"):
                b["login"] = "stuck"
                b["captcha"] = [x for x in ln if "To login" in x][0]
                b["auth"] = ""
            else:
                b["login"] = "?" + " / ".join(ln)[:80]
        elif w.startswith("oper:"):
            k = ("o1", "o2", "ox")[int(w[5:])]
            b["oper"][k] = "yes" if has(ln, " 381 ") else ("no" if has(ln, " 464 ") else "?")
        elif w.startswith("join:"):
            joins = (joins or 0) + (1 if has(ln, " JOIN ") else 0)
        elif w == "modex":
            b["capx"] = "no" if has(ln, "Cannot set mode +x") else ("yes" if has(ln, "MODE #zzb1 +x") else "?")
        elif w.startswith("addr:"):
            k = ("l", "a1", "a2")[int(w[5:])]
            b["banned"][k] = "yes" if has(ln, "You are banned") else "no"
        elif w.startswith("svc:"):
            k = ("s1", "s2")[int(w[4:])]
            b["svc"][k] = "yes" if s.get("server") else "no"
        if w == "create:main" and s.get("created"):
            b["auth"] = s.get("auth", "")
    if joins is not None:
        b["joins"] = joins
    return b


def rep_of(r, mode):
    ex = r.get("extra") or {}
    if r.get("died") or r.get("err") or ex.get("cfgErr") or "cfg" not in ex:
        raise vlib.Inconclusive("replica observer (%s) failed: %s %s %s" % (mode, r.get("err"), ex.get("cfgErr"), (r.get("log") or "")[-600:]))
    c = ex["cfg"]
    doc = tomllib.loads(c["toml"])
    cfg = project(doc)
    return {"mode": mode, "rev": c["rev"], "exp": dur_ns(c["fsmExpNs"]), "cfg": strip(cfg),
            "orig": sorted(ident(ORIGIN, o, "origin") for o, v in (c.get("originWhitelisted") or {}).items() if v),
            "bridgeFn": sorted(ident(BRIDGE, b, "bridge") for b, v in (c.get("trustedBridge") or {}).items() if v),
            "bannedFn": sorted(ident(ADDR, a, "addr") for a, v in (c.get("bannedFn") or {}).items() if v),
            "nS": c["nSessions"], "nC": c["nChannels"], "mbanned": sorted(ident(ADDR, a, "addr") for a in c.get("marshalBanned") or []),
            "beh": classify_battery(ex.get("battery") or {}),
            "secretHex": doc.get("CaptchaHMACSecret", ""), "url": doc.get("CaptchaURL", "")}


def observe(prog, beh, recs, users):
    """rig records -> trace events (observations only + the action's arguments)."""
    by = rig_common.by_step(recs)
    events = [{"ev": "Reset"}]
    steps = prog["steps"]
    for i in range(len(steps)):
        if i not in by:
            return events, "no record for step %d" % i
    first = by[0][-1]
    for r in recs:
        for side in ("pre", "post"):
            if r.get(side) and r[side].get("probeError"):
                raise vlib.Inconclusive("%s step %d: probe failed: %s" % (prog["name"], r["i"], r[side]["probeError"]))
    pre = view_of(first, users)
    groups = {}
    for i, st in enumerate(steps):
        groups.setdefault(st["tag"]["k"], []).append(i)
    for k in sorted(groups):
        if k < 0:
            continue
        idx = groups[k]
        obs_i = idx[-1]
        act = [by[i] for i in idx[:-1]]
        flat = [r for rs in act for r in rs]
        panic = [r for r in flat + by[obs_i] if (r.get("err") or "").startswith("harness panic")]
        if panic:
            return events, "step %d left the model's path: %s" % (panic[0]["i"], panic[0]["err"][:120])
        died = [r for r in flat if r.get("died") and r["op"] not in ("replica",)]
        if died:
            raise vlib.Inconclusive("%s: node died in step %d: %s" % (prog["name"], died[0]["i"], (died[0].get("log") or "")[-500:]))
        obs_rec = by[obs_i][-1]
        post = view_of(obs_rec, users)
        lines = lines_of(obs_rec)
        e = dict(beh[k]) if k < len(beh) else {"a": "Battery"}
        model_res = e.pop("res", None)
        ev = {"ev": "Step", "p": prog["name"], "i": idx[0], "k": k, "pre": pre, "post": post, "taddr": "", "reps": [], "lines": lines[:12],
              "modelRes": model_res}
        ev.update(e)
        a = ev["a"]
        main = flat[-1] if flat else {}
        status = main.get("status", 0)
        if a == "PostConfig":
            body = main.get("body") or ""
            ev["hv"] = go_parse_uint(ev.get("sent", "")) if ev["hdr"] != "missing" else -1
            if ev["hv"] > 1000000:
                ev["hv"] = 1000000
            ev["res"] = ("ok" if status == 200 else
                         "badhdr" if status == 400 and "strconv.ParseUint" in body else
                         "mismatch" if status == 400 and "Revision mismatch" in body else
                         "badtoml" if status == 400 else "http%d" % status)
            ev["answer"] = body[:160]
        elif a == "Inject":
            if main.get("err"):
                raise vlib.Inconclusive("%s: apply failed: %s" % (prog["name"], main["err"]))
            ev["res"] = "applied"      # no answer to observe; judged by its effect
        elif a == "Create":
            ev["res"] = "ok" if status == 200 else "limit" if status == 429 else "http%d" % status
        elif a == "Delete":
            ev["res"] = "ok" if status == 200 else "http%d" % status
        elif a == "Msg":
            bad = [r for r in flat if r.get("status") != 200]
            u = ev["s"]
            if ev["cmd"] == "gline" and ev["arg"] in pre["sess"]:
                ev["taddr"] = pre["sess"][ev["arg"]]["addr"]
            if has(lines, "You are banned"):
                ev["res"] = "banned"
            elif bad and not (ev["cmd"] == "login" and flat[0].get("status") == 200):
                ev["res"] = "http%d" % bad[0].get("status", 0)
            elif ev["cmd"] == "login":
                ev["res"] = post["sess"][u]["st"]
            elif ev["cmd"] == "oper":
                ev["res"] = "ok" if has(lines, " 381 ") else "no" if has(lines, " 464 ") else "?"
            elif ev["cmd"] == "join":
                ev["res"] = "ok" if has(lines, " JOIN ") else "limit" if has(lines, " 403 ") else "?"
            elif ev["cmd"] == "gline":
                ev["res"] = ("noprivs" if has(lines, " 481 ") else "nosuchnick" if has(lines, " 401 ") else
                             "ok" if has(lines, " KILL ") else "?")
            else:
                ev["res"] = "ok" if has(lines, "PONG") else "?"
        elif a == "Snapshot":
            if main.get("err"):
                raise vlib.Inconclusive("%s: snapshot failed: %s" % (prog["name"], main["err"]))
            ev["res"] = "ok"
            ev["snap"] = {k2: (main.get("extra") or {}).get(k2) for k2 in ("snapshotsBefore", "snapshotsAfter", "ircFirst", "ircLast")}
        elif a == "Restart":
            ev["res"] = "ok"
            for r in flat:
                if r["op"] == "replica":
                    ev["reps"].append(rep_of(r, (r.get("extra") or {}).get("mode", "?")))
        elif a == "Battery":
            ev["res"] = "ok"
            ex = main.get("extra") or {}
            fake = {"extra": {"cfg": ex.get("cfg"), "battery": ex.get("battery")}}
            ev["reps"].append(rep_of(fake, "live"))
            ev["reps"][0]["exp"] = dur_ns(ex["cfg"]["fsmExpNs"])
        events.append(ev)
        pre = post
    return events, None


# ------------------------------------------------------ property predicates
F5_SIG = "restored-replica-loses-whitelisted-origins"
F3_SIG = "fsm-expiration-lost-after-restore"
F18_SIG = "fsm-expiration-regresses-after-snapshot-fold"
F19_SIG = "captcha-configured-differs-after-restore"
BANS_SIG = "bans-not-exactly-config"            # BansAreExactlyConfig
AGREE_SIG = "replicas-disagree-on-bans"         # ReplicasAgreeOnBans
KEEPS_SIG = "accepted-post-keeps-old-bans"      # AcceptedPostReplacesBans


class Verdicts:
    def __init__(self):
        self.classes = {}
        self.programs = set()

    def bad(self, sig, what, ev):
        c = self.classes.setdefault(sig, {"n": 0, "what": what, "ev": ev})
        c["n"] += 1
        self.programs.add(ev.get("p"))

    def flush(self, ctx, replays):
        real = 0
        for sig, c in sorted(self.classes.items()):
            ev = c["ev"]
            if ctx.violation(sig, "%s (%d observation(s) of this class)" % (c["what"], c["n"]),
                             dict(replays.get(ev.get("p"), {}), failing_event=slim(ev))):
                real += 1
        return real


def slim(ev):
    return {k: v for k, v in ev.items() if k not in ("lines",)}


def expected_joins(cfg, nC):
    return 4 if cfg["maxC"] == 0 else max(0, min(4, cfg["maxC"] - nC))


def eff_addr(via, cfg):
    if via == "d":
        return "l"
    br, ad = via.split(":")
    return ad if br in cfg["bridges"] else "l"


def captcha_ok(rep):
    """the captcha URL a replica hands out is built from its configuration."""
    note = rep["beh"].get("captcha") or ""
    m = re.search(r"please go to (\S+)#(\S+)$", note)
    if not m:
        return False
    if m.group(1) != rep["url"]:
        return False
    parts = m.group(2).split(".")
    if len(parts) != 3:
        return False
    try:
        purpose, challenge, mac = (base64.b64decode(p) for p in parts)
        want = hmac.new(bytes.fromhex(rep["secretHex"]), purpose + challenge, hashlib.sha256).digest()
    except Exception:
        return False
    return hmac.compare_digest(mac, want)


def judge_rep(verd, ev, rep, ref_cfg, ref_rev, where):
    mode = rep["mode"]
    d = cfg_diff(rep["cfg"], ref_cfg)
    if "origins" in d and mode != "replay_log" and set(rep["cfg"]["origins"]) < set(ref_cfg["origins"]):
        d.remove("origins")
        verd.bad(F5_SIG, "%s: allowed origins %s -> %s (%s)" % (where, ref_cfg["origins"], rep["cfg"]["origins"], mode), ev)
    elif "origins" in d and mode == "replay_log" and set(ref_cfg["origins"]) < set(rep["cfg"]["origins"]):
        # the live node lost them in an earlier restore, the log replay has them
        d.remove("origins")
        verd.bad(F5_SIG, "%s: the node that was restored from a snapshot earlier has origins %s, a replica that replayed the log %s" % (
            where, ref_cfg["origins"], rep["cfg"]["origins"]), ev)
    if d:
        verd.bad("replica-config-differs-%s-%s" % (mode, "-".join(d[:2])),
                 "%s: config projection of the %s replica differs from the node's in %s: %s vs %s" % (
                     where, mode, d, {k: rep["cfg"][k] for k in d}, {k: ref_cfg[k] for k in d}), ev)
    if rep["rev"] != ref_rev:
        verd.bad("replica-revision-differs-%s" % mode, "%s: revision %s on the %s replica, %s on the node" % (where, rep["rev"], mode, ref_rev), ev)
    if rep["exp"] != rep["cfg"]["exp"]:
        if mode == "restore_snapshot":
            verd.bad(F3_SIG, "%s: FSM.sessionExpiration() of the replica restored from the snapshot is %sm, its config says %sm" % (
                where, rep["exp"], rep["cfg"]["exp"]), ev)
        elif mode != "live":
            verd.bad("fsm-expiration-differs-from-config-%s" % mode, "%s: FSM.sessionExpiration() %sm, config %sm (%s)" % (
                where, rep["exp"], rep["cfg"]["exp"], mode), ev)
    if sorted(rep["mbanned"]) != sorted(rep["cfg"]["banned"]):
        verd.bad("gline-ban-not-in-marshal", "%s: Marshal() carries bans %s, the config %s (%s)" % (where, rep["mbanned"], rep["cfg"]["banned"], mode), ev)
    # behaviour of the replica against ITS configuration
    c = rep["cfg"]
    b = rep["beh"]
    want = {
        "create": "limit" if c["maxS"] > 0 and rep["nS"] >= c["maxS"] else "ok",
        "login": "stuck" if c["capLogin"] else "in",
        "capx": "yes" if c["capUrl"] and c["capKey"] else "no",
        "joins": expected_joins(c, rep["nC"]),
    }
    for k, w in want.items():
        got = b[k]
        if got in ("na", -1) or got == w:
            continue
        if k == "capx" and got == "yes" and c["capUrl"] and not c["capKey"]:
            verd.bad(F19_SIG, "%s: CaptchaURL without CaptchaHMACSecret: MODE +x is accepted on the %s node (captchaConfigured() true: the secret "
                              "became an empty non-nil slice), refused where the config was applied from the log" % (where, mode), ev)
        else:
            verd.bad("replica-behaviour-differs-%s-%s" % (mode, k), "%s: %s on the %s replica is %r, its config implies %r" % (where, k, mode, got, w), ev)
    if sorted(rep["bannedFn"]) != sorted(c["banned"]):
        verd.bad("%s-%s" % (BANS_SIG, mode), "%s: IRCServer.Banned() says %s are banned on the %s node, its config lists %s" % (
            where, rep["bannedFn"], mode, c["banned"]), ev)
    for ident_, got in b["banned"].items():
        w = "yes" if ident_ in c["banned"] else "no"
        if got != "na" and got != w:
            verd.bad("%s-%s" % (BANS_SIG, mode), "%s: a message from %s %s on the %s node, whose config lists the bans %s" % (
                where, ident_, "is answered ERROR :Closing Link (banned)" if got == "yes" else "is accepted", mode, c["banned"]), ev)
    for grp, key in (("oper", "ops"), ("svc", "svc")):
        for ident_, got in b[grp].items():
            w = "yes" if ident_ in c[key] else "no"
            if got != "na" and got != w:
                verd.bad("replica-behaviour-differs-%s-%s" % (mode, grp), "%s: %s %s on the %s replica is %r, its config implies %r" % (
                    where, grp, ident_, mode, got, w), ev)
    if sorted(rep["orig"]) != sorted(c["origins"]):
        verd.bad("replica-behaviour-differs-%s-origins" % mode, "%s: OriginWhitelisted grants %s, config lists %s (%s)" % (where, rep["orig"], c["origins"], mode), ev)
    if sorted(rep["bridgeFn"]) != sorted(c["bridges"]):
        verd.bad("replica-behaviour-differs-%s-bridges" % mode, "%s: TrustedBridge accepts %s, config lists %s (%s)" % (where, rep["bridgeFn"], c["bridges"], mode), ev)
    if b["login"] == "stuck" and not captcha_ok(rep):
        verd.bad("replica-behaviour-differs-%s-captcha-url" % mode, "%s: captcha URL %r is not built from CaptchaURL/CaptchaHMACSecret of the config (%s)" % (
            where, b.get("captcha"), mode), ev)


def judge(events, verd, stats):
    """the C16 predicates on the recorded observations."""
    live_beh = {}
    for ev in events:
        if ev.get("ev") != "Step":
            continue
        a, pre, post = ev["a"], ev["pre"], ev["post"]
        where = "%s step %d (%s)" % (ev["p"], ev["i"], a)
        stats["events"] = stats.get("events", 0) + 1
        # observation soundness: GET /config shows the config in force
        if post["structDiff"] or post["structRev"] != post["rev"]:
            verd.bad("get-config-not-config-in-force", "%s: GET /config differs from IRCServer.Config in %s (revision %s vs %s)" % (
                where, post["structDiff"], post["rev"], post["structRev"]), ev)
        if a == "PostConfig":
            stats["posts"] = stats.get("posts", 0) + 1
            if ev["res"] == "ok":
                stats["posts_accepted"] = stats.get("posts_accepted", 0) + 1
                if post["rev"] != pre["rev"] + 1:
                    verd.bad("accepted-post-revision-step", "%s: accepted post took the revision from %d to %d" % (where, pre["rev"], post["rev"]), ev)
                if ev["hv"] != pre["rev"]:
                    verd.bad("accepted-post-non-current-revision", "%s: post with revision header %r accepted while revision %d was in force" % (
                        where, ev.get("sent"), pre["rev"]), ev)
                if ev["body"] not in VALID:
                    verd.bad("accepted-post-invalid-body", "%s: unparsable body %s answered 200" % (where, ev["body"]), ev)
                else:
                    want = pre["cfg"] if ev["body"] == "R" else strip(project(tomllib.loads(TOML[ev["body"]])))
                    d = cfg_diff(post["cfg"], want)
                    left = sorted((set(post["cfg"]["banned"]) | set(post["bannedFn"])) - set(want["banned"]))
                    if left and ev["body"] != "R":
                        d = [k for k in d if k != "banned"]
                        verd.bad(KEEPS_SIG, "%s: accepted post of body %s ([Banned] table %s) must replace the bans; still banned afterwards: %s "
                                            "(GET /config lists %s, IRCServer.Banned() says %s; before the post %s)" % (
                                     where, ev["body"], BANNED_KIND.get(ev["body"], "?"), left, post["cfg"]["banned"], post["bannedFn"], pre["cfg"]["banned"]), ev)
                    if d:
                        verd.bad("accepted-post-config-not-installed", "%s: after the accepted post of body %s GET /config differs from it in %s: %s" % (
                            where, ev["body"], d, {k: post["cfg"][k] for k in d}), ev)
            else:
                stats["posts_rejected"] = stats.get("posts_rejected", 0) + 1
                ch = [k for k in ("rev", "cfg", "raw", "exp", "cors", "sess", "nS", "nC", "cooloff") if pre[k] != post[k]]
                if ch:
                    verd.bad("rejected-post-changed-state", "%s: post answered %s (%s) changed %s" % (where, ev["res"], ev.get("answer", "")[:60], ch), ev)
        if a == "Inject" and ev["body"] not in VALID:
            ch = [k for k in ("rev", "cfg", "raw", "exp", "cors", "cooloff") if pre[k] != post[k]]
            if ch:
                verd.bad("invalid-config-entry-changed-state", "%s: unparsable Config entry (%s) changed %s: %s" % (
                    where, ev["body"], ch, {k: post[k] for k in ch if k != "cfg"} or cfg_diff(pre["cfg"], post["cfg"])), ev)
        # expiration follows the config in force
        if post["exp"] != post["cfg"]["exp"] and (pre["exp"] == pre["cfg"]["exp"] or post["exp"] != pre["exp"] or a in ("Restart", "Snapshot")) and a != "Battery":
            if a == "Snapshot":
                verd.bad(F18_SIG, "%s: FSM.sessionExpiration() went from %sm to %sm while the config in force says %sm (an older Config entry was folded)" % (
                    where, pre["exp"], post["exp"], post["cfg"]["exp"]), ev)
            elif a == "Restart":
                verd.bad(F3_SIG, "%s: after the restart FSM.sessionExpiration() is %sm, the config in force says %sm" % (where, post["exp"], post["cfg"]["exp"]), ev)
            else:
                verd.bad("fsm-expiration-differs-from-config-after-" + a.lower(), "%s: FSM.sessionExpiration() %sm, config in force %sm" % (
                    where, post["exp"], post["cfg"]["exp"]), ev)
        # bans in force are exactly the config's (GET /config) -- after every step
        if sorted(post["bannedFn"]) != sorted(post["cfg"]["banned"]):
            verd.bad(BANS_SIG + "-live", "%s: IRCServer.Banned() says %s are banned, GET /config lists %s" % (where, post["bannedFn"], post["cfg"]["banned"]), ev)
        # replicas agree on who is banned (node before shutdown / battery run on it, log replay, snapshot restore)
        if a == "Battery" and ev["reps"]:
            live_beh[ev["p"]] = ev["reps"][0]["beh"]["banned"]
        elif a in ("Create", "Delete", "Msg", "Inject") or (a == "PostConfig" and ev["res"] == "ok"):
            live_beh.pop(ev["p"], None)
        if a == "Restart" and ev["reps"]:
            views = [("node before shutdown", sorted(pre["bannedFn"]), live_beh.get(ev["p"]))]
            views += [(r["mode"], sorted(r["bannedFn"]), r["beh"]["banned"]) for r in ev["reps"]]
            for x in range(len(views)):
                for y in range(x + 1, len(views)):
                    (n1, f1, b1), (n2, f2, b2) = views[x], views[y]
                    diff = [k for k in (b1 or {}) if b2 and b1[k] != "na" and b2[k] != "na" and b1[k] != b2[k]]
                    if f1 != f2 or diff:
                        verd.bad(AGREE_SIG, "%s: %s and %s disagree on who is banned: Banned() %s vs %s; messages from %s treated differently" % (
                            where, n1, n2, f1, f2, diff), ev)
        if a == "Restart":
            live_beh.pop(ev["p"], None)
            stats["restarts"] = stats.get("restarts", 0) + 1
            d = cfg_diff(post["cfg"], pre["cfg"])
            if "origins" in d and set(post["cfg"]["origins"]) < set(pre["cfg"]["origins"]):
                d.remove("origins")
                verd.bad(F5_SIG, "%s: the restarted node (snapshot restore) has origins %s, before %s" % (where, post["cfg"]["origins"], pre["cfg"]["origins"]), ev)
            if d:
                verd.bad("restart-changes-config-" + "-".join(d[:2]), "%s: restart changed %s: %s -> %s" % (
                    where, d, {k: pre["cfg"][k] for k in d}, {k: post["cfg"][k] for k in d}), ev)
            if post["rev"] != pre["rev"]:
                verd.bad("restart-changes-revision", "%s: revision %d -> %d over a restart" % (where, pre["rev"], post["rev"]), ev)
        for rep in ev["reps"]:
            stats["replicas"] = stats.get("replicas", 0) + 1
            judge_rep(verd, ev, rep, pre["cfg"], pre["rev"], where)
        # GLINE
        if a == "Msg" and ev["cmd"] == "gline" and ev["res"] == "ok":
            stats["glines"] = stats.get("glines", 0) + 1
            if ev["taddr"] not in post["cfg"]["banned"]:
                verd.bad("gline-ban-not-in-config", "%s: GLINE of %s (%s) succeeded, GET /config lists bans %s" % (where, ev["arg"], ev["taddr"], post["cfg"]["banned"]), ev)
            if post["rev"] != pre["rev"]:
                verd.bad("gline-changes-revision", "%s: GLINE took the revision from %d to %d" % (where, pre["rev"], post["rev"]), ev)
        if sorted(post["mbanned"]) != sorted(post["cfg"]["banned"]):
            verd.bad("gline-ban-not-in-marshal", "%s: Marshal() carries bans %s, GET /config %s" % (where, post["mbanned"], post["cfg"]["banned"]), ev)
        # behaviour on the live node follows the config in force
        c = pre["cfg"]
        if a == "Create" and ev["res"] in ("ok", "limit"):
            w = "limit" if c["maxS"] > 0 and pre["nS"] >= c["maxS"] else "ok"
            if ev["res"] != w:
                verd.bad("behaviour-not-from-config-session-limit", "%s: create answered %s with %d sessions and MaxSessions %d" % (where, ev["res"], pre["nS"], c["maxS"]), ev)
        if a == "Msg" and pre["sess"][ev["s"]]["st"] in ("fresh", "in", "stuck"):
            stats["msgs"] = stats.get("msgs", 0) + 1
            u = ev["s"]
            ea = eff_addr(ev["via"], c)
            moved = pre["sess"][u]["addr"] != ea
            if (ev["res"] == "banned") != (moved and ea in c["banned"]):
                verd.bad("behaviour-not-from-config-ban", "%s: message from effective address %s (via %s): result %s, bans in force %s, trusted bridges %s" % (
                    where, ea, ev["via"], ev["res"], c["banned"], c["bridges"]), ev)
            elif ev["res"] != "banned" and post["sess"][u]["st"] in ("fresh", "in", "stuck") and post["sess"][u]["addr"] != ea:
                verd.bad("behaviour-not-from-config-trusted-bridge", "%s: session address is %s, via %s with trusted bridges %s implies %s" % (
                    where, post["sess"][u]["addr"], ev["via"], c["bridges"], ea), ev)
            if ev["cmd"] == "oper" and ev["res"] in ("ok", "no") and (ev["res"] == "ok") != (ev["arg"] in c["ops"]):
                verd.bad("behaviour-not-from-config-oper", "%s: OPER with %s answered %s, operators in force %s" % (where, ev["arg"], ev["res"], c["ops"]), ev)
            if ev["cmd"] == "login" and ev["res"] in ("in", "stuck") and (ev["res"] == "stuck") != c["capLogin"]:
                verd.bad("behaviour-not-from-config-captcha-login", "%s: login result %s with CaptchaRequiredForLogin %s" % (where, ev["res"], c["capLogin"]), ev)
            if ev["cmd"] == "join" and ev["res"] in ("ok", "limit"):
                exists = any(ev["arg"] in s["chans"] for s in pre["sess"].values())
                w = "limit" if (not exists and c["maxC"] > 0 and pre["nC"] >= c["maxC"]) else "ok"
                if ev["res"] != w:
                    verd.bad("behaviour-not-from-config-channel-limit", "%s: JOIN answered %s with %d channels and MaxChannels %d" % (where, ev["res"], pre["nC"], c["maxC"]), ev)
        if sorted(post["cors"]) != sorted(post["cfg"]["origins"]) or post["corsOdd"]:
            verd.bad("behaviour-not-from-config-origins", "%s: DispatchPublic grants origins %s, config in force lists %s" % (where, post["cors"], post["cfg"]["origins"]), ev)
        if sorted(post["bridgeFn"]) != sorted(post["cfg"]["bridges"]):
            verd.bad("behaviour-not-from-config-trusted-bridge", "%s: TrustedBridge accepts %s, config lists %s" % (where, post["bridgeFn"], post["cfg"]["bridges"]), ev)


# ----------------------------------------------------------- TLC trace check
TRACE_KEYS = ("ev", "p", "i", "a", "res", "pre", "post", "taddr", "reps", "hdr", "hv", "body", "rev", "s", "cmd", "arg", "via",
              "mode", "observe")
VIEW_KEYS = ("rev", "exp", "cfg", "raw", "nS", "nC", "sess", "cors", "mbanned", "bannedFn")
REP_KEYS = ("mode", "rev", "exp", "cfg", "orig", "nS", "nC", "beh", "bannedFn")
BEH_KEYS = ("create", "login", "oper", "svc", "banned", "capx", "joins")


def tlc_event(ev):
    if ev.get("ev") != "Step":
        return {"ev": "Reset"}
    out = {k: ev[k] for k in TRACE_KEYS if k in ev}
    for side in ("pre", "post"):
        out[side] = {k: ev[side][k] for k in VIEW_KEYS}
    out["reps"] = [dict({k: r[k] for k in REP_KEYS}, beh={k: r["beh"][k] for k in BEH_KEYS}) for r in ev["reps"]]
    return out


def validate(ctx, events, name):
    txt = "".join(json.dumps(tlc_event(e), sort_keys=True) + "\n" for e in events)
    r = ctx.tlc("ConfigTrace", cfg="ConfigTrace.cfg", workers=1, timeout=900, files={"Config_trace.ndjson": txt}, name=name, heap="4g")
    ctx.add("tlc_runs")
    return r


def report_drift(ctx, tlc_out, events, acc):
    """the design spec runs beside the observations without re-synchronising:
    only the first difference of a program is meaningful."""
    pos = rig_common.drift_positions(tlc_out)
    firsts = {}
    for k in pos:
        ev = events[k - 1] if 0 < k <= len(events) else {}
        firsts.setdefault(ev.get("p", "?"), (k, ev))
    for p, (k, ev) in sorted(firsts.items()):
        short = {x: ev.get(x) for x in ("a", "hdr", "sent", "body", "rev", "s", "cmd", "arg", "via", "mode", "observe", "res", "modelRes") if x in ev}
        post = ev.get("post") or {}
        ctx.drift("model and implementation differ, property predicates hold: %s step %s: %s -> observed revision %s, expiration %sm, config %s, sessions %s" % (
            p, ev.get("i"), json.dumps(short, sort_keys=True), post.get("rev"), post.get("exp"), json.dumps(post.get("cfg"), sort_keys=True), json.dumps(post.get("sess"), sort_keys=True)))
    if acc[1] and not firsts:
        ctx.drift("TLC counted %d differences between model and implementation" % acc[1])
    ctx.cov["drift_events"] = acc[1]
    ctx.cov["drift_programs"] = len(firsts)


# --------------------------------------------------- behaviour generation
_PROJ = {}
REPLACED = ("ops", "svc", "bridges", "origins", "banned", "maxS", "maxC", "capUrl", "capLogin")


def features(beh):
    """what a behaviour exercises (for the cover; never for a verdict). ("shape", ...)
    features are the must-haves: every one the generators offer is replayed."""
    f = set()
    if not _PROJ:
        _PROJ.update({b: project(tomllib.loads(TOML[b])) for b in TOML if not b.startswith("X")})
    proj = _PROJ
    cur = proj["P"]
    npos = 1                 # committed entries so far (the prelude is the first)
    cfgpos = [(0, proj["P"])]  # (entry position, config) of every applied Config entry
    folded_upto = 0          # entries [0, folded_upto) are inside the newest snapshot's state
    restarted = snapped = False
    glined = False           # a GLINE succeeded and its ban is (per the model) still in force
    pending = {}             # shape key -> entry position of the post that must have replaced something
    nposts = 0
    for e in beh:
        a = e["a"]
        ctxs = ("",) + (("@restarted",) if restarted else ()) + (("@snapshotted",) if snapped else ())
        for c in ctxs:
            f.add((a, e.get("cmd", ""), e["res"], c))
        if a == "PostConfig":
            f.add(("hdr", e["hdr"], e["res"]))
            f.add(("body", e["body"], e["res"]))
            if e["res"] == "ok":
                nposts += 1
                new = dict(cur) if e["body"] == "R" else proj[e["body"]]
                kind = {"R": "same"}.get(e["body"]) or ("absent" if "Banned" not in tomllib.loads(TOML[e["body"]]) else
                                                         "listed" if new["banned"] else "empty")
                if glined:
                    pending[("gline-then-post", kind)] = npos
                    f.add(("shape", "gline-then-post", kind, "posted"))
                if e["body"] != "R":
                    for k in REPLACED:
                        if cur[k] and not new[k]:
                            pending[("post-removes", k)] = npos
                    if new["banned"] or kind == "same":
                        pass
                    glined = glined and kind == "same"
                cur = new
                cfgpos.append((npos, cur))
                npos += 1
        elif a == "Inject":
            f.add(("inject", e["body"], "same" if e["rev"] == e["prerev"] else "zero" if e["rev"] == 0 else "plus"))
            if e["res"] == "ok":
                cur = proj[e["body"]]
                cfgpos.append((npos, cur))
                glined = False
                pending.clear()
            npos += 1
        elif a in ("Create", "Delete", "Msg"):
            if a == "Msg":
                f.add(("via", e["cmd"], e["via"], e["res"]))
                if e["cmd"] == "gline" and e["res"] == "ok":
                    glined = True
                    f.add(("shape", "gline", "after-%d-posts" % min(nposts, 2)))
                    if nposts >= 2:
                        pending[("post-then-gline", "")] = npos
                if e["res"] == "banned":
                    f.add(("banned-by", "gline" if glined else "list", e["cmd"]))
            npos += 1
        elif a == "Battery":
            for key in pending:
                f.add(("shape",) + key + ("battery-on-live",))
            npos += 1
        elif a == "Snapshot":
            f.add(("snapshot", e["mode"], e["via"]))
            snapped = True
            if e["mode"] == "allButLast":
                folded_upto = npos - 1
                inside = [c for p_, c in cfgpos if p_ < folded_upto]
                if inside and inside[-1]["exp"] != cur["exp"]:
                    f.add(("shape", "fold-older-config-with-other-expiration"))
                if cfgpos[-1][0] < folded_upto:
                    f.add(("shape", "fold-config-in-force"))
        elif a == "Restart":
            restarted = True
            f.add(("restart", e["observe"]))
            if cfgpos[-1][0] < folded_upto:
                c = cfgpos[-1][1]
                f.add(("shape", "restart-from-folded-config", e["observe"]))
                if c["origins"]:
                    f.add(("shape", "restart-folded-origins", e["observe"]))
                if c["capUrl"] and not c["capKey"]:
                    f.add(("shape", "restart-folded-captcha-url-without-secret", e["observe"]))
                if c["exp"] not in (0, 10):
                    f.add(("shape", "restart-folded-expiration", e["observe"]))
            for key, pos in pending.items():
                if pos < folded_upto and e["observe"]:
                    f.add(("shape",) + key + ("replicas-after-fold",))
    return f


def greedy(feats, idxs, covered, want, budget):
    """lazy greedy cover of the features selected by `want`."""
    import heapq
    chosen = []
    heap = [(-len([x for x in feats[i] if want(x)]), i) for i in idxs]
    heapq.heapify(heap)
    while heap and len(chosen) < budget:
        g, i = heapq.heappop(heap)
        gain = len([x for x in feats[i] if want(x) and x not in covered])
        if gain == 0:
            continue
        if heap and -heap[0][0] > gain:
            heapq.heappush(heap, (-gain, i))
            continue
        chosen.append(i)
        covered |= feats[i]
    return chosen


def select(behs, n, rnd):
    """1. every ("shape", ...) feature on offer, 2. greedy cover of all features,
    3. seeded fill (a third prefers behaviours with a successful GLINE / a shape)."""
    feats = [features(b) for b in behs]
    covered = set()
    allidx = list(range(len(behs)))
    must = greedy(feats, allidx, covered, lambda x: x[0] == "shape", n)
    taken = set(must)
    chosen = must + greedy(feats, [i for i in allidx if i not in taken], covered, lambda x: True, n - len(must))
    taken = set(chosen)
    rest = [i for i in allidx if i not in taken]
    rnd.shuffle(rest)

    def rare(i):
        return any(x[0] == "shape" for x in feats[i]) + 2 * any(x[:3] == ("Msg", "gline", "ok") for x in feats[i])
    room = max(0, n - len(chosen))
    pref = [i for i in sorted(rest, key=lambda i: -rare(i))[:room // 3] if rare(i) > 0]
    chosen += pref
    ps = set(pref)
    chosen += [i for i in rest if i not in ps][:max(0, n - len(chosen))]
    offered = set().union(*feats) if feats else set()
    missing = sorted(str(x) for x in offered if x[0] == "shape" and x not in covered)
    return [behs[i] for i in chosen], covered, len(must), missing


SIMS_QUICK = [("Config_sim.cfg", 60, 18), ("Config_sim_traffic.cfg", 60, 18), ("Config_sim_snap.cfg", 80, 14)]
SIMS_THOROUGH = [("Config_sim.cfg", 1200, 18), ("Config_sim_traffic.cfg", 1200, 18), ("Config_sim_snap.cfg", 1200, 14)]
# exhaustive enumeration of the behaviours of a fixed shape (Spec* of Config.tla)
SCENARIOS = ["Config_scen_gline_post.cfg", "Config_scen_post_gline.cfg", "Config_scen_replace.cfg"]
# shapes the scenarios exist for: their absence means the generators are broken
REQUIRED_SHAPES = [("shape", "gline-then-post", k, st) for k in ("absent", "empty", "listed", "same") for st in ("battery-on-live", "replicas-after-fold")] \
    + [("shape", "post-then-gline", "", st) for st in ("battery-on-live", "replicas-after-fold")] \
    + [("shape", "post-removes", k, st) for k in REPLACED for st in ("battery-on-live", "replicas-after-fold")]


def generate(ctx):
    """behaviours printed by the simulator runs and by the scenario enumerations."""
    sims = SIMS_QUICK if ctx.quick else SIMS_THOROUGH
    jobs = [("sim", k, x) for k, x in enumerate(sims)] + [("scen", k, x) for k, x in enumerate(SCENARIOS)]

    def one(job):
        kind, k, x = job
        if kind == "sim":
            cfg, num, depth = x
            return ctx.tlc("Config", cfg=cfg, workers=2, simulate="num=%d" % num, depth=depth, deadlock=False,
                           timeout=240 if ctx.quick else 900, seed=ctx.seed * 7 + k, name="tlc-sim-%d" % k, heap="2g")
        return ctx.tlc("Config", cfg=x, workers=2, timeout=300, name="tlc-scen-%d" % k, heap="2g", deadlock=False)

    with concurrent.futures.ThreadPoolExecutor(max_workers=len(jobs)) as ex:
        results = list(ex.map(one, jobs))
    behs, seen = [], set()
    for (kind, k, x), r in zip(jobs, results):
        ctx.add("tlc_runs")
        name = x if kind == "scen" else x[0]
        if not r.ok:
            raise vlib.Inconclusive("TLC run %s failed: violated=%s\n%s" % (name, r.invariant_violated, r.out[-2500:]))
        if kind == "scen":
            ctx.add("states", r.distinct)
            ctx.add("transitions", r.generated)
        else:
            m = re.search(r"The number of states generated: (\d+)", r.out)
            if m:
                ctx.add("transitions", int(m.group(1)))
        got = rig_common.behaviours(r.out)
        if not got:
            raise vlib.Inconclusive("TLC run %s printed no behaviours" % name)
        for b in got:
            key = json.dumps(b, sort_keys=True)
            if key not in seen:
                seen.add(key)
                behs.append(b)
    behs.sort(key=lambda b: json.dumps(b, sort_keys=True))
    return behs


# ----------------------------------------------------------------------- run
USERS = ("u1", "u2", "u3")


def replay_and_judge(ctx, binary, named_behs, par):
    progs = [compile_behaviour(name, beh) for name, beh in named_behs]
    res, rc, out = run_rig(ctx, binary, progs, par)
    verd = Verdicts()
    stats = {}
    events = []
    replays = {}
    truncated = []
    for (name, beh), prog in zip(named_behs, progs):
        evs, trunc = observe(prog, beh, res[name], USERS)
        if trunc:
            truncated.append("%s: %s" % (name, trunc))
        events.extend(evs)
        replays[name] = {"program": prog, "behaviour": beh}
    judge(events, verd, stats)
    return events, verd, stats, replays, truncated, (rc, out)


def run(ctx):
    rnd = random.Random(ctx.seed)
    binary = rig_common.build(ctx, with_files=RIG_FILES)
    ctx.log("rig built")

    if getattr(ctx, "replay", None):
        with open(ctx.replay) as fh:
            rep = json.load(fh)["replay"]
        events, verd, stats, replays, truncated, _ = replay_and_judge(ctx, binary, [(rep["program"]["name"], rep["behaviour"])], 1)
        verd.flush(ctx, replays)
        ctx.cov["traces_validated_against_impl"] = 1
        ctx.cov["events_validated"] = stats.get("events", 0)
        return

    # ---- design spec: exhaustive small configuration (+ coverage in the thorough tier)
    r = ctx.tlc_must_pass("Config", cfg="Config_small.cfg" if ctx.quick else "Config_mid.cfg", workers=4,
                          timeout=300 if ctx.quick else 900, coverage=not ctx.quick, name="tlc-exhaustive", heap="6g")
    ctx.add("states", r.distinct)
    ctx.add("transitions", r.generated)
    ctx.add("tlc_runs")
    ctx.cov["exhaustive_tlc"] = {"cfg": "Config_small.cfg" if ctx.quick else "Config_mid.cfg", "distinct": r.distinct, "generated": r.generated, "depth": r.depth}
    if not ctx.quick:
        ctx.cov["coverage_zero"] = [z for z in r.coverage_zero() if "Config.tla" in z or "module Config" in z][:20]
    check_table(ctx, r.workdir)
    ctx.log("TLC exhaustive: %d distinct states" % r.distinct)
    if not ctx.quick:
        rf = ctx.tlc("Config", cfg="Config_f5.cfg", workers=2, timeout=300, name="tlc-f5")
        ctx.add("tlc_runs")
        ctx.cov["model_exhibits_f5_candidate"] = rf.invariant_violated == "ReplicasSameOrigins"

    # ---- behaviours
    behs = generate(ctx)
    nprog = 140 if ctx.quick else 1200
    chosen, covered, nmust, missing = select(behs, nprog, rnd)
    absent = [str(x) for x in REQUIRED_SHAPES if x not in covered]
    if absent or missing:
        raise vlib.Inconclusive("behaviour generation does not offer / the selection does not cover the required shapes: %s %s" % (absent[:6], missing[:6]))
    ctx.cov["behaviours_generated"] = len(behs)
    ctx.cov["behaviours_replayed"] = len(chosen)
    ctx.cov["behaviours_chosen_for_required_shapes"] = nmust
    ctx.cov["features_covered"] = len(covered)
    ctx.cov["shapes_covered"] = sorted(str(f[1:]) for f in covered if f[0] == "shape")
    ctx.log("TLC: %d behaviours, %d chosen (%d for the %d required shapes; %d features)" % (
        len(behs), len(chosen), nmust, len([x for x in covered if x[0] == "shape"]), len(covered)))
    named = [("b%03d" % k, b) for k, b in enumerate(chosen)]

    # ---- model -> code
    events, verd, stats, replays, truncated, (rc, out) = replay_and_judge(ctx, binary, named, 8 if ctx.quick else 10)
    ctx.log("rig done: %s" % stats)
    nviol = verd.flush(ctx, replays)
    ctx.cov.update({"traces_validated_against_impl": len(named), "events_validated": stats.get("events", 0),
                    "posts": stats.get("posts", 0), "posts_accepted": stats.get("posts_accepted", 0),
                    "posts_rejected": stats.get("posts_rejected", 0), "restarts": stats.get("restarts", 0),
                    "replica_observations": stats.get("replicas", 0), "glines_ok": stats.get("glines", 0),
                    "client_messages": stats.get("msgs", 0), "programs_truncated": len(truncated)})
    ctx.sample({"behaviour": chosen[0]})
    ctx.sample({"event": slim(next(e for e in events if e.get("ev") == "Step"))})
    if truncated:
        ctx.note("programs that left the model's path: %s" % truncated[:5])
    if rc != 0 and not nviol and not ctx.known_hits:
        raise vlib.Inconclusive("rig run failed (rc=%d):\n%s" % (rc, out[-3000:]))

    # ---- code -> model
    rt = validate(ctx, events, "tlc-trace")
    acc = rig_common.trace_accepted(rt.out)
    dump = os.environ.get("VERIF_C16_DUMP")
    if dump:
        os.makedirs(dump, exist_ok=True)
        vlib.write_ndjson(os.path.join(dump, "events.ndjson"), events)
        with open(os.path.join(dump, "tlc-trace.out"), "w") as fh:
            fh.write(rt.out)
        with open(os.path.join(dump, "behaviours.json"), "w") as fh:
            json.dump(named, fh)
    if rt.invariant_violated:
        # (the known finding F5 is exempted inside ConfigTrace by KnownF5, so a TLC
        # verdict is never explained by it)
        if not nviol:
            ctx.violation("trace-invariant-" + rt.invariant_violated,
                          "TLC: %s is false on the recorded observations" % rt.invariant_violated, {"tlc_tail": rt.out[-3000:]})
        else:
            ctx.note("TLC confirms: %s false on the recorded observations" % rt.invariant_violated)
    elif not rt.ok or acc is None:
        raise vlib.Inconclusive("trace validation did not finish:\n" + rt.out[-3000:])
    else:
        ctx.add("states", rt.distinct)
        ctx.add("transitions", rt.generated)
        if nviol:
            ctx.note("python predicates failed but TLC accepted the trace")
    if acc is not None:
        report_drift(ctx, rt.out, events, acc)
    if truncated and not nviol and not ctx.known_hits and not ctx.drifts:
        raise vlib.Inconclusive("programs left the model's path without any predicate failing: %s" % truncated[:3])

    # binding self-test on programs no predicate complained about
    groups, order = {}, []
    for e in events:
        if e.get("ev") == "Step":
            if e["p"] not in groups:
                groups[e["p"]] = []
                order.append(e["p"])
            groups[e["p"]].append(e)
    ok_names = [p for p in order if p not in verd.programs]
    want = {
        "reps": lambda es: any(e["a"] == "Restart" and e["reps"] for e in es),
        "rejected": lambda es: any(e["a"] == "PostConfig" and e["res"] != "ok" for e in es),
        "accepted": lambda es: any(e["a"] == "PostConfig" and e["res"] == "ok" and e["body"] != "R" and e["post"]["cfg"] != e["pre"]["cfg"]
                                   and k + 1 < len(es) and es[k + 1]["a"] not in ("PostConfig", "Inject") for k, e in enumerate(es)),
    }
    names = ok_names[:30]
    for need in want.values():
        if not any(need(groups[p]) for p in names):
            names += [p for p in ok_names if need(groups[p])][:1]
    clean = []
    for p in names:
        clean.append({"ev": "Reset"})
        clean.extend(groups[p])
    selftest(ctx, clean)
    ctx.assumptions += [
        "single voter: the not-leader / proxy-to-leader branches of handlePostConfig are not exercised; posts are issued one after another",
        "replicas are observer processes fed the copied raft log (FSM.Apply) or the newest snapshot (FSM.Restore) of the live node, not raft followers",
        "the abstract projection distinguishes the bodies of the table in Config.tla (cross-checked against the TOML texts with tomllib)",
        "bodies/headers are the variants of the table; no TOML fuzzing",
    ]


# ------------------------------------------------------------------ selftest
def selftest(ctx, events):
    out = {}

    def both(name, evs, want_inv, want_sig):
        v = Verdicts()
        judge(evs, v, {})
        r = validate(ctx, evs, "tlc-selftest-" + name)
        out[name] = (r.invariant_violated == want_inv) and any(s.startswith(want_sig) for s in v.classes)
        if not out[name]:
            ctx.note("selftest %s: TLC said %s, python %s" % (name, r.invariant_violated, sorted(v.classes)))

    def clone():
        return json.loads(json.dumps(events))

    # (a) an accepted post recorded with a revision step of 2
    t = clone()
    for e in t:
        if e.get("a") == "PostConfig" and e["res"] == "ok":
            e["post"]["rev"] += 1
            both("accepted_step_2", t, "T_ConfigRevisionStep", "accepted-post-revision-step")
            break
    # (b) a rejected post recorded with a changed limit
    t = clone()
    for e in t:
        if e.get("a") == "PostConfig" and e["res"] != "ok":
            e["post"]["cfg"]["maxC"] += 5
            both("rejected_changed", t, "T_RejectedChangesNothing", "rejected-post-changed-state")
            break
    # (c) a replica recorded without a ban the node has (or, if no recorded replica
    #     carries a ban, with another revision)
    t = clone()
    reps = [(e, rep) for e in t for rep in (e.get("reps") or []) if e.get("a") == "Restart"]
    withban = [x for x in reps if x[1]["cfg"]["banned"]]
    if withban:
        withban[0][1]["cfg"]["banned"] = []
        withban[0][1]["mbanned"] = []
        both("replica_lost_ban", t, "T_ReplicasSameConfig", "replica-config-differs")
    elif reps:
        reps[0][1]["rev"] += 1
        both("replica_lost_ban", t, "T_ReplicasSameConfig", "replica-revision-differs")
    # (d) an accepted post dropped from the trace: the model must notice (drift or invariant)
    t = clone()
    for n, e in enumerate(t):
        if e.get("a") == "PostConfig" and e["res"] == "ok" and e["body"] != "R" and e["post"]["cfg"] != e["pre"]["cfg"] \
                and n + 1 < len(t) and t[n + 1].get("ev") == "Step" and t[n + 1]["a"] not in ("PostConfig", "Inject"):
            del t[n]
            r = validate(ctx, t, "tlc-selftest-drop")
            acc = rig_common.trace_accepted(r.out)
            out["dropped_event_detected"] = bool(r.invariant_violated) or bool(acc and acc[1] > 0)
            if not out["dropped_event_detected"]:
                ctx.note("selftest drop: removed %s; TLC tail: %s" % (json.dumps(slim(e), sort_keys=True)[:600], r.out[-600:]))
                if os.environ.get("VERIF_C16_DUMP"):
                    with open(os.path.join(os.environ["VERIF_C16_DUMP"], "selftest-drop.out"), "w") as fh:
                        fh.write(json.dumps(slim(e)) + "\n" + r.out)
            break
    ctx.cov["binding_selftest"] = out
    if len(out) < 4 or not all(out.values()):
        if ctx.violations:
            ctx.note("binding self-test incomplete on a tree with violations: %s" % out)
            return
        raise vlib.Inconclusive("binding self-test failed: %s" % out)
    if getattr(ctx, "selftest", False):
        ctx.log("selftest: %s" % out)
