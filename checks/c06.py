"""C06 — decided by the shared IRC-layer engine (checks/irc_common.py) on the bare state machine and by the
HTTP-level stage (checks/irc_http.py) on a complete single-node network: every entry goes through the real FSM.Apply of a complete node; a panic there ends the run and is reported."""
from checks import irc_http

LEVEL = "model_checking"


def run(ctx):
    irc_http.run_check(ctx, "C06")
